#!/bin/bash
# run every registered quick (or thorough) check on the current tree, 4 at a time; prints the summary lines
cd "$(dirname "$0")"
tier=${1:-quick}
ids=$(/venv/bin/python -c "import json; print(' '.join(c['property_id'] for c in json.load(open('MANIFEST.json'))['checks']))")
mkdir -p /tmp/verif_runall
printf '%s\n' $ids | xargs -P 4 -I{} sh -c "./check {} --tier $tier > /tmp/verif_runall/{}.log 2>&1; echo {} rc=\$? \$(tail -1 /tmp/verif_runall/{}.log | cut -c1-200)"
grep -l "VIOLATION" /tmp/verif_runall/*.log 2>/dev/null
