#!/bin/bash
# Build the Lean model, proofs and property theorems from the files on disk (offline).
set -e
cd "$(dirname "$0")/lean"
mods="FormakVerif"
for f in FormakVerif/Properties/*.lean; do
  m=$(basename "$f" .lean); mods="$mods FormakVerif.Properties.$m"
done
lake build $mods
