"""Shared pieces for C10/C11/C12: recording stand-in filter (Python), recording Impl binary (C++)."""
from __future__ import annotations

import os
import struct
import subprocess
from fractions import Fraction
from types import SimpleNamespace

import core

MAXDTS = [0.1, 0.05, 0.013, 1.0, 0.001, 0.25, 10.0, 250.0]
COMBOS = {0: "control+calibration", 1: "control only", 2: "calibration only", 3: "neither"}
NCOMBO = 4


def fbits(x: float) -> str:
    return str(struct.unpack("<Q", struct.pack("<d", float(x)))[0])


def bitsf(s) -> float:
    return struct.unpack("<d", struct.pack("<Q", int(s)))[0]


def ulp(x: float) -> float:
    import math
    return math.ulp(x)


class RecEkf:
    """Recording stand-in for the filter driven by formak.runtime.ManagedFilter: the state is the call log."""

    def __init__(self, max_dt, control_size):
        self.config = SimpleNamespace(max_dt_sec=max_dt)
        self.control_size = control_size

    # the state is a persistent (immutable) cons list of calls: O(1) per call, snapshots stay valid
    def process_model(self, dt, state, covariance, control=None):
        tag = f"p {fbits(dt)}" if control in (None, "u") else f"p {fbits(dt)} c{control}"
        return ((state, tag), covariance)

    def sensor_model(self, state, covariance, *, sensor_key, sensor_reading):
        if isinstance(sensor_key, int) and sensor_key >= 100:
            # a reading this stand-in filter REJECTS: like the real filter's innovation filtering, it hands back the very objects
            # it was given
            return (state, covariance)
        return ((state, f"s {sensor_key}"), covariance)

    def make_reading(self, key, **kwargs):
        return ("reading", key)


def flatten(state):
    out = []
    while state:
        state, call = state
        out.append(call)
    return out[::-1]


def py_history(max_dt, t0, history, has_control=True):
    """history: list of {out, readings:[(ts,id)], control: bool}. Returns per-tick returned logs + held state."""
    from formak import runtime
    mf = runtime.ManagedFilter(RecEkf(max_dt, 1 if has_control else 0), t0, (), None)
    outs = []
    delivered = {}      # a reading delivered again is the SAME object (a driver that retries, or overlapping batches)
    for t in history:
        rs = [delivered.setdefault((ts, i), runtime.StampedReading(ts, i)) for ts, i in t["readings"]]
        kw = {}
        if t.get("control", True):
            kw["control"] = t.get("control_id", "u")
        try:
            r = mf.tick(t["out"], readings=rs if (rs or t.get("with_list")) else None, **kw)
            outs.append(flatten(r.state))
        except TypeError:
            outs.append("missing-control")
    return {"outs": outs, "held_time": fbits(mf.current_time), "held": flatten(mf.state)}


def build_cpp(ctx, maxdt_exprs=None, pre_includes=(), include_dirs=(), exe_name="managed_trace") -> str | None:
    """maxdt_exprs: C++ constant expressions to use instead of the literals of MAXDTS (e.g. the `Tag::max_dt_sec` of generated
    filters whose headers are given in pre_includes, found through include_dirs)"""
    exe = os.path.join(ctx.scratch, exe_name)
    src = os.path.join(core.VERIF, "harness", "cpp", "managed_trace.cpp")
    extra = [f"-I{d}" for d in include_dirs]
    for h in pre_includes:
        extra += ["-include", h]
    r = subprocess.run(
        ["g++", "-std=c++20", "-O0", "-ffp-contract=off", f"-I{core.REPO}/cpp/runtime/include"] + extra +
        ["-DMAXDT_LIST=" + ",".join(maxdt_exprs if maxdt_exprs is not None else [repr(m) for m in MAXDTS]), src, "-o", exe],
        capture_output=True, text=True, timeout=600)
    if r.returncode != 0:
        ctx.extra["cpp_build_error"] = r.stderr[-3000:]
        return None
    return exe


def cpp_run(exe, jobs):
    """jobs: list of (cfg, t0, history). Returns list of per-tick logs."""
    lines = []
    for cfg, t0, history in jobs:
        lines.append(f"new {cfg} {fbits(t0)}")
        for t in history:
            rs = " ".join(f"{fbits(ts)} {i}" for ts, i in t["readings"])
            wl = 1 if (t["readings"] or t.get("with_list")) else 0
            lines.append(f"tick {fbits(t['out'])} {wl} {t.get('control_id', 0) if isinstance(t.get('control_id', 0), int) else 0} {len(t['readings'])} {rs}".rstrip())
    try:
        r = subprocess.run([exe], input="\n".join(lines) + "\n", capture_output=True, text=True, timeout=120)
    except subprocess.TimeoutExpired:
        raise core.ImplementationHangs(
            "the C++ ManagedFilter (real ManagedFilter.h around the recording filter) did not finish these histories within 120 s; the "
            "unchanged runtime takes milliseconds", {"histories": [{"cfg": c, "t0": t0, "ticks": h} for c, t0, h in jobs[:6]], "n_histories": len(jobs)})
    if r.returncode != 0:
        raise RuntimeError("managed_trace failed: " + r.stderr[-500:])
    out = r.stdout.split("\n")
    k = 0
    res = []
    for cfg, t0, history in jobs:
        assert out[k] == "ok"
        k += 1
        outs = []
        for _ in history:
            outs.append([c for c in out[k].split("|") if c])
            k += 1
        res.append(outs)
    return res


def segments_of(log, prev_len=0):
    """split a call log into runs of prediction steps separated by sensor calls"""
    segs, cur = [], []
    for c in log:
        if c.startswith("p "):
            cur.append(bitsf(c[2:]))
        else:
            segs.append(cur)
            cur = []
    segs.append(cur)
    return segs


def plan_oracle(max_dt, cur, out, dts):
    """the four clauses of C10 on a recorded list of dt (binary64 values, exact rational arithmetic).
    Returns None if they hold, else a description."""
    F = Fraction
    slack = F(1, 10**9) + 4 * F(ulp(max(abs(cur), abs(out), 1.0)))
    if cur == out:
        return None if not dts else f"{len(dts)} step(s) taken although the two times coincide"
    d = F(out) - F(cur)
    for s in dts:
        if (d > 0 and not s > 0) or (d < 0 and not s < 0):
            return f"step {s!r} points against the direction of travel ({cur!r} -> {out!r})"
        if abs(F(s)) > F(max_dt) + slack:
            return f"step {s!r} longer than the configured maximum {max_dt!r}"
    tot = sum((F(s) for s in dts), F(0))
    if abs(tot - d) > slack:
        return f"steps sum to {float(tot)!r}, time difference is {float(d)!r}"
    return None
