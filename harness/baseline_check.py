"""Compare a junit xml of the repo's suite with the pinned baseline's stable_pass list."""
import json, sys
import xml.etree.ElementTree as ET
base = json.load(open("/root/.vp/BASELINE.json"))["stable_pass"]
root = ET.parse(sys.argv[1]).getroot()
status = {}
for tc in root.iter("testcase"):
    name = f"{tc.get('classname')}::{tc.get('name')}"
    bad = any(ch.tag in ("failure", "error", "skipped") for ch in tc)
    status[name] = not bad
missing = [b for b in base if not status.get(b)]
print(f"baseline {len(base)} passing_now {sum(status.values())} baseline_not_passing {len(missing)}")
for m in missing:
    print("  NOT PASSING:", m)
sys.exit(1 if missing else 0)
