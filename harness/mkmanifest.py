"""Regenerates /verif/MANIFEST.json from the table below (run by hand after adding a check)."""
import json, os
V = os.path.dirname(os.path.dirname(os.path.abspath(__file__)))
ALL = [f"C{i:02d}" for i in range(1, 20)]
CLAIMED = {
 "C01": dict(
  text="Lean 4 theorems (FormakVerif.C01: model_by_name, cse_irrelevant, decl_order, plain_computes, positional_env_is_by_name) prove, for every "
       "definition, input and compiled block that computes the definition's statements, that the positional pipeline of formak.python.Model "
       "(sort names, bind slots, call positionally, zip results back) returns under each state name the value of that name's update expression "
       "in the by-name environment, independent of CSE and declaration order. Tie: hand-written model run side by side with python.compile(...).model "
       "on seeded definitions (exact rationals / Lean Float) plus a translator that rebuilds every post-CSE block from the lambdify seam and checks "
       "it (WellScoped + exact agreement with the definition's expressions at rational points) in Lean.",
  note="Trusted: Lean kernel + propext/Classical.choice/Quot.sound; Lean interpreter for the driver; Python harness/translator; sympy printers and "
       "binary64 rounding are outside the model (1e-9 relative tolerance). `Computes` for CSE blocks is validated per instance, not proven symbolically.",
  technique="Lean 4 proof (refinement to by-name spec) + translator from lambdify seam + differential correspondence",
  design="5 C01"),
 "C10": dict(
  text="Lean 4 theorems (FormakVerif.C10: equal_no_step, direction, bounded, sum_close, segment_ok, py_eq_cpp, plan_ok, history_steps_ok) prove for every current time, target "
       "time and max step > 0, over exact rational arithmetic, that the step plan both runtimes implement takes no step when the times coincide, "
       "that every step points in the direction of travel, none exceeds the maximum and the steps sum to the difference within 1e-9; history_steps_ok lifts boundedness and non-zero length to every prediction call of ANY history of ticks (induction over the history). Tie: the same "
       "generic `plan` definition instantiated with native binary64 is compared bit-for-bit with runtime.py (recording stand-in filter) and with "
       "ManagedFilter.h compiled from the working tree with a recording Impl (4 control/calibration combinations, 8 max_dt values from 1 ms to 250 s); the "
       "max_dt constant of a generated header is probed too.",
  note="Trusted: Lean kernel + standard axioms; Lean native Float = IEEE binary64 (same hardware ops as CPython/g++ -ffp-contract=off); harness. "
       "The float versions of the four clauses are evaluated per run (tests) with slack 1e-9 + 4 ulp; they are not theorems.",
  technique="Lean 4 proof (floor/remainder algebra over Q) + bit-exact differential correspondence of the generic plan",
  design="5 C10"),
 "C11": dict(
  text="Lean 4 theorems (FormakVerif.C11: py_refines, cpp_refines, same_trace, readonly, insert_readonly, control_required, runHistory_append) prove, "
       "for every history of ticks and any abstract filter, that explicit-mutation models of the Python and the C++ tick both equal the property's fold "
       "(propagate to each reading's timestamp in the order given, update, hold; report at the output time without holding), hence agree with each "
       "other, that inserting a reading-less tick anywhere changes no other tick's result, and that a control model cannot be ticked without control. "
       "Tie: call traces of both real runtimes on seeded multi-tick histories with unsorted timestamps vs the Lean models executed with the "
       "recording filter, plus a by-hand replay oracle and a negative compile test for the C++ control clause.",
  note="Trusted: Lean kernel + standard axioms; harness; g++ overload resolution/static_assert for the C++ control clause; the step plan inside a "
       "tick is the one verified under C10.",
  technique="Lean 4 proof (refinement of both runtimes to one fold; induction over histories) + trace correspondence",
  design="5 C11"),
 "C03": dict(
  text="Lean 4 theorems (FormakVerif.C03: unflatten_entry, jacobianFlat_get, entry_is_partial, entry_is_true_partial, model_diff_correct, sensor_by_name, "
       "stride_by_readings_is_wrong) prove for every "
       "number of outputs, columns and stride that a Jacobian program flattened row-major over w columns and un-flattened with stride w holds at (i,j) "
       "the value of the model's symbolic derivative d out_i / d wrt_j - which is the analytic partial derivative (Mathlib HasDerivAt, for + - * / integer "
       "powers, sin cos tan exp log sqrt sinh cosh atan asin acos inside their domains) - in particular for the rectangular sensor Jacobian over states+calibration. "
       "Tie: process/control/sensor Jacobians of compiled filters at dyadic points vs the Lean model (own Expr.diff; exact rationals, or Lean binary64 "
       "for transcendental definitions) and vs an independent oracle (sympy diff by name).",
  note="Trusted: Lean kernel + standard axioms (Mathlib analysis); harness; binary64 rounding (1e-9; 1e-6 on the transcendental stream); libm.",
  technique="Lean 4 proof (index arithmetic of flatten/un-flatten) + differential correspondence with rectangular shapes forced",
  design="5 C03"),
 "C04": dict(
  text="Lean 4 theorems (FormakVerif.C04: predict_formula, symm_psd, noise_assembly, noise_psd) prove that the model's prediction covariance is "
       "G P G^T + V M V^T as Mathlib matrices, that it is PSD for any Jacobians whenever P and M are, and that M is the diagonal matrix of the noise "
       "supplied by control name. Tie: process_model on seeded definitions (0-3 controls, calibration, distinct noises) vs the Lean model and an exact "
       "oracle; inputs snapshotted bitwise and the call repeated.",
  note="Trusted: Lean kernel + standard axioms (Mathlib matrix theory); harness; binary64 rounding (1e-9).",
  technique="Lean 4 proof (Mathlib PosSemidef algebra over Q) + differential correspondence + purity snapshots",
  design="5 C04"),
 "C05": dict(
  text="Lean 4 theorems (FormakVerif.C05: update_formula, fixed_point, posterior_valid, cert_is_inverse, Q_diag, sensorUpdate_some) prove for every "
       "number of readings and states that the model's update is x + K(z-h), P - K H P with S = H P H^T + Q, K = P H^T S^-1 (Mathlib inverse, via a "
       "checked right-inverse certificate), records z-h and S, leaves x unchanged when z = h(x), and that the posterior is symmetric, PSD and <= prior "
       "for PSD P and PD Q (Joseph form). Tie: sensor_model / recorded innovations / recorded S on seeded filters (1-3 readings) vs Lean model and "
       "exact oracle.",
  note="Trusted: Lean kernel + standard axioms; harness; numpy.linalg.inv outside the model; binary64 rounding (1e-9).",
  technique="Lean 4 proof (Joseph form, Mathlib PosDef) + differential correspondence",
  design="5 C05"),
 "C06": dict(
  text="Lean 4 theorems (FormakVerif.C06: sqrt_free, discard_iff, disabled_never, discard_identity, decision, nis_nonneg, same_decision, zero_never_discarded, exact_reading_is_used, discard_mono_nis, discard_antitone_threshold, at_most_dof_never) prove that the "
       "model's square-root-free rational test is exactly NIS > k*sqrt(2m)+m over the reals for every k >= 0 and m, that disabled never discards, "
       "that a discard returns state and covariance unchanged with the innovation recorded, that a reading exactly equal to the prediction is used (never discarded, covariance still updated), and that the Python, C++-helper and generated-C++ "
       "decision shapes coincide. Tie: remove_innovation, removeInnovation<m> (compiled from the working tree against the Eigen stand-in) and "
       "sensor_model at and around the binary64 boundary (+-2 ulp) and on random SPD inputs vs the exact model and its binary64 instance.",
  note="Trusted: Lean kernel + standard axioms (Mathlib Real.sqrt); harness; Eigen stand-in; decisions strictly inside the rounding band are "
       "compared between implementations and with the binary64 instance, not with the real-number statement.",
  technique="Lean 4 proof (sqrt elimination over R) + boundary-value differential correspondence of three implementations",
  design="5 C06"),
 "C09": dict(
  text="Lean 4 theorem FormakVerif.C09.invariant proves by induction over any finite history of predictions (arbitrary, in particular singular, "
       "Jacobians; PSD process noise) and updates (PD reading noise; accepted or rejected) that a PSD start covariance stays symmetric PSD in exact "
       "arithmetic; joseph_eq_updCov / joseph_valid_for_any_gain prove that the Joseph-form update the filters compute equals P - K H P when the "
       "inverse is exact and is symmetric PSD for ANY inverse candidate; invariantJ lifts that to any history as the filters run it (no inverse certificate, reading noise merely PSD) and covRunJ_eq_covRun / sensorUpdateJ_eq show the code-shaped functions the driver runs equal the specification-shaped ones on certified inputs. Tie: exact one-step correspondence with process_model, then binary64 "
       "histories on the implementation (mass/z/v/a, generated singular-Jacobian and regular bounded models, scaled problems, slowly drifting "
       "steps with a very precise sensor, a sensor with more readings than states from singular and much larger priors; generated C++): no "
       "refusal of a valid covariance, min eigenvalue and asymmetry within 1e-9 relative to the covariance's own magnitude.",
  note="Trusted: Lean kernel + standard axioms; harness. PSD-ness after binary64 rounding is measured, not proven (partial).",
  technique="Lean 4 proof (invariant by induction over histories) + long-run float histories on the implementation",
  design="5 C09"),
 "C02": dict(
  text="Lean 4 theorems (FormakVerif.C02: accessor_roundtrip, body_sound, jacobian_spec_entry, jacobian_spec_is_derivative) prove that accessors numbered by enumerate(layout) "
       "with a constructor filling slots in layout order make set-by-name = read-by-name for any declaration, that a well-scoped generated body is "
       "total and equals its inlined form, and that the specification each Jacobian body is checked against holds d out_i / d wrt_j at (i,j) - the analytic derivative (Mathlib HasDerivAt). Tie "
       "(translator): every function body of the header/source generated from the working tree is parsed back into a Program and checked by the "
       "Lean driver (WellScoped, complete row-major target grid, exact agreement with the definition / Lean's own derivative at rational points); "
       "(correspondence) every unit is compiled with g++ and evaluated with inputs set through named option fields and outputs read through named "
       "accessors against sympy by name, for all four control/calibration presences, 0-3 sensors, CSE on/off, Model and EKF generators, configuration given as object or dict, noise keyed by str or Symbol, symbols with assumptions, functions with more than ten temporaries, const accessors.",
  note="Trusted: Lean kernel + standard axioms; Lean interpreter for per-unit checks; cparse.py translator; g++ + Eigen stand-in instead of clang+Eigen; "
       "sympy ccode. Each rational-fragment block is decided for all points by the verified rational-function checker (FormakVerif.C08.symbolic_check_sound); "
       "blocks outside the fragment or the size guard fall back to exact agreement at 4 rational points (a randomised identity test); the evidence counts both.",
  technique="Lean 4 proof (layout/accessor round-trip, CSE soundness) + translator from generated C++ text + compiled differential correspondence",
  design="5 C02"),
 "C07": dict(
  text="Lean 4 theorems (FormakVerif.C07: predict_same, update_same, innovCov_same, gain_same, decision_same, decision_same_disabled, sensor_update_same, "
       "history_same) prove that the Python-shaped and the "
       "generated-C++-shaped prediction, update and accept/reject functions are the same function in exact arithmetic. Tie: the same definition "
       "compiled both ways (g++), driven through chains of prediction/update steps on identical binary64 inputs; state, covariance, stored "
       "innovation and decision compared by name, and on rational definitions both are also compared with the exact Lean model run on the same inputs.",
  note="Trusted: Lean kernel + standard axioms; harness; Eigen stand-in (Gauss-Jordan inverse) vs numpy/LAPACK, 1e-9 relative tolerance on "
       "well-conditioned chains (cond(P) <= 1e5).",
  technique="Lean 4 proof (associativity via Mathlib matrices) + Python-vs-compiled-C++ differential chains",
  design="5 C07"),
 "C08": dict(
  text="Lean 4 theorems (FormakVerif.C08: block_eq_inlined, result_eq_inlined, wellScoped_total, on_off, off_computes, symbolic_check_sound) prove for every basic block "
       "that temporaries assigned once, in order, from inputs and earlier temporaries make the block total and equal to its inlined body, and that "
       "two blocks computing the same statements (CSE on / off) agree on every input. Tie (translator): every post-CSE block the current tree "
       "produces - Python blocks recorded at the lambdify seam, C++ bodies parsed from the generated source - is checked in Lean (WellScoped + the "
       "verified rational-function equality checker, sound for all points; exact agreement at rational points otherwise) on a nested-share stream; numeric on/off comparison of all Python and compiled C++ outputs.",
  note="Trusted: Lean kernel + standard axioms; Lean interpreter; translators; sympy cse/simplify are parameters checked per instance.",
  technique="Lean 4 proof (substitution lemma for straight-line programs) + translators (lambdify seam, generated C++ text)",
  design="5 C08"),
 "C12": dict(
  text="Lean 4 theorems (FormakVerif.C12: arity over all four control x calibration combinations by decide; tick_eq_byhand from the C11 refinement; "
       "over the interface model EkfDef.iface / Managed.* of Model/Iface.lean - Tag aliases, declared parameter lists, SensorId members against "
       "ManagedFilter's compatible, if-constexpr call shapes, enable_if constructors and static_asserted tick overloads - generated_compatible, "
       "calls_match_declarations, one_constructor, tick_overloads, sensor_ids_count for EVERY definition and sensor count; the header text of every "
       "generated filter is read back and compared with the model's interface) "
       "plus an exhaustive tie over the finite configuration space {control} x {calibration} x sensors {0,1,3} x max_dt {default, other}: generate, "
       "compile with static_assert(ManagedFilter<...>::compatible), tick with/without readings and compare bit-for-bit with by-hand calls of the "
       "generated filter's functions along the Lean step plan.",
  note="Trusted: Lean kernel; g++ template instantiation / overload resolution; Eigen stand-in; the arity table is hand-extracted and validated by "
       "the compile step.",
  technique="Lean 4 proof (finite table by decide + refinement corollary) + exhaustive compile-and-run over configurations",
  design="5 C12"),
 "C13": dict(
  text="Lean 4 theorems (FormakVerif.C13: stores_by_name, rejects_unknown, accepts_known, shape, shape_nd, same_count_other_shape_refused, shape_nd_stores, cov_shape_nd, covariance_by_name, decl_order, rename_invariant) "
       "prove for every name list and keyword set that construction stores each value under its own name, refuses unknown names and wrong shapes, "
       "defaults the rest, and - via the by-name refinement of C01 - that every injective renaming of a model's symbols leaves each named output "
       "unchanged although the layout is permuted. Tie: constructor round-trips vs the Lean bind functions; metamorphic renamed / re-declared twins "
       "through the Python model and filter and through compiled generated C++ (named accessors).",
  note="Trusted: Lean kernel + standard axioms; harness; g++/stand-in for the C++ twins.",
  technique="Lean 4 proof (refinement to by-name spec; equivariance under injective renaming) + metamorphic correspondence",
  design="5 C13"),
 "C14": dict(
  text="Lean 4 theorems (FormakVerif.C14: ui_accepts_iff_valid, compile_accepts_iff_valid, ekf_accepts_iff_valid, refuses; without any well-formedness "
       "hypothesis: negative_noise_refused, sensor_noise_names_refused, noise_order_irrelevant, control_order_irrelevant - the written order of a table is not structural) prove, for every "
       "definition skeleton whose dictionaries/sets have no duplicate keys, that the sequence of checks each entry point performs accepts "
       "exactly the structurally valid definitions of the property (disjoint symbol sets, update keys = state, calibration keys = calibration "
       "symbols, Symbol-keyed non-negative process noise for exactly the controls, sensor models over state and calibration only, sensor noise "
       "matching sensors and readings). Tie: seeded valid definitions and every single fault kind K1-K19 (incl. tiny / relatively small negative noise, omitted calibration map, duplicate-named noise entries) (and pairs in thorough) through "
       "ui.Model, python.compile, python.compile_ekf, cpp.compile, cpp.compile_ekf vs the property and vs the Lean accepts-functions; refused "
       "C++ generations must leave no file.",
  note="Trusted: Lean kernel + standard axioms; harness fault injector; 'refused' = any exception. Known finding (listed): Symbol-keyed sensors "
       "with >=2 readings are refused.",
  technique="Lean 4 proof (decision logic: accepts <=> valid) + exhaustive single-fault injection correspondence",
  design="5 C14"),
 "C15": dict(
  text="Lean 4 theorems (FormakVerif.C15: skeleton_perm, layout_order_free, repeatable, lookup_perm, emitted_decl_order, emitSensor_decl_order) "
       "prove that everything whose order the generator decides - accessor slots, option fields / constructor order, Python arglist, update "
       "statements, flattened Jacobians, noise diagonals, sensor ids and per-sensor reading slots, statements and noises (the `emitted` artifact) - "
       "depends only on the sets of declared names and on what is given under each name. Tie: sub-processes under different PYTHONHASHSEED x "
       "permuted declarations x set/list containers; sha256 of header and source, Python arglist, reading order and the scikit-learn adapter's "
       "data-matrix layout compared; regeneration in-process and after a Python filter was built from the same model object; the skeleton read "
       "from the generated text compared with the Lean skeleton and every run's definition as declared in that run through the Lean `emitted` "
       "model vs the compiled Python filter.",
  note="Trusted: Lean kernel + standard axioms; harness. Hash-seed independence of sympy's printers/cse is observed on the sampled seeds, not proven.",
  technique="Lean 4 proof (permutation invariance of the sorted layout) + multi-process hash-seed / permutation differential",
  design="5 C15"),
 "C16": dict(
  text="Lean 4 theorems (FormakVerif.C16: split_flatten, flatten_split, sliceRow_spec, transformRows_append, transformRows_length, "
       "mahalanobis_flat, nis_nonneg, variance_term_min) prove that slicing a data row into controls and per-sensor readings is lossless and "
       "exact for any sizes, that the transform is a fold whose prefix results never depend on later rows, that the Mahalanobis output is the "
       "flattened transform, that every NIS is non-negative and that the variance term of the score is minimal at 1. Tie: transform vs the "
       "exported filter driven by hand vs the Lean model (exact rationals on a row prefix); mahalanobis, score(explain_score=True) formula, "
       "parameter identity before/after and repeated calls.",
  note="Trusted: Lean kernel + standard axioms; harness; numpy; the exact Lean model is run on the first 2 rows only (rational size grows tenfold "
       "per row), later rows are covered by the by-hand oracle.",
  technique="Lean 4 proof (list slicing round-trip, fold composition) + by-hand replay and exact-model correspondence",
  design="5 C16"),
 "C17": dict(
  text="Lean 4 theorems (FormakVerif.C17: get_set, set_config_field, set_param, unknown_refused, process_pos, sensor_pos, process_keys, "
       "sensor_keys, flatten_inverse_process, block_written_order) prove for every parameter record that get-then-set is the identity, that a Config field name "
       "changes exactly that field, that unknown names are refused, and that re-assembled noise maps name exactly the controls and sensors "
       "with strictly positive magnitudes and round-trip through flatten. Tie: get/set/clone/every Config field/unknown keys and the private "
       "flatten / inverse-flatten vs the Lean model; fit outcomes classified {returned, MinimizationFailure, other} with postconditions.",
  note="Trusted: Lean kernel + standard axioms; harness; scipy.optimize.minimize and sklearn.clone are parameters.",
  technique="Lean 4 proof (record algebra, clamp positivity, zip/lookup round-trip) + API correspondence and fit outcome classification",
  design="5 C17"),
 "C18": dict(
  text="Lean 4 theorems (FormakVerif.C18): search_sound / bfs_sound prove for every transition graph with distinct transition names, every fuel "
       "and every queue that a path returned by the breadth-first search, followed from the start state, ends in the requested state; "
       "history_linked / history_of_follow / search_history that the history recorded for ANY sequence of transition calls from any state of any graph only joins states by declared transitions, has one entry per successful call plus the start and ends in the state reached; "
       "search_is_shortest / unreachable_fails that no shorter path exists and that failure means unreachable (any finite graph); argmin_mem "
       "/ argmin_some prove that grid selection returns a member of the grid; min_samples the size gate. The transition graph of the current "
       "source is extracted from the live classes on every run (translator) and declared_transitions, search_table (shortest paths and failure "
       "exactly for unreachable targets, all 3x3 pairs), history_in_order are re-checked on it by the kernel. Tie: search for all pairs and "
       "non-StateId targets vs the Lean search, paths followed on real objects, fit_model on data sizes 0..4 and small grids with the "
       "GridSearchCV instance observed (selected = best_params_ = exported config, all within the grid).",
  note="Trusted: Lean kernel (decide on the 3-state table); harness graph extractor; scikit-learn GridSearchCV internals are outside the model; "
       "shortest-path/completeness are proven for arbitrary graphs and re-decided on the extracted graph.",
  technique="Lean 4 proof (BFS soundness by queue invariant; decide on the regenerated graph) + translator + object-level correspondence",
  design="5 C18"),
 "C19": dict(
  text="Lean 4 theorems (FormakVerif.C19: acceleration1-3, rate_roll/pitch/yaw, velocity1-3, position1-3, orientation_oriw..oriz, n2_product; "
       "Strapdown.rot_is_sandwich) prove for all real inputs with |ori (x) cori|^2 != 0 that the 16 update expressions of the current "
       "strapdown_imu.py - rewritten as Lean real functions by the translator on every run - equal the rigid-body kinematics specification "
       "(rotated bias-corrected specific force over |q|^2 plus gravity; gyro vector sandwiched by q; constant-acceleration integrals; "
       "orientation + 1/2 ori (x) (0,w) dt). Tie: the compiled Python model (CSE on/off) at seeded non-unit-quaternion rational points vs an "
       "independent exact implementation of the specification and vs the Lean by-name model.",
  note="Trusted: Lean kernel + standard axioms (Mathlib reals; field_simp/ring produce kernel-checked terms); the symbol-renaming table and "
       "expression printer of the translator; binary64 rounding (1e-9).",
  technique="Lean 4 proof regenerated from source (translator sympy -> Lean reals; field_simp + ring) + numeric correspondence",
  design="5 C19"),
}
REASONS_TODO = "check not built yet in this round (see DESIGN.md section 10 build order); no claim is made"

def main():
    checks = []
    for pid, c in CLAIMED.items():
        checks.append({
            "property_id": pid,
            "quick_cmd": f"./check {pid} --tier quick",
            "thorough_cmd": f"./check {pid} --tier thorough",
            "evidence_file": f"evidence/{pid}.json",
            "replay_cmd_template": f"./check {pid} --replay {{path}}",
            "engine": "lean4+harness",
            "level_claimed": {"category": "proof", "text": c["text"], "design_ref": c["design"]},
            "level_note": c["note"],
            "technique": c["technique"],
        })
    m = {
        "version": 1,
        "setup_cmd": "./setup.sh",
        "hooks": {
            "guard": "FORMAK_VERIF",
            "enable": "no source hooks are needed: observation is done from the harness (lambdify seam wrapper, recording stand-in filters, generated text)",
            "baseline_off_cmd": "cd /repo && /venv/bin/python -m pytest -ra -q -p no:cacheprovider --timeout=900 --continue-on-collection-errors",
            "source_commits": [],
            "add_only": True,
        },
        "engines": [{"name": "lean4+harness", "path": "lean/ + harness/", "serves_properties": sorted(CLAIMED),
                     "kind_free_text": "Lean 4 model + theorems (lake build, axiom audit), Python correspondence harness driving the real formak code and the Lean driver"}],
        "checks": checks,
        "not_applicable": [{"property_id": p, "reason": REASONS_TODO} for p in ALL if p not in CLAIMED],
        "notes": "fix: commits in /repo are listed in known_findings.json (status fixed). See DESIGN.md.",
    }
    json.dump(m, open(os.path.join(V, "MANIFEST.json"), "w"), indent=1)

if __name__ == "__main__":
    main()
