"""C14 — structurally invalid definitions are refused; valid ones are accepted."""
from __future__ import annotations

import contextlib
import copy
import io
import os
import shutil
import sys

import sympy
from sympy import Symbol

import core
import cppgen
import fk
import gen

RULE = ("seeded valid definitions (string-keyed readings; a separate Symbol-keyed stream) plus every single structural fault K1-K19 (quick: "
        "one random position per kind and definition; thorough: every position, and pairs) through ui.Model, python.compile, "
        "python.compile_ekf, cpp.compile, cpp.compile_ekf; accepted / refused compared with the property (valid <=> accepted) and with "
        "the Lean accepts-functions; for the C++ entry points a refusal must leave no header/source behind; distinct by (definition, fault, "
        "entry point); non-trivial = a fault is injected, or the definition has >=2 sensors; "
        "written-order stream (fixed inputs): two hand-written valid definitions with two and three controls, controls declared as a list "
        "(both orders) and as a set, the process-noise table written in EVERY order of its entries (V3: still valid, must be accepted by "
        "python.compile_ekf and cpp.compile_ekf), and for every written order an entry dropped / an entry for a state or an undeclared "
        "symbol inserted at every position (K10p, K11ap, K11bp: must be refused)")
NOTE = ["'refused' = any exception (the library uses ModelDefinitionError, ModelConstructionError, AssertionError, TypeError, KeyError)",
        "off-diagonal (tuple-keyed) process noise is outside both generators; negative process noise means clearly negative (<= -1/8)",
        "written-order stream: a definition is a set of declarations - the order in which the entries of the process-noise dict are written "
        "(relative to the order in which the controls were declared) is not a structural property, so every order of a valid table is valid"]
PARTIAL = ["extra_validation (nonlinsolve) is not exercised"]

KINDS_UI = ["K1", "K2", "K3", "K4", "K5", "K6"]
KINDS_CAL = ["K7", "K7b", "K8", "K9", "K9b"]
KINDS_EKF = ["K10", "K10z", "K10b", "K11a", "K11b", "K11c", "K12", "K12b", "K12c", "K13", "K13b", "K13c", "K14", "K15", "K16", "K17", "K17z", "K18", "K19",
             "V1", "V2"]       # V*: variants that are still structurally VALID (must be accepted)


class Spec:
    """everything the five entry points take, as plain data (Symbols by name)"""

    def __init__(self, d, process, sensor, cal, reading_syms=False):
        self.state = [s.name for s in d.state]
        self.control = [s.name for s in d.control]
        self.calibration = [s.name for s in d.calibration]
        self.update = {s.name: e for s, e in d.state_model.items()}
        self.calmap = {k: float(v) for k, v in cal.items()}
        self.noise = [("sym", k, float(v)) for k, v in process.items()]
        self.sensors = {k: dict(rd) for k, rd in d.sensors.items()}
        self.sensor_noise = {k: {r: float(v) for r, v in rd.items()} for k, rd in sensor.items()}
        self.reading_syms = reading_syms
        self.calmap_omitted = False
        self.calmap_assumed = None      # name of a calibration key given as Symbol(name, real=True) instead of the declared symbol
        self.noise_dups = []     # (sensor key, reading name, value): a SECOND noise entry for that reading, keyed by the other key type
        self.dt = d.dt

    def vdef(self):
        return {
            "state": self.state, "control": self.control, "calibration": self.calibration,
            "updateKeys": list(self.update),
            "calKeys": [] if self.calmap_omitted else [(k + "#real" if k == self.calmap_assumed else k) for k in self.calmap],
            "noise": [["sym" if k == "sym" else "other", n, core.frac_str(__import__("fractions").Fraction(v))] for k, n, v in self.noise],
            "sensors": [{"key": k, "readings": [[r, sorted(s.name for s in sympy.sympify(e).free_symbols)] for r, e in rd.items()]}
                        for k, rd in self.sensors.items()],
            "sensorNoise": [[k, list(rd) + [r for k2, r, _ in self.noise_dups if k2 == k]] for k, rd in self.sensor_noise.items()],
        }

    def describe(self):
        return {"state": self.state, "control": self.control, "calibration": self.calibration,
                "update": {k: str(v) for k, v in self.update.items()}, "calibration_map": None if self.calmap_omitted else list(self.calmap),
                "process_noise": [(k, n, v) for k, n, v in self.noise],
                "sensors": {k: {r: str(e) for r, e in rd.items()} for k, rd in self.sensors.items()},
                "sensor_noise": {k: {r: v for r, v in rd.items()} for k, rd in self.sensor_noise.items()},
                "sensor_noise_second_entry_other_key_type": list(self.noise_dups), "reading_keys": "Symbol" if self.reading_syms else "str"}

    # ---- real objects
    def ui_model(self, container, **flags):
        from formak import ui
        conv = set if container == "set" else list
        return ui.Model(dt=self.dt, state=conv(Symbol(s) for s in self.state), control=conv(Symbol(s) for s in self.control),
                        state_model={Symbol(k): v for k, v in self.update.items()}, calibration=conv(Symbol(s) for s in self.calibration), **flags)

    def rk(self, r):
        return Symbol(r) if self.reading_syms else r

    def ekf_args(self):
        noise = {}
        for kind, name, v in self.noise:
            if kind == "pair":
                a, b = name.split(",")
                noise[(Symbol(a), Symbol(b))] = v
            else:
                noise[Symbol(name) if kind == "sym" else name] = v
        sn = {k: {self.rk(r): v for r, v in rd.items()} for k, rd in self.sensor_noise.items()}
        for k, r, v in self.noise_dups:
            if k in sn:      # (a second fault may have removed the whole sensor's noise map)
                sn[k][r if self.reading_syms else Symbol(r)] = v
        return dict(process_noise=noise,
                    sensor_models={k: {self.rk(r): e for r, e in rd.items()} for k, rd in self.sensors.items()},
                    sensor_noises=sn,
                    calibration_map=None if self.calmap_omitted else
                    {(Symbol(k, real=True) if k == self.calmap_assumed else Symbol(k)): v for k, v in self.calmap.items()})


def fresh(rng, spec):
    used = set(spec.state + spec.control + spec.calibration + [r for rd in spec.sensors.values() for r in rd])
    return gen.fresh_names(rng, 1, used)[0]


def inject(rng, spec, kind, pos=None):
    """returns a faulty copy, or None if the fault is not applicable to this definition"""
    s = copy.deepcopy(spec)
    pick = (lambda l: l[pos % len(l)]) if pos is not None else rng.choice
    try:
        if kind == "K1":
            s.control.append(pick(s.state))
        elif kind == "K2":
            s.calibration.append(pick(s.state)); s.calmap[s.calibration[-1]] = 1.0
        elif kind == "K3":
            s.calibration.append(pick(s.control)); s.calmap[s.calibration[-1]] = 1.0
        elif kind == "K4":
            del s.update[pick(sorted(s.update))]
        elif kind == "K5":
            s.update[fresh(rng, s)] = sympy.Integer(1)
        elif kind == "K6":
            k = pick(sorted(s.update)); e = s.update.pop(k); s.update[fresh(rng, s)] = e
        elif kind == "K7":
            del s.calmap[pick(sorted(s.calmap))]
        elif kind == "K7b":
            # the calibration map is not given at all (None) although the model declares calibration symbols
            if not s.calibration:
                return None
            s.calmap_omitted = True
        elif kind == "K8":
            s.calmap[fresh(rng, s)] = 1.0
        elif kind == "K9":
            k = pick(sorted(s.calmap)); s.calmap.pop(k); s.calmap[fresh(rng, s)] = 1.0
        elif kind == "K9b":
            # one calibration value is given for ANOTHER symbol of the same name (one that carries a sympy assumption): the declared
            # symbol has no value
            if not s.calmap:
                return None
            s.calmap_assumed = pick(sorted(s.calmap))
        elif kind == "K10":
            s.noise.remove(pick(s.noise))
        elif kind == "K10z":
            # every process-noise entry is missing (an empty table for a model that has controls)
            if not s.control:
                return None
            s.noise.clear()
        elif kind == "K10b":
            # the entry of one control is missing; an off-diagonal (pair-keyed) entry stands in its place, so the COUNT is right
            if len(s.control) < 2:
                return None
            e = pick(s.noise)
            other = [c for c in s.control if c != e[1]][0]
            s.noise[s.noise.index(e)] = ("pair", f"{other},{e[1]}", 0.0)
        elif kind == "K11a":
            s.noise.append(("sym", pick(s.state), 0.5))
        elif kind == "K11b":
            s.noise.append(("sym", fresh(rng, s), 0.5))
        elif kind == "K11c":
            i = s.noise.index(pick(s.noise)); s.noise[i] = ("str", s.noise[i][1], s.noise[i][2])
        elif kind == "K12":
            i = s.noise.index(pick(s.noise)); s.noise[i] = ("sym", s.noise[i][1], -abs(s.noise[i][2]) - 0.125)
        elif kind == "K12b":
            # negative, but tiny
            i = s.noise.index(pick(s.noise)); s.noise[i] = ("sym", s.noise[i][1], -rng.choice([2.0 ** -40, 2.0 ** -34, 1e-10, 3e-16]))
        elif kind == "K12c":
            # negative, small next to another control's large noise
            if len(s.noise) < 2:
                return None
            i = s.noise.index(pick(s.noise)); j = (i + 1) % len(s.noise)
            s.noise[i] = ("sym", s.noise[i][1], -rng.choice([1e-3, 0.5, 2.0 ** -7]))
            s.noise[j] = ("sym", s.noise[j][1], rng.choice([1e7, 2.0 ** 31, 1e10]))
        elif kind in ("K13", "K14"):
            key = pick(sorted(s.sensors)); r = pick(sorted(s.sensors[key]))
            extra = Symbol(pick(s.control)) if kind == "K13" else Symbol(fresh(rng, s))
            s.sensors[key][r] = s.sensors[key][r] + extra
        elif kind == "K13b":
            # TWO symbols from outside state and calibration in one reading (a control and an undeclared symbol)
            key = pick(sorted(s.sensors)); r = pick(sorted(s.sensors[key]))
            s.sensors[key][r] = s.sensors[key][r] + Symbol(pick(s.control)) + Symbol(fresh(rng, s))
        elif kind == "K15":
            del s.sensor_noise[pick(sorted(s.sensor_noise))]
        elif kind == "K16":
            s.sensor_noise["extra9"] = {"q": 1.0}
        elif kind == "K17":
            key = pick([k for k in sorted(s.sensor_noise) if len(s.sensor_noise[k]) >= 1]); del s.sensor_noise[key][pick(sorted(s.sensor_noise[key]))]
        elif kind == "K17z":
            # the noise entry of the alphabetically LAST reading of a sensor with two or more readings is missing
            keys = [k for k in sorted(s.sensor_noise) if len(s.sensor_noise[k]) >= 2]
            if not keys:
                return None
            key = pick(keys)
            del s.sensor_noise[key][sorted(s.sensor_noise[key])[-1]]
        elif kind == "K18":
            key = pick(sorted(s.sensor_noise)); r = pick(sorted(s.sensor_noise[key])); v = s.sensor_noise[key].pop(r); s.sensor_noise[key][fresh(rng, s)] = v
        elif kind in ("K13c", "V2"):
            # two sensors have a reading of the same NAME (reading names are per sensor); K13c: the one in the sensor declared first
            # depends on a control
            keys = list(s.sensors)
            if len(keys) < 2:
                return None
            a, b = keys[0], keys[1]
            ra, rb = sorted(s.sensors[a])[0], sorted(s.sensors[b])[0]
            if ra in s.sensors[b] or b not in s.sensor_noise or rb not in s.sensor_noise[b]:
                return None
            s.sensors[b] = {(ra if r == rb else r): e for r, e in s.sensors[b].items()}
            s.sensor_noise[b] = {(ra if r == rb else r): v for r, v in s.sensor_noise[b].items()}
            if kind == "K13c":
                if not s.control:
                    return None
                s.sensors[a][ra] = s.sensors[a][ra] + Symbol(pick(s.control))
        elif kind == "V1":
            # a control whose process noise is exactly zero (an exactly known input): not negative, so valid
            i = s.noise.index(pick(s.noise)); s.noise[i] = ("sym", s.noise[i][1], rng.choice([0.0, 0, -0.0]))
        elif kind == "K19":
            # a reading's noise entry is missing; a second entry for ANOTHER reading (same name, the other key type) stands in
            # its place, so the count is right
            keys = [k for k in sorted(s.sensor_noise) if len(s.sensor_noise[k]) >= 2]
            if not keys:
                return None
            key = pick(keys); rs = sorted(s.sensor_noise[key])
            gone = pick(rs); kept = [r for r in rs if r != gone][0]
            del s.sensor_noise[key][gone]
            s.noise_dups.append((key, kept, 2.0))
        else:
            return None
    except (IndexError, ValueError, KeyError):
        return None
    return s


def positions(spec, kind):
    n = {"K1": len(spec.state), "K2": len(spec.state), "K3": len(spec.control), "K4": len(spec.update), "K6": len(spec.update),
         "K7": len(spec.calmap), "K9": len(spec.calmap), "K9b": len(spec.calmap), "K10": len(spec.noise), "K11a": len(spec.state), "K11c": len(spec.noise),
         "K12": len(spec.noise), "V1": len(spec.noise), "K12b": len(spec.noise), "K12c": len(spec.noise), "K19": len(spec.sensor_noise), "K10b": len(spec.noise), "K13": len(spec.sensors), "K13b": len(spec.sensors), "K14": len(spec.sensors), "K15": len(spec.sensor_noise),
         "K17": len(spec.sensor_noise), "K18": len(spec.sensor_noise)}.get(kind, 1)
    return range(max(n, 0))


def attempt(fn):
    try:
        with contextlib.redirect_stdout(io.StringIO()), contextlib.redirect_stderr(io.StringIO()):
            fn()
        return "accepted"
    except Exception as e:   # noqa: BLE001 - any exception is a refusal
        return "refused:" + type(e).__name__


def run_entry_points(ctx, spec, which, tag, shared=None, container=None, flags=None):
    """-> {entry point: 'accepted' | 'refused:<kind>'}. `shared`: a dict carrying the ui.Model object of the valid base
    definition, re-used for faults that only touch the other arguments (a model object is normally compiled many times).
    `container` / `flags`: fixed by the caller (nothing is drawn from ctx.rng then)"""
    from formak import cpp, python
    res = {}
    container = ctx.rng.choice(["set", "list"]) if container is None else container
    # the optional model switches do not change what is accepted
    if flags is None:
        flags = {"proactive_simplify": True} if (which == "ui" or shared is None) and ctx.rng.random() < 0.5 else {}
    res_flags = "proactive_simplify" if flags else "default"
    ctx.count(f"ui_flags={res_flags}")
    holder = {}

    def mk():
        if shared is not None and which in ("compile", "ekf") and "m" in shared:
            holder["m"] = shared["m"]
        else:
            holder["m"] = spec.ui_model(container, **flags)
            if shared is not None and which == "all":
                shared["m"] = holder["m"]
    res["ui"] = attempt(mk)
    if which == "ui":
        # the same definition with the other setting of the optional model switch
        other = {} if flags else {"proactive_simplify": True}
        res["ui[proactive_simplify]" if other else "ui[default]"] = attempt(lambda: spec.ui_model(container, **other))
    if res["ui"] != "accepted" or which == "ui":
        return res
    m = holder["m"]
    args = spec.ekf_args()
    if which in ("compile", "all"):
        res["py.compile"] = attempt(lambda: python.compile(m, calibration_map=args["calibration_map"]))
        root = os.path.join(ctx.scratch, f"v_{tag}_m")
        os.makedirs(root, exist_ok=True)
        h, s = os.path.join(root, "m.h"), os.path.join(root, "m.cpp")

        def cc():
            with cppgen._argv_cwd(["g", "--header", h, "--source", s, "--namespace", "v"], core.REPO):
                r = cpp.compile(m, calibration_map=args["calibration_map"])
                if not r.success:
                    raise RuntimeError("no success")
        res["cpp.compile"] = attempt(cc)
        if res["cpp.compile"] != "accepted" and (os.path.exists(h) or os.path.exists(s)):
            res["cpp.compile"] += "+files-written"
        shutil.rmtree(root, ignore_errors=True)
    if which in ("ekf", "all"):
        res["py.compile_ekf"] = attempt(lambda: python.compile_ekf(m, **args))
        root = os.path.join(ctx.scratch, f"v_{tag}_e")
        os.makedirs(root, exist_ok=True)
        h, s = os.path.join(root, "e.h"), os.path.join(root, "e.cpp")

        def ce():
            with cppgen._argv_cwd(["g", "--header", h, "--source", s, "--namespace", "v"], core.REPO):
                r = cpp.compile_ekf(m, args["process_noise"], args["sensor_models"], args["sensor_noises"], calibration_map=args["calibration_map"])
                if not r.success:
                    raise RuntimeError("no success")
        res["cpp.compile_ekf"] = attempt(ce)
        if res["cpp.compile_ekf"] != "accepted" and (os.path.exists(h) or os.path.exists(s)):
            res["cpp.compile_ekf"] += "+files-written"
        shutil.rmtree(root, ignore_errors=True)
    return res


def written_order_stream(ctx, drv, pending):
    """fixed inputs (nothing drawn from ctx.rng): valid definitions with two and three controls; the process-noise table in every
    written order, against every way of declaring the controls; for every written order also the single faults of the process-noise
    table at every position. The oracle is the property itself (and, in run(), the Lean accepts-functions)."""
    import itertools
    from fractions import Fraction as F
    dt = Symbol("dt")
    x, v, a, b, c, k = (Symbol(n) for n in ("x", "v", "a", "b", "c", "k"))
    d2 = gen.Definition(dt, [x, v], [a, b], [k], {x: x + v * dt, v: v + (a + 2 * b) * k * dt},
                        {"pos": {"p": x}, "vel": {"w": v + k}})
    d3 = gen.Definition(dt, [x, v], [a, b, c], [], {x: x + v * dt + c * dt, v: v + (a + 2 * b) * dt},
                        {"pos": {"p": x, "q": 2 * x + v}})
    n = 0
    for d, cal, declared in ((d2, {"k": 1.5}, ("fwd", "rev", "set")), (d3, {}, ("fwd", "set"))):
        process = {s.name: F(i + 1, 4) for i, s in enumerate(d.control)}
        sensor = {key: {r: F(j + 3, 8) for j, r in enumerate(rd)} for key, rd in d.sensors.items()}
        base = Spec(d, process, sensor, cal)
        for how in declared:
            for perm in itertools.permutations(base.noise):
                todo = []
                spec = copy.deepcopy(base)
                if how == "rev":
                    spec.control.reverse()
                spec.noise = list(perm)
                todo.append(("V3", None, spec))
                if how != "rev":
                    for pos in range(len(perm)):
                        f = copy.deepcopy(spec); del f.noise[pos]
                        todo.append(("K10p", pos, f))
                    for pos in range(len(perm) + 1):
                        f = copy.deepcopy(spec); f.noise.insert(pos, ("sym", spec.state[pos % len(spec.state)], 0.5))
                        todo.append(("K11ap", pos, f))
                        f = copy.deepcopy(spec); f.noise.insert(pos, ("sym", "zz9", 0.5))
                        todo.append(("K11bp", pos, f))
                for kind, pos, sp in todo:
                    n += 1
                    container = "set" if how == "set" else "list"
                    res = run_entry_points(ctx, sp, "ekf", f"o{n}", None, container=container, flags={})
                    ctx.count("written-order:" + ("valid" if kind == "V3" else "faulty"))
                    case = {"fault": kind, "position": pos, "controls_declared_as": container, "def": sp.describe()}
                    idx = drv.add({"op": "accept", "def": sp.vdef()})
                    pending.append((idx, res, kind, case, False, max(len(rd) for rd in sp.sensors.values())))


def run(ctx):
    import ekf_h as eh
    audit = core.lean_audit("C14")
    drv = core.Driver()
    pending = []
    ndefs = 3 if ctx.quick else 20
    serial = 0
    for i in range(ndefs):
        n_state, n_control, n_calib, n_sensors = (ctx.rng.choice([2, 3]), ctx.rng.choice([1, 2]), ctx.rng.choice([1, 2]), ctx.rng.choice([1, 2]))
        if i % 3 == 0:   # the first definition of every three always has two of everything: faults that need a second control / sensor always apply
            n_control, n_calib, n_sensors = 2, 2, 2
        if i % 3 == 1:   # the second always has exactly one control: dropping its noise entry leaves an empty table
            n_control = 1
        d = gen.gen_definition(ctx.rng, n_state=n_state, n_control=n_control, n_calib=n_calib, n_sensors=n_sensors, depth=1, max_readings=2)
        if i % 3 == 0:   # string-keyed stream: make sure one sensor has two readings (faults that need a first and a last reading)
            k0 = sorted(d.sensors)[0]
            while len(d.sensors[k0]) < 2:
                d.sensors[k0][gen.fresh_names(ctx.rng, 1, {s.name for s in d.all_symbols()} | set(d.sensors[k0]))[0]] = d.state[0] * 3 + d.state[-1]
        if i % 3 == 2:   # Symbol-keyed stream: make sure one sensor has two readings
            k0 = sorted(d.sensors)[0]
            while len(d.sensors[k0]) < 2:
                d.sensors[k0][gen.fresh_names(ctx.rng, 1, {s.name for s in d.all_symbols()} | set(d.sensors[k0]))[0]] = d.state[0] * 2
        process, sensor = eh.make_noises(ctx.rng, d)
        cal = {s.name: 1.5 for s in d.calibration}
        base = Spec(d, process, sensor, cal, reading_syms=(i % 3 == 2))
        todo = [("valid", None, base, "all")]
        for kinds, which in ((KINDS_UI, "ui"), (KINDS_CAL, "compile"), (KINDS_CAL, "ekf"), (KINDS_EKF, "ekf")):
            for kind in kinds:
                poss = list(positions(base, kind)) if not ctx.quick else [None]
                for pos in poss:
                    f = inject(ctx.rng, base, kind, pos)
                    if f is not None:
                        todo.append((kind, pos, f, which))
        if not ctx.quick and i < 4:
            for _ in range(6):
                k1, k2 = ctx.rng.choice(KINDS_CAL + KINDS_EKF), ctx.rng.choice(KINDS_EKF)
                f = inject(ctx.rng, base, k1)
                f = inject(ctx.rng, f, k2) if f is not None else None
                if f is not None:
                    todo.append((f"{k1}+{k2}", None, f, "all"))
        shared = {}
        for kind, pos, spec, which in todo:
            serial += 1
            res = run_entry_points(ctx, spec, which, serial, shared if (kind == "valid" or serial % 2 == 0) else None)
            case = {"fault": kind, "position": pos, "def": spec.describe()}
            idx = drv.add({"op": "accept", "def": spec.vdef()})
            pending.append((idx, res, kind, case, spec.reading_syms, max(len(rd) for rd in spec.sensors.values()) if spec.sensors else 0))
    written_order_stream(ctx, drv, pending)      # appended last: draws nothing from ctx.rng
    ans = drv.run()
    for idx, res, kind, case, rsyms, maxr in pending:
        a = ans[idx]
        if "ok" not in a:
            ctx.broke("driver:accept", a, case); continue
        m = a["ok"]
        for ep, outcome in res.items():
            epk = "ui" if ep.startswith("ui[") else ep
            valid = {"ui": m["valid_ui"], "py.compile": m["valid_cal"], "cpp.compile": m["valid_cal"],
                     "py.compile_ekf": m["valid_ekf"], "cpp.compile_ekf": m["valid_ekf"]}[epk]
            model_acc = {"ui": m["ui"], "py.compile": m["compile"], "cpp.compile": m["compile"],
                         "py.compile_ekf": m["ekf"], "cpp.compile_ekf": m["ekf"]}[epk]
            c = dict(case, entry_point=ep, outcome=outcome)
            ctx.case(c, nontrivial=(kind != "valid") or len(case["def"]["sensors"]) >= 2)
            ctx.count(f"fault={kind.split('+')[0] if '+' not in kind else 'pair'}"); ctx.count(f"entry={ep}"); ctx.count("outcome=" + outcome.split(":")[0])
            ctx.traces += 1
            accepted = outcome == "accepted"
            if "files-written" in outcome:
                ctx.fail(f"refused-but-written:{ep}", f"{ep} refused the definition but left generated files behind", c)
            if accepted != valid:
                symkeys = ":symbol-keyed-readings" if (rsyms and maxr >= 2 and (kind == "valid" or kind.startswith("V"))) else ""
                if valid:
                    ctx.fail(f"valid-refused:{ep}{symkeys}", f"{ep} refuses a structurally valid definition ({outcome})", c)
                else:
                    ctx.fail(f"invalid-accepted:{ep}:{kind}", f"{ep} accepts a definition with structural fault {kind}", c)
            elif accepted != model_acc:
                ctx.broke(f"correspondence:accept ({ep} vs Lean accepts-function)", {"impl": outcome, "model": model_acc}, c)
    return core.finish(ctx, audit, NOTE, RULE, PARTIAL)


def replay(ctx, data):
    import json
    print(json.dumps(data, indent=1)[:3000]); return 0
