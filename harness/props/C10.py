"""C10 — bounded, correctly directed steps in both runtimes."""
from __future__ import annotations

import json

import core
import runtime_h as rh

RULE = ("(max_dt, current, target) triples (max_dt from 0.001 to 250 s): targets at exact multiples of max_dt from current, +-1..2 ulps and +- nanoseconds around them, "
        "random offsets within +-200 steps, current times at scales 0, 1, 1e3, 2^20, earlier/equal/later; both runtimes; "
        "distinct by (runtime, max_dt, cur, out); non-trivial = backward travel, or not an exact multiple, or max_dt != 0.1; "
        "reconfigured-filter: fixed histories of a Python managed filter whose wrapped filter's configured maximum step is changed between moves "
        "(live ConfigView on an edited dict, replaced Config, mutated attribute; tightened and relaxed, forwards and backwards, with and without a reading); "
        "later-generation: in one process, a generation configured with a dict naming a large max_dt_sec is followed by generations with no "
        "configuration, a dict that does not mention max_dt_sec, and a dict naming another one (C++ constant read back; Python filter driven through a move); "
        "several-filters: fixed line-ups of managed filters with DIFFERENT configured maximum steps living in one process and making the SAME moves "
        "(same start time, same reading times, same output times; coarse before fine, fine before coarse, mixed; one after the other and interleaved "
        "tick by tick; forwards, backwards, equal times, with and without a reading; both runtimes)")
NOTE = ["the universal theorems (direction, bounded, sum, no step when equal) are over exact rational arithmetic; the binary64 instance of the "
        "same generic `plan` definition is compared bit-for-bit with both runtimes; float versions of the four clauses are evaluated per run "
        "(tests, with slack 1e-9 + 4 ulp), not proven",
        "C++ header compiled with g++ -std=c++20 -O0 -ffp-contract=off against a recording Impl (no Eigen needed)",
        "reconfigured-filter: the maximum every move is held to is the one configured on the wrapped filter when the move is made (tests, same four clauses)",
        "later-generation: the maximum of a filter generated without naming max_dt_sec is the declared default of the back-end's Config, "
        "whatever was generated before it in the same process (tests)",
        "several-filters: every move of every filter is held to the maximum configured on the filter THAT managed filter wraps, whatever other "
        "managed filters in the process made the same move before it (tests, same four clauses)"]
PARTIAL = ["binary64 rounding inside the plan is mirrored (Lean native Float), not proven about",
           "C++: the no-control/no-calibration combination is exercised by C12 only"]


def gen_triples(ctx, n):
    import math
    rng = ctx.rng
    out = []
    for _ in range(n):
        k = rng.randrange(len(rh.MAXDTS))
        m = rh.MAXDTS[k]
        scale = rng.choice([0.0, 1.0, 1e3, float(2 ** 20)])
        cur = rng.choice([0.0, scale, -scale, scale * rng.random(), round(scale * rng.random(), 2)])
        c = rng.random()
        if c < 0.1:
            tgt = cur
        elif c < 0.25:
            # a target a few nanoseconds (or a few 1e-9 * max_dt) away from a whole number of steps
            steps = rng.choice([-3, -2, -1, 1, 2, 3, 7])
            delta = rng.choice([3e-10, 9.9e-10, 1.01e-9, 2e-9, 5e-9, 2.5e-7, 5e-10 * m, 2e-9 * m, 1e-8 * m]) * rng.choice([1, -1])
            tgt = cur + m * steps + delta
        elif c < 0.5:
            steps = rng.randint(-40, 40)
            tgt = cur + m * steps
            for _ in range(rng.choice([0, 0, 1, 2])):
                tgt = math.nextafter(tgt, rng.choice([-math.inf, math.inf]))
        else:
            tgt = cur + m * rng.uniform(-200, 200) * rng.choice([1, 1, 0.01])
        out.append((k, cur, tgt))
    return out


def run(ctx):
    audit = core.lean_audit("C10")
    exe = rh.build_cpp(ctx)
    triples = gen_triples(ctx, 300 if ctx.quick else 8000)
    # corpus: the defects seen at design time
    import math as _m
    triples = [(1, 0.0, 0.12), (1, 0.12, 0.0), (0, 1.0, 0.75), (2, 5.0, 4.9),
               # two times that coincide up to floating-point fuzz (an accumulated 0.1+0.1+0.1 against the literal 0.3), both ways
               (0, 0.1 + 0.1 + 0.1, 0.3), (0, 0.3, 0.1 + 0.1 + 0.1), (1, 1.0000000000000002, 1.0), (2, 5.0, _m.nextafter(5.0, -_m.inf)),
               (3, 100.0, _m.nextafter(100.0, -_m.inf)), (5, -2.5, _m.nextafter(-2.5, -_m.inf))] + triples
    # long catch-up moves: tens of thousands of steps in one go (rounding must not accumulate)
    longs = [(0, 0.0, 3000.0), (0, 10000.0, 0.0), (4, 1000.0, 1030.0), (1, -250.0, 1250.0 + ctx.rng.random()),
             # more than a hundred thousand steps in one move (a filter left idle): still none longer than the maximum
             (4, 0.0, 150.0 + ctx.rng.random()), (4, 20.0, -(101.0 + ctx.rng.random()))]
    triples = triples + (longs if ctx.quick else longs + [(0, 0.0, 10000.0), (3, 0.0, -65536.5), (5, 7.25, 9000.0)])
    drv = core.Driver()
    for k, cur, tgt in triples:
        drv.add({"op": "plan", "arith": "float", "maxdt": rh.fbits(rh.MAXDTS[k]), "cur": rh.fbits(cur), "out": rh.fbits(tgt)})
    model = drv.run()
    cpp = None
    if exe is None:
        ctx.broke("correspondence:cpp-build (ManagedFilter.h with recording Impl does not compile)", ctx.extra.get("cpp_build_error"))
    else:
        cpp = {}
        for combo in rh.COMBOS:
            jobs = [(rh.NCOMBO * k + combo, cur, [{"out": tgt, "readings": []}]) for k, cur, tgt in triples]
            cpp[combo] = rh.cpp_run(exe, jobs)
    for i, (k, cur, tgt) in enumerate(triples):
        m = rh.MAXDTS[k]
        want = [rh.bitsf(b) for b in model[i]["ok"]]
        runs = {"python": [rh.bitsf(c[2:]) for c in rh.py_history(m, cur, [{"out": tgt, "readings": []}])["outs"][0]]}
        if cpp:
            for combo in cpp:
                runs[f"cpp[{rh.COMBOS[combo]}]"] = [rh.bitsf(c[2:]) for c in cpp[combo][i][0]]
        multiple = abs((tgt - cur) / m - round((tgt - cur) / m)) < 1e-12
        for name, got in runs.items():
            case = {"runtime": name, "max_dt": m, "current": cur, "target": tgt,
                    "steps": got if len(got) <= 50 else {"n": len(got), "first": got[:3], "last": got[-3:]}}
            ctx.case(case, nontrivial=(tgt < cur) or not multiple or m != 0.1)
            ctx.count("dir=" + ("backward" if tgt < cur else "equal" if tgt == cur else "forward"))
            ctx.count(f"max_dt={m}"); ctx.count("multiple" if multiple else "non-multiple")
            ctx.traces += 1
            bad = rh.plan_oracle(m, cur, tgt, got)
            if bad:
                rt = "python" if name == "python" else "cpp"
                direction = "backward" if tgt < cur else "forward"
                ctx.fail(f"plan:{rt}:{direction}:max_dt={'default' if m == 0.1 else 'other'}", f"{name}: {bad}", case)
            elif got != want:
                ctx.broke(f"correspondence:plan ({name} vs Lean floatTime plan, bit-exact)", {"model": want, "impl": got}, case)
    two_segment_ticks(ctx, exe)
    generated_max_dt(ctx)
    reconfigured_filter(ctx)
    later_generation(ctx)
    several_filters(ctx, exe)
    return core.finish(ctx, audit, NOTE, RULE, PARTIAL)


def generated_max_dt(ctx):
    """the maximum step a generated C++ filter hands to the C++ runtime (`Tag::max_dt_sec`, the constant in the generated header) is
    the configured value, bit for bit: a constant rounded up would make every whole step longer than the configured maximum"""
    import cppgen
    import ekf_h as eh
    import fk
    import gen
    jobs, metas = [], []
    for i, m in enumerate([2.0 / 3.0, 0.0123456789] if ctx.quick else [2.0 / 3.0, 0.0123456789, 1.0 / 7.0, 0.1, 250.0, 1e-3 + 1e-9, 3.3333337]):
        d = gen.tame_definition(ctx.rng, n_state=2, n_control=1, n_sensors=1, max_readings=1)
        d._kind = "ekf"
        process, sensor = eh.make_noises(ctx.rng, d)
        try:
            g = cppgen.generate(d, process, sensor, {}, ctx.scratch, f"m{i}", max_dt=m, filtering=None, rng=ctx.rng, config_as_dict=(i % 2 == 1))
        except Exception as e:
            ctx.fail(f"cpp-generate-raises:{fk.exc_kind(e)}", repr(e)[:300], {"max_dt_sec": m}); continue
        jobs.append((g, d, None)); metas.append(m)
    for m, (exe, err) in zip(metas, cppgen.build_many(jobs)):
        case = {"stream": "generated-max-dt", "max_dt_sec": m}
        ctx.case(case, True); ctx.count("stream=generated-max-dt")
        if exe is None:
            ctx.fail("generated-cpp-does-not-compile", err[-300:], case); continue
        got = rh.bitsf(cppgen.run_exe(exe, ["layout"])[0]["config.max_dt_sec"])
        if got != float(m):
            ctx.fail("plan:cpp:generated-max-dt", f"the generated C++ filter tells the runtime max_dt_sec = {got!r}, configured {m!r}"
                     + (": every whole step is longer than the configured maximum" if got > m else ""), case)


def reconfigured_filter(ctx):
    """the configured maximum step of the filter a Python ManagedFilter wraps is changed AFTER the managed filter was built (the
    design UI's live ConfigView on a parameter dict that the caller edits; `ekf.config` replaced by another Config; an attribute
    of a plain configuration object assigned): every later move is held to the maximum configured when the move is made.
    Inputs are fixed; consumes nothing from ctx.rng"""
    from formak import python, runtime
    try:
        from formak.ui_state_machine import ConfigView
    except Exception:      # the design UI is optional
        ConfigView = None
    from types import SimpleNamespace
    # (new max_dt or None = leave as is, reading time or None, output time)
    histories = [
        (10.0, 0.25, [(None, 10.6, 11.0), (0.04, None, 11.3), (None, None, 10.1), (2.0, None, 12.0), (0.013, 10.55, 10.5), (0.25, None, 10.55)]),
        (-3.0, 0.5, [(None, None, -1.75), (0.125, None, -4.0), (0.125, -3.5, -3.0), (0.001, None, -3.45), (10.0, -30.0, 0.0), (0.1, None, -29.75)]),
        (0.0, 250.0, [(1.0, None, 7.5), (0.05, 0.33, -0.2), (0.05, None, 0.33), (0.1, 0.0, 0.3)]),
    ]

    def setters():
        if ConfigView is not None:
            def mk_view(m):
                params = {"max_dt_sec": m}
                return ConfigView(params), (lambda ekf, v: params.__setitem__("max_dt_sec", v))
            yield "ConfigView on an edited dict", mk_view
        yield "config replaced by a new Config", (lambda m: (python.Config(max_dt_sec=m), (lambda ekf, v: setattr(ekf, "config", python.Config(max_dt_sec=v)))))
        yield "attribute of the configuration assigned", (lambda m: (SimpleNamespace(max_dt_sec=m), (lambda ekf, v: setattr(ekf.config, "max_dt_sec", v))))

    for how, mk in setters():
        for t0, m0, ticks in histories:
            ekf = rh.RecEkf(m0, 1)
            ekf.config, change = mk(m0)
            mf = runtime.ManagedFilter(ekf, t0, (), None)
            held_t, m = t0, m0
            for j, (new_m, ts, out) in enumerate(ticks):
                if new_m is not None:
                    change(ekf, new_m); m = new_m
                configured = float(ekf.config.max_dt_sec)
                if configured != m:     # the configuration object did not take the edit: nothing to demand
                    ctx.count("reconfigured-filter:edit-not-visible"); break
                before = len(rh.flatten(mf.state))
                r = mf.tick(out, control="u", readings=[runtime.StampedReading(ts, 0)] if ts is not None else None)
                segs = rh.segments_of(rh.flatten(r.state)[before:])
                moves = [(held_t, ts, segs[0]), (ts, out, segs[1] if len(segs) > 1 else [])] if ts is not None else [(held_t, out, segs[0])]
                if ts is not None:
                    held_t = ts
                case = {"stream": "reconfigured-filter", "runtime": "python", "how": how, "t0": t0, "built_with_max_dt": m0, "tick": j,
                        "max_dt": m, "reading_at": ts, "output": out}
                ctx.case(case, True); ctx.traces += 1; ctx.count("stream=reconfigured-filter")
                ctx.count("reconfigured-filter:" + ("unchanged" if m == m0 else "tightened" if m < m0 else "relaxed"))
                for cur, tgt, dts in moves:
                    bad = rh.plan_oracle(m, cur, tgt, dts)
                    if bad:
                        ctx.fail("plan:python:reconfigured", f"python, {how} (built with {m0!r}, now {m!r}): move {cur!r} -> {tgt!r}: {bad}",
                                 dict(case, segment=[cur, tgt], steps=dts if len(dts) <= 50 else {"n": len(dts), "first": dts[:3], "last": dts[-3:]}))
                        break


def later_generation(ctx):
    """several filters generated in ONE process: the maximum step of each is the one ITS configuration names - the declared default of
    the back-end's Config when the configuration is absent or a dict that does not mention max_dt_sec - whatever the configurations
    of the filters generated before it were. C++: the constant the generated header hands to the runtime (`Tag::max_dt_sec`) is read
    back; Python: the generated filter is driven through a forward and a backward move. Private random stream (model shape only)"""
    import dataclasses
    import random
    import cppgen
    import ekf_h as eh
    import fk
    import gen
    import sympy
    from formak import cpp, python, runtime
    rng = random.Random(1010)
    d = gen.tame_definition(rng, n_state=2, n_control=1, n_sensors=1, max_readings=1)
    d._kind = "ekf"
    process, sensor = eh.make_noises(rng, d)

    def declared_default(cls):
        f = {x.name: x for x in dataclasses.fields(cls)}["max_dt_sec"]
        return None if f.default is dataclasses.MISSING else float(f.default)

    # (configuration handed to the generator, max_dt_sec it names or None = default): the first names a LARGE maximum
    configs = [({"max_dt_sec": 0.5}, 0.5), (None, None), ({"innovation_filtering": 4.0}, None), ({"max_dt_sec": 0.03125}, 0.03125), ({}, None)]
    # ---- C++
    jobs, metas = [], []
    main = ("#include <formak/{name}.h>\n#include <cstdint>\n#include <cstring>\n#include <iostream>\n"
            "int main(){{ double d = verifns::ExtendedKalmanFilter::Tag::max_dt_sec; uint64_t u; std::memcpy(&u,&d,8); "
            "std::cout << \"config.max_dt_sec=\" << u << std::endl; return 0; }}\n")
    for i, (cfg, named) in enumerate(configs):
        want = named if named is not None else declared_default(cpp.Config)
        case = {"stream": "later-generation", "runtime": "cpp", "position": i, "config": repr(cfg), "earlier": [repr(c) for c, _ in configs[:i]]}
        if want is None:
            ctx.count("later-generation:no-declared-default"); continue
        try:
            g = cppgen.generate(d, process, sensor, {}, ctx.scratch, f"lg{i}", rng=random.Random(i), config_raw=(dict(cfg) if cfg is not None else None))
        except Exception as e:
            ctx.fail(f"cpp-generate-raises:{fk.exc_kind(e)}", repr(e)[:300], case); continue
        if i == 0:
            continue            # the first generation only sets the scene (a configuration that names its maximum: generated_max_dt)
        jobs.append((g, d, main.format(name=f"lg{i}"))); metas.append((case, want))
    for (case, want), (exe, err) in zip(metas, cppgen.build_many(jobs)):
        ctx.case(case, True); ctx.count("stream=later-generation"); ctx.count("later-generation:cpp")
        if exe is None:
            ctx.fail("generated-cpp-does-not-compile", err[-300:], case); continue
        got = rh.bitsf(cppgen.run_exe(exe, ["layout"])[0]["config.max_dt_sec"])
        if got > want:
            ctx.fail("plan:cpp:later-generation", f"the generated C++ filter tells the runtime max_dt_sec = {got!r}, configured {want!r} "
                     f"(configuration {case['config']}, generated after {case['earlier']}): every whole step is longer than the configured maximum", case)
        elif got < want:        # shorter steps than configured: not what was asked for, but within the bound this property states
            ctx.count("later-generation:shorter-than-configured")
    # ---- Python
    for i, (cfg, named) in enumerate(configs):
        want = named if named is not None else declared_default(python.Config)
        case = {"stream": "later-generation", "runtime": "python", "position": i, "config": repr(cfg), "earlier": [repr(c) for c, _ in configs[:i]]}
        if want is None:
            ctx.count("later-generation:no-declared-default"); continue
        try:
            with fk.quiet():
                ekf = python.compile_ekf(fk.ui_model(d), process_noise={sympy.Symbol(n): float(v) for n, v in process.items()},
                                         sensor_models={k: dict(rd) for k, rd in d.sensors.items()},
                                         sensor_noises={k: {r: float(v) for r, v in rd.items()} for k, rd in sensor.items()},
                                         config=(dict(cfg) if cfg is not None else None))
        except Exception as e:
            ctx.fail(f"python-generate-raises:{fk.exc_kind(e)}", repr(e)[:300], case); continue
        steps, inner = [], ekf.process_model

        def recording(dt, state, covariance, control=None, _inner=inner, _steps=steps):
            _steps.append(float(dt))
            return _inner(dt, state, covariance, control)
        ekf.process_model = recording
        names = sorted(s.name for s in d.state)
        state = ekf.State(**{n: 0.25 for n in names})
        import numpy as np
        mf = runtime.ManagedFilter(ekf, 2.0, state, ekf.Covariance.from_data(np.eye(len(names))))
        control = ekf.Control(**{s.name: 0.5 for s in d.control})
        ctx.case(case, True); ctx.count("stream=later-generation"); ctx.count("later-generation:python")
        for tgt in (2.0 + 2.6 * want, 2.0 - 3.25 * want):
            del steps[:]
            mf.tick(tgt, control=control)
            ctx.traces += 1
            bad = rh.plan_oracle(want, 2.0, tgt, list(steps))
            if bad:
                ctx.fail("plan:python:later-generation", f"python filter generated with configuration {case['config']} after {case['earlier']} "
                         f"(configured maximum {want!r}): move 2.0 -> {tgt!r}: {bad}", dict(case, segment=[2.0, tgt], steps=list(steps)))
                break


def several_filters(ctx, exe):
    """several managed filters in ONE process, wrapping filters with different configured maximum steps, make the same moves (same
    start time, same reading stamps, same output times - a bank of filters fed from one log): every move of each is held to ITS OWN
    configured maximum, whoever made that move before. Inputs are fixed; consumes nothing from ctx.rng"""
    from formak import runtime
    # (line-up of MAXDTS indices in the order the filters are built and ticked, start time, ticks = (reading time or None, output time))
    K = {m: i for i, m in enumerate(rh.MAXDTS)}
    lineups = [
        ([K[1.0], K[0.25], K[0.1], K[0.013]], 41.375, [(None, 43.4), (None, 40.3), (42.1, 42.875), (None, 42.1), (41.0, 39.5)]),
        ([K[0.013], K[0.05], K[10.0], K[0.1]], -17.0625, [(None, -17.0625), (-16.0, -15.45), (None, -18.2), (None, -16.0), (-16.5, -16.5)]),
        ([K[250.0], K[10.0], K[0.05], K[1.0], K[0.001]], 3000.5, [(None, 3003.25), (3001.0, 2999.75), (None, 3000.5), (3000.5, 3002.0)]),
        ([K[0.25], K[0.25], K[0.1], K[0.25]], 0.71875, [(None, 1.96875), (1.0, 0.21875), (None, 1.33)]),
    ]

    def judge(name, how, lineup, pos, t0, ticks, logs):
        """logs[j] = the whole call log returned by tick j (the held log, then the steps to the output time)"""
        m = rh.MAXDTS[lineup[pos]]
        earlier = [rh.MAXDTS[k] for k in lineup[:pos]]
        held_t, held_len = t0, 0
        for j, ((ts, out), log) in enumerate(zip(ticks, logs)):
            case = {"stream": "several-filters", "runtime": name, "how": how, "max_dt": m, "made_the_same_moves_before": earlier,
                    "t0": t0, "tick": j, "reading_at": ts, "output": out}
            ctx.case(case, True); ctx.traces += 1; ctx.count("stream=several-filters")
            ctx.count("several-filters:" + ("first" if not earlier else "after-coarser" if max(earlier) > m else "after-finer-or-equal"))
            rt = "python" if name == "python" else "cpp"
            if not isinstance(log, list) or len(log) < held_len or not all(isinstance(c, str) for c in log):
                ctx.fail(f"plan:{rt}:several-filters", f"{name}: tick {j} did not return the estimate built on the held one", case); return
            segs = rh.segments_of(log[held_len:])
            if len(segs) != (2 if ts is not None else 1):
                ctx.fail(f"plan:{rt}:several-filters", f"{name}: tick {j}: {len(segs) - 1} sensor update(s) for {0 if ts is None else 1} reading(s)", case); return
            moves = [(held_t, ts, segs[0]), (ts, out, segs[1])] if ts is not None else [(held_t, out, segs[0])]
            if ts is not None:
                held_t, held_len = ts, held_len + len(segs[0]) + 1
            for cur, tgt, dts in moves:
                bad = rh.plan_oracle(m, cur, tgt, dts)
                if bad:
                    ctx.fail(f"plan:{rt}:several-filters", f"{name}, {how}, configured maximum {m!r}, after filters with maxima {earlier} made the same "
                             f"moves: move {cur!r} -> {tgt!r}: {bad}",
                             dict(case, segment=[cur, tgt], steps=dts if len(dts) <= 50 else {"n": len(dts), "first": dts[:3], "last": dts[-3:]}))
                    return

    def tick(mf, ts, out):
        r = mf.tick(out, control="u", readings=[runtime.StampedReading(ts, 0)] if ts is not None else None)
        return rh.flatten(r.state)

    for lineup, t0, ticks in lineups:
        # one after the other: each filter lives through the whole history before the next is built
        for pos, k in enumerate(lineup):
            mf = runtime.ManagedFilter(rh.RecEkf(rh.MAXDTS[k], 1), t0, (), None)
            judge("python", "one after the other", lineup, pos, t0, ticks, [tick(mf, ts, out) for ts, out in ticks])
        # interleaved: all alive at once, shifted by a quarter second so that these are moves nobody has made yet
        t1, ticks1 = t0 + 0.25, [(None if ts is None else ts + 0.25, out + 0.25) for ts, out in ticks]
        mfs = [runtime.ManagedFilter(rh.RecEkf(rh.MAXDTS[k], 1), t1, (), None) for k in lineup]
        logs = [[] for _ in lineup]
        for ts, out in ticks1:
            for pos, mf in enumerate(mfs):
                logs[pos].append(tick(mf, ts, out))
        for pos in range(len(lineup)):
            judge("python", "interleaved tick by tick", lineup, pos, t1, ticks1, logs[pos])
    if exe:
        # the C++ runtime: the same line-ups in one process of the trace driver (one managed filter per line-up position)
        for combo in (0, 3):
            jobs = [(rh.NCOMBO * k + combo, t0, [{"out": out, "readings": [(ts, 0)] if ts is not None else []} for ts, out in ticks])
                    for lineup, t0, ticks in lineups for k in lineup]
            res = iter(rh.cpp_run(exe, jobs))
            for lineup, t0, ticks in lineups:
                for pos in range(len(lineup)):
                    judge(f"cpp[{rh.COMBOS[combo]}]", "one after the other", lineup, pos, t0, ticks, next(res))


def two_segment_ticks(ctx, exe):
    """a tick with one reading, then a second tick: every segment (held -> reading -> output -> next output) must satisfy the
    clauses on its own, in particular start from the time the estimate was actually held at"""
    cases = []
    for _ in range(40 if ctx.quick else 600):
        k = ctx.rng.randrange(len(rh.MAXDTS))
        m = rh.MAXDTS[k]
        t0 = ctx.rng.randint(-8, 8) / 8
        ts = t0 + m * ctx.rng.randint(-30, 50) / 10
        o1 = t0 + m * ctx.rng.randint(-30, 50) / 10
        o2 = t0 + m * ctx.rng.randint(-30, 50) / 10
        cases.append((k, t0, [{"out": o1, "readings": [(ts, 0)]}, {"out": o2, "readings": []}]))
    # a reading stamped EXACTLY 0.0 (the first sample of a log, a clock crossing zero) while the filter is somewhere else
    for k in range(len(rh.MAXDTS)):
        m = rh.MAXDTS[k]
        for t0, o1, o2 in ((2.0 * m, 3.5 * m, 1.0 * m), (-1.1 * m, 0.6 * m, -2.0 * m)):
            cases.append((k, t0, [{"out": o1, "readings": [(0.0, 1)]}, {"out": o2, "readings": []}]))
    runs = {"python": [rh.py_history(rh.MAXDTS[k], t0, h)["outs"] for k, t0, h in cases]}
    if exe:
        for c in rh.COMBOS:
            runs[f"cpp[{rh.COMBOS[c]}]"] = rh.cpp_run(exe, [(rh.NCOMBO * k + c, t0, h) for k, t0, h in cases])
    for name, outs_all in runs.items():
        for (k, t0, h), outs in zip(cases, outs_all):
            m = rh.MAXDTS[k]
            ts, o1, o2 = h[0]["readings"][0][0], h[0]["out"], h[1]["out"]
            seg1 = rh.segments_of(outs[0])            # [held -> ts], [ts -> o1]
            seg2 = rh.segments_of(outs[1])            # log of tick 2 = [held->ts], [ts -> o2] (the held state is at ts)
            case = {"runtime": name, "max_dt": m, "t0": t0, "reading_at": ts, "outputs": [o1, o2]}
            ctx.case(case, True); ctx.traces += 1; ctx.count("stream=two-segment-ticks")
            checks = [(t0, ts, seg1[0] if seg1 else []), (ts, o1, seg1[1] if len(seg1) > 1 else []), (ts, o2, seg2[1] if len(seg2) > 1 else [])]
            for cur, tgt, dts in checks:
                bad = rh.plan_oracle(m, cur, tgt, dts)
                if bad:
                    rt = "python" if name == "python" else "cpp"
                    ctx.fail(f"plan:{rt}:sequence", f"{name}: segment {cur!r} -> {tgt!r} of a two-tick history: {bad}", dict(case, segment=[cur, tgt], steps=dts))
                    break


def replay(ctx, data):
    for f in data.get("failing_inputs", []):
        c = f["case"]
        if "current" not in c:      # a history stream: the case lists the whole move (segment, steps) already
            print(f["identity"], "-", f.get("what")); continue
        got = [rh.bitsf(x[2:]) for x in rh.py_history(c["max_dt"], c["current"], [{"out": c["target"], "readings": []}])["outs"][0]]
        print("python now:", got, "->", rh.plan_oracle(c["max_dt"], c["current"], c["target"], got))
    return 0
