"""C06 — discarded iff NIS > k*sqrt(2m)+m; a discard changes nothing; three implementations agree."""
from __future__ import annotations

import math
import os
import subprocess
from fractions import Fraction as F

import numpy as np
import sympy

import core
import cppgen
import ekf_h as eh
import fk
import gen
import runtime_h as rh
from props import C05

RULE = ("boundary stream: innovation e1, S^-1 = t*I with t the binary64 threshold and its +-1, +-2 ulp neighbours, m in 1..8 and 18, k in "
        "{0.5,1.5,3,5,...} and disabled (NIS exact under any evaluation order; m in {2,8,18} have exactly representable thresholds); random "
        "stream: dense dyadic SPD S^-1 and dyadic innovations, m in 1..6; filter stream: generated filters' sensor_model with far/near "
        "readings (rejections), checking identity of the returned objects and the recorded innovation; distinct by (implementation, m, k, "
        "input); non-trivial = m >= 2 or within 2 ulp of the boundary; badly-scaled stream (fixed inputs): sensors of 2 and 3 readings whose "
        "positive-definite innovation covariance has eigenvalues 2^-40 ... 2^-80 apart (a very precise or a very vague reading beside an "
        "ordinary one, diagonal and mixing sensor Jacobians), the outlier placed in the precise / ordinary reading at 1/4, 4 and 100 times "
        "the limit, k in {0.5, 5, disabled}; decision of sensor_model against the NIS computed in exact rational arithmetic")
NOTE = ["exact statement (C06.sqrt_free, discard_iff) is over Q/R; at the boundary the three implementations are compared with each other and "
        "with the binary64 instance of the threshold (Lean native Float, C sqrt); the exact model is compared only where the threshold is "
        "exactly representable or the NIS is farther than 1e-9 (relative) from it",
        "C++ helper compiled with g++ against the Eigen stand-in (fixed summation order); generated C++ filter is covered by C07",
        "badly-scaled stream: z^T S^-1 z is the exact rational value for the binary64 inputs handed to the filter (S = H P H^T + Q inverted "
        "by Gauss-Jordan over Q); only NIS a factor >= 4 away from the limit are placed, so rounding in the filter's own inverse cannot "
        "change a correct decision; Python filter only (the C++ inverse in this harness is the Eigen stand-in's, not the library's)"]
PARTIAL = ["agreement of binary64 and real-number decisions strictly inside the rounding band is reported, not proven"]

KS = [0.5, 1.5, 3.0, 5.0]


def build_helper(ctx):
    exe = os.path.join(ctx.scratch, "innov")
    r = subprocess.run(["g++", "-std=c++20", "-O0", "-ffp-contract=off", f"-I{core.VERIF}/harness/standin", f"-I{core.REPO}/cpp/include",
                        os.path.join(core.VERIF, "harness", "cpp", "innovation_helper.cpp"), "-o", exe], capture_output=True, text=True, timeout=600)
    if r.returncode != 0:
        ctx.extra["cpp_build_error"] = r.stderr[-3000:]
        return None
    return exe


def tiny_ekf(k):
    x = sympy.Symbol("x")
    d = gen.Definition(sympy.Symbol("dt"), [x], [], [], {x: x}, {"s": {"r": x}})
    return eh.compile_ekf(d, {}, {"s": {"r": F(1)}}, {}, filtering=k)


def exact_nis(y, S):
    return sum(F(y[i]) * F(S[i][j]) * F(y[j]) for i in range(len(y)) for j in range(len(y)))


def run(ctx):
    audit = core.lean_audit("C06")
    exe = build_helper(ctx)
    if exe is None:
        ctx.broke("correspondence:cpp-build (innovation_filtering.h)", ctx.extra.get("cpp_build_error"))
    ks = KS if ctx.quick else KS + [0.25, 1.0, 2.0, 2.5, 4.0, 7.5, 10.0, 0.1]
    ekfs = {k: tiny_ekf(k) for k in ks + [None]}
    cases = []   # (m, k, y, Sinv, tag)
    ms = [1, 2, 3, 4, 5, 6, 7, 8, 18]
    for m in ms:
        for k in ks:
            t = k * math.sqrt(2 * m) + m
            vals = [t]
            up, dn = t, t
            for _ in range(2):
                up = math.nextafter(up, math.inf); dn = math.nextafter(dn, -math.inf)
                vals += [up, dn]
            for tv in vals:
                y = [1.0] + [0.0] * (m - 1)
                S = [[tv if i == j else 0.0 for j in range(m)] for i in range(m)]
                cases.append((m, k, y, S, "boundary"))
        y = [1.0] + [0.0] * (m - 1)
        cases.append((m, None, y, [[1e6 if i == j else 0.0 for j in range(m)] for i in range(m)], "disabled"))
    nrand = 200 if ctx.quick else 4000
    for _ in range(nrand):
        m = ctx.rng.randint(1, 6)
        k = ctx.rng.choice(ks + [None])
        A = [[ctx.rng.randint(-3, 3) / 4 for _ in range(m)] for _ in range(m)]
        S = [[sum(A[i][l] * A[j][l] for l in range(m)) + (1.0 if i == j else 0.0) for j in range(m)] for i in range(m)]
        sc = ctx.rng.choice([0.25, 1, 2, 4])
        y = [ctx.rng.randint(-8, 8) / 4 * sc for _ in range(m)]
        cases.append((m, k, y, S, "random"))
        if ctx.rng.random() < 0.25:
            # the same decision problem in other units (a clock offset in seconds with picosecond noise): innovation * 2^-30,
            # inverse innovation covariance * 2^60 - the normalised innovation squared, and so the decision, is unchanged
            cases.append((m, k, [v * 2.0 ** -30 for v in y], [[v * 2.0 ** 60 for v in row] for row in S], "random-small-units"))
    drv = core.Driver()
    lines = []
    for m, k, y, S, tag in cases:
        nis = exact_nis(y, S)
        drv.add({"op": "decide", "nis": core.frac_str(nis), "m": m, "k": None if k is None else core.frac_str(F(k)),
                 "nis_bits": rh.fbits(float(nis)), "k_bits": None if k is None else rh.fbits(k)})
        kk = 0.0 if k is None else k
        lines.append(" ".join([str(m), rh.fbits(kk)] + [rh.fbits(v) for v in y] + [rh.fbits(v) for r in S for v in r]))
    ans = drv.run()
    cpp = None
    if exe:
        r = subprocess.run([exe], input="\n".join(lines) + "\n", capture_output=True, text=True, timeout=600)
        cpp = r.stdout.split()
    for i, (m, k, y, S, tag) in enumerate(cases):
        nis = exact_nis(y, S)
        case = {"m": m, "k": k, "innovation": y, "S_inv": S if m <= 3 else f"{m}x{m} (diag {S[0][0]!r})", "stream": tag, "nis": float(nis)}
        ctx.case(case, nontrivial=(m >= 2) or tag == "boundary")
        ctx.count(f"stream={tag}"); ctx.count(f"m={m}")
        a = ans[i]["ok"]
        thr_exact = None if k is None else F(k) * F(math.sqrt(2 * m)) + m   # only used for the distance filter
        # threshold exactly representable in binary64: sqrt(2m) an integer AND k*sqrt(2m)+m incurs no rounding
        exactly_repr = k is not None and m in (2, 8, 18) and F(k) * math.isqrt(2 * m) + m == F(k * math.sqrt(2 * m) + m)
        far = k is None or abs(float(nis) - float(thr_exact)) > 1e-9 * (1 + abs(float(thr_exact)))
        expected_float = a["float"]["decision"]
        impls = {}
        try:
            with fk.quiet():
                impls["python"] = bool(ekfs[k].remove_innovation(np.array([[v] for v in y], dtype=float), np.array(S, dtype=float)))
        except Exception as e:
            ctx.fail(f"remove-innovation-raises:{fk.exc_kind(e)}:m={'1' if m == 1 else '>=2'}",
                     f"remove_innovation raises {e!r} for a {m}-dimensional reading"[:300], case)
        if cpp and k is not None:
            impls["cpp-helper"] = cpp[i] == "1"
        ctx.traces += 1
        for name, dec in impls.items():
            # the property itself, wherever it is decidable without rounding doubt
            if exactly_repr or far:
                want = a["python"] if name == "python" else a["helper"]
                if dec != want:
                    ctx.fail(f"decision:{name}:{tag}", f"{name}: NIS={float(nis)!r}, k={k}, m={m}: decision {dec}, property says {want}", case)
                    continue
            if dec != expected_float:
                ctx.broke(f"correspondence:decision ({name} vs binary64 threshold model)", {"impl": dec, "model": expected_float}, case)
        if len(set(impls.values())) > 1:
            ctx.fail(f"decision-disagree:{tag}", f"implementations disagree on the same (innovation, S^-1, k): {impls}", case)
    # the threshold may be given as any number type (an int, a numpy integer or 32-bit float, a Fraction): same decisions as for the float
    import fractions
    typed = [("int", 4), ("numpy.int64", np.int64(4)), ("numpy.float32", np.float32(4.0)), ("Fraction", fractions.Fraction(4))]
    ref = tiny_ekf(4.0)
    for label, kv in typed:
        try:
            other = tiny_ekf(kv)
        except Exception as e:
            ctx.fail(f"compile-ekf-raises:{fk.exc_kind(e)}:threshold-type", f"a threshold given as {label} is refused: {e!r}"[:300], {"k": label}); continue
        for _ in range(6 if ctx.quick else 40):
            m = ctx.rng.randint(1, 4)
            y = np.array([[ctx.rng.randint(-12, 12) / 2] for _ in range(m)], dtype=float)
            Sinv = np.eye(m) * ctx.rng.choice([0.5, 1.0, 4.0])
            case = {"stream": "threshold-type", "k_given_as": label, "m": m, "innovation": y.reshape(-1).tolist(), "S_inv_diag": float(Sinv[0, 0])}
            ctx.case(case, True); ctx.count("stream=threshold-type")
            with fk.quiet():
                a_, b_ = bool(ref.remove_innovation(y, Sinv)), bool(other.remove_innovation(y, Sinv))
            if a_ != b_:
                ctx.fail("decision:python:threshold-type", f"k = 4 given as {label}: decision {b_}, given as float: {a_}", case)
                break
    # filter stream: rejections through sensor_model leave everything untouched
    nf = 6 if ctx.quick else 60
    for i in range(nf):
        d = gen.gen_definition(ctx.rng, n_state=ctx.rng.choice([2, 3]), n_control=0, n_calib=0, n_sensors=2, depth=2)
        if not eh.is_rational(d):
            continue
        # sensors of DIFFERENT reading dimension on the same filter object (1 and 2 readings)
        ks = sorted(d.sensors)
        d.sensors[ks[0]] = dict(list(d.sensors[ks[0]].items())[:1])
        while len(d.sensors[ks[1]]) < 2:
            d.sensors[ks[1]][gen.fresh_names(ctx.rng, 1, {x.name for x in d.all_symbols()} | set(d.sensors[ks[1]]))[0]] = d.state[0] * 3 + 1
        d.sensors[ks[1]] = dict(list(d.sensors[ks[1]].items())[:2])
        process, sensor = eh.make_noises(ctx.rng, d)
        k = ctx.rng.choice([0.5, 1.5, 5.0, None])
        try:
            ekf = eh.compile_ekf(d, process, sensor, {}, ctx.rng, filtering=k)
        except Exception as e:
            ctx.fail(f"compile-ekf-raises:{fk.exc_kind(e)}", f"compile_ekf refuses a valid definition: {e!r}"[:300], {"def": d.describe()})
            continue
        Ls = sorted(s.name for s in d.state)
        for rep in range(6):
            key = sorted(d.sensors)[rep % 2]      # alternate between the two sensors
            rd = d.sensors[key]
            pt = gen.gen_point(ctx.rng, d)
            sub = eh.subs_map(d, pt)
            P = eh.spd(ctx.rng, len(Ls))
            Lr = sorted(rd)
            hx = eh.oracle_vals(rd, Lr, sub)
            z = {r: F(h).limit_denominator(2 ** 20) + gen.dyadic(ctx.rng, -6, 6) * ctx.rng.choice([F(1, 8), 1, 4]) for r, h in zip(Lr, hx)}
            want = C05.oracle_update(d, rd, sensor[key], sub, P, [pt["state"][n] for n in Ls], z)
            m = len(Lr)
            case = {"def": d.describe(), "k": k, "point": eh.point_json(pt), "P": eh.mat_json(P), "z": {r: core.frac_str(v) for r, v in z.items()},
                    "nis": float(want["nis"]), "stream": "filter"}
            ctx.case(case, nontrivial=m >= 2); ctx.count("stream=filter")
            thr = None if k is None else k * math.sqrt(2 * m) + m
            if thr is not None and abs(float(want["nis"]) - thr) <= 1e-7 * (1 + thr):
                ctx.count("inside_rounding_band"); continue
            should = thr is not None and float(want["nis"]) > thr
            st, cv = eh.state_obj(ekf, pt), eh.cov_obj(ekf, P)
            if rep % 2 == 1 and len(Ls) >= 2:
                # a covariance that is symmetric only up to rounding (what a prediction step hands over): off by one ulp in one entry
                cv.data[0, len(Ls) - 1] = np.nextafter(cv.data[0, len(Ls) - 1], np.inf)
                ctx.count("covariance_symmetric_up_to_one_ulp")
            zr = ekf.make_reading(key, **{r: float(v) for r, v in z.items()})
            snap = (st.data.copy(), cv.data.copy())
            try:
                with fk.quiet():
                    res = ekf.sensor_model(st, cv, sensor_key=key, sensor_reading=zr)
            except Exception as e:
                ctx.fail(f"sensor-model-raises:{fk.exc_kind(e)}:m={'1' if m == 1 else '>=2'}", f"sensor_model raises {e!r}"[:300], case)
                continue
            unchanged = np.array_equal(res.state.data, snap[0]) and np.array_equal(res.covariance.data, snap[1])
            moved = not eh.mat_close(res.covariance.data, P)
            if should and not unchanged:
                ctx.fail("discard-not-identity" if not moved else "discard-missed",
                         f"NIS {float(want['nis'])!r} > threshold {thr!r}: the reading must be discarded and estimate/covariance left exactly as they were", case)
            elif not should and not moved:
                if eh.mat_close(np.array([[float(x) for x in r] for r in want["P"]]), P):
                    # the exact update itself leaves the covariance within tolerance of the prior (a nearly flat reading):
                    # whether the reading was used cannot be told from the result
                    ctx.count("update_indistinguishable_from_discard"); continue
                ctx.fail("discard-spurious", f"NIS {float(want['nis'])!r} <= threshold {thr!r} (k={k}): the reading was discarded", case)
            y_rec = eh.recorded(ekf.innovations, key)
            if not eh.mat_close(y_rec, [[v] for v in want["y"]]):
                ctx.fail("discard-innovation-not-recorded", "the innovation recorded for a reading differs from z - h(x)", case)
        # a simulated measurement: the reading object is what the filter's OWN sensor model returns for a (far away) true state
        if k is not None:
            key = sorted(d.sensors)[0]
            Lr = sorted(d.sensors[key])
            est = gen.gen_point(ctx.rng, d)
            truth = {"dt": est["dt"], "cal": est["cal"], "control": est["control"], "state": {n_: v_ + 40 for n_, v_ in est["state"].items()}}
            P = eh.spd(ctx.rng, len(Ls))
            with fk.quiet():
                zobj = ekf.sensor_models[key].model(eh.state_obj(ekf, truth))
                zvals = [float(v_) for v_ in np.asarray(zobj.data, dtype=float).reshape(-1)]
            z = {r: F(v_) for r, v_ in zip(Lr, zvals)}
            want = C05.oracle_update(d, d.sensors[key], sensor[key], eh.subs_map(d, est), P, [est["state"][n_] for n_ in Ls], z)
            thr = k * math.sqrt(2 * len(Lr)) + len(Lr)
            case = {"def": d.describe(), "k": k, "point": eh.point_json(est), "truth": eh.point_json(truth), "P": eh.mat_json(P), "nis": float(want["nis"]),
                    "stream": "reading-from-own-sensor-model"}
            ctx.case(case, True); ctx.count("stream=reading-from-own-sensor-model")
            if abs(float(want["nis"]) - thr) > 1e-7 * (1 + thr):
                st, cv = eh.state_obj(ekf, est), eh.cov_obj(ekf, P)
                snap = (st.data.copy(), cv.data.copy())
                try:
                    with fk.quiet():
                        res = ekf.sensor_model(st, cv, sensor_key=key, sensor_reading=zobj)
                    unchanged = np.array_equal(res.state.data, snap[0]) and np.array_equal(res.covariance.data, snap[1])
                    should = float(want["nis"]) > thr
                    if should != unchanged:
                        ctx.fail("discard-missed" if should else "discard-spurious", f"a reading produced by the filter's own sensor model for another state, NIS "
                                 f"{float(want['nis'])!r} vs threshold {thr!r}: {'used' if should else 'discarded'}", case)
                    elif not eh.mat_close(eh.recorded(ekf.innovations, key), [[v_] for v_ in want["y"]]):
                        ctx.fail("discard-innovation-not-recorded", "the innovation recorded for a reading produced by the filter's own sensor model differs "
                                 "from z - h(x)", case)
                except Exception as e:
                    ctx.fail(f"sensor-model-raises:{fk.exc_kind(e)}:own-model-reading", repr(e)[:300], case)
    generated_threshold(ctx)
    estimator_follows_its_threshold(ctx)
    badly_scaled_innovation_covariance(ctx)
    return core.finish(ctx, audit, NOTE, RULE, PARTIAL)


def badly_scaled_innovation_covariance(ctx):
    """readings of very different precision in ONE sensor: the innovation covariance is positive definite with eigenvalues up to 2^-80
    apart, and the outlier sits in the direction of the small eigenvalue. The decision is the one of the exact z^T S^-1 z (all inputs
    fixed here; nothing is drawn from ctx.rng)"""
    x, y, w = sympy.Symbol("x"), sympy.Symbol("y"), sympy.Symbol("w")
    variants = []   # (label, state symbols, readings, noise, prior variances by state name, reading that carries the outlier)
    for e in (40, 54, 60, 80):
        s = F(1, 2 ** e)
        variants.append((f"precise-reading-2^-{e}", [x, y], {"a": x, "b": y}, {"a": F(1), "b": s}, {"x": F(1), "y": s}, "b"))
    s = F(1, 2 ** 60)
    variants.append(("precise-reading-of-three", [w, x, y], {"a": x, "b": y, "c": w + x}, {"a": F(1), "b": s, "c": F(2)}, {"w": F(3), "x": F(1), "y": s}, "b"))
    variants.append(("precise-reading-mixing-jacobian", [x, y], {"a": x + y, "b": y}, {"a": F(1), "b": s}, {"x": F(1), "y": s}, "b"))
    variants.append(("vague-reading-2^60", [x, y], {"a": x, "b": y}, {"a": F(2 ** 60), "b": F(1)}, {"x": F(1), "y": F(1)}, "b"))
    variants.append(("vague-reading-of-three", [w, x, y], {"a": x, "b": y, "c": 2 * w}, {"a": F(2 ** 70), "b": F(1, 2), "c": F(2 ** 66)},
                     {"w": F(4), "x": F(1), "y": F(3, 2)}, "b"))
    est = {"w": F(-3, 4), "x": F(3), "y": F(1, 2)}
    for label, state, readings, noise, pvar, hot in variants:
        d = gen.Definition(sympy.Symbol("dt"), state, [], [], {s_: s_ for s_ in state}, {"s": dict(readings)})
        Ls = sorted(s_.name for s_ in state)
        Lr = sorted(readings)
        m = len(Lr)
        pt = {"dt": F(1, 8), "state": {n: est[n] for n in Ls}, "control": {}, "cal": {}}
        sub = eh.subs_map(d, pt)
        P = [[pvar[a] if a == b else F(0) for b in Ls] for a in Ls]
        hx = dict(zip(Lr, eh.oracle_vals(readings, Lr, sub)))
        base = C05.oracle_update(d, readings, noise, sub, P, [est[n] for n in Ls], hx)
        Si = eh.minv(base["S"])
        hot_i = Lr.index(hot)
        for k in (0.5, 5.0, None):
            try:
                ekf = eh.compile_ekf(d, {}, {"s": noise}, {}, filtering=k)
            except Exception as e:
                ctx.fail(f"compile-ekf-raises:{fk.exc_kind(e)}:badly-scaled", f"compile_ekf refuses a valid definition: {e!r}"[:300],
                         {"def": d.describe(), "noise": {r: str(v) for r, v in noise.items()}})
                continue
            limit = (5.0 if k is None else k) * math.sqrt(2 * m) + m
            for factor in (0.25, 4.0, 100.0):
                # the outlier: only the `hot` reading is off, by the distance at which the NIS is about factor * limit
                off = math.sqrt(factor * limit / float(Si[hot_i][hot_i]))
                z = {r: F(float(hx[r]) + (off if r == hot else 0.0)) for r in Lr}
                want = C05.oracle_update(d, readings, noise, sub, P, [est[n] for n in Ls], z)
                nis = float(want["nis"])
                case = {"def": d.describe(), "noise": {r: str(v) for r, v in noise.items()}, "k": k, "point": eh.point_json(pt), "P": eh.mat_json(P),
                        "z": {r: core.frac_str(v) for r, v in z.items()}, "nis": nis, "stream": "badly-scaled", "variant": label}
                ctx.case(case, True); ctx.count("stream=badly-scaled"); ctx.count(f"badly-scaled:{label.split('-2^')[0]}")
                thr = None if k is None else limit
                if thr is not None and abs(nis - thr) <= 1e-7 * (1 + thr):
                    ctx.count("inside_rounding_band"); continue
                should = thr is not None and nis > thr
                ctx.count("badly-scaled:" + ("disabled" if k is None else "must-discard" if should else "must-use"))
                st, cv = eh.state_obj(ekf, pt), eh.cov_obj(ekf, P)
                zr = ekf.make_reading("s", **{r: float(v) for r, v in z.items()})
                snap = (st.data.copy(), cv.data.copy())
                try:
                    with fk.quiet():
                        res = ekf.sensor_model(st, cv, sensor_key="s", sensor_reading=zr)
                except Exception as e:
                    ctx.fail(f"sensor-model-raises:{fk.exc_kind(e)}:badly-scaled", f"sensor_model raises {e!r}"[:300], case)
                    continue
                unchanged = np.array_equal(res.state.data, snap[0]) and np.array_equal(res.covariance.data, snap[1])
                moved = not eh.mat_close(res.covariance.data, P)
                if should and not unchanged:
                    ctx.fail("discard-not-identity:badly-scaled" if not moved else "discard-missed:badly-scaled",
                             f"exact NIS {nis!r} > threshold {thr!r} (innovation covariance with eigenvalues far apart): the reading must be "
                             "discarded and estimate/covariance left exactly as they were", case)
                elif not should and not moved:
                    if eh.mat_close(np.array([[float(v) for v in r] for r in want["P"]]), P):
                        ctx.count("update_indistinguishable_from_discard"); continue
                    ctx.fail("discard-spurious:badly-scaled", f"exact NIS {nis!r} <= threshold {thr!r} (k={k}): the reading was discarded", case)
                y_rec = eh.recorded(ekf.innovations, "s")
                if y_rec.shape != (m, 1) or not eh.mat_close(y_rec, [[v] for v in want["y"]]):
                    ctx.fail("discard-innovation-not-recorded:badly-scaled", f"the innovation recorded for the reading, {y_rec.reshape(-1).tolist()}, "
                             f"differs from z - h(x) = {[float(v) for v in want['y']]}", case)


def estimator_follows_its_threshold(ctx):
    """the scikit-learn estimator discards with the threshold it is configured with NOW: after set_params(innovation_filtering=...)
    on an estimator that has already been used, the decisions are those of a fresh estimator with that threshold"""
    from props import C16
    for i in range(2 if ctx.quick else 8):
        d = gen.tame_definition(ctx.rng, n_state=2, n_control=1, n_sensors=1, max_readings=2)
        process, sensor = eh.make_noises(ctx.rng, d)
        width = len(d.control) + sum(len(rd) for rd in d.sensors.values())
        X = np.array([[float(gen.dyadic(ctx.rng, -1, 1)) for _ in range(width)] for _ in range(4)], dtype=float)
        X[1, len(d.control):] += 60.0          # a gross outlier row
        case = {"def": d.describe(), "stream": "estimator-threshold-changed", "X": X.tolist()}
        ctx.case(case, True); ctx.count("stream=estimator-threshold-changed")
        try:
            with fk.quiet():
                ad = C16.make_adapter(d, process, sensor, {}, 4.0)
                ad.transform(X)
                for k2 in (None, 1e6, 0.5):
                    ad.set_params(innovation_filtering=k2)
                    got = np.asarray(ad.transform(X), dtype=float)
                    fresh = np.asarray(C16.make_adapter(d, process, sensor, {}, k2).transform(X), dtype=float)
                    if got.shape != fresh.shape or float(np.max(np.abs(got - fresh))) > 1e-9 * (1 + float(np.max(np.abs(fresh)))):
                        ctx.fail("decision:estimator:stale-threshold", f"after set_params(innovation_filtering={k2!r}) on a used estimator, transform gives "
                                 f"{got.tolist()}; a fresh estimator with that threshold gives {fresh.tolist()}", dict(case, threshold=repr(k2)))
                        break
        except Exception as e:
            ctx.fail(f"adapter-raises:{fk.exc_kind(e)}", repr(e)[:300], case)


def generated_threshold(ctx):
    """the generated C++ filter decides with the threshold it was configured with (the constant in the header, bit for bit),
    whether the configuration is given as a Config object or as a plain dict; a discarded reading leaves estimate and covariance
    bit-identical while its innovation is recorded; with filtering disabled nothing is discarded"""
    jobs, metas = [], []
    ks = [(2.3456789, False), (3.0000004, True), (1.0 / 3.0, False), (None, True), (None, False)]
    if not ctx.quick:
        ks += [(1.23456749e-3, True), (4e-7, False), (7.0, True), (5.0, True)]
    for i, (k, as_dict) in enumerate(ks):
        d = gen.tame_definition(ctx.rng, n_state=2, n_control=0, n_sensors=1, max_readings=ctx.rng.choice([1, 2]))
        d._kind = "ekf"
        process, sensor = eh.make_noises(ctx.rng, d)
        try:
            g = cppgen.generate(d, process, sensor, {}, ctx.scratch, f"t{i}", filtering=k, rng=ctx.rng, config_as_dict=as_dict)
        except Exception as e:
            ctx.fail(f"cpp-generate-raises:{fk.exc_kind(e)}", repr(e)[:300], {"k": k}); continue
        jobs.append((g, d, None)); metas.append((k, as_dict, d))
    for (k, as_dict, d), (exe, err) in zip(metas, cppgen.build_many(jobs)):
        case = {"stream": "generated-threshold", "k": k, "config_given_as": "dict" if as_dict else "Config"}
        ctx.case(case, True); ctx.count("stream=generated-threshold")
        if exe is None:
            ctx.fail("generated-cpp-does-not-compile", err[-300:], case); continue
        lay = cppgen.run_exe(exe, ["layout"])[0]
        got = rh.bitsf(lay["config.innovation_filtering"])
        if got != (0.0 if k is None else float(k)):
            ctx.fail("cpp-threshold-constant", f"generated C++ filter edits with k = {got!r}, configured k = {k!r} (0 = disabled): the Python and "
                     "C++ filters take different decisions for NIS between the two limits", case)
            continue
        # one far outlier and one reading close to the prediction through the generated filter
        key = sorted(d.sensors)[0]
        Lr = sorted(d.sensors[key])
        pt = gen.gen_point(ctx.rng, d)
        P = eh.spd(ctx.rng, len(d.state))
        sub = eh.subs_map(d, pt)
        hx = [float(v) for v in eh.oracle_vals(d.sensors[key], Lr, sub)]
        for label, off in (("outlier", 1000.0), ("inlier", 2.0 ** -10)):
            z = {r: h + off * (1 + idx) for idx, (r, h) in enumerate(zip(Lr, hx))}
            out = cppgen.run_exe(exe, [cppgen.point_line(f"update:{key}", d, pt, [[float(v) for v in row] for row in P], z)])[0]
            c2 = dict(case, reading=label, z=z, point=eh.point_json(pt), **{"def": d.describe()})
            ctx.case(c2, True); ctx.count(f"generated-filter:{label}")
            unchanged = out["unchanged"] == "1"
            should_discard = (k is not None) and label == "outlier"
            if unchanged != should_discard:
                ctx.fail("cpp-filter-decision:" + ("disabled" if k is None else label),
                         f"generated C++ filter (k={k!r}) {'left the estimate untouched for' if unchanged else 'used'} the {label} reading", c2)
                continue
            inn = [rh.bitsf(out[f"inn.{i2}"]) for i2 in range(len(Lr))] if "inn.0" in out else None
            want = [z[r] - rh.bitsf(out[f"h.{r}"]) for r in Lr]
            if inn is None or not all(abs(a - b) <= 1e-9 * (1 + abs(b)) for a, b in zip(inn, want)):
                ctx.fail("cpp-innovation-not-recorded:" + ("discarded" if should_discard else "used"),
                         f"after a {'discarded' if should_discard else 'used'} reading the generated C++ filter reports innovation {inn}, expected z - h(x) = {want}", c2)


def replay(ctx, data):
    import json
    print(json.dumps(data, indent=1)[:3000]); return 0
