"""C03 — Python filter Jacobians are the true partial derivatives, laid out by name."""
from __future__ import annotations

import numpy as np
import sympy

from fractions import Fraction as F

import core
import ekf_h as eh
import fk
import gen

RULE = ("definitions with rectangular shapes forced (readings != states, calibration present in half), 0-3 controls; process, control "
        "and every sensor Jacobian at dyadic points; distinct by (definition, point, which); non-trivial = Jacobian not square or "
        "not symmetric, or calibration present; "
        "SI-SCALED (fixed in the code): models in SI units whose true partial derivatives lie between 1e-13 and 1e-8 (time of flight "
        "2/c, Doppler v/c, picofarads, nanosecond steps) next to O(1) entries, every entry compared RELATIVE to its own size; "
        "EDITED-MODEL (fixed in the code): one ui.Model object compiled, its state_model edited in place (item assignment, whole-dict "
        "replacement, edit and edit back), compiled again: each new filter answers for the model as it is when that filter is built; "
        "NUMBERED-NAMES (fixed in the code): states, controls, calibration values and readings whose names carry numbers of different "
        "digit counts (x2 / x10, u2 / u10, k3 / k12, eleven states x0..x10, mixed z9 / z10a / z010), where plain string order and "
        "numeric order disagree; non-symmetric nonlinear rational models, values handed over by name")
NOTE = ["oracle: sympy diff by name (independent of the Lean Expr.diff the model uses), exact Fractions",
        "theorem entry_is_partial speaks about the model's symbolic derivative Expr.diff; that Expr.diff is the analytic derivative is "
        "validated against sympy on every instance (see Proofs/Diff if present), binary64 rounding under 1e-9 relative tolerance",
        "SI-scaled stream: oracle = exact sympy derivative (float coefficients taken as the rationals they are); an entry passes when "
        "|got - want| <= 1e-9 |want|, a structurally zero entry when |got| <= 1e-9 x the smallest non-zero entry of that matrix",
        "edited-model stream: oracle = exact sympy derivative of the definition the ui.Model object held at the moment of the "
        "compile_ekf call (the harness keeps its own copy of every version); process, control and sensor Jacobians of each filter",
        "numbered-names stream: oracle = exact sympy derivative, rows and columns in the library's name order = sorted by the symbol's "
        "name as a plain string ('x10' before 'x2'); every filter is given its State / Control BY NAME, so the point is unambiguous"]
PARTIAL = ["transcendental definitions: the model's derivative is evaluated in Lean Float (libm) and compared within 1e-6, no exact value"]


def run(ctx):
    audit = core.lean_audit("C03")
    drv = core.Driver()
    pending = []
    ndefs, npts = (14, 3) if ctx.quick else (150, 8)
    previous = None
    for i in range(ndefs):
        transcend = i % 5 == 4
        ns = ctx.rng.choice([1, 2, 3, 4])
        d = gen.gen_definition(ctx.rng, n_state=ns, n_calib=ctx.rng.choice([0, 1, 2]), n_sensors=ctx.rng.choice([1, 2]),
                               transcend=transcend)
        if transcend:
            gen.force_inverse_composition(ctx.rng, d)       # asin(sin u) etc.: derivative is not 1 off the principal branch
        if i == 2:
            d = gen.many_temporaries_definition(ctx.rng, n=7)   # Jacobian blocks with more than ten CSE temporaries
            ns = 7
        # force a sensor whose number of readings differs from the number of states
        k0 = next(iter(d.sensors))
        while len(d.sensors[k0]) == ns or (ns + len(d.calibration) == len(d.sensors[k0])):
            r = gen.fresh_names(ctx.rng, 1, {s.name for s in d.all_symbols()} | set(d.sensors[k0]))[0]
            d.sensors[k0][r] = sympy.sympify(gen.gen_expr(ctx.rng, d.state + d.calibration, 2, [])) + ctx.rng.choice(d.state)
        process, sensor = eh.make_noises(ctx.rng, d)
        pts = [gen.gen_point(ctx.rng, d) for _ in range(npts)]
        if transcend:
            # points well outside (-pi/2, pi/2) in every state: inverse-of-periodic compositions are off their principal branch
            for val in (F(5, 2), F(-4)):
                pts.append({"dt": pts[0]["dt"], "cal": pts[0]["cal"], "control": dict(pts[0]["control"]), "state": {n_: val for n_ in pts[0]["state"]}})
        cal = pts[0]["cal"]
        cse = ctx.rng.random() < 0.5 or i == 2       # (the many-temporaries definition only makes sense with CSE on)
        try:
            ekf = eh.compile_ekf(d, process, sensor, cal, ctx.rng, cse=cse)
        except Exception as e:
            ctx.fail(f"compile-ekf-raises:{fk.exc_kind(e)}", f"compile_ekf refuses a valid definition: {e!r}"[:300], {"def": d.describe()})
            continue
        Ls, Lc, Lk = eh.names_of(d)
        um = {s.name: e for s, e in d.state_model.items()}
        rational = eh.is_rational(d)
        # a filter built EARLIER in this process still answers for its own sensors after this one was built (same sensor keys)
        if previous is not None:
            pekf, pd, ppt, pLs = previous
            psub = eh.subs_map(pd, ppt)
            pst = eh.state_obj(pekf, ppt)
            for key, rd in pd.sensors.items():
                Lr = sorted(rd)
                case = {"def": pd.describe(), "point": eh.point_json(ppt), "which": f"sensor:{key}", "after_building": d.describe()}
                ctx.case(case, True); ctx.count("earlier_filter_revisited")
                try:
                    with fk.quiet():
                        got = np.asarray(pekf.sensor_jacobian(key, pst), dtype=float)
                    want = eh.oracle_jac(rd, Lr, pLs, psub)
                except Exception as e:
                    ctx.fail(f"jacobian-raises:sensor:{fk.exc_kind(e)}:earlier-filter", f"sensor Jacobian of a filter built earlier raises {e!r}"[:300], case)
                    continue
                if got.shape != (len(Lr), len(pLs)) or not eh.mat_close(got, want):
                    ctx.fail("jacobian-entry:sensor:earlier-filter", f"{key}: the sensor Jacobian of a filter built earlier in the process changed after another "
                             f"filter was built: got {got.tolist()}, want {[[float(x) for x in r] for r in want]}", case)
        if not transcend:
            previous = (ekf, d, dict(pts[0], cal=cal), Ls)
        # consecutive evaluation points on the same filter that differ in ONE coordinate only (values -1, -2, 1, 2)
        from fractions import Fraction as _F
        base = dict(pts[0])
        sweep = []
        for grp, names in (("state", [x.name for x in d.state]), ("control", [x.name for x in d.control])):
            for nme in names[:2]:
                for val in (-1, -2, 2, 1):
                    q = {"dt": base["dt"], "cal": cal, "state": dict(base["state"]), "control": dict(base["control"])}
                    q[grp][nme] = _F(val)
                    sweep.append(q)
        # an evaluation point handed over as an INTEGER array (from_data only looks at the shape): the same point as with floats
        ipt = {"dt": pts[0]["dt"], "cal": cal, "control": dict(pts[0]["control"]), "int_array_state": True,
               "state": {nme: _F(ctx.rng.randint(-3, 3)) for nme in Ls}}
        for pt in pts + sweep + [ipt]:
            pt = dict(pt, cal=cal)
            sub = eh.subs_map(d, pt)
            st, ct = eh.state_obj(ekf, pt), eh.control_obj(ekf, pt)
            if pt.get("int_array_state"):
                st = ekf.State.from_data(np.array([[int(pt["state"][nme])] for nme in Ls], dtype=np.int64))
                ctx.count("integer_array_state")
            jobs = [("process", lambda: ekf.process_jacobian(float(pt["dt"]), st, ct), lambda: eh.oracle_jac(um, Ls, Ls, sub), (len(Ls), len(Ls))),
                    ("control", lambda: ekf.control_jacobian(float(pt["dt"]), st, ct), lambda: eh.oracle_jac(um, Ls, Lc, sub), (len(Ls), len(Lc)))]
            for key, rd in d.sensors.items():
                Lr = sorted(rd)
                jobs.append((f"sensor:{key}", (lambda key=key: ekf.sensor_jacobian(key, st)),
                             (lambda rd=rd, Lr=Lr: eh.oracle_jac(rd, Lr, Ls, sub)), (len(Lr), len(Ls))))
            got_all = {}
            for which, impl, oracle, shape in jobs:
                case = {"def": d.describe(), "cse": cse, "point": eh.point_json(pt), "which": which, "shape": list(shape)}
                ctx.case(case, nontrivial=(shape[0] != shape[1]) or bool(Lk))
                ctx.count(f"shape={shape[0]}x{shape[1]}"); ctx.count("kind=" + which.split(":")[0])
                try:
                    with fk.quiet():
                        got = np.asarray(impl(), dtype=float)
                except Exception as e:
                    ctx.fail(f"jacobian-raises:{which.split(':')[0]}:{fk.exc_kind(e)}", f"{which} Jacobian raises {e!r}"[:300], case)
                    continue
                try:
                    want = oracle()
                except (ValueError, TypeError, OverflowError, ZeroDivisionError):
                    # the symbolic derivative has no finite value here (e.g. d/dx of a root at 0): the property is stated for
                    # points where the model is differentiable
                    ctx.count("not_differentiable_here"); continue
                got_all[which] = got
                if got.shape != tuple(shape) or not eh.mat_close(got, want):
                    kind = "rect" if shape[0] != shape[1] else "square"
                    ctx.fail(f"jacobian-entry:{which.split(':')[0]}:{kind}",
                             f"{which} Jacobian differs from the partial derivatives by name: got {got.tolist()}, want {[[float(x) for x in r] for r in want]}",
                             case)
            if rational:
                idx = drv.add({"op": "jacobians", "ekf": eh.ekf_json(d, process, sensor), "point": eh.point_json(pt)})
                pending.append((idx, got_all, {"def": d.describe(), "point": eh.point_json(pt)}, False))
            else:
                # transcendental definitions: the model's own derivative (proven analytic in Proofs/Diff) evaluated in Lean Float
                try:
                    idx = drv.add({"op": "jacobians", "arith": "float", "ekf": eh.ekf_json(d, process, sensor), "point": eh.point_json(pt)})
                    pending.append((idx, got_all, {"def": d.describe(), "point": eh.point_json(pt)}, True))
                except gen.Untranslatable:
                    ctx.count("untranslatable_definition")
    ans = drv.run()
    for idx, got_all, info, is_float in pending:
        a = ans[idx]
        if "ok" not in a:
            if a.get("fatal") == "undefined":
                ctx.count("model_undefined_point"); continue
            ctx.broke("driver:jacobians", a, info); continue
        ctx.traces += 1
        ctx.count("model_jacobians_float" if is_float else "model_jacobians_exact")
        for which, got in got_all.items():
            model = a["ok"]["G"] if which == "process" else a["ok"]["V"] if which == "control" else a["ok"]["H"][which.split(":", 1)[1]]
            if is_float:
                import runtime_h as rh
                want = [[rh.bitsf(x) for x in r] for r in model]
                if not all(v == v and abs(v) != float("inf") for r in want for v in r):
                    ctx.count("model_undefined_point"); continue     # not differentiable here (nan/inf in the model's value)
                model = want
                want = [[F(v) for v in r] for r in want]
                ok = eh.mat_close(got, want, tol=1e-6)
            else:
                want = [[core.parse_frac(x) for x in r] for r in model]
                ok = eh.mat_close(got, want)
            if not ok:
                ctx.broke(f"correspondence:jacobians ({which}: Lean model vs implementation)", {"model": model, "impl": got.tolist()}, info)
    si_scaled_stream(ctx)
    edited_model_stream(ctx)
    numbered_names_stream(ctx)
    return core.finish(ctx, audit, NOTE, RULE, PARTIAL)


# ---------------------------------------------------------------------------------------------------------------------------
# deterministic streams (inputs fixed in the code; nothing is drawn from ctx.rng)
def _entries_close(got, want, tol=1e-9):
    """every entry relative to ITS OWN exact value (a matrix-wide scale hides entries that are small in the model's units);
    exact zeros are held to tol x the smallest non-zero entry of the matrix"""
    got = np.asarray(got, dtype=float)
    if got.shape != (len(want), len(want[0]) if want else 0) and got.size:
        return False
    if not np.all(np.isfinite(got)):
        return False
    nz = [abs(x) for r in want for x in r if x != 0]
    floor = float(min(nz)) if nz else 1.0
    for i, r in enumerate(want):
        for j, w in enumerate(r):
            w = float(w)
            if abs(float(got[i, j]) - w) > tol * (abs(w) if w != 0.0 else floor):
                return False
    return True


def _check_all_jacobians(ctx, ekf, d, pt, tag, extra, close=None, kinds=("process", "control", "sensor")):
    """process / control / every sensor Jacobian of `ekf` at `pt` against the exact derivatives of `d` by name"""
    close = close or eh.mat_close
    Ls, Lc, Lk = eh.names_of(d)
    um = {s.name: e for s, e in d.state_model.items()}
    sub = eh.subs_map(d, pt)
    st, ct = eh.state_obj(ekf, pt), eh.control_obj(ekf, pt)
    jobs = []
    if "process" in kinds:
        jobs.append(("process", lambda: ekf.process_jacobian(float(pt["dt"]), st, ct), lambda: eh.oracle_jac(um, Ls, Ls, sub), (len(Ls), len(Ls))))
    if "control" in kinds and Lc:
        jobs.append(("control", lambda: ekf.control_jacobian(float(pt["dt"]), st, ct), lambda: eh.oracle_jac(um, Ls, Lc, sub), (len(Ls), len(Lc))))
    if "sensor" in kinds:
        for key, rd in d.sensors.items():
            Lr = sorted(rd)
            jobs.append((f"sensor:{key}", (lambda key=key: ekf.sensor_jacobian(key, st)),
                         (lambda rd=rd, Lr=Lr: eh.oracle_jac(rd, Lr, Ls, sub)), (len(Lr), len(Ls))))
    for which, impl, oracle, shape in jobs:
        case = dict({"def": d.describe(), "point": eh.point_json(pt), "which": which, "shape": list(shape), "stream": tag}, **extra)
        ctx.case(case, nontrivial=(shape[0] != shape[1]) or bool(Lk))
        ctx.count(f"{tag}:{which.split(':')[0]}")
        kind = which.split(":")[0]
        try:
            with fk.quiet():
                got = np.asarray(impl(), dtype=float)
        except Exception as e:
            ctx.fail(f"jacobian-raises:{kind}:{fk.exc_kind(e)}:{tag}", f"{which} Jacobian raises {e!r}"[:300], case)
            continue
        try:
            want = oracle()
        except (ValueError, TypeError, OverflowError, ZeroDivisionError):
            ctx.count("not_differentiable_here"); continue
        if got.shape != tuple(shape) or not close(got, want):
            ctx.fail(f"jacobian-entry:{kind}:{tag}",
                     f"{which} Jacobian differs from the partial derivatives by name ({tag}): got {got.tolist()}, "
                     f"want {[[float(x) for x in r] for r in want]}", case)


def _si_definitions():
    S = sympy.Symbol
    R = sympy.Rational
    dt = S("dt")
    pos, vel, acc, c = S("pos"), S("vel"), S("acc"), S("c")
    # 1. range / range-rate radar in SI units: the speed of light is a calibration value
    radar = gen.Definition(dt, [pos, vel], [acc], [c], {pos: pos + dt * vel, vel: vel + dt * acc},
                           {"radar": {"doppler": vel / c, "tof": 2 * pos / c, "echo": pos + vel * R(1, 4)},
                            "odom": {"speed": vel}})
    # 2. the same factors written into the expressions: exact rationals and binary floating-point coefficients
    charge, volt, leak, amp = S("charge"), S("volt"), S("leak"), S("amp")
    circuit = gen.Definition(dt, [charge, volt, leak], [amp], [],
                             {charge: charge + dt * amp - dt * leak * R(1, 1000), volt: volt + charge * R(1, 4) * dt,
                              leak: leak + sympy.Float(2.5e-10) * volt * volt},
                             {"cap": {"farad": sympy.Float(4.7e-12) * volt, "energy": R(47, 10 ** 13) * volt ** 2 / 2 + charge},
                              "meter": {"ma": leak * 1000, "pc": charge * R(1, 10 ** 9) * R(3, 2)}})
    # 3. a small coefficient on a control and on a product of states
    a, b, u, w = S("a"), S("b"), S("u"), S("w")
    mixed = gen.Definition(dt, [a, b], [u, w], [c],
                           {a: a + dt * b + u * R(3, 10 ** 9), b: b * (1 - dt) + a * b * R(7, 10 ** 10) + w * u / c},
                           {"s": {"r1": a * b / c, "r2": a + b, "r3": (a - b) * R(1, 2 ** 30)}})
    return [("radar", radar), ("circuit", circuit), ("mixed", mixed)]


def si_scaled_stream(ctx):
    """true partial derivatives that are small in the model's units (and O(1) ones next to them): entry-wise relative"""
    light = F(299792458)
    for name, d in _si_definitions():
        cal = {s.name: light for s in d.calibration}
        process = {s.name: F(k + 1, 4) for k, s in enumerate(d.control)}
        sensor = {k: {r: F(j + 1, 8) for j, r in enumerate(sorted(rd))} for k, rd in d.sensors.items()}
        Ls, Lc, Lk = eh.names_of(d)
        pts = []
        for dtv, base in ((F(1, 500000000), 1), (F(1, 10), -2), (F(3, 10 ** 9), 3), (F(1, 64), 5)):
            pts.append({"dt": dtv, "cal": cal,
                        "state": {n: F(base * (k + 2), 2) for k, n in enumerate(Ls)},
                        "control": {n: F(base * (k + 1), 4) for k, n in enumerate(Lc)}})
        for cse in (False, True):
            try:
                ekf = eh.compile_ekf(d, process, sensor, cal, None, cse=cse)
            except Exception as e:
                ctx.fail(f"compile-ekf-raises:{fk.exc_kind(e)}:si-scaled", f"compile_ekf refuses a valid definition: {e!r}"[:300],
                         {"def": d.describe(), "stream": "si-scaled"})
                continue
            for pt in pts:
                _check_all_jacobians(ctx, ekf, d, pt, "si-scaled", {"model": name, "cse": cse}, close=_entries_close)


def _edited_histories():
    """(name, first definition, [(how, state_model of the next version)])  -  all versions over the same symbols"""
    S = sympy.Symbol
    R = sympy.Rational
    dt = S("dt")
    x, v, th, u, w, k = S("x"), S("v"), S("th"), S("u"), S("w"), S("k")
    sensors = {"gps": {"px": x + k, "sp": v * v, "mix": x * th}, "gyro": {"rate": th + v * R(1, 2)}}
    first = {x: x + dt * v, v: v + dt * u, th: th + dt * w}
    drag = {x: x + dt * v, v: v + dt * u - dt * v * v * R(1, 4), th: th + dt * w}            # a drag term on one state
    quad = {x: x + dt * v + u * w * R(1, 2), v: v + dt * u * u - dt * v * v * R(1, 4), th: th * (1 + dt * x) + w}   # control quadratic
    d0 = gen.Definition(dt, [x, v, th], [u, w], [k], dict(first), sensors)
    p, q, g = S("p"), S("q"), S("g")
    one = {p: p + dt * q, q: q + dt * g}
    two = {p: p + dt * q * q, q: q * (1 - dt) + 3 * dt * g}
    d1 = gen.Definition(dt, [p, q], [g], [], dict(one), {"s": {"a": p * q, "b": p - q, "c": q}})
    return [
        ("item-assign", d0, [("item", drag), ("item", quad)]),
        ("dict-replace", d0, [("replace", quad), ("replace", drag)]),
        ("edit-and-back", d1, [("item", two), ("item", one), ("replace", two)]),
    ]


def edited_model_stream(ctx):
    """one ui.Model OBJECT, compiled, edited in place, compiled again: each filter's Jacobians are the derivatives of the process
    model the object holds when that filter is built"""
    for hname, d0, edits in _edited_histories():
        cal = {s.name: F(3, 2) for s in d0.calibration}
        process = {s.name: F(k_ + 1, 4) for k_, s in enumerate(d0.control)}
        sensor = {key: {r: F(j + 1, 8) for j, r in enumerate(sorted(rd))} for key, rd in d0.sensors.items()}
        Ls, Lc, Lk = eh.names_of(d0)
        pts = [{"dt": dtv, "cal": cal, "state": {n: F(b * (i + 1), 2) for i, n in enumerate(Ls)},
                "control": {n: F(-b * (i + 2), 4) for i, n in enumerate(Lc)}} for dtv, b in ((F(1, 8), 1), (F(1, 2), -3))]
        for cse in (False, True):
            model = fk.ui_model(d0, None)
            versions = [("first", d0.state_model)] + list(edits)
            for step, (how, sm) in enumerate(versions):
                d = gen.Definition(d0.dt, d0.state, d0.control, d0.calibration, dict(sm), d0.sensors)
                if how == "item":
                    for s_, e_ in sm.items():
                        if model.state_model[s_] != e_:
                            model.state_model[s_] = e_
                elif how == "replace":
                    model.state_model = dict(sm)
                try:
                    ekf = eh.compile_ekf(d, process, sensor, cal, None, cse=cse, model_obj=model)
                except Exception as e:
                    ctx.fail(f"compile-ekf-raises:{fk.exc_kind(e)}:edited-model", f"compile_ekf refuses a valid definition: {e!r}"[:300],
                             {"def": d.describe(), "stream": "edited-model", "history": hname, "step": step})
                    break
                ctx.count("edited_model_compiles")
                for pt in pts:
                    _check_all_jacobians(ctx, ekf, d, pt, "edited-model", {"history": hname, "step": step, "how": how, "cse": cse})


def _numbered_definitions():
    S = sympy.Symbol
    R = sympy.Rational
    dt = S("dt")
    # 1. two states, two controls, two calibration values, readings: in each group the numbers have different digit counts
    x2, x10, u2, u10, k3, k12 = S("x2"), S("x10"), S("u2"), S("u10"), S("k3"), S("k12")
    pair = gen.Definition(dt, [x2, x10], [u2, u10], [k3, k12],
                          {x2: x2 + dt * x10 * x10 + dt * u2 * u2 * R(1, 2) + k3 * u10,
                           x10: x10 * (1 - x2 * R(1, 4)) + 3 * dt * u10 * x2 + k12 * x10},
                          {"s": {"r2": x2 * x10 + k12, "r10": x10 + x2 * x2 * k3, "r1": x10 * 3 - x2},
                           "t": {"only": x2 * x2 * x10}})
    # 2. eleven states x0..x10 (a chain, each one driven by the next and by its own square), one control
    xs = [S(f"x{i}") for i in range(11)]
    g = S("g")
    chain = {xs[i]: xs[i] + dt * (i + 1) * xs[(i + 1) % 11] + xs[i] * xs[i] * R(1, 8 + i) for i in range(11)}
    chain[xs[10]] = chain[xs[10]] + dt * g * xs[2]
    eleven = gen.Definition(dt, list(xs), [g], [], chain,
                            {"lidar": {"near": xs[2] * xs[10], "far": xs[10] + xs[1] * 2, "mid": xs[9] * xs[9] - xs[0]},
                             "tail": {"t": xs[10] * xs[10] * R(1, 2) + xs[3]}})
    # 3. numbers inside and at the end of names, leading zeros, controls only differing in digit count; no calibration
    z9, z10a, z010, a1b20, a1b3 = S("z9"), S("z10a"), S("z010"), S("a1b20"), S("a1b3")
    w100, w20, w3 = S("w100"), S("w20"), S("w3")
    mixed = gen.Definition(dt, [z9, z10a, z010, a1b20, a1b3], [w100, w20, w3], [],
                           {z9: z9 + dt * z10a * w3, z10a: z10a + dt * z010 * z010 + w20 * R(1, 2),
                            z010: z010 * (1 + dt * a1b20) + w100 * w3, a1b20: a1b20 + dt * a1b3 * z9,
                            a1b3: a1b3 - dt * a1b20 * a1b20 * R(1, 3) + w20 * w100 * dt},
                           {"cam": {"p10": z9 * a1b3, "p9": z10a - z010 * a1b20},
                            "imu": {"q": z010 * z010, "q2": a1b20 * z9 + a1b3, "q11": z10a * 5}})
    return [("pair", pair), ("eleven", eleven), ("mixed", mixed)]


def numbered_names_stream(ctx):
    """names that carry numbers of different digit counts: the layout is the library's NAME order (plain string order of the
    symbol names), and every entry is the partial derivative of the row's output with respect to the column's variable"""
    for name, d in _numbered_definitions():
        Ls, Lc, Lk = eh.names_of(d)
        cal = {n: F(2 * i + 3, 4) for i, n in enumerate(Lk)}
        process = {s.name: F(k_ + 1, 4) for k_, s in enumerate(d.control)}
        sensor = {key: {r: F(j + 1, 8) for j, r in enumerate(sorted(rd))} for key, rd in d.sensors.items()}
        # every coordinate has its own value (no two states / controls share one, so a permuted point is a different point)
        pts = [{"dt": dtv, "cal": cal, "state": {n: F(b * (2 * i + 1), 4) + i * i for i, n in enumerate(Ls)},
                "control": {n: F(-b * (3 * i + 2), 8) - i for i, n in enumerate(Lc)}} for dtv, b in ((F(1, 16), 1), (F(1, 10), -3))]
        for cse in (False, True):
            try:
                ekf = eh.compile_ekf(d, process, sensor, cal, None, cse=cse)
            except Exception as e:
                ctx.fail(f"compile-ekf-raises:{fk.exc_kind(e)}:numbered-names", f"compile_ekf refuses a valid definition: {e!r}"[:300],
                         {"def": d.describe(), "stream": "numbered-names", "model": name})
                continue
            ctx.count("numbered_names_filters")
            for pt in pts:
                _check_all_jacobians(ctx, ekf, d, pt, "numbered-names", {"model": name, "cse": cse})


def replay(ctx, data):
    import json
    print(json.dumps(data, indent=1)[:3000]); return 0
