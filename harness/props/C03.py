"""C03 — Python filter Jacobians are the true partial derivatives, laid out by name."""
from __future__ import annotations

import numpy as np
import sympy

from fractions import Fraction as F

import core
import ekf_h as eh
import fk
import gen

RULE = ("definitions with rectangular shapes forced (readings != states, calibration present in half), 0-3 controls; process, control "
        "and every sensor Jacobian at dyadic points; distinct by (definition, point, which); non-trivial = Jacobian not square or "
        "not symmetric, or calibration present")
NOTE = ["oracle: sympy diff by name (independent of the Lean Expr.diff the model uses), exact Fractions",
        "theorem entry_is_partial speaks about the model's symbolic derivative Expr.diff; that Expr.diff is the analytic derivative is "
        "validated against sympy on every instance (see Proofs/Diff if present), binary64 rounding under 1e-9 relative tolerance"]
PARTIAL = ["transcendental definitions: the model's derivative is evaluated in Lean Float (libm) and compared within 1e-6, no exact value"]


def run(ctx):
    audit = core.lean_audit("C03")
    drv = core.Driver()
    pending = []
    ndefs, npts = (14, 3) if ctx.quick else (150, 8)
    previous = None
    for i in range(ndefs):
        transcend = i % 5 == 4
        ns = ctx.rng.choice([1, 2, 3, 4])
        d = gen.gen_definition(ctx.rng, n_state=ns, n_calib=ctx.rng.choice([0, 1, 2]), n_sensors=ctx.rng.choice([1, 2]),
                               transcend=transcend)
        if transcend:
            gen.force_inverse_composition(ctx.rng, d)       # asin(sin u) etc.: derivative is not 1 off the principal branch
        if i == 2:
            d = gen.many_temporaries_definition(ctx.rng, n=7)   # Jacobian blocks with more than ten CSE temporaries
            ns = 7
        # force a sensor whose number of readings differs from the number of states
        k0 = next(iter(d.sensors))
        while len(d.sensors[k0]) == ns or (ns + len(d.calibration) == len(d.sensors[k0])):
            r = gen.fresh_names(ctx.rng, 1, {s.name for s in d.all_symbols()} | set(d.sensors[k0]))[0]
            d.sensors[k0][r] = sympy.sympify(gen.gen_expr(ctx.rng, d.state + d.calibration, 2, [])) + ctx.rng.choice(d.state)
        process, sensor = eh.make_noises(ctx.rng, d)
        pts = [gen.gen_point(ctx.rng, d) for _ in range(npts)]
        if transcend:
            # points well outside (-pi/2, pi/2) in every state: inverse-of-periodic compositions are off their principal branch
            for val in (F(5, 2), F(-4)):
                pts.append({"dt": pts[0]["dt"], "cal": pts[0]["cal"], "control": dict(pts[0]["control"]), "state": {n_: val for n_ in pts[0]["state"]}})
        cal = pts[0]["cal"]
        cse = ctx.rng.random() < 0.5 or i == 2       # (the many-temporaries definition only makes sense with CSE on)
        try:
            ekf = eh.compile_ekf(d, process, sensor, cal, ctx.rng, cse=cse)
        except Exception as e:
            ctx.fail(f"compile-ekf-raises:{fk.exc_kind(e)}", f"compile_ekf refuses a valid definition: {e!r}"[:300], {"def": d.describe()})
            continue
        Ls, Lc, Lk = eh.names_of(d)
        um = {s.name: e for s, e in d.state_model.items()}
        rational = eh.is_rational(d)
        # a filter built EARLIER in this process still answers for its own sensors after this one was built (same sensor keys)
        if previous is not None:
            pekf, pd, ppt, pLs = previous
            psub = eh.subs_map(pd, ppt)
            pst = eh.state_obj(pekf, ppt)
            for key, rd in pd.sensors.items():
                Lr = sorted(rd)
                case = {"def": pd.describe(), "point": eh.point_json(ppt), "which": f"sensor:{key}", "after_building": d.describe()}
                ctx.case(case, True); ctx.count("earlier_filter_revisited")
                try:
                    with fk.quiet():
                        got = np.asarray(pekf.sensor_jacobian(key, pst), dtype=float)
                    want = eh.oracle_jac(rd, Lr, pLs, psub)
                except Exception as e:
                    ctx.fail(f"jacobian-raises:sensor:{fk.exc_kind(e)}:earlier-filter", f"sensor Jacobian of a filter built earlier raises {e!r}"[:300], case)
                    continue
                if got.shape != (len(Lr), len(pLs)) or not eh.mat_close(got, want):
                    ctx.fail("jacobian-entry:sensor:earlier-filter", f"{key}: the sensor Jacobian of a filter built earlier in the process changed after another "
                             f"filter was built: got {got.tolist()}, want {[[float(x) for x in r] for r in want]}", case)
        if not transcend:
            previous = (ekf, d, dict(pts[0], cal=cal), Ls)
        # consecutive evaluation points on the same filter that differ in ONE coordinate only (values -1, -2, 1, 2)
        from fractions import Fraction as _F
        base = dict(pts[0])
        sweep = []
        for grp, names in (("state", [x.name for x in d.state]), ("control", [x.name for x in d.control])):
            for nme in names[:2]:
                for val in (-1, -2, 2, 1):
                    q = {"dt": base["dt"], "cal": cal, "state": dict(base["state"]), "control": dict(base["control"])}
                    q[grp][nme] = _F(val)
                    sweep.append(q)
        # an evaluation point handed over as an INTEGER array (from_data only looks at the shape): the same point as with floats
        ipt = {"dt": pts[0]["dt"], "cal": cal, "control": dict(pts[0]["control"]), "int_array_state": True,
               "state": {nme: _F(ctx.rng.randint(-3, 3)) for nme in Ls}}
        for pt in pts + sweep + [ipt]:
            pt = dict(pt, cal=cal)
            sub = eh.subs_map(d, pt)
            st, ct = eh.state_obj(ekf, pt), eh.control_obj(ekf, pt)
            if pt.get("int_array_state"):
                st = ekf.State.from_data(np.array([[int(pt["state"][nme])] for nme in Ls], dtype=np.int64))
                ctx.count("integer_array_state")
            jobs = [("process", lambda: ekf.process_jacobian(float(pt["dt"]), st, ct), lambda: eh.oracle_jac(um, Ls, Ls, sub), (len(Ls), len(Ls))),
                    ("control", lambda: ekf.control_jacobian(float(pt["dt"]), st, ct), lambda: eh.oracle_jac(um, Ls, Lc, sub), (len(Ls), len(Lc)))]
            for key, rd in d.sensors.items():
                Lr = sorted(rd)
                jobs.append((f"sensor:{key}", (lambda key=key: ekf.sensor_jacobian(key, st)),
                             (lambda rd=rd, Lr=Lr: eh.oracle_jac(rd, Lr, Ls, sub)), (len(Lr), len(Ls))))
            got_all = {}
            for which, impl, oracle, shape in jobs:
                case = {"def": d.describe(), "cse": cse, "point": eh.point_json(pt), "which": which, "shape": list(shape)}
                ctx.case(case, nontrivial=(shape[0] != shape[1]) or bool(Lk))
                ctx.count(f"shape={shape[0]}x{shape[1]}"); ctx.count("kind=" + which.split(":")[0])
                try:
                    with fk.quiet():
                        got = np.asarray(impl(), dtype=float)
                except Exception as e:
                    ctx.fail(f"jacobian-raises:{which.split(':')[0]}:{fk.exc_kind(e)}", f"{which} Jacobian raises {e!r}"[:300], case)
                    continue
                try:
                    want = oracle()
                except (ValueError, TypeError, OverflowError, ZeroDivisionError):
                    # the symbolic derivative has no finite value here (e.g. d/dx of a root at 0): the property is stated for
                    # points where the model is differentiable
                    ctx.count("not_differentiable_here"); continue
                got_all[which] = got
                if got.shape != tuple(shape) or not eh.mat_close(got, want):
                    kind = "rect" if shape[0] != shape[1] else "square"
                    ctx.fail(f"jacobian-entry:{which.split(':')[0]}:{kind}",
                             f"{which} Jacobian differs from the partial derivatives by name: got {got.tolist()}, want {[[float(x) for x in r] for r in want]}",
                             case)
            if rational:
                idx = drv.add({"op": "jacobians", "ekf": eh.ekf_json(d, process, sensor), "point": eh.point_json(pt)})
                pending.append((idx, got_all, {"def": d.describe(), "point": eh.point_json(pt)}, False))
            else:
                # transcendental definitions: the model's own derivative (proven analytic in Proofs/Diff) evaluated in Lean Float
                try:
                    idx = drv.add({"op": "jacobians", "arith": "float", "ekf": eh.ekf_json(d, process, sensor), "point": eh.point_json(pt)})
                    pending.append((idx, got_all, {"def": d.describe(), "point": eh.point_json(pt)}, True))
                except gen.Untranslatable:
                    ctx.count("untranslatable_definition")
    ans = drv.run()
    for idx, got_all, info, is_float in pending:
        a = ans[idx]
        if "ok" not in a:
            if a.get("fatal") == "undefined":
                ctx.count("model_undefined_point"); continue
            ctx.broke("driver:jacobians", a, info); continue
        ctx.traces += 1
        ctx.count("model_jacobians_float" if is_float else "model_jacobians_exact")
        for which, got in got_all.items():
            model = a["ok"]["G"] if which == "process" else a["ok"]["V"] if which == "control" else a["ok"]["H"][which.split(":", 1)[1]]
            if is_float:
                import runtime_h as rh
                want = [[rh.bitsf(x) for x in r] for r in model]
                if not all(v == v and abs(v) != float("inf") for r in want for v in r):
                    ctx.count("model_undefined_point"); continue     # not differentiable here (nan/inf in the model's value)
                model = want
                want = [[F(v) for v in r] for r in want]
                ok = eh.mat_close(got, want, tol=1e-6)
            else:
                want = [[core.parse_frac(x) for x in r] for r in model]
                ok = eh.mat_close(got, want)
            if not ok:
                ctx.broke(f"correspondence:jacobians ({which}: Lean model vs implementation)", {"model": model, "impl": got.tolist()}, info)
    return core.finish(ctx, audit, NOTE, RULE, PARTIAL)


def replay(ctx, data):
    import json
    print(json.dumps(data, indent=1)[:3000]); return 0
