"""C13 — values are bound by name, never by position or spelling."""
from __future__ import annotations

from fractions import Fraction as F

import numpy as np
import sympy

import core
import cppgen
import ekf_h as eh
import runtime_h as rh
import fk
import gen
from props import C01

RULE = ("(a) constructor round-trips of named_vector / named_covariance / make_reading on adversarial name lists (keyword subsets, unknown "
        "names, wrong shapes) vs the Lean bindVec/bindCov/fromData; (b) metamorphic: each definition and a renamed twin whose sort order "
        "is permuted, and a re-declared twin (shuffled order, set vs list), through the Python model and filter (predict, update) and the "
        "generated C++ (model, predict, update via named accessors); distinct by (definition, renaming, input); non-trivial = renaming "
        "permutes the state layout; (c) fixed stream fit-declaration-order: SklearnEKFAdapter estimators over the same model, noises and data that differ "
        "only in the order in which the readings of a sensor are written in its sensor_noises dict (2-3 readings with case/digit/underscore "
        "names, unequal noises): score before fit and the fitted noises read back by name agree with the name-ordered declaration; "
        "(d) fixed stream from-data-same-count: arrays holding the right NUMBER of values in the wrong shape (row / flat / block / extra axis "
        "for vectors, column / flat / row for covariances; on bare named types and on a compiled filter's State, Control, Covariance and "
        "make_reading(data=)) are rejected, and the exact shape is accepted with every value read back under its own name; "
        "(e) fixed stream numbered-names-cpp: one fixed model over letters-only names and its twins under renamings to NUMBERED names whose "
        "plain string order differs from their numeric order (p1/p2/p10, u2/u10, k9/k10, x_9/x_10/x_100, c2b/c10b) through the generated C++: "
        "a value given to StateOptions / ControlOptions / CalibrationOptions under a name is the value the accessor of that name reads and "
        "the value the model uses for that symbol (exact rational evaluation of the model, one role varied at a time), and every named "
        "output of predict / update agrees with the letters-only original")
NOTE = ["renaming invariance is a theorem about the model (C13.rename_invariant, via the by-name refinement of C01); the harness checks the "
        "implementation's named outputs for original vs twin directly (oracle) and against the Lean model",
        "fit-declaration-order is metamorphic (the name-ordered declaration is the reference; a reference fit that does not converge is "
        "counted and skipped); from-data-same-count uses the statement itself as the oracle (shape equality, values by name); neither "
        "draws from the shared random stream",
        "numbered-names-cpp: the oracle for the model value is exact sympy arithmetic on the definition (independent of the library); the "
        "other named outputs are compared with the letters-only original (metamorphic); inputs are fixed, a private generator only "
        "shuffles declaration order"]
PARTIAL = ["C++ side observed through g++ and the Eigen stand-in"]


def ctor_cases(ctx, drv, pending):
    from formak import common
    n = 40 if ctx.quick else 400
    for _ in range(n):
        L = sorted(gen.fresh_names(ctx.rng, ctx.rng.randint(1, 5)))
        extra = gen.fresh_names(ctx.rng, 1, set(L))[0]
        if ctx.rng.random() < 0.6:
            # an unknown name that is a fragment (prefix / suffix / infix), an extension or a re-casing of a declared one
            base = ctx.rng.choice(L)
            i, j = sorted(ctx.rng.sample(range(len(base) + 1), 2)) if len(base) >= 1 else (0, 0)
            cands = [base[i:j], base[:max(1, len(base) - 1)], base[1:], base + "_", base + base[-1:], base.swapcase(), base[:1]]
            cands = [c for c in cands if c and c not in L and c.isidentifier()]
            if cands:
                extra = ctx.rng.choice(cands)
        kind = ctx.rng.choice(["vector", "covariance"])
        keys = ctx.rng.sample(L, ctx.rng.randint(0, len(L)))
        if ctx.rng.random() < 0.45:
            keys.append(extra)
        ctx.rng.shuffle(keys)
        kw = {k: gen.dyadic(ctx.rng) if kind == "vector" else abs(gen.dyadic(ctx.rng)) + 1 for k in keys}
        for k in keys:
            if ctx.rng.random() < 0.25:
                kw[k] = F(0)          # zero is a value like any other (a zero variance is not "unset")
        cls = (common.named_vector if kind == "vector" else common.named_covariance)("X", [sympy.Symbol(x) for x in L])
        case = {"kind": kind, "L": L, "kw": {k: core.frac_str(v) for k, v in kw.items()}}
        ctx.case(case, nontrivial=len(L) >= 2)
        ctx.count(f"ctor={kind}"); ctx.count("unknown_key" if extra in kw else "known_keys")
        try:
            obj = cls(**{k: float(v) for k, v in kw.items()})
            got = np.asarray(obj.data, dtype=float).tolist()
        except TypeError:
            got = "unknown-key"
        # oracle
        if extra in kw:
            want = "unknown-key"
        elif kind == "vector":
            want = [[float(kw.get(x, 0))] for x in L]
        else:
            want = [[float(kw.get(a, 1)) if a == b else 0.0 for b in L] for a in L]
        if got != want:
            ctx.fail(f"ctor:{kind}", f"{kind} constructed from {case['kw']} over {L} gives {got}, expected {want}", case)
        idx = drv.add({"op": "bind", "L": L, "kw": [[k, core.frac_str(v)] for k, v in kw.items()], "kind": kind})
        pending.append(("bind", idx, got, case))
        # from_data shape
        rows = ctx.rng.choice([len(L), len(L), len(L) + 1, max(0, len(L) - 1)])
        shape = (rows, 1) if kind == "vector" else (rows, rows)
        try:
            cls.from_data(np.zeros(shape)); gshape = "ok"
        except ValueError:
            gshape = "bad-shape"
        if (gshape == "ok") != (rows == len(L)):
            ctx.fail(f"from-data-shape:{kind}", f"from_data with shape {shape} over {len(L)} names: {gshape}", case)
        if kind == "vector":
            idx = drv.add({"op": "fromdata", "L": L, "rows": rows})
            pending.append(("fromdata", idx, gshape, dict(case, rows=rows)))


def named_run(d, pt, cal, rng, container, P, ui_kwargs=None):
    """model value, predicted state/cov, updated state/cov per sensor — all by name"""
    process, sensor = d._noise
    ekf = eh.compile_ekf(d, process, sensor, cal, rng, cse=True, container=container, ui_kwargs=ui_kwargs)
    out = {}
    with fk.quiet():
        st, ct, cv = eh.state_obj(ekf, pt), eh.control_obj(ekf, pt), eh.cov_obj_named(ekf, P)
        out["model"] = fk.by_name(ekf._state_model.model(float(pt["dt"]), st, ct))
        r = ekf.process_model(float(pt["dt"]), st, cv, ct)
        out["predict_state"] = fk.by_name(r.state)
        out["predict_cov"] = fk.cov_by_name(r.covariance)
        for key, rd in d.sensors.items():
            z = ekf.make_reading(key, **{rn: 0.5 for rn in rd})
            u = ekf.sensor_model(st, cv, sensor_key=key, sensor_reading=z)
            out[f"update_state:{key}"] = fk.by_name(u.state)
            out[f"update_cov:{key}"] = fk.cov_by_name(u.covariance)
    return out


class ConstAccessorMismatch(Exception):
    pass


def cpp_named(d, exe, pt, P_by_name, z_by_sensor):
    """named outputs of the generated C++: rows/cols are mapped to names through the accessors' own slots"""
    Ls = sorted(s.name for s in d.state)
    lay = cppgen.run_exe(exe, ["layout"])[0]
    problems = cppgen.const_read_problems(lay, d)
    if problems:
        raise ConstAccessorMismatch("; ".join(problems[:3]))
    slot = {s: int(lay[f"state.{s}"]) for s in Ls}
    cslot = {s: int(lay[f"cov.{s}"]) for s in Ls}
    inv = {v: k for k, v in cslot.items()}
    P = [[P_by_name[(inv[i], inv[j])] for j in range(len(Ls))] for i in range(len(Ls))]
    lines = [cppgen.point_line("predict", d, pt, P)]
    for key in sorted(d.sensors):
        lines.append(cppgen.point_line(f"update:{key}", d, pt, P, z_by_sensor[key]))
    outs = cppgen.run_exe(exe, lines)
    res = {"model": {s: rh.bitsf(outs[0][f"model.{s}"]) for s in Ls},
           "predict_state": {s: rh.bitsf(outs[0][f"state.{s}"]) for s in Ls},
           "predict_cov": {(a, b): rh.bitsf(outs[0][f"cov.{cslot[a]}.{cslot[b]}"]) for a in Ls for b in Ls}}
    for key, o in zip(sorted(d.sensors), outs[1:]):
        res[f"update_state:{key}"] = {s: rh.bitsf(o[f"state.{s}"]) for s in Ls}
        res[f"update_cov:{key}"] = {(a, b): rh.bitsf(o[f"cov.{cslot[a]}.{cslot[b]}"]) for a in Ls for b in Ls}
    return res


def cpp_twins(ctx):
    ndefs = 3 if ctx.quick else 20
    jobs, metas = [], []
    for i in range(ndefs):
        d = gen.gen_definition(ctx.rng, n_state=ctx.rng.choice([2, 3]), n_control=ctx.rng.choice([0, 1]), n_calib=ctx.rng.choice([0, 1]),
                               n_sensors=1, depth=2, max_readings=2)
        d._kind = "ekf"
        process, sensor = eh.make_noises(ctx.rng, d)
        pt = gen.gen_point(ctx.rng, d)
        m = gen.gen_renaming(ctx.rng, d)
        k0 = sorted(d.sensors)[0]
        while len(d.sensors[k0]) < 2:   # a sensor with two readings, so that declaration order of readings matters
            d.sensors[k0][gen.fresh_names(ctx.rng, 1, {x.name for x in d.all_symbols()} | set(d.sensors[k0]))[0]] = d.state[0] * 2 + d.state[-1]
        process, sensor = eh.make_noises(ctx.rng, d)
        d2 = d.renamed(m); d2._kind = "ekf"
        gen.unsort_readings(d2)          # the twin also declares its readings in the opposite order
        d.sensors = {k: {r: d.sensors[k][r] for r in sorted(d.sensors[k])} for k in sorted(d.sensors)}
        process2 = {m[k]: v for k, v in process.items()}
        pt2 = {"dt": pt["dt"], "state": {m[k]: v for k, v in pt["state"].items()}, "control": {m[k]: v for k, v in pt["control"].items()},
               "cal": {m[k]: v for k, v in pt["cal"].items()}}
        try:
            # every other pair: the symbols carry a sympy assumption (declared real); they are still the model's symbols
            assume = {"real": True} if i % 2 == 1 else None
            g1 = cppgen.generate(d, process, sensor, pt["cal"], ctx.scratch, f"r{i}a", filtering=None, rng=ctx.rng, symbol_assumptions=assume,
                                 noise_keys="symbol" if i % 2 == 0 else "same")
            g2 = cppgen.generate(d2, process2, sensor, pt2["cal"], ctx.scratch, f"r{i}b", filtering=None, rng=ctx.rng, container="list",
                                 symbol_assumptions=assume)
        except Exception as e:
            ctx.fail(f"cpp-generate-raises:{fk.exc_kind(e)}", f"C++ generation raises {e!r}"[:300], {"def": d.describe()})
            continue
        jobs += [(g1, d, None), (g2, d2, None)]
        metas.append((d, d2, m, pt, pt2, process, sensor))
    built = cppgen.build_many(jobs)
    for k, (d, d2, m, pt, pt2, process, sensor) in enumerate(metas):
        (e1, err1), (e2, err2) = built[2 * k], built[2 * k + 1]
        case = {"def": d.describe(), "kind": "rename-cpp", "renaming": m, "point": eh.point_json(pt)}
        Ls = sorted(s.name for s in d.state)
        permuted = [m[x] for x in Ls] != sorted(m[x] for x in Ls)
        ctx.case(case, nontrivial=permuted); ctx.count("twin=rename-cpp")
        if e1 is None or e2 is None:
            ctx.fail("generated-cpp-does-not-compile", (err1 or err2)[-400:], case); continue
        Pn = eh.spd(ctx.rng, len(Ls))
        P = {(a, b): Pn[i][j] for i, a in enumerate(Ls) for j, b in enumerate(Ls)}
        P2 = {(m[a], m[b]): v for (a, b), v in P.items()}
        z = {key: {r: 0.5 for r in rd} for key, rd in d.sensors.items()}
        try:
            base = cpp_named(d, e1, pt, P, z)
            tw = cpp_named(d2, e2, pt2, P2, z)
        except ConstAccessorMismatch as e:
            ctx.fail("cpp-const-accessor", f"generated C++: a value read by name through a const reference is not the value stored under that name: {e}", case)
            continue
        except Exception as e:
            ctx.fail("generated-cpp-crashes", repr(e)[:300], case); continue
        # the generated C++ and the Python filter store the same values under the same names (here: the updated covariances, which
        # carry the per-reading noises)
        try:
            d._noise = (process, sensor)
            py = named_run(d, pt, pt["cal"], ctx.rng, "set", P)
            for what in [w for w in base if w.startswith("update_cov")]:
                scl = max(abs(x) for x in py[what].values())
                badk = [kk for kk, vv in py[what].items() if not core.close(base[what].get(kk, float("nan")), vv, scale=scl)]
                if badk:
                    ctx.fail("rename:cpp-vs-python:update_cov", f"{what}[{badk[0]}]: generated C++ gives {base[what].get(badk[0])!r}, the Python filter {py[what][badk[0]]!r}", case)
                    break
        except Exception as e:
            ctx.fail(f"run-raises:{fk.exc_kind(e)}", repr(e)[:300], case)
        for what, vals in base.items():
            for key, v in vals.items():
                k2 = (m[key[0]], m[key[1]]) if isinstance(key, tuple) else m[key]
                if not core.close(tw[what].get(k2, float("nan")), v, scale=max(abs(x) for x in vals.values())):
                    ctx.fail(f"rename:cpp:{what.split(':')[0]}", f"C++ {what}[{key}] = {v!r} but the renamed twin gives [{k2}] = {tw[what].get(k2)!r}", case)
                    break


def default_constructed(ctx):
    """an object constructed with no named values holds the defaults (zeros; unit variances) whatever the filter has computed before,
    and is a value of its own: writing into one does not show in the next one"""
    for i in range(2 if ctx.quick else 12):
        d = gen.gen_definition(ctx.rng, n_state=2, n_control=0, n_calib=0, n_sensors=1, depth=1, max_readings=2)
        key = sorted(d.sensors)[0]
        rd0 = sorted(d.sensors[key])[0]
        d.sensors[key][rd0] = d.sensors[key][rd0] + 3           # the prediction at the zero state is not zero
        process, sensor = eh.make_noises(ctx.rng, d)
        pt = gen.gen_point(ctx.rng, d)
        case = {"def": d.describe(), "op": "default-constructed"}
        ctx.case(case, True); ctx.count("default_constructed")
        try:
            with fk.quiet():
                ekf = eh.compile_ekf(d, process, sensor, {}, ctx.rng, cse=True)
                st = eh.state_obj(ekf, pt)
                ekf.sensor_model(st, ekf.Covariance(), sensor_key=key, sensor_reading=ekf.make_reading(key, **{r: 0.5 for r in d.sensors[key]}))
                ekf.sensor_models[key].model(st)
                fresh = {"reading": ekf.make_reading(key), "state": ekf.State(), "covariance": ekf.Covariance()}
                m = len(d.sensors[key]); n = len(d.state)
                want = {"reading": np.zeros((m, 1)), "state": np.zeros((n, 1)), "covariance": np.eye(n)}
                for what, obj in fresh.items():
                    if not np.array_equal(np.asarray(obj.data, dtype=float), want[what]):
                        ctx.fail(f"default-not-default:{what}", f"a {what} constructed with no values after the filter was used holds "
                                 f"{np.asarray(obj.data).tolist()}", dict(case, what=what))
                first = ekf.make_reading(key)
                first.data[0, 0] = 7.0
                second = ekf.make_reading(key)
                if float(np.asarray(second.data)[0, 0]) != 0.0:
                    ctx.fail("default-shared:reading", "writing into one default-constructed reading shows in the next default-constructed reading", case)
        except Exception as e:
            ctx.fail(f"run-raises:{fk.exc_kind(e)}", f"filter over a valid definition raises {e!r}"[:300], case)


def foreign_objects(ctx):
    """a state / covariance built for ANOTHER model's names (same count, other spelling) is not a state of this model: handing it
    to this model's operations must be refused, not consumed slot by slot"""
    for i in range(3 if ctx.quick else 20):
        d = gen.gen_definition(ctx.rng, n_state=ctx.rng.choice([2, 3]), n_control=0, n_calib=0, n_sensors=1, depth=1, max_readings=1)
        m = gen.gen_renaming(ctx.rng, d)
        if any(m[s.name] == s.name for s in d.state):
            continue
        d2 = d.renamed(m)
        for dd in (d, d2):
            dd._noise = eh.make_noises(__import__("random").Random(i), dd)
        pt = gen.gen_point(ctx.rng, d)
        try:
            with fk.quiet():
                a = eh.compile_ekf(d, d._noise[0], d._noise[1], {}, ctx.rng, cse=True)
                b = eh.compile_ekf(d2, d2._noise[0], d2._noise[1], {}, ctx.rng, cse=True)
        except Exception as e:
            ctx.fail(f"run-raises:{fk.exc_kind(e)}", f"filter over a valid definition raises {e!r}"[:300], {"def": d.describe()}); continue
        st_a, cv_a = eh.state_obj(a, pt), a.Covariance()
        st_b = b.State(**{m[k]: float(v) for k, v in pt["state"].items()})
        cv_b = b.Covariance()
        key = sorted(d.sensors)[0]
        ops = {"Model.model(foreign state)": lambda: a._state_model.model(0.1, st_b),
               "process_model(foreign state)": lambda: a.process_model(0.1, st_b, cv_a),
               "process_model(foreign covariance)": lambda: a.process_model(0.1, st_a, cv_b),
               "sensor_model(foreign state)": lambda: a.sensor_model(st_b, cv_a, sensor_key=key, sensor_reading=a.make_reading(key, **{r: 0.5 for r in d.sensors[key]}))}
        for label, op in ops.items():
            case = {"def": d.describe(), "other_spelling": m, "operation": label}
            ctx.case(case, True); ctx.count("foreign_object_operations")
            try:
                with fk.quiet():
                    op()
            except Exception:
                continue
            ctx.fail("foreign-object-accepted", f"{label}: an object built for the names {sorted(m.values())} was accepted by a model over {sorted(m)} "
                     "(its values are then used by position)", case)


def fit_declaration_order(ctx):
    """the noises an estimator is declared with - and the noises fit() leaves it with - belong to the reading NAMES: writing the
    readings of a sensor in its sensor_noises dict in another order changes nothing that is read back by name"""
    from formak import python, ui
    dt = ui.Symbol("dt")

    def cart():
        x, v, a = ui.symbols(["x", "v", "a"])
        return (dict(dt=dt, state={x, v}, control={a}, state_model={x: x + dt * v, v: v + dt * a}), {a: 1.0},
                {"gps": {"pos": x, "vel": v}})

    def traps():
        p, q, u = ui.symbols(["B_1", "B1", "u"])
        return (dict(dt=dt, state={p, q}, control={u}, state_model={p: p + dt * q, q: q + dt * u}), {u: 0.25},
                {"s_B": {"Zb": p, "a1": q, "a_1": p + q}})

    # noises by name; unequal inside a sensor, so that a value landing on another reading is a different filter.  Only the order of
    # the readings INSIDE a sensor is varied: there the reference and the twin run the same arithmetic, whereas another order of the
    # sensors reorders a floating-point sum inside score(), which the optimiser may amplify (no statement about that is made here)
    streams = [("cart", cart, {"gps": {"pos": 0.25, "vel": 4.0}}, 8, [("reversed", lambda ks: ks[::-1])]),
               ("trap-names", traps, {"s_B": {"Zb": 3.0, "a1": 10.0, "a_1": 6.0}}, 6,
                [("reversed", lambda ks: ks[::-1]), ("rotated", lambda ks: ks[1:] + ks[:1])])]
    for label, build, noises, rows, orders in streams:
        data_rng = np.random.default_rng(1313)
        n_read = sum(len(v) for v in noises.values())
        # columns: the control, then the readings of each sensor in name order (sensors in name order); readings of unequal spread
        X = np.column_stack([np.zeros(rows)] + [data_rng.normal(scale=0.5 * (1 + j), size=rows) for j in range(n_read)])

        def estimator(order):
            kw, process, sensors = build()
            declared = {k: {r: float(noises[k][r]) for r in order(sorted(noises[k]))} for k in sorted(noises)}
            return python.SklearnEKFAdapter(ui.Model(**kw), process_noise=dict(process), sensor_models={k: dict(v) for k, v in sensors.items()},
                                            sensor_noises=declared, config=python.Config()), declared

        def fitted(order):
            est, declared = estimator(order)
            with fk.quiet():
                pre = float(est.score(X))
                est.fit(X)
            return pre, {k: {str(r): float(v) for r, v in est.sensor_noises[k].items()} for k in est.sensor_noises}, \
                {k: list(v) for k, v in declared.items()}

        try:
            ref_pre, ref_fit, _ = fitted(lambda ks: list(ks))
        except Exception as e:
            if type(e).__name__ == "MinimizationFailure":
                ctx.count("fit_order_reference_did_not_converge"); continue
            ctx.fail(f"adapter-raises:{fk.exc_kind(e)}:fit-order", f"fit over a valid model and finite data raises {e!r}"[:300], {"stream": label}); continue
        for oname, order in orders:
            case = {"stream": "fit-declaration-order", "model": label, "noises_by_name": noises, "declaration_order": oname, "rows": rows}
            ctx.case(case, True); ctx.count("stream=fit-declaration-order")
            try:
                pre, fit, written = fitted(order)
            except Exception as e:
                ctx.fail(f"fit-order-raises:{fk.exc_kind(e)}", f"with the noise dicts written {oname} ({label}) fit raises {e!r}, with the "
                         "name-ordered dicts it returns"[:400], case)
                continue
            case = dict(case, written=written)
            if not np.isclose(pre, ref_pre, rtol=1e-9, atol=1e-12):
                ctx.fail("fit-order:score-before-fit", f"score before fit is {pre!r} with the noise dicts written {oname}, {ref_pre!r} in name order", case)
                continue
            bad = [(k, r) for k in ref_fit for r in ref_fit[k]
                   if set(fit) != set(ref_fit) or set(fit[k]) != set(ref_fit[k]) or not np.isclose(fit[k][r], ref_fit[k][r], rtol=1e-6, atol=1e-9)]
            if bad:
                k, r = bad[0]
                ctx.fail("fit-order:fitted-noise", f"fitted noise of reading {r!r} of sensor {k!r} is {fit.get(k, {}).get(r)!r} with the noise dicts written "
                         f"{oname} and {ref_fit[k][r]!r} written in name order (same names, same values, same data)", case)


def from_data_same_count(ctx, drv=None, pending=None):
    """an array with the right NUMBER of values but another shape is a wrong shape: it is rejected, not re-laid-out; the exact
    shape is accepted and each value is then read back under its own name"""
    from formak import common, python, ui
    pool = ["Zb", "a1", "a_1", "B", "zb"]

    def wrong_shapes(kind, n):
        if kind == "vector":
            cands = [(n,), (1, n), (n, 1, 1), (1, n, 1)] + ([(2, 2)] if n == 4 else [])
            right = (n, 1)
        else:
            cands = [(n * n,), (n * n, 1), (1, n * n), (n, n, 1)]
            right = (n, n)
        return [s for s in dict.fromkeys(cands) if s != right], right

    def model_says(case, kind, names, shape, impl):
        # the Lean model (fromDataND / fromCovND, the object of C13.shape_nd) is asked the same question
        if drv is not None:
            pending.append(("fromdata_nd", drv.add({"op": "fromdata_nd", "L": names, "kind": kind, "shape": list(shape)}), impl, case))

    def probe(label, kind, cls, from_data, read_back):
        names = [str(a) for a in cls._arglist]       # the type's own layout: position i of exactly shaped data is its i-th name
        n = len(names)
        wrong, right = wrong_shapes(kind, n)
        count = n if kind == "vector" else n * n
        values = np.arange(1.0, count + 1.0)
        if kind == "covariance":       # a symmetric positive definite table of distinct entries
            values = (np.arange(1.0, n * n + 1.0).reshape((n, n)) + np.arange(1.0, n * n + 1.0).reshape((n, n)).T) / 8.0 + n * n * np.eye(n)
        for shape in wrong:
            case = {"stream": "from-data-same-count", "through": label, "kind": kind, "names": names, "offered_shape": list(shape), "type_shape": list(right)}
            ctx.case(case, True); ctx.count("stream=from-data-same-count"); ctx.count(f"same_count_wrong_shape={kind}")
            try:
                with fk.quiet():
                    obj = from_data(np.array(values, dtype=float).reshape(shape))
            except Exception:
                model_says(case, kind, names, shape, "bad-shape")
                continue
            model_says(case, kind, names, shape, "ok")
            ctx.fail(f"from-data-same-count:{kind}", f"{label}: data of shape {shape} offered for the shape {right} over {names} is accepted and "
                     f"stored as {np.asarray(getattr(obj, 'data', obj)).tolist()}", case)
        case = {"stream": "from-data-same-count", "through": label, "kind": kind, "names": names, "offered_shape": list(right), "type_shape": list(right)}
        ctx.case(case, n >= 2); ctx.count("from_data_exact_shape")
        try:
            with fk.quiet():
                got = read_back(from_data(np.array(values, dtype=float).reshape(right)))
        except Exception as e:
            ctx.fail(f"from-data-exact-shape-raises:{kind}", f"{label}: data of the exact shape {right} raises {e!r}"[:300], case)
            return
        want = ({a: float(values[i]) for i, a in enumerate(names)} if kind == "vector"
                else {(a, b): float(values[i, j]) for i, a in enumerate(names) for j, b in enumerate(names)})
        model_says(case, kind, names, right, "ok")
        if got != want:
            ctx.fail(f"from-data-exact-shape:{kind}", f"{label}: data of the exact shape read back by name gives {got}, expected {want}", case)

    for n in range(1, 5):
        names = sorted(pool[:n])
        vec, cov = common.named_vector("X", [sympy.Symbol(x) for x in names]), common.named_covariance("X", [sympy.Symbol(x) for x in names])
        probe("named_vector", "vector", vec, vec.from_data, fk.by_name)
        probe("named_covariance", "covariance", cov, cov.from_data, fk.cov_by_name)
    # the same through the types of a compiled filter
    dt = ui.Symbol("dt")
    p, q, w, u, t = ui.symbols(["B_1", "B1", "b", "u", "U_2"])
    try:
        with fk.quiet():
            ekf = python.compile_ekf(
                ui.Model(dt=dt, state={p, q, w}, control={u, t}, state_model={p: p + dt * q, q: q + dt * u, w: w + dt * t}),
                process_noise={u: 1.0, t: 0.5}, sensor_models={"s_B": {"a_1": q, "Zb": p, "a1": p + w}, "S_a": {"r2": w, "r10": p - q}},
                sensor_noises={"s_B": {"a_1": 1.0, "Zb": 0.25, "a1": 4.0}, "S_a": {"r2": 2.0, "r10": 0.5}})
    except Exception as e:
        ctx.fail(f"run-raises:{fk.exc_kind(e)}", f"filter over a valid definition raises {e!r}"[:300], {"stream": "from-data-same-count"}); return
    probe("filter State", "vector", ekf.State, ekf.State.from_data, fk.by_name)
    probe("filter Control", "vector", ekf.Control, ekf.Control.from_data, fk.by_name)
    probe("filter Covariance", "covariance", ekf.Covariance, ekf.Covariance.from_data, fk.cov_by_name)
    for key in ("s_B", "S_a"):
        probe(f"make_reading({key}, data=)", "vector", ekf.sensor_models[key].Reading, lambda data, key=key: ekf.make_reading(key, data=data), fk.by_name)


def numbered_names_cpp(ctx):
    """names that end in (or contain) digit runs of different length sort differently as strings and as numbers (p10 < p2 but 2 < 10);
    whichever order the layout uses, a value handed over under a name (the <T>Options constructors of the generated C++) is the value
    read back under that name and the value the model uses for that symbol"""
    import random
    from sympy import Rational as Q, Symbol
    prng = random.Random(1313)
    dt = Symbol("dt")
    pa, pb, pc, ua, ub, ka, kb = [Symbol(x) for x in ("pa", "pb", "pc", "ua", "ub", "ka", "kb")]
    d0 = gen.Definition(dt, [pa, pb, pc], [ua, ub], [ka, kb],
                        {pa: pa + 2 * dt * ua + 3 * ka + pb * pc / 4,
                         pb: pb + 3 * dt * ub + 5 * kb - pa / 2,
                         pc: pc + dt * (ua - 2 * ub) + 7 * kb * ka + pa * pa / 8},
                        {"simple": {"r2": pa + 2 * pc, "r10": pb - ka + pc * pa / 2}})
    d0._kind = "ekf"
    ident = {x.name: x.name for x in d0.all_symbols()}
    renamings = [("letters", ident),
                 ("suffix-digits", {"pa": "p1", "pb": "p2", "pc": "p10", "ua": "u2", "ub": "u10", "ka": "k9", "kb": "k10"}),
                 ("underscore-and-infix-digits", {"pa": "x_10", "pb": "x_9", "pc": "x_100", "ua": "U7", "ub": "U12", "ka": "c2b", "kb": "c10b"})]
    process, sensor = {"ua": F(1, 2), "ub": F(9, 4)}, {"simple": {"r2": F(3, 8), "r10": F(5, 2)}}
    eq = F(3, 4)
    distinct = {"state": {"pa": F(3, 2), "pb": F(-9, 4), "pc": F(4)}, "control": {"ua": F(-3, 2), "ub": F(3)}, "cal": {"ka": F(1, 2), "kb": F(-2)}}
    # one role carries distinct values at a time (the others hold one value throughout, so that only that role's binding shows), then all
    points = []
    for role, cls in (("state", "State"), ("control", "Control"), ("cal", "Calibration"), (None, "all")):
        pt = {"dt": F(1, 4)}
        for r in ("state", "control", "cal"):
            pt[r] = dict(distinct[r]) if role in (None, r) else {k: eq for k in distinct[r]}
        points.append((cls, pt))
    Ls0 = sorted(s.name for s in d0.state)
    Pn = eh.spd(prng, len(Ls0))
    P0 = {(a, b): Pn[i][j] for i, a in enumerate(Ls0) for j, b in enumerate(Ls0)}
    z = {"simple": {"r2": F(1, 2), "r10": F(-5, 4)}}

    def exact_model(pt):
        sub = {dt: Q(pt["dt"].numerator, pt["dt"].denominator)}
        for r in ("state", "control", "cal"):
            for k, v in pt[r].items():
                sub[Symbol(k)] = Q(v.numerator, v.denominator)
        return {s.name: F(int(sympy.sympify(e).xreplace(sub).p), int(sympy.sympify(e).xreplace(sub).q)) for s, e in d0.state_model.items()}

    jobs, metas = [], []
    for i, (label, m) in enumerate(renamings):
        d = d0.renamed(m); d._kind = "ekf"
        case = {"stream": "numbered-names-cpp", "naming": label, "renaming": m, "def": d.describe()}
        try:
            g = cppgen.generate(d, {m[k]: v for k, v in process.items()}, sensor, {m[k]: v for k, v in distinct["cal"].items()}, ctx.scratch,
                                f"nn{i}", filtering=None, rng=prng, container="list" if i % 2 else "set")
        except Exception as e:
            ctx.case(case, True); ctx.count("stream=numbered-names-cpp")
            ctx.fail(f"cpp-generate-raises:{fk.exc_kind(e)}", f"C++ generation over the {label} naming raises {e!r}"[:300], case)
            continue
        jobs.append((g, d, None)); metas.append((label, m, d, case))
    built = cppgen.build_many(jobs) if jobs else []
    results = {}
    for (label, m, d, case0), (exe, err) in zip(metas, built):
        names = sorted(m[x] for x in Ls0)
        permuted = [m[x] for x in Ls0] != names
        if exe is None:
            ctx.case(case0, True); ctx.count("stream=numbered-names-cpp")
            ctx.fail("generated-cpp-does-not-compile", (err or "")[-400:], case0); continue
        # (1) the slot a value given by name is stored in is the slot the accessor of that name reads
        case = dict(case0, what="layout")
        ctx.case(case, True); ctx.count("stream=numbered-names-cpp"); ctx.count("numbered_names_layout")
        try:
            lay = cppgen.run_exe(exe, ["layout"])[0]
            bad = [s for s in names if lay.get(f"stateopt.{s}") != lay.get(f"state.{s}") or f"state.{s}" not in lay]
        except Exception as e:
            ctx.fail("generated-cpp-crashes", repr(e)[:300], case); continue
        if bad:
            ctx.fail("named-ctor:cpp:layout", f"{label} naming: StateOptions.{bad[0]} = 1 is stored in entry {lay.get('stateopt.' + bad[0])}, the accessor "
                     f"State::{bad[0]}() reads entry {lay.get('state.' + bad[0])}", case)
        # (2) the model value at points that vary one role at a time, against exact arithmetic on the definition
        for cls, pt in points:
            pt2 = {"dt": pt["dt"], **{r: {m[k]: v for k, v in pt[r].items()} for r in ("state", "control", "cal")}}
            P2 = {(m[a], m[b]): v for (a, b), v in P0.items()}
            case = dict(case0, what=f"values distinct in: {cls}", point=eh.point_json(pt2))
            ctx.case(case, nontrivial=permuted or label != "letters"); ctx.count("stream=numbered-names-cpp"); ctx.count(f"numbered_names_point={cls}")
            try:
                out = cpp_named(d, exe, pt2, P2, z)
            except ConstAccessorMismatch as e:
                ctx.fail("cpp-const-accessor", f"generated C++: a value read by name through a const reference is not the value stored under that name: {e}", case)
                break
            except Exception as e:
                ctx.fail("generated-cpp-crashes", repr(e)[:300], case); break
            want = exact_model(pt)
            scl = max(abs(float(v)) for v in want.values())
            hit = False
            for what in ("model", "predict_state"):
                badk = [k for k, v in want.items() if not core.close(out[what].get(m[k], float("nan")), v, scale=scl)]
                if badk:
                    k = badk[0]
                    ctx.fail(f"named-ctor:cpp:{cls}", f"{label} naming, {what}[{m[k]}]: the generated C++ gives {out[what].get(m[k])!r} for inputs handed over by "
                             f"name through the Options constructors; the definition evaluated exactly gives {float(want[k])!r}", case)
                    hit = True; break
            if cls == "all" and not hit:
                results[label] = (m, out, case)
    # (3) every named output of predict and update agrees with the letters-only original
    if "letters" in results:
        _, base, _ = results["letters"]
        for label, (m, tw, case) in results.items():
            if label == "letters":
                continue
            for what, vals in base.items():
                scl = max(abs(x) for x in vals.values())
                for key, v in vals.items():
                    k2 = (m[key[0]], m[key[1]]) if isinstance(key, tuple) else m[key]
                    if not core.close(tw[what].get(k2, float("nan")), v, scale=scl):
                        ctx.fail(f"numbered-names:cpp:{what.split(':')[0]}", f"C++ {what}[{key}] = {v!r} under the letters-only naming but the {label} "
                                 f"twin gives [{k2}] = {tw[what].get(k2)!r}", case)
                        break


def run(ctx):
    audit = core.lean_audit("C13")
    drv = core.Driver()
    pending = []
    ctor_cases(ctx, drv, pending)
    foreign_objects(ctx)
    default_constructed(ctx)
    ndefs = 10 if ctx.quick else 100
    for i in range(ndefs):
        d = gen.gen_definition(ctx.rng, n_state=ctx.rng.choice([2, 3, 4]), n_sensors=ctx.rng.choice([1, 2]), depth=2, max_readings=2)
        if not eh.is_rational(d):
            continue
        d._noise = eh.make_noises(ctx.rng, d)
        pt = gen.gen_point(ctx.rng, d)
        Ls = sorted(s.name for s in d.state)
        Pn = eh.spd(ctx.rng, len(Ls))
        P = {(a, b): Pn[i][j] for i, a in enumerate(Ls) for j, b in enumerate(Ls)}   # covariance BY NAME
        try:
            base = named_run(d, pt, pt["cal"], ctx.rng, "set", P)
        except Exception as e:
            ctx.fail(f"run-raises:{fk.exc_kind(e)}", f"filter over a valid definition raises {e!r}"[:300], {"def": d.describe()})
            continue
        twins = []
        for _ in range(2):
            m = gen.gen_renaming(ctx.rng, d)
            twins.append(("rename", m))
        # partial renaming: ONE symbol gets a new name that moves it to the other end of the sort order, all other
        # names (and therefore most statements) stay textually the same
        ident = {s.name: s.name for s in d.all_symbols()}
        victim = ctx.rng.choice([s.name for s in d.state])
        for cand in ("zzq9", "AAq9"):
            if cand not in ident and sorted([x for x in ident if x != victim] + [cand]).index(cand) != sorted(ident).index(victim):
                twins.append(("rename-one", dict(ident, **{victim: cand})))
                break
        twins.append(("redeclare", {s.name: s.name for s in d.all_symbols()}))
        for kind, m in twins:
            d2 = d.renamed(m)
            if kind == "redeclare":
                ctx.rng.shuffle(d2.state); ctx.rng.shuffle(d2.control); ctx.rng.shuffle(d2.calibration)
            d2._noise = ({m[k]: v for k, v in d._noise[0].items()}, d._noise[1])
            pt2 = {"dt": pt["dt"], "state": {m[k]: v for k, v in pt["state"].items()},
                   "control": {m[k]: v for k, v in pt["control"].items()}, "cal": {m[k]: v for k, v in pt["cal"].items()}}
            P2 = {(m[a], m[b]): v for (a, b), v in P.items()}
            permuted = [m[x] for x in Ls] != sorted(m[x] for x in Ls)
            case = {"def": d.describe(), "kind": kind, "renaming": m, "point": eh.point_json(pt)}
            ctx.case(case, nontrivial=permuted or kind == "redeclare")
            ctx.count(f"twin={kind}"); ctx.count("layout_permuted" if permuted else "layout_same")
            try:
                # every other twin is declared with the optional model switch on (it changes how expressions are written, not
                # what is stored under which name)
                flags = {"proactive_simplify": True} if (len(twins) and twins.index((kind, m)) % 2 == 1) else None
                tw = named_run(d2, pt2, pt2["cal"], ctx.rng, ctx.rng.choice(["set", "list"]), P2, ui_kwargs=flags)
            except Exception as e:
                ctx.fail(f"twin-raises:{kind}:{fk.exc_kind(e)}", f"{kind} twin raises {e!r}"[:300], case)
                continue
            for what, vals in base.items():
                tv = tw[what]
                for key, v in vals.items():
                    k2 = (m[key[0]], m[key[1]]) if isinstance(key, tuple) else m[key]
                    if not core.close(tv.get(k2, float("nan")), v, scale=max(abs(x) for x in vals.values())):
                        ctx.fail(f"rename:{kind}:{what.split(':')[0]}",
                                 f"{what}[{key}] = {v!r} but the {kind} twin gives [{k2}] = {tv.get(k2)!r}", case)
                        break
            # Lean model on the renamed definition vs implementation (model output only)
            req = {"op": "pyrun", "def": d2.to_json(), "arith": "rat", "cal": [[k, core.frac_str(v)] for k, v in pt2["cal"].items()],
                   "dt": core.frac_str(pt2["dt"]), "state": [[k, core.frac_str(v)] for k, v in pt2["state"].items()],
                   "control": [[k, core.frac_str(v)] for k, v in pt2["control"].items()]}
            pending.append(("pyrun", drv.add(req), tw["model"], case))
    cpp_twins(ctx)
    # fixed streams (no draws from ctx.rng)
    from_data_same_count(ctx, drv, pending)
    fit_declaration_order(ctx)
    numbered_names_cpp(ctx)
    ans = drv.run()
    for kind, idx, got, info in pending:
        a = ans[idx]
        ctx.traces += 1
        if kind == "bind":
            model = a.get("err") or [[float(F(x)) for x in r] if isinstance(r, list) else [float(F(r))] for r in a["ok"]]
            if model != got:
                ctx.broke("correspondence:bind (Lean bindVec/bindCov vs named_vector/named_covariance)", {"model": model, "impl": got}, info)
        elif kind == "fromdata":
            model = "ok" if "ok" in a else a["err"]
            if model != got:
                ctx.broke("correspondence:fromData", {"model": model, "impl": got}, info)
        elif kind == "fromdata_nd":
            model = "ok" if "ok" in a else a.get("err", a)
            if model != got:
                ctx.broke("correspondence:fromDataND (Lean fromDataND/fromCovND vs from_data on an n-dimensional array)", {"model": model, "impl": got}, info)
        else:
            if "ok" not in a:
                if a.get("err") == "eval-failed":
                    continue
                ctx.broke("driver:pyrun", a, info); continue
            vals = {n: float(F(v)) for n, v in a["ok"].items()}
            sc = max([abs(x) for x in vals.values()] + [1.0])
            if set(vals) != set(got) or not all(core.close(got[n], vals[n], scale=sc) for n in vals):
                ctx.broke("correspondence:pyrun on renamed definition", {"model": a["ok"], "impl": got}, info)
    return core.finish(ctx, audit, NOTE, RULE, PARTIAL)


def replay(ctx, data):
    import json
    print(json.dumps(data, indent=1)[:3000]); return 0
