"""C07 — Python and generated C++ filters agree step for step."""
from __future__ import annotations

import math
from fractions import Fraction as F

import numpy as np
import sympy

import core
import cppgen
import ekf_h as eh
import fk
import gen
import runtime_h as rh

# one line per fixed stream (name: inputs -> what has to agree)
DET_COVERAGE = [
    "calib-twice: ONE symbolic model whose readings contain calibration symbols, built as several Python filter objects in one process "
    "(fresh model objects, same expressions) with DIFFERENT calibration values (same noises), each compared with the generated C++ fed "
    "that filter's calibration at run time (a filter uses its own calibration values, whatever was built before it)",
    "mixed-keys: readings and their noises spelled with different key types that name the same readings (str readings with Symbol "
    "noise keys; a Symbol reading with a str noise key), all noises different from 1 and from each other, same spelling given to both "
    "back-ends",
    "signs: CSE on, atan2 bearing in the left half plane, sqrt(v^2) with v < 0 in an update expression and a reading, v*sqrt(v^2), "
    "evaluated only where the sign-carrying arguments are negative",
    "control-order: three controls with pairwise different noises given as a LIST that is not in name order, a control Jacobian whose "
    "columns all differ (state-dependent), predictions compared (covariance = G P G^T + V M V^T pairs each control with its own noise)",
    "exact-reading: readings that equal the by-hand predicted reading bit for bit (dyadic states, calibrations and coefficients, so the "
    "innovation is exactly 0.0 in every component), for a two-reading and a one-reading sensor, first step and later steps, with a "
    "prediction in between, once with k = 1.5 and CSE and once with the check disabled and no CSE; the state stays and the covariance after the update has to be the C++ one (it shrinks)",
    "zero-dt: predictions with dt exactly 0.0 on a discrete-time model that is NOT the identity at dt = 0 (decay factor on a state, a "
    "control and a calibration entering without dt), first step and after an update / an ordinary prediction; state and covariance "
    "of the prediction compared as for any other dt",
]
RULE = ("the same definition/noise/calibration/config compiled as a Python filter and as generated C++ (g++), driven through chains of "
        "prediction and sensor-update steps with identical binary64 inputs (the Python result feeds the next step of both); compared by "
        "name: state, covariance, stored innovation, accept/reject; all control/calibration presences, CSE on/off, k>0 or disabled; distinct "
        "by (definition, config, step input); non-trivial = update with >=2 readings or prediction with control; plus six fixed "
        "(seed-independent) filters driven through fixed histories: " + "; ".join(DET_COVERAGE))
NOTE = ["on rational definitions every compared step is also run through the exact Lean model on the same binary64 inputs (as exact "
        "rationals) and both filters are compared with it (three-way correspondence)",
        "exact-arithmetic equality of the two association orders is a theorem (C07.predict_same, update_same); binary64 results are compared "
        "under 1e-9 relative tolerance; decisions are compared when the NIS is farther than 1e-7 (relative) from the threshold",
        "C++ built with g++ against the Eigen stand-in (Gauss-Jordan inverse), Python uses numpy/LAPACK"]
NOTE += ["fixed streams: inputs are constants of the check (no random draws); readings are placed around a by-hand evaluation of the "
         "reading expressions (sympy, exact rationals of the binary64 inputs), never around a value taken from either filter; the "
         "comparison is Python filter against generated C++ as for the random streams"]
PARTIAL = ["Eigen's own evaluation order is not exercised (stand-in)"]


def run(ctx):
    audit = core.lean_audit("C07")
    combos = [(c, k) for c in (0, 1) for k in (0, 1)]
    reps = 2 if ctx.quick else 20
    nsteps = 6 if ctx.quick else 20
    jobs, metas = [], []
    for rep in range(reps):
        for (nc, nk) in combos:
            d = gen.gen_definition(ctx.rng, n_state=ctx.rng.choice([2, 3]), n_control=nc and ctx.rng.choice([1, 2]),
                                   n_calib=nk and ctx.rng.choice([1, 2]), n_sensors=2, depth=2)
            if rep % 2 == 1 and (nc, nk) in ((0, 0), (1, 1)):
                # terms whose value depends on the sign of a sub-expression (sqrt(t^2), atan2 in the left half plane)
                gen.force_sign_sensitive(ctx.rng, d)
            d._kind = "ekf"
            if nc:
                # a control multiplied by a state (the control Jacobian depends on the state, and the state moves in the step)
                d.state_model[d.state[0]] = d.state_model[d.state[0]] + d.control[0] * d.state[-1] * d.dt * 2 + d.control[-1] * d.state[0] * d.dt
            if len(d.state) >= 2:
                # a reading that is the plain average of two states: its Jacobian row is the exact constants 1/2, 1/2
                k0a = sorted(d.sensors)[0]
                d.sensors[k0a][gen.fresh_names(ctx.rng, 1, {x.name for x in d.all_symbols()} | {r for rd in d.sensors.values() for r in rd})[0]] = \
                    (d.state[0] + d.state[-1]) / 2
            if len(d.state) >= 2:
                # a reading that is bilinear in two different states (its Jacobian depends on the state although every pure
                # second derivative vanishes)
                k1 = sorted(d.sensors)[-1]
                d.sensors[k1][gen.fresh_names(ctx.rng, 1, {x.name for x in d.all_symbols()} | {r for rd in d.sensors.values() for r in rd})[0]] = \
                    d.state[0] * d.state[1] + d.state[-1]
            if rep % 2 == 0:
                # a sensor with >= 2 readings declared in non-sorted order
                k0 = sorted(d.sensors)[0]
                while len(d.sensors[k0]) < 2:
                    d.sensors[k0][gen.fresh_names(ctx.rng, 1, {x.name for x in d.all_symbols()} | set(d.sensors[k0]))[0]] = d.state[-1] * 2 + d.state[0]
                gen.unsort_readings(d)
            # two sensors of DIFFERENT sizes on every filter (each reading is judged against the limit for its own size)
            ka, kb = sorted(d.sensors)[0], sorted(d.sensors)[-1]
            while len(d.sensors[ka]) == len(d.sensors[kb]):
                d.sensors[ka][gen.fresh_names(ctx.rng, 1, {x.name for x in d.all_symbols()} | {r for rd in d.sensors.values() for r in rd})[0]] = \
                    d.state[0] - d.state[-1] * 3
            process, sensor = eh.make_noises(ctx.rng, d)
            pt0 = gen.gen_point(ctx.rng, d)
            cal = pt0["cal"]
            cse = ctx.rng.random() < 0.5
            k = ctx.rng.choice([None, 0.5, 1.5, 5.0, 0.25])
            cfgdesc = {"def": d.describe(), "cse": cse, "filtering": k, "noise": {a: str(b) for a, b in process.items()},
                       "sensor_noise": {a: {r: str(v) for r, v in b.items()} for a, b in sensor.items()}, "cal": {a: str(b) for a, b in cal.items()}}
            try:
                ekf = eh.compile_ekf(d, process, sensor, cal, ctx.rng, cse=cse, filtering=k)
                g = cppgen.generate(d, process, sensor, cal, ctx.scratch, f"f{rep}{nc}{nk}", cse=cse, filtering=k, rng=ctx.rng)
            except Exception as e:
                ctx.fail(f"compile-raises:{fk.exc_kind(e)}", f"a valid definition is refused: {e!r}"[:300], cfgdesc)
                continue
            jobs.append((g, d, None))
            metas.append((d, ekf, process, sensor, cal, k, cfgdesc))
    built = cppgen.build_many(jobs)
    drv = core.Driver()
    pending = []
    last_inn = {}
    for fi, ((d, ekf, process, sensor, cal, k, cfgdesc), (exe, err)) in enumerate(zip(metas, built)):
        if exe is None:
            ctx.fail("generated-cpp-does-not-compile", "generated filter does not compile: " + err[-500:], cfgdesc)
            continue
        Ls, Lc, Lk = eh.names_of(d)
        n = len(Ls)
        rational = eh.is_rational(d)
        pt = gen.gen_point(ctx.rng, d)
        pt["cal"] = cal
        x = {s: float(pt["state"][s]) for s in Ls}
        P = np.array([[float(v) for v in r] for r in eh.spd(ctx.rng, n)], dtype=float)
        for step in range(nsteps):
            if (max(abs(v) for v in x.values()) > 1e4 or not np.all(np.isfinite(P)) or float(np.max(np.abs(P))) > 1e6
                    or float(np.linalg.cond(P)) > 1e5):  # keep the chain inside the well-conditioned domain
                ctx.count('chain_reset')
                pt = gen.gen_point(ctx.rng, d); pt["cal"] = cal
                x = {s: float(pt["state"][s]) for s in Ls}
                P = np.array([[float(v) for v in r] for r in eh.spd(ctx.rng, n)], dtype=float)
            do_update = ctx.rng.random() < 0.5
            cur = {"dt": F(ctx.rng.randint(1, 16), 160), "state": x, "cal": cal,
                   "control": {s: gen.dyadic(ctx.rng) for s in Lc}}
            st = ekf.State(**x)
            if step == 0:
                # a diagonal prior given through the NAMED variance fields, one variance exactly zero (a surveyed coordinate)
                diag = {s2: (0.0 if j2 == 0 else float(ctx.rng.choice([0.25, 1.0, 2.5]))) for j2, s2 in enumerate(Ls)}
                P = np.diag([diag[s2] for s2 in Ls])
                cv = ekf.Covariance(**diag)
                do_update = False
                ctx.count("named_diagonal_prior_with_zero")
            else:
                cv = ekf.Covariance.from_data(P.copy())
            case = dict(cfgdesc, step=step, state=x, P=P.tolist(), control={a: str(b) for a, b in cur["control"].items()}, dt=str(cur["dt"]))
            try:
                if do_update:
                    key = ctx.rng.choice(sorted(d.sensors))
                    Lr = sorted(d.sensors[key])
                    with fk.quiet():
                        pred = fk.by_name(ekf.sensor_models[key].model(st))
                    spread = ctx.rng.choice([0.125, 1.0, 8.0])
                    z = {r: float(F(pred[r]).limit_denominator(1 << 16) + gen.dyadic(ctx.rng, -4, 4) * F(spread)) for r in Lr}
                    sizes = sorted({len(rd) for rd in d.sensors.values()})
                    if k is not None and len(sizes) >= 2 and (step % 2 == 1 or ctx.rng.random() < 0.3):
                        # a reading whose normalised innovation squared lies BETWEEN the limit for this sensor's size and the limit for
                        # another sensor's size (each reading is judged against the limit for its own size)
                        m1 = len(Lr); m2 = [q for q in sizes if q != m1][0]
                        t1, t2 = k * math.sqrt(2 * m1) + m1, k * math.sqrt(2 * m2) + m2
                        with fk.quiet():
                            Hn = np.asarray(ekf.sensor_jacobian(key, st), dtype=float)
                        Qn = np.asarray(getattr(ekf.sensor_noises[key], "data", ekf.sensor_noises[key]), dtype=float)
                        Sn = Hn @ P @ Hn.T + Qn
                        e = np.array([[float(gen.dyadic(ctx.rng, 1, 4))] for _ in Lr])
                        n1 = float((e.T @ np.linalg.inv(Sn) @ e).item())
                        if n1 > 0:
                            tt = math.sqrt(((t1 + t2) / 2) / n1)
                            z = {r: float(pred[r]) + tt * float(e[j2, 0]) for j2, r in enumerate(Lr)}
                            ctx.count("reading_between_two_limits")
                    case.update(op=f"update:{key}", z=z)
                    line = cppgen.point_line(f"update:{key}", d, cur, P.tolist(), z)
                    with fk.quiet():
                        r = ekf.sensor_model(st, cv, sensor_key=key, sensor_reading=ekf.make_reading(key, **z))
                    py = {"state": fk.by_name(r.state), "cov": np.asarray(r.covariance.data, dtype=float),
                          "inn": eh.recorded(ekf.innovations, key).reshape(-1).tolist(), "rejected": r.state is st}
                    last_inn[(fi, key)] = list(py["inn"])
                    S = eh.recorded(ekf.sensor_prediction_uncertainty, key)
                    y = eh.recorded(ekf.innovations, key)
                    nis = float((y.T @ np.linalg.inv(S) @ y).item())
                    m = len(Lr)
                    thr = None if k is None else k * math.sqrt(2 * m) + m
                    near = thr is not None and abs(nis - thr) <= 1e-7 * (1 + thr)
                else:
                    case.update(op="predict")
                    line = cppgen.point_line("predict", d, cur, P.tolist())
                    with fk.quiet():
                        r = ekf.process_model(float(cur["dt"]), st, cv, ekf.Control(**{s: float(v) for s, v in cur["control"].items()}))
                    py = {"state": fk.by_name(r.state), "cov": np.asarray(r.covariance.data, dtype=float)}
                    near = False
            except Exception as e:
                ctx.fail(f"python-step-raises:{fk.exc_kind(e)}", f"Python filter raises {e!r}"[:300], case)
                break
            try:
                out = cppgen.run_exe(exe, [line])[0]
            except Exception as e:
                ctx.fail("cpp-step-crashes", repr(e)[:300], case); break
            nontrivial = (do_update and len(Lr) >= 2) or (not do_update and bool(Lc))
            ctx.case({k2: v for k2, v in case.items() if k2 not in ("P",)}, nontrivial)
            ctx.count("op=" + ("update" if do_update else "predict")); ctx.count(f"filtering={k}")
            ctx.traces += 1
            cs = {s: rh.bitsf(out[f"state.{s}"]) for s in Ls}
            cP = np.array([[rh.bitsf(out[f"cov.{i}.{j}"]) for j in range(n)] for i in range(n)])
            sc = max([abs(v) for v in py["state"].values()] + [1.0])
            if do_update:
                ctx.count("rejected" if py["rejected"] else "accepted")
                crej = out["unchanged"] == "1"
                if near:
                    ctx.count("inside_rounding_band")
                elif crej != py["rejected"] and not (not crej and not py["rejected"]):
                    ctx.fail("py-cpp-decision", f"accept/reject differs: Python rejected={py['rejected']}, C++ rejected={crej} (NIS={nis!r}, threshold={thr!r})", case)
                    break
                cinn = [rh.bitsf(out[f"inn.{i}"]) for i in range(len(Lr))] if "inn.0" in out else None
                if cinn is None or not all(core.close(a, b, scale=max(map(abs, py["inn"])) if py["inn"] else 1.0) for a, b in zip(cinn, py["inn"])):
                    ctx.fail("py-cpp-innovation", f"stored innovation differs: Python {py['inn']}, C++ {cinn}", case); break
            if not all(core.close(cs[s], py["state"][s], scale=sc) for s in Ls):
                ctx.fail("py-cpp-state:" + ("update" if do_update else "predict"), f"state differs by name: Python {py['state']}, C++ {cs}", case); break
            Psc = 1.0 + max(float(np.max(np.abs(py["cov"]))), float(np.max(np.abs(cv.data))))
            if float(np.max(np.abs(cP - py["cov"]))) > 1e-9 * Psc:
                ctx.fail("py-cpp-cov:" + ("update" if do_update else "predict"), f"covariance differs: Python {py['cov'].tolist()}, C++ {cP.tolist()}", case); break
            if rational and (ctx.quick is False or step < 4):
                # third party: the exact Lean model on the very same binary64 inputs (as exact rationals)
                ptj = {"cal": cal, "dt": cur["dt"], "state": {s2: F(x[s2]) for s2 in Ls}, "control": cur["control"]}
                op = {"ekf": eh.ekf_json(d, process, sensor, k), "point": eh.point_json(ptj), "P": [[core.frac_str(F(float(v))) for v in r] for r in P.tolist()]}
                if do_update:
                    op.update(op="update", sensor=key, z=[[r2, core.frac_str(F(v))] for r2, v in z.items()])
                else:
                    op.update(op="predict")
                pending.append((drv.add(op), do_update, near, py, cs, cP, float(np.max(np.abs(cv.data))), case))
            x = {s: float(py["state"][s]) for s in Ls}
            P = 0.5 * (py["cov"] + py["cov"].T)
    # every Python filter object keeps its OWN record of the last innovation per sensor (as every C++ filter object does): after
    # all the other filters have run, each one still holds what it recorded itself, and nothing for sensors it never updated
    for fi, (d, ekf, process, sensor, cal, k, cfgdesc) in enumerate(metas):
        for key in sorted(d.sensors):
            case = dict(cfgdesc, op=f"stored-innovation:{key}", filter_index=fi)
            ctx.case(case, True); ctx.count("stored_innovation_revisited")
            mine = last_inn.get((fi, key))
            have = eh.recorded(ekf.innovations, key).reshape(-1).tolist() if key in ekf.innovations else None
            if mine is None and have is not None:
                ctx.fail("py-cpp-innovation:never-updated", f"a Python filter that never processed sensor {key} reports a stored innovation {have} "
                         "(the C++ filter reports none)", case)
            elif mine is not None and have != mine:
                ctx.fail("py-cpp-innovation:overwritten", f"the innovation a Python filter recorded for {key} ({mine}) reads {have} after other "
                         "filter objects were used", case)
    ans = drv.run()
    for idx, is_update, near, py, cs, cP, prior_mag, info in pending:
        a = ans[idx]
        which = "update" if is_update else "predict"
        if "ok" not in a:
            if a.get("fatal") in ("undefined", "eval-failed", "singular"):
                ctx.count("model_undefined_point"); continue
            ctx.broke(f"driver:{which}", a, info); continue
        o = a["ok"]
        if is_update and (near or bool(o["rejected"]) != bool(py["rejected"])):
            # the decision itself is compared between the implementations above and with the model in C06
            ctx.count("model_decision_not_compared"); continue
        ctx.count("model_steps_compared")
        ms = {n2: float(core.parse_frac(v)) for n2, v in o["state"].items()}
        mP = np.array([[float(core.parse_frac(v)) for v in r] for r in o["cov"]], dtype=float)
        sc = max([abs(v) for v in ms.values()] + [1.0])
        Psc = 1.0 + max(float(np.max(np.abs(mP))), prior_mag)
        for side, gs, gP in (("python", py["state"], py["cov"]), ("cpp", cs, cP)):
            if set(ms) != set(gs) or not all(core.close(gs[n2], ms[n2], scale=sc) for n2 in ms) or float(np.max(np.abs(np.asarray(gP) - mP))) > 1e-9 * Psc:
                ctx.broke(f"correspondence:{which} (Lean model vs {side} filter)",
                          {"model": {"state": ms, "cov": mP.tolist()}, "impl_state": gs, "impl_cov": np.asarray(gP).tolist()}, info)
                break
    # fixed streams last: they draw nothing from ctx.rng
    _fixed_streams(ctx)
    return core.finish(ctx, audit, NOTE, RULE, PARTIAL)


# ---------------------------------------------------------------------------------------------------------------- fixed streams
def _S(*names):
    return [sympy.Symbol(n) for n in names]


def _fixed_specs():
    """Filters and histories that are constants of the check.  Every spec: definition, noises, one or more calibrations (one Python
    filter object per calibration, all compared with the one generated C++ filter, which takes the calibration at run time), the
    container / key spelling handed to BOTH back-ends, a start (x0, P0) and a script of steps:
      ("predict", dt, {control: value})   /   ("update", sensor key, {reading: offset from the by-hand predicted reading})"""
    dt = sympy.Symbol("dt")
    specs = []

    # -- calib-twice ---------------------------------------------------------------------------------------------------------
    px, vel = _S("px", "vel"); (acc,) = _S("acc"); bias, gain = _S("bias", "gain")
    d = gen.Definition(dt, [vel, px], [acc], [gain, bias],
                       {px: px + vel * dt, vel: vel + (acc - bias) * dt},
                       {"gps0": {"east": px * gain + bias, "rate": vel - bias * px}, "alt1": {"height": px + gain ** 2 - bias / 2}})
    script = [("predict", F(1, 16), {"acc": F(3, 2)}), ("update", "gps0", {"east": F(1, 8), "rate": F(-1, 4)}),
              ("update", "alt1", {"height": F(3, 16)}), ("predict", F(1, 32), {"acc": F(-1, 2)}),
              ("update", "gps0", {"east": F(-3, 8), "rate": F(1, 16)})]
    specs.append(dict(name="calib-twice", d=d, process={"acc": F(3, 8)},
                      sensor={"gps0": {"east": F(5, 8), "rate": F(9, 8)}, "alt1": {"height": F(7, 4)}},
                      # three filter objects over the same symbolic model, each with its own calibration values
                      cals=[{"bias": F(1, 2), "gain": F(3, 2)}, {"bias": F(-7, 4), "gain": F(5, 8)}, {"bias": F(13, 8), "gain": F(-2)}],
                      cse=True, k=5.0, container="set", x0={"px": F(5, 4), "vel": F(-3, 8)},
                      P0=[[F(3, 2), F(1, 4)], [F(1, 4), F(2)]], script=script))

    # -- mixed-keys ----------------------------------------------------------------------------------------------------------
    pa, pb = _S("pa", "pb"); (ua,) = _S("ua")
    d = gen.Definition(dt, [pb, pa], [ua], [],
                       {pa: pa + dt * pb, pb: pb + dt * ua - dt * pa / 4},
                       {"alt0": {"rb": pa * pb + pb, "ra": pa + 2 * pb}, "gps1": {"rc": pb - pa / (1 + pa ** 2)}})
    sensor = {"alt0": {"ra": F(1, 8), "rb": F(5, 2)}, "gps1": {"rc": F(3, 8)}}

    def spell(d=d, sensor=sensor):
        # str readings + Symbol noise keys (the documented type of sensor_noises);  a Symbol reading + str noise key (the spelling of
        # featuretests/rocket_model/generator.py).  Fresh dicts on every call.
        return {"sensor_models": {"alt0": dict(d.sensors["alt0"]), "gps1": {sympy.Symbol("rc"): d.sensors["gps1"]["rc"]}},
                "sensor_noises": {"alt0": {sympy.Symbol(r): float(v) for r, v in sensor["alt0"].items()}, "gps1": {"rc": float(sensor["gps1"]["rc"])}}}
    script = [("update", "alt0", {"ra": F(1, 4), "rb": F(-1, 2)}), ("update", "gps1", {"rc": F(3, 8)}),
              ("predict", F(1, 16), {"ua": F(1)}), ("update", "alt0", {"ra": F(-1, 8), "rb": F(3, 4)}), ("update", "gps1", {"rc": F(-1, 4)})]
    specs.append(dict(name="mixed-keys", d=d, process={"ua": F(1, 2)}, sensor=sensor, cals=[{}], cse=False, k=5.0,
                      container="set", raw=spell, x0={"pa": F(3, 4), "pb": F(-5, 4)}, P0=[[F(2), F(-1, 2)], [F(-1, 2), F(3, 2)]], script=script))

    # -- signs ---------------------------------------------------------------------------------------------------------------
    qx, qy, vv = _S("qx", "qy", "vv"); (thr,) = _S("thr")
    d = gen.Definition(dt, [qy, vv, qx], [thr], [],
                       {qx: qx + vv * dt, qy: qy + sympy.sqrt(vv ** 2) * dt / 2, vv: vv + thr * dt - vv * sympy.sqrt(vv ** 2) * dt / 8},
                       {"radar0": {"bearing": sympy.atan2(qy, qx), "dist": sympy.sqrt(qx ** 2 + qy ** 2)},
                        "pitot1": {"speed": sympy.sqrt(vv ** 2)}}, transcend=True)
    script = [("update", "radar0", {"bearing": F(1, 32), "dist": F(-1, 8)}), ("predict", F(1, 16), {"thr": F(-1, 2)}),
              ("update", "pitot1", {"speed": F(1, 16)}), ("update", "radar0", {"bearing": F(-1, 64), "dist": F(1, 16)}),
              ("predict", F(1, 32), {"thr": F(1, 4)}), ("update", "pitot1", {"speed": F(-1, 8)})]
    specs.append(dict(name="signs", d=d, process={"thr": F(1, 4)}, sensor={"radar0": {"bearing": F(1, 64), "dist": F(1, 4)}, "pitot1": {"speed": F(1, 8)}},
                      cals=[{}], cse=True, k=5.0, container="set", x0={"qx": F(-3), "qy": F(3, 2), "vv": F(-2)},
                      P0=[[F(1, 4), F(1, 16), F(0)], [F(1, 16), F(1, 2), F(1, 32)], [F(0), F(1, 32), F(3, 8)]], script=script,
                      # the domain this stream is about: the sign-carrying arguments stay negative along the whole history
                      domain=lambda x: x["qx"] < -0.5 and x["vv"] < -0.25 and x["qy"] > 0.25))

    # -- control-order -------------------------------------------------------------------------------------------------------
    sa, sb = _S("sa", "sb"); wa, wb, wc = _S("wa", "wb", "wc")
    d = gen.Definition(dt, [sb, sa], [wc, wa, wb], [],          # the controls as a list that is NOT in name order
                       {sa: sa + dt * (wa + 2 * wb * sb) + wc * dt / 4, sb: sb + dt * (wc - wa * sa) + 3 * wb * dt},
                       {"imu0": {"ma": sa + sb, "mb": sa - 2 * sb}})
    script = [("predict", F(1, 16), {"wa": F(1), "wb": F(-1, 2), "wc": F(2)}), ("update", "imu0", {"ma": F(1, 8), "mb": F(-1, 4)}),
              ("predict", F(3, 32), {"wa": F(-3, 4), "wb": F(5, 4), "wc": F(1, 2)}), ("predict", F(1, 32), {"wa": F(0), "wb": F(0), "wc": F(0)})]
    specs.append(dict(name="control-order", d=d, process={"wa": F(1, 4), "wb": F(2), "wc": F(9, 8)}, sensor={"imu0": {"ma": F(1, 2), "mb": F(3, 4)}},
                      cals=[{}], cse=True, k=None, container="list", x0={"sa": F(3, 2), "sb": F(-5, 4)},
                      P0=[[F(1), F(1, 4)], [F(1, 4), F(3, 4)]], script=script))

    # -- exact-reading -------------------------------------------------------------------------------------------------------
    ex, ev = _S("ex", "ev"); (eu,) = _S("eu"); (eo,) = _S("eo")
    d = gen.Definition(dt, [ev, ex], [eu], [eo],
                       {ex: ex + ev * dt, ev: ev + eu * dt},
                       {"fix0": {"along": ex * 2 + eo, "cross": ev - ex / 4}, "log1": {"speed": ev * 3 - eo / 2}})
    zero2, zero1 = {"along": F(0), "cross": F(0)}, {"speed": F(0)}
    script = [("update", "fix0", zero2), ("update", "log1", zero1), ("predict", F(1, 16), {"eu": F(1, 2)}),
              ("update", "fix0", zero2), ("update", "fix0", {"along": F(1, 8), "cross": F(-1, 4)}), ("update", "log1", zero1)]
    for nm, k_, cse_ in (("exact-reading", 1.5, True), ("exact-reading-nofilter", None, False)):
        specs.append(dict(name=nm, d=d, process={"eu": F(3, 4)}, sensor={"fix0": {"along": F(1, 2), "cross": F(5, 8)}, "log1": {"speed": F(3, 2)}},
                          cals=[{"eo": F(3, 8)}], cse=cse_, k=k_, container="set", x0={"ex": F(5, 4), "ev": F(-3, 2)},
                          P0=[[F(3, 2), F(1, 4)], [F(1, 4), F(2)]], script=script))

    # -- zero-dt -------------------------------------------------------------------------------------------------------------
    zp, zv = _S("zp", "zv"); (za,) = _S("za"); (zg,) = _S("zg")
    d = gen.Definition(dt, [zv, zp], [za], [zg],
                       {zp: zp + zv * dt + za / 4, zv: zv * zg + za - zp * dt / 2},
                       {"enc0": {"pos": zp + zv / 2, "spd": zv * zg}})
    script = [("predict", F(0), {"za": F(3, 2)}), ("update", "enc0", {"pos": F(1, 8), "spd": F(-1, 4)}), ("predict", F(1, 16), {"za": F(-1, 2)}),
              ("predict", F(0), {"za": F(-3, 4)}), ("predict", F(0), {"za": F(0)})]
    specs.append(dict(name="zero-dt", d=d, process={"za": F(5, 8)}, sensor={"enc0": {"pos": F(1, 2), "spd": F(3, 4)}},
                      cals=[{"zg": F(3, 4)}], cse=True, k=5.0, container="set", x0={"zp": F(3, 4), "zv": F(-5, 2)},
                      P0=[[F(1), F(-1, 4)], [F(-1, 4), F(3, 2)]], script=script))
    return specs


def _hand_reading(d, key, x, cal):
    """the reading expressions evaluated by hand (exact rationals of the binary64 inputs, 30 digits), by reading name"""
    rat = lambda v: sympy.Rational(*F(float(v)).as_integer_ratio())
    sub = {s: rat(x[s.name]) for s in d.state}
    sub.update({s: rat(cal[s.name]) for s in d.calibration})
    return {r: float(sympy.sympify(e).xreplace(sub).evalf(30)) for r, e in d.sensors[key].items()}


def _fixed_streams(ctx):
    jobs, live = [], []
    for sp in _fixed_specs():
        d, process, sensor, k, cse = sp["d"], sp["process"], sp["sensor"], sp["k"], sp["cse"]
        d._kind = "ekf"
        raw = sp.get("raw")
        cfgdesc = {"stream": sp["name"], "def": d.describe(), "cse": cse, "filtering": k, "container": sp["container"],
                   "noise": {a: str(b) for a, b in process.items()}, "sensor_noise": {a: {r: str(v) for r, v in b.items()} for a, b in sensor.items()},
                   "key_spelling": "readings and noises keyed with different types" if raw else "same"}
        try:
            ekfs = []
            for cal in sp["cals"]:
                # one Python filter object per calibration, each from a FRESH model object and fresh dicts (same expressions, same noises)
                maps = dict(raw()) if raw else None
                ekfs.append((eh.compile_ekf(d, process, sensor, cal, None, cse=cse, filtering=k, container=sp["container"], maps=maps), cal))
            g = cppgen.generate(d, process, sensor, sp["cals"][0], ctx.scratch, "det_" + sp["name"].replace("-", "_"), cse=cse, filtering=k, rng=None,
                                container=sp["container"], raw_maps=raw() if raw else None)
        except Exception as e:
            ctx.fail(f"compile-raises:{fk.exc_kind(e)}", f"a valid definition is refused: {e!r}"[:300], cfgdesc)
            continue
        jobs.append((g, d, None))
        live.append((sp, ekfs, cfgdesc))
    built = cppgen.build_many(jobs)
    for (sp, ekfs, cfgdesc), (exe, err) in zip(live, built):
        if exe is None:
            ctx.fail("generated-cpp-does-not-compile", "generated filter does not compile: " + err[-500:], cfgdesc)
            continue
        for ci, (ekf, cal) in enumerate(ekfs):
            _fixed_chain(ctx, sp, exe, ekf, cal, dict(cfgdesc, filter_object=ci, cal={a: str(b) for a, b in cal.items()}))


def _fixed_chain(ctx, sp, exe, ekf, cal, cfgdesc):
    d, k = sp["d"], sp["k"]
    core.set_tolerance(getattr(d, "transcend", False))
    Ls, Lc, Lk = eh.names_of(d)
    n = len(Ls)
    x = {s: float(sp["x0"][s]) for s in Ls}
    P = np.array([[float(v) for v in r] for r in sp["P0"]], dtype=float)     # rows/cols in name order
    domain = sp.get("domain")
    for step, act in enumerate(sp["script"]):
        if domain is not None and not domain(x):
            ctx.count("fixed_stream_left_domain"); return
        do_update = act[0] == "update"
        st = ekf.State(**x)
        cv = ekf.Covariance.from_data(P.copy())
        cur = {"dt": act[1] if not do_update else F(1, 16), "state": x, "cal": cal,
               "control": {s: (act[2].get(s, F(0)) if not do_update else F(0)) for s in Lc}}
        case = dict(cfgdesc, step=step, state=dict(x), P=P.tolist(), control={a: str(b) for a, b in cur["control"].items()}, dt=str(cur["dt"]))
        try:
            if do_update:
                key = act[1]
                Lr = sorted(d.sensors[key])
                hand = _hand_reading(d, key, x, cal)
                z = {r: float(F(hand[r]).limit_denominator(1 << 16) + act[2][r]) for r in Lr}
                case.update(op=f"update:{key}", z=z, by_hand_prediction=hand)
                if all(z[r2] == hand[r2] for r2 in Lr):
                    ctx.count("reading_equals_by_hand_prediction")
                line = cppgen.point_line(f"update:{key}", d, cur, P.tolist(), z)
                with fk.quiet():
                    r = ekf.sensor_model(st, cv, sensor_key=key, sensor_reading=ekf.make_reading(key, **z))
                py = {"state": fk.by_name(r.state), "cov": np.asarray(r.covariance.data, dtype=float),
                      "inn": eh.recorded(ekf.innovations, key).reshape(-1).tolist(), "rejected": r.state is st}
                S = eh.recorded(ekf.sensor_prediction_uncertainty, key)
                y = eh.recorded(ekf.innovations, key)
                nis = float((y.T @ np.linalg.inv(S) @ y).item())
                m = len(Lr)
                thr = None if k is None else k * math.sqrt(2 * m) + m
                near = thr is not None and abs(nis - thr) <= 1e-7 * (1 + thr)
            else:
                case.update(op="predict")
                if cur["dt"] == 0:
                    ctx.count("prediction_with_dt_zero")
                line = cppgen.point_line("predict", d, cur, P.tolist())
                with fk.quiet():
                    r = ekf.process_model(float(cur["dt"]), st, cv, ekf.Control(**{s: float(v) for s, v in cur["control"].items()}))
                py = {"state": fk.by_name(r.state), "cov": np.asarray(r.covariance.data, dtype=float)}
                near = False
        except Exception as e:
            ctx.fail(f"python-step-raises:{fk.exc_kind(e)}", f"Python filter raises {e!r}"[:300], case)
            return
        x_next = {s: float(py["state"][s]) for s in Ls}
        P_next = 0.5 * (py["cov"] + py["cov"].T)
        try:
            out = cppgen.run_exe(exe, [line])[0]
        except Exception as e:
            ctx.fail("cpp-step-crashes", repr(e)[:300], case); return
        ctx.case({k2: v for k2, v in case.items() if k2 not in ("P",)}, (do_update and len(Lr) >= 2) or (not do_update and bool(Lc)))
        ctx.count("fixed_stream:" + sp["name"]); ctx.count("op=" + ("update" if do_update else "predict")); ctx.count(f"filtering={k}")
        ctx.traces += 1
        cs = {s: rh.bitsf(out[f"state.{s}"]) for s in Ls}
        cP = np.array([[rh.bitsf(out[f"cov.{i}.{j}"]) for j in range(n)] for i in range(n)])
        sc = max([abs(v) for v in py["state"].values()] + [1.0])
        if do_update:
            ctx.count("rejected" if py["rejected"] else "accepted")
            crej = out["unchanged"] == "1"
            cinn = [rh.bitsf(out[f"inn.{i}"]) for i in range(len(Lr))] if "inn.0" in out else None
            hand_inn = [z[r2] - hand[r2] for r2 in Lr]
            if cinn is None or not all(core.close(a, b, scale=max(map(abs, py["inn"])) if py["inn"] else 1.0) for a, b in zip(cinn, py["inn"])):
                ctx.fail("py-cpp-innovation", f"stored innovation differs: Python {py['inn']}, C++ {cinn} (reading minus the by-hand prediction: {hand_inn})", case)
                return
            if near:
                ctx.count("inside_rounding_band")
            elif crej != py["rejected"]:
                ctx.fail("py-cpp-decision", f"accept/reject differs: Python rejected={py['rejected']}, C++ rejected={crej} (NIS={nis!r}, threshold={thr!r})", case)
                return
        which = "update" if do_update else "predict"
        if not all(core.close(cs[s], py["state"][s], scale=sc) for s in Ls):
            ctx.fail("py-cpp-state:" + which, f"state differs by name: Python {py['state']}, C++ {cs}", case); return
        Psc = 1.0 + max(float(np.max(np.abs(py["cov"]))), float(np.max(np.abs(cv.data))))
        if float(np.max(np.abs(cP - py["cov"]))) > 1e-9 * Psc:
            ctx.fail("py-cpp-cov:" + which, f"covariance differs: Python {py['cov'].tolist()}, C++ {cP.tolist()}", case); return
        x, P = x_next, P_next


def replay(ctx, data):
    import json
    print(json.dumps(data, indent=1)[:3000]); return 0
