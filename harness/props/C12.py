"""C12 — every generated filter can be driven through the C++ managed runtime."""
from __future__ import annotations

import core
import cppgen
import ekf_h as eh
import fk
import gen
import re
from fractions import Fraction as F

import runtime_h as rh

RULE = ("exhaustive over the finite configuration space: {control, no control} x {calibration, no calibration} x sensors {0,1,3} x max_dt "
        "{default, 0.05}: generate the filter, compile a driver with static_assert(ManagedFilter<...>::compatible), tick with and without "
        "readings (unsorted timestamps) and compare bit-for-bit with calling process_model / sensor_model by hand in the same binary along "
        "the step plan of the Lean model; distinct by (configuration, scenario); non-trivial = readings present or backward travel; "
        "interface stream: for every generated header, the Tag aliases, the declared process_model / StampedReadingBase::sensor_model parameter "
        "lists, the SensorId members and the configured max_dt_sec read back from the header text are compared with EkfDef.iface of the Lean "
        "model (the object of generated_compatible / calls_match_declarations / one_constructor / tick_overloads), and the model's "
        "ManagedFilter calls must equal the declared lists")
NOTE = ["the by-hand dt sequence comes from the Lean plan model (C10, binary64 instance); sensor updates and predictions by hand use the "
        "generated filter's own public functions, so equality is bitwise",
        "compile = g++ -std=c++20 against the Eigen stand-in; C++ overload resolution / SFINAE / static_assert are g++'s"]
PARTIAL = ["C++ template instantiation is trusted to g++"]


def make_main(d, name):
    Ls, Lc, Lk = eh.names_of(d)
    n = len(Ls)
    o = []
    w = o.append
    w(f"#include <formak/{name}.h>\n#include <formak/runtime/ManagedFilter.h>")
    w("#include <cstdint>\n#include <cstring>\n#include <iostream>\n#include <string>\n#include <sstream>\n#include <vector>")
    w("using namespace verifns;")
    w("using MF = formak::runtime::ManagedFilter<ExtendedKalmanFilter>;")
    w("static_assert(MF::compatible);")
    w("static std::string B(double d){ uint64_t u; std::memcpy(&u,&d,8); return std::to_string(u); }")
    w("static double R(std::istream& in){ std::string s; in >> s; uint64_t u = std::stoull(s); double d; std::memcpy(&d,&u,8); return d; }")
    w("static void dump(std::ostream& out, const StateAndVariance& r, int t){")
    for s in Ls:
        w(f"  out << \"t\" << t << \".state.{s}=\" << B(r.state.{s}()) << \" \";")
    w(f"  for (int i = 0; i < {n}; ++i) for (int j = 0; j < {n}; ++j) out << \"t\" << t << \".cov.\" << i << \".\" << j << \"=\" << B(r.covariance.data(i, j)) << \" \"; }}")
    w("int main(){ std::string line; while (std::getline(std::cin, line)) { std::istringstream in(line); std::string op; in >> op; std::ostringstream out;")
    w("  double t0 = R(in); StateOptions so;")
    for s in Ls:
        w(f"  so.{s} = R(in);")
    w("  State x(so); Covariance P;")
    w(f"  for (int i = 0; i < {n}; ++i) for (int j = 0; j < {n}; ++j) P.data(i, j) = R(in);")
    w("  StateAndVariance sv{.state = x, .covariance = P};")
    if Lk:
        w("  CalibrationOptions ko;")
        for s in Lk:
            w(f"  ko.{s} = R(in);")
        w("  Calibration cal(ko);")
    if Lc:
        w("  ControlOptions uo;")
        for s in Lc:
            w(f"  uo.{s} = R(in);")
        w("  Control u(uo);")
        w("  ControlOptions uo2 = uo;")
        for s in Lc:
            w(f"  uo2.{s} += 0.75;")
        w("  Control u2(uo2);      // odd-numbered ticks are given this control instead")
    ctor = "MF mf(t0, sv" + (", cal" if Lk else "") + ");"
    pm = lambda dt, st: f"ekf.process_model({dt}, {st}" + (", cal" if Lk else "") + (", uc" if Lc else "") + ")"
    sm = lambda st, z: f"ekf.sensor_model({st}" + (", cal" if Lk else "") + f", {z})"
    w("  int nticks; in >> nticks;")
    w(f"  if (op == \"tick\") {{ {ctor}")
    w("    for (int t = 0; t < nticks; ++t) { double outT = R(in); int nr; in >> nr; std::vector<MF::StampedReading> rs;")
    if Lc:
        w("      const Control& uc = (t % 2 == 1) ? u2 : u;")
    w("      for (int r = 0; r < nr; ++r) { double ts = R(in); int sid; in >> sid; (void)ts; (void)sid;")
    for i, (key, rd) in enumerate(sorted(d.sensors.items())):
        T = cppgen.typename(key)
        w(f"        if (sid == {i}) {{ {T}Options zo;")
        for r_ in sorted(rd):
            w(f"          zo.{r_} = R(in);")
        # all the ways the repository's own callers hand a reading to wrap(): a temporary, a named object, a const named object
        w(f"          if (r % 3 == 0) {{ rs.push_back(MF::wrap(ts, {T}(zo))); }}")
        w(f"          else if (r % 3 == 1) {{ {T} named(zo); rs.push_back(mf.wrap(ts, named)); }}")
        w(f"          else {{ rs.push_back(mf.template wrap<{T}>(ts, zo)); }} }}")
    w("      }")
    w("      int withList; in >> withList;")
    # readings handed over as a named vector, as a braced list (one reading / none), or not at all
    first_T = cppgen.typename(sorted(d.sensors)[0]) if d.sensors else None
    if Lc:
        w("      StateAndVariance r = (nr > 1) ? mf.tick(outT, uc, rs) : (nr == 1) ? mf.tick(outT, uc, {rs[0]}) : withList ? mf.tick(outT, uc, {}) : mf.tick(outT, uc);")
    else:
        w("      StateAndVariance r = (nr > 1) ? mf.tick(outT, rs) : (nr == 1) ? mf.tick(outT, {rs[0]}) : withList ? mf.tick(outT, rs) : mf.tick(outT);")
    w("      dump(out, r, t); }")
    w("  } else {   // by hand: explicit dt lists")
    w("    ExtendedKalmanFilter ekf; StateAndVariance held = sv;")
    w("    for (int t = 0; t < nticks; ++t) { int nr; in >> nr;")
    if Lc:
        w("      const Control& uc = (t % 2 == 1) ? u2 : u;")
    w("      for (int r = 0; r < nr; ++r) { int nd; in >> nd; for (int k = 0; k < nd; ++k) { double dt = R(in); held = " + pm("dt", "held") + "; }")
    w("        int sid; in >> sid; (void)sid;")
    for i, (key, rd) in enumerate(sorted(d.sensors.items())):
        T = cppgen.typename(key)
        w(f"        if (sid == {i}) {{ {T}Options zo;")
        for r_ in sorted(rd):
            w(f"          zo.{r_} = R(in);")
        w(f"          {T} z(zo); held = " + sm("held", "z") + "; }")
    w("      }")
    w("      StateAndVariance rep = held; int nd; in >> nd; for (int k = 0; k < nd; ++k) { double dt = R(in); rep = " + pm("dt", "rep") + "; }")
    w("      dump(out, rep, t); }")
    w("  }")
    w("  std::cout << out.str() << std::endl; }")
    w("  return 0; }")
    return "\n".join(o) + "\n"


def _args(text):
    return [re.sub(r"\s+\w+$", "", " ".join(a.split())) for a in text.split(",") if a.strip()]


def header_iface(h):
    """what the generated header declares, read back from its text"""
    tag = re.search(r"struct\s+Tag\s*\{(.*?)\};", h, re.S).group(1)
    out = {k: v.strip() for k, v in re.findall(r"using\s+(\w+)\s*=\s*([^;]+);", tag)}
    cls = h[h.index("class ExtendedKalmanFilter"):]
    out["processArgs"] = _args(re.search(r"StateAndVariance\s+process_model\s*\(([^)]*)\)", cls).group(1))
    base = re.search(r"struct\s+StampedReadingBase\s*\{(.*?)\};", h, re.S).group(1)
    out["readingArgs"] = _args(re.search(r"sensor_model\s*\(([^)]*)\)", base).group(1))
    ids = re.search(r"enum\s+class\s+SensorId\s*\{(.*?)\}", h, re.S).group(1)
    out["sensorIds"] = [x.strip() for x in ids.split(",") if x.strip()]
    out["max_dt_sec"] = re.search(r"struct\s+Config\s*\{.*?max_dt_sec\s*=\s*([^;]+);", h, re.S).group(1).strip()
    out["tag_max_dt"] = re.search(r"max_dt_sec\s*=\s*([^;]+);", tag).group(1).strip()
    return out


def run(ctx):
    audit = core.lean_audit("C12")
    iface_pending, idrv = [], core.Driver()
    jobs, metas = [], []
    reps = 1 if ctx.quick else 4
    i = 0
    for rep in range(reps):
        for nc in (0, 1):
            for nk in (0, 1):
                for nsen in (0, 1, 3):
                    max_dt = [0.1, 0.05, 0.0123456789, 1.0 / 3.0, 2.5e-6][i % 5]
                    d = gen.gen_definition(ctx.rng, n_state=2, n_control=nc, n_calib=nk, n_sensors=nsen, depth=1, max_readings=2)
                    d._kind = "ekf"
                    process, sensor = eh.make_noises(ctx.rng, d)
                    pt = gen.gen_point(ctx.rng, d)
                    cfg = {"control": bool(nc), "calibration": bool(nk), "sensors": nsen, "max_dt": max_dt, "def": d.describe()}
                    try:
                        g = cppgen.generate(d, process, sensor, pt["cal"], ctx.scratch, f"g{i}", max_dt=max_dt, filtering=None, rng=ctx.rng)
                    except Exception as e:
                        ctx.fail(f"cpp-generate-raises:{fk.exc_kind(e)}", f"C++ generation refuses a valid definition: {e!r}"[:300], cfg)
                        i += 1
                        continue
                    try:
                        hi = header_iface(open(g["header"]).read())
                    except Exception as e:   # noqa: BLE001 - a header without the interface ManagedFilter needs
                        ctx.fail("interface-missing", f"the generated header lacks a part of the interface ManagedFilter looks at: {e!r}"[:300], cfg)
                        hi = None
                    if hi is not None:
                        iface_pending.append((idrv.add({"op": "iface", "ekf": eh.ekf_json(d, process, sensor), "maxdt": core.frac_str(F(max_dt))}), hi, cfg, max_dt))
                    jobs.append((g, d, make_main(d, g["name"])))
                    metas.append((d, pt, max_dt, cfg))
                    i += 1
    built = cppgen.build_many(jobs)
    # interface correspondence: header text against EkfDef.iface of the model
    ians = idrv.run()
    for idx, hi, cfg, max_dt in iface_pending:
        a = ians[idx]
        if "ok" not in a:
            ctx.fail("interface-model-error", f"the model cannot produce the interface of this definition: {a}"[:300], cfg); continue
        m = a["ok"]
        ctx.evaluations += 1; ctx.count("interface-compared")
        for k in ("StateAndVarianceT", "CalibrationT", "ControlT", "StampedReadingBaseT", "processArgs", "readingArgs", "sensorIds"):
            if hi.get(k) != m[k]:
                ctx.fail(f"interface-differs:{k}", f"the generated header declares {k} = {hi.get(k)!r}; the interface model of this definition "
                         f"(with/without control, calibration; its sensors) has {m[k]!r}", dict(cfg, header=hi, model=m))
        if hi["tag_max_dt"] != "cpp::Config::max_dt_sec" or float(hi["max_dt_sec"]) != max_dt:
            ctx.fail("interface-differs:max_dt_sec", f"Tag::max_dt_sec = {hi['tag_max_dt']} and Config::max_dt_sec = {hi['max_dt_sec']}; configured "
                     f"maximum step is {max_dt!r}", dict(cfg, header=hi))
        if not m["compatible"] or m["processCall"] != hi["processArgs"] or m["readingCall"] != hi["readingArgs"]:
            ctx.fail("interface-call-mismatch", "what ManagedFilter passes (per the model of its if-constexpr branches) is not what the generated "
                     "header declares", dict(cfg, header=hi, model=m))
    # scenarios
    drv = core.Driver()
    plans = []
    scen = []
    for (d, pt, max_dt, cfg), (exe, err) in zip(metas, built):
        presence = f"control={cfg['control']},calibration={cfg['calibration']}"
        if exe is None:
            ctx.case(cfg, True)
            ctx.fail(f"managed-filter-does-not-compile:{presence}",
                     "generated filter + ManagedFilter (compatibility check, tick with/without readings) do not compile: " + err[-700:], cfg)
            continue
        Ls, Lc, Lk = eh.names_of(d)
        keys = sorted(d.sensors)
        for s in range(3 if ctx.quick else 10):
            t0 = ctx.rng.randint(-8, 8) / 8
            nt = ctx.rng.randint(1, 3)
            ticks = []
            for _ in range(nt):
                nr = ctx.rng.choice([0, 1, 2, 3]) if keys else 0
                rs = []
                for _ in range(nr):
                    sid = ctx.rng.randrange(len(keys))
                    rs.append((t0 + max_dt * ctx.rng.randint(-24, 40) / 8, sid, {r: float(gen.dyadic(ctx.rng)) for r in d.sensors[keys[sid]]}))
                ticks.append({"out": t0 + max_dt * ctx.rng.randint(-24, 40) / 8, "readings": rs, "with_list": ctx.rng.random() < 0.3})
            if s == 0:
                # the same output time asked again straight away, no reading in between - only the control differs
                ticks = ticks[:2] + [{"out": ticks[-1]["out"], "readings": [], "with_list": False}] if len(ticks) >= 1 else ticks
                ticks.insert(1, {"out": ticks[0]["out"], "readings": [], "with_list": False})
            P = eh.spd(ctx.rng, len(Ls))
            # plan requests for every segment
            held = t0
            segs = []
            for tk in ticks:
                for ts, sid, z in tk["readings"]:
                    segs.append(drv.add({"op": "plan", "arith": "float", "maxdt": rh.fbits(max_dt), "cur": rh.fbits(held), "out": rh.fbits(ts)}))
                    held = ts
                segs.append(drv.add({"op": "plan", "arith": "float", "maxdt": rh.fbits(max_dt), "cur": rh.fbits(held), "out": rh.fbits(tk["out"])}))
            scen.append((d, pt, max_dt, cfg, exe, t0, ticks, P, segs))
    ans = drv.run()
    for d, pt, max_dt, cfg, exe, t0, ticks, P, segs in scen:
        Ls, Lc, Lk = eh.names_of(d)
        head = [rh.fbits(t0)] + [rh.fbits(float(pt["state"][s])) for s in Ls] + [rh.fbits(float(v)) for r in P for v in r] \
            + [rh.fbits(float(pt["cal"][s])) for s in Lk] + [rh.fbits(float(pt["control"][s])) for s in Lc] + [str(len(ticks))]
        tick_toks, hand_toks = [], []
        it = iter(segs)
        for tk in ticks:
            tick_toks += [rh.fbits(tk["out"]), str(len(tk["readings"]))]
            hand_toks += [str(len(tk["readings"]))]
            for ts, sid, z in tk["readings"]:
                zt = [rh.fbits(z[r]) for r in sorted(z)]
                tick_toks += [rh.fbits(ts), str(sid)] + zt
                plan = ans[next(it)]["ok"]
                hand_toks += [str(len(plan))] + plan + [str(sid)] + zt
            tick_toks += ["1" if tk["with_list"] else "0"]
            plan = ans[next(it)]["ok"]
            hand_toks += [str(len(plan))] + plan
        case = dict(cfg, t0=t0, ticks=[{"out": t["out"], "readings": [(a, b) for a, b, _ in t["readings"]]} for t in ticks])
        nontrivial = any(t["readings"] for t in ticks) or any(t["out"] < t0 for t in ticks)
        ctx.case(case, nontrivial); ctx.traces += 1
        ctx.count(f"control={cfg['control']},calibration={cfg['calibration']}"); ctx.count(f"sensors={cfg['sensors']}"); ctx.count(f"max_dt={max_dt}")
        try:
            o = cppgen.run_exe(exe, [" ".join(["tick"] + head + tick_toks), " ".join(["hand"] + head + hand_toks)])
        except Exception as e:
            ctx.fail("managed-filter-crashes", repr(e)[:300], case); continue
        if o[0] != o[1] or not o[0]:
            ctx.fail("managed-tick-vs-byhand", "ticking through ManagedFilter returns something different from calling the filter's "
                     "process_model / sensor_model by hand in the same order", dict(case, tick=o[0], byhand=o[1]))
    return core.finish(ctx, audit, NOTE, RULE, PARTIAL)


def replay(ctx, data):
    import json
    print(json.dumps(data, indent=1)[:3000]); return 0
