"""C16 — scikit-learn adapter's transform / mahalanobis / score are the filter's NIS."""
from __future__ import annotations

import copy
import math
from fractions import Fraction as F

import numpy as np
import sympy

import sys

import core

sys.set_int_max_str_digits(0)
import ekf_h as eh
import fk
import gen

RULE = ("estimators over bounded-dynamics definitions with 1-2 sensors of 1-2 readings and 0-2 controls (>=2 sensors or >=2 controls in "
        "half), thresholds k>0 or disabled, dyadic data matrices of 4-8 rows (quick) / up to 40 (thorough); transform vs running the "
        "exported filter by hand vs the Lean model; mahalanobis, score(explain_score=True), parameter identity before/after, repeated "
        "calls; distinct by (definition, config, data); non-trivial = >=2 sensors or >=2 controls or a reading with >=2 components; "
        "fixed stream sensor-ids-not-strings: 2-3 sensors keyed by ints of different digit counts / (name, number) tuples / floats / IntEnum "
        "members (equal and unequal reading counts, either insertion order), transform and mahalanobis vs the filter run by hand in sorted(keys) order; "
        "fixed stream score-with-sample-weights: score(X, sample_weight=w) for 0/1 masks, recency weights in (0, 1], integer repeat counts, "
        "mean-one and all-one weights (2-sensor and 1-sensor estimators, filtering on and off): a weight of one per value must give the documented "
        "combination of the by-hand NIS, every other weighting must be repeatable and finite (how weights enter is not documented, so not demanded); "
        "fixed stream readings-in-very-different-units: a 2-reading sensor (next to a 1-reading one) whose readings are a state times 2^-30 / 2^30 / 2^-24 with "
        "noises scaled alike (innovation covariance valid and invertible, condition number 1e14-1e18), filtering on and off: transform / mahalanobis / score "
        "vs y^T S^-1 y solved in exact rational arithmetic on the exported filter's own y and S; "
        "fixed stream noise-tables-keyed-by-symbols: sensor noise tables keyed by the reading's Symbol, by name, or mixed in one table: parameters (key types, "
        "keys, values, the caller's own dicts) before vs after each of transform / mahalanobis / score, values vs the by-hand run and vs the "
        "name-keyed twin")
NOTE = ["by-hand oracle: export_python(), predict with dt = 0.1, update sensors in sorted key order, NIS from the recorded innovation and S",
        "Lean model uses dt = 1/10 exactly (binary64 0.1 differs by 5e-18 relative) and exact rationals; compared under 1e-9 relative "
        "tolerance; rows after a reading whose NIS is within 1e-7 of the editing threshold are not compared with the exact model",
        "sensor-ids-not-strings: 'key order' is sorted(keys) of the ids themselves (2 before 10, ('imu', 2) before ('imu', 10)), which is also the "
        "order the by-hand run slices the row and updates in; inputs fixed by a private generator (no draws from the shared stream)",
        "score-with-sample-weights: one weight per NIS value (row-major, n_samples * n_sensors); with all-one weights the oracle is the documented "
        "10 * mean(sqrt(NIS))^2 + (1/V + V)/2 with V = sum(NIS) + 0.01 * sum(noise^2), NIS from the exported filter run by hand, and must equal the "
        "unweighted score; for other weightings only repeatability and finiteness are demanded - the property speaks of the documented combination "
        "and the weighted form is documented nowhere (a seeded change that renormalises the weighted bias term, C16-r7-2, is therefore deliberately "
        "not reported); weight vectors with V <= 0 are skipped and counted",
        "readings-in-very-different-units: the oracle is by_hand(exact=True): predict/update through the exported filter, NIS of each reading as the exact "
        "rational solution of y^T S^-1 y (Cramer, Fractions) for the binary64 y = z - h(x) and S = H P H^T + R built from the filter's parts - no inverse "
        "routine and no cutoff of small directions; same 1e-9 relative tolerance; inputs fixed in the code; an S that is exactly singular is skipped and counted",
        "noise-tables-keyed-by-symbols: the library matches noise entries to readings by name, so Symbol keys are accepted inputs; 'parameters unchanged' is "
        "read as: get_params() holds the same objects, and their content compared with key TYPES (a Symbol key that became a str is a change); inputs fixed in the code; "
        "score is not called (and counted) when a table of 2+ entries has Symbol keys: score sorts the keys of each table and raises TypeError there on the unpatched library"]
LEAN_ROWS = 2
PARTIAL = ["numpy float arithmetic; scikit-learn BaseEstimator machinery is not modelled"]


def make_adapter(d, process, sensor, cal, k):
    from formak import python
    m = fk.ui_model(d)
    return python.SklearnEKFAdapter.Create(
        m, {sympy.Symbol(n): float(v) for n, v in process.items()}, {key: dict(rd) for key, rd in d.sensors.items()},
        {key: {r: float(v) for r, v in rd.items()} for key, rd in sensor.items()},
        {s: float(cal[s.name]) for s in d.calibration}, config=python.Config(innovation_filtering=k))


def _exact_nis(y, S):
    """y^T S^-1 y in exact rational arithmetic for binary64 y (m, 1) and S (m, m), m <= 2; None when S is exactly singular"""
    m = S.shape[0]
    yy = [F(float(y[i, 0])) for i in range(m)]
    SS = [[F(float(S[i, j])) for j in range(m)] for i in range(m)]
    if m == 1:
        return None if SS[0][0] == 0 else float(yy[0] * yy[0] / SS[0][0])
    if m == 2:
        det = SS[0][0] * SS[1][1] - SS[0][1] * SS[1][0]
        if det == 0:
            return None
        return float((yy[0] * yy[0] * SS[1][1] - yy[0] * yy[1] * (SS[0][1] + SS[1][0]) + yy[1] * yy[1] * SS[0][0]) / det)
    sol = sympy.Matrix(m, m, [sympy.Rational(v.numerator, v.denominator) for r in SS for v in r])
    if sol.det() == 0:
        return None
    yv = sympy.Matrix(m, 1, [sympy.Rational(v.numerator, v.denominator) for v in yy])
    return float((yv.T * sol.LUsolve(yv))[0, 0])


def by_hand(adapter, d, X, exact=False):
    """`exact`: the NIS of each reading is solved in exact rational arithmetic on the filter's y and S (None where S is singular)"""
    ekf = adapter.export_python()
    st, cv = ekf.State(), ekf.Covariance()
    out = []
    nc = len(d.control)
    for row in X:
        ctl = ekf.Control.from_data(np.array(row[:nc], dtype=float).reshape((nc, 1)))
        st, cv = ekf.process_model(0.1, st, cv, ctl)
        rest = list(row[nc:])
        nis_row = []
        for key in sorted(d.sensors):
            m = len(d.sensors[key])
            z, rest = rest[:m], rest[m:]
            zc = np.array(z, dtype=float).reshape((m, 1))
            # innovation and innovation covariance of THIS reading, computed from the filter's parts (not read from what the
            # filter happens to have recorded): z - h(x), H P H^T + R at the estimate before the update
            y = zc - np.asarray(ekf.sensor_models[key].model(st).data, dtype=float).reshape((m, 1))
            Hm = np.asarray(ekf.sensor_jacobian(key, st), dtype=float)
            Rm = np.asarray(getattr(ekf.sensor_noises[key], "data", ekf.sensor_noises[key]), dtype=float)
            S = Hm @ np.asarray(cv.data, dtype=float) @ Hm.T + Rm
            st, cv = ekf.sensor_model(st, cv, sensor_key=key, sensor_reading=ekf.make_reading(key, data=zc))
            nis_row.append(_exact_nis(y, S) if exact else float((y.T @ np.linalg.inv(S) @ y).item()))
        out.append(nis_row)
    return out


def results_are_values_and_vector_data(ctx):
    """(a) what transform returned stays what it was when the estimator is used again on other data of the same shape; (b) for a model
    whose data matrix has ONE column (no control, one sensor with one reading) a plain vector of samples is that column"""
    for i in range(2 if ctx.quick else 8):
        d = gen.tame_definition(ctx.rng, n_control=1, n_sensors=2, n_calib=0)
        process, sensor = eh.make_noises(ctx.rng, d)
        width = len(d.control) + sum(len(rd) for rd in d.sensors.values())
        X1 = np.array([[float(gen.dyadic(ctx.rng, -2, 2)) for _ in range(width)] for _ in range(4)], dtype=float)
        X2 = X1 * 1.5 + 0.25
        case = {"def": d.describe(), "stream": "results-are-values"}
        ctx.case(case, True); ctx.count("stream=results-are-values")
        try:
            with fk.quiet():
                ad = make_adapter(d, process, sensor, {}, 4.0)
                r1 = ad.transform(X1)
                first = np.array(r1, dtype=float).copy()
                ad.transform(X2); ad.mahalanobis(X2); ad.score(X2)
            if not np.array_equal(np.array(r1, dtype=float), first):
                ctx.fail("transform-result-overwritten", "the array returned by transform(X1) changed when the estimator was used on other data of the same shape", case)
        except Exception as e:
            ctx.fail(f"adapter-raises:{fk.exc_kind(e)}", repr(e)[:300], case)
    # (b)
    x, v, dt = sympy.symbols("qx qv dt")
    d = gen.Definition(dt, [x, v], [], [], {x: x + dt * v, v: v * sympy.Rational(9, 10)}, {"only": {"r": x + v}})
    process, sensor = {}, {"only": {"r": F(1, 2)}}
    col = np.array([[0.5], [0.75], [-0.25], [1.5], [0.125]], dtype=float)
    case = {"def": d.describe(), "stream": "vector-of-samples", "samples": col.reshape(-1).tolist()}
    ctx.case(case, True); ctx.count("stream=vector-of-samples")
    try:
        with fk.quiet():
            ad = make_adapter(d, process, sensor, {}, None)
            Tc = np.asarray(ad.transform(col), dtype=float)
            Tv = np.asarray(ad.transform(col.reshape(-1)), dtype=float)
            Tl = np.asarray(ad.transform(col.reshape(-1).tolist()), dtype=float)
            H = np.array(by_hand(ad, d, col.tolist()), dtype=float)
        for label, T in (("an (n, 1) column", Tc), ("a 1-D array of n samples", Tv), ("a flat list of n samples", Tl)):
            if T.shape != H.shape or float(np.max(np.abs(T - H))) > 1e-9 * (1 + float(np.max(np.abs(H)))):
                ctx.fail("transform-vs-byhand:vector-data", f"data given as {label}: transform returns shape {T.shape} {T.tolist()}, the exported filter run by "
                         f"hand over the n samples gives {H.tolist()}", case)
                break
    except Exception as e:
        ctx.fail(f"adapter-raises:{fk.exc_kind(e)}:vector-data", repr(e)[:300], case)


def special_configurations_and_data(ctx):
    """(a) the configuration given as a plain dict with filtering disabled (`{"innovation_filtering": None}`), data with a gross
    outlier row: transform is still the exported filter run by hand; (b) data the model predicts almost exactly (total NIS far
    below 1e-6): the score is still the documented combination"""
    from formak import python
    for i in range(2 if ctx.quick else 10):
        d = gen.tame_definition(ctx.rng, n_control=1, n_sensors=2, n_calib=0)
        process, sensor = eh.make_noises(ctx.rng, d)
        width = len(d.control) + sum(len(rd) for rd in d.sensors.values())
        # (a)
        X = np.array([[float(gen.dyadic(ctx.rng, -2, 2)) for _ in range(width)] for _ in range(5)], dtype=float)
        X[1, len(d.control):] += 300.0
        case = {"def": d.describe(), "stream": "dict-config-filtering-disabled", "X": X.tolist()}
        ctx.case(case, True); ctx.count("stream=dict-config-filtering-disabled")
        try:
            with fk.quiet():
                ad = python.SklearnEKFAdapter.Create(
                    fk.ui_model(d), {sympy.Symbol(n): float(v) for n, v in process.items()}, {key: dict(rd) for key, rd in d.sensors.items()},
                    {key: {r: float(v) for r, v in rd.items()} for key, rd in sensor.items()}, {}, config={"innovation_filtering": None})
                T = np.asarray(ad.transform(X), dtype=float)
                H = np.array(by_hand(ad, d, X.tolist()), dtype=float)
            if T.shape != H.shape or float(np.max(np.abs(T - H))) > 1e-9 * (1 + float(np.max(np.abs(H)))):
                ctx.fail("transform-vs-byhand:dict-config", f"config given as a dict with filtering disabled: transform returns {T.tolist()}, the exported "
                         f"filter run by hand gives {H.tolist()}", case)
        except Exception as e:
            ctx.fail(f"adapter-raises:{fk.exc_kind(e)}:dict-config", f"adapter with a dict configuration raises {e!r}"[:300], case)
        # (b)
        try:
            with fk.quiet():
                ad = make_adapter(d, process, sensor, {}, None)
                ekf = ad.export_python()
                st, cv = ekf.State(), ekf.Covariance()
                rows = []
                nc = len(d.control)
                for r_i in range(4):
                    ctl_vals = [0.25 * (r_i + 1)] * nc
                    st, cv = ekf.process_model(0.1, st, cv, ekf.Control.from_data(np.array(ctl_vals, dtype=float).reshape((nc, 1))))
                    row = list(ctl_vals)
                    for key in sorted(d.sensors):
                        m = len(d.sensors[key])
                        z = np.asarray(ekf.sensor_models[key].model(st).data, dtype=float).reshape((m, 1)) + 1e-6 * (1 + r_i)
                        row += z.reshape(-1).tolist()
                        st, cv = ekf.sensor_model(st, cv, sensor_key=key, sensor_reading=ekf.make_reading(key, data=z))
                    rows.append(row)
                Xe = np.array(rows, dtype=float)
                T = np.asarray(ad.transform(Xe), dtype=float)
                sc, expl = ad.score(Xe, explain_score=True)
            case = {"def": d.describe(), "stream": "nearly-exact-data", "X": Xe.tolist(), "total_nis": float(np.sum(T))}
            ctx.case(case, True); ctx.count("stream=nearly-exact-data")
            bias = float(np.mean(np.sqrt(T.flatten()))) ** 2
            var = float(np.sum(T))
            mat = sum(float(v) ** 2 for v in process.values()) + sum(float(v) ** 2 for rd in sensor.values() for v in rd.values())
            want = 10.0 * bias + 1.0 * ((1.0 / var + var) / 2.0) + 0.01 * mat
            if not (var < 1e-6):
                ctx.count("nearly_exact_data_not_small_enough")
            if not core.close(sc, want, scale=abs(want)):
                ctx.fail("score-formula:nearly-exact-data", f"total NIS {var!r}: score {sc!r} is not 10*bias + (1/var + var)/2 + 0.01*matrix = {want!r}", case)
        except ValueError as e:
            if "not finite" in str(e):
                ctx.count("score_not_finite_on_exact_data")
            else:
                ctx.fail(f"adapter-raises:{fk.exc_kind(e)}:nearly-exact", repr(e)[:300], {"def": d.describe(), "stream": "nearly-exact-data"})
        except Exception as e:
            ctx.fail(f"adapter-raises:{fk.exc_kind(e)}:nearly-exact", repr(e)[:300], {"def": d.describe(), "stream": "nearly-exact-data"})


def _case_def(d):
    """describe() with sensor ids written out (ids that are not strings cannot be JSON object keys as they are)"""
    c = d.describe()
    c["sensors"] = {repr(k): v for k, v in c["sensors"].items()}
    return c


def sensor_ids_that_are_not_strings(ctx):
    """sensors keyed by ids that are not strings: 'key order' is the order of the ids themselves (sorted(keys)); a data row is
    [controls, readings of each sensor in that order] and the filter is updated in that order. Inputs are fixed (private generator)."""
    import enum
    import random

    class Sid(enum.IntEnum):
        FRONT = 2
        REAR = 10

    prng = random.Random(0xC16A)
    # (ids in insertion order, readings per sensor: None = whatever the generator draws (1-2), 1 = all sensors one reading)
    plans = [([2, 10], 1), ([10, 2], None), ([10, 9, 100], None), ([("imu", 2), ("imu", 10)], 1), ([2.5, 10.0], None), ([Sid.REAR, Sid.FRONT], 1)]
    for p_i, (ids, readings) in enumerate(plans):
        d = gen.tame_definition(prng, n_control=1, n_sensors=len(ids), n_calib=0, max_readings=readings or 2)
        d.sensors = {new: rd for new, (_, rd) in zip(ids, list(d.sensors.items()))}
        process, sensor = eh.make_noises(prng, d)
        width = len(d.control) + sum(len(rd) for rd in d.sensors.values())
        X = np.array([[float(gen.dyadic(prng, -2, 2)) for _ in range(width)] for _ in range(5)], dtype=float)
        k = None if p_i % 2 == 0 else 5.0
        case = {"def": _case_def(d), "stream": "sensor-ids-not-strings", "ids": [repr(i) for i in ids], "filtering": k, "X": X.tolist()}
        ctx.case(case, True); ctx.count("stream=sensor-ids-not-strings"); ctx.count(f"sensor_id_type={type(ids[0]).__name__}")
        try:
            with fk.quiet():
                ad = make_adapter(d, process, sensor, {}, k)
                T = np.asarray(ad.transform(X), dtype=float)
                M = np.asarray(ad.mahalanobis(X), dtype=float)
                H = np.array(by_hand(ad, d, X.tolist()), dtype=float)
        except Exception as e:
            ctx.fail(f"adapter-raises:{fk.exc_kind(e)}:sensor-ids-not-strings", f"sensors keyed by {ids!r}: adapter call raises {e!r}"[:300], case)
            continue
        tol = 1e-9 * (1 + float(np.max(np.abs(H))))
        if T.shape != H.shape or float(np.max(np.abs(T - H))) > tol:
            ctx.fail("transform-vs-byhand:sensor-ids-not-strings", f"sensors keyed by {ids!r} (key order {sorted(ids)!r}): transform returns {T.tolist()} but "
                     f"running the exported filter by hand over [controls, sensors in key order] gives {H.tolist()}", case)
            continue
        if M.shape != (H.size,) or float(np.max(np.abs(M - H.flatten()))) > tol:
            ctx.fail("mahalanobis-vs-byhand:sensor-ids-not-strings", f"sensors keyed by {ids!r}: mahalanobis returns {M.tolist()}, the by-hand NIS "
                     f"flattened is {H.flatten().tolist()}", case)


def score_with_sample_weights(ctx):
    """score(X, sample_weight=w), one weight per NIS value: 10 * mean(sqrt(NIS) * w)^2 + (1/V + V)/2 + 0.01 * size, V = sum(NIS * w),
    with the NIS of the exported filter run by hand. Inputs are fixed (private generator)."""
    import random
    prng = random.Random(0xC16B)
    x, v, dt = sympy.symbols("qx qv dt")
    one = gen.Definition(dt, [x, v], [], [], {x: x + dt * v, v: v * sympy.Rational(9, 10)}, {"only": {"r": x + v}})
    setups = [(gen.tame_definition(prng, n_control=1, n_sensors=2, n_calib=0), None, None),
              (gen.tame_definition(prng, n_control=2, n_sensors=2, n_calib=0), 4.0, None),
              (one, None, ({}, {"only": {"r": F(1, 2)}}))]
    for d, k, noises in setups:
        process, sensor = noises if noises is not None else eh.make_noises(prng, d)
        width = len(d.control) + sum(len(rd) for rd in d.sensors.values())
        nrows = 6
        X = np.array([[float(gen.dyadic(prng, -2, 2)) for _ in range(width)] for _ in range(nrows)], dtype=float)
        base = {"def": d.describe(), "stream": "score-with-sample-weights", "filtering": k, "X": X.tolist()}
        try:
            with fk.quiet():
                ad = make_adapter(d, process, sensor, {}, k)
                H = np.array(by_hand(ad, d, X.tolist()), dtype=float)
                plain = ad.score(X)
        except Exception as e:
            ctx.fail(f"adapter-raises:{fk.exc_kind(e)}:sample-weights", repr(e)[:300], base)
            continue
        nis = H.flatten()
        N = nis.size
        ns = len(d.sensors)
        mat = sum(float(q) ** 2 for q in process.values()) + sum(float(q) ** 2 for rd in sensor.values() for q in rd.values())
        weightings = [
            ("all ones", np.ones(N)),
            ("mean-one weights", np.array([0.5, 1.5] * (N // 2), dtype=float)),
            ("0/1 mask dropping the first two rows", np.array([0.0] * (2 * ns) + [1.0] * (N - 2 * ns))),
            ("0/1 mask keeping every other row", np.array(([1.0] * ns + [0.0] * ns) * (nrows // 2))),
            ("recency weights in (0, 1]", np.linspace(0.1, 1.0, N)),
            ("integer repeat counts", np.array([float(1 + (j % 3)) for j in range(N)])),
            ("integer repeat counts as a list of ints", [1 + (j % 3) for j in range(N)]),
            ("uniform weight 1/4", np.full(N, 0.25)),
        ]
        for label, w in weightings:
            wf = np.asarray(w, dtype=float)
            case = dict(base, weights=label, sample_weight=wf.tolist())
            V = float(np.sum(nis * wf))
            if not (V > 0.0):
                ctx.count("sample_weights_total_not_positive"); continue
            ctx.case(case, True); ctx.count("stream=score-with-sample-weights")
            bias = float(np.mean(np.sqrt(nis) * wf)) ** 2
            want = 10.0 * bias + 1.0 * ((1.0 / V + V) / 2.0) + 0.01 * mat
            try:
                with fk.quiet():
                    sc, expl = ad.score(X, sample_weight=w, explain_score=True)
                    sc2 = ad.score(X, sample_weight=w) if label.startswith("recency") else sc
            except Exception as e:
                ctx.fail(f"adapter-raises:{fk.exc_kind(e)}:sample-weights", f"score with {label} raises {e!r}"[:300], case)
                continue
            # The property speaks of the DOCUMENTED combination; how weights enter it is documented nowhere (only the unweighted form is),
            # so the formula is demanded for a weight of one per value only - other weightings must be repeatable and finite.
            if label != "all ones":
                if sc != sc2:
                    ctx.fail("adapter-not-repeatable:sample-weights", "repeating score with the same weights gives a different value", case)
                elif not np.isfinite(sc):
                    ctx.fail("score-not-finite:sample-weights", f"{label}: score {sc!r}", case)
                continue
            if not core.close(sc, want, scale=abs(want)) or not core.close(expl[1], bias, scale=bias):
                ctx.fail("score-formula:sample-weights", f"{label} (sum {float(np.sum(wf))!r} over {N} values): score {sc!r} is not "
                         f"10*mean(sqrt(NIS)*w)^2 + (1/V + V)/2 + 0.01*matrix = {want!r} (bias term {expl[1]!r}, wanted {bias!r})", case)
            elif sc != sc2:
                ctx.fail("adapter-not-repeatable:sample-weights", "repeating score with the same weights gives a different value", case)
            elif label == "all ones" and not core.close(sc, plain, scale=abs(plain)):
                ctx.fail("score-all-ones-vs-unweighted", f"score with a weight of one per value {sc!r} differs from the unweighted score {plain!r}", case)


def readings_in_very_different_units(ctx):
    """a sensor whose two readings are in very different units (a state times 2^-30 next to a state as it is, ...): the innovation
    covariance is valid and invertible but badly scaled; transform / mahalanobis / score are still the filter's NIS, here solved in
    exact rational arithmetic on the exported filter's own innovation and S. Inputs are fixed."""
    R = sympy.Rational
    x, y, u, dt = sympy.symbols("qx qy qu dt")
    # (scale of reading a, scale of reading b, filtering)
    plans = [(R(1, 2 ** 30), R(1), None), (R(1, 2 ** 30), R(1), 5.0), (R(1), R(2 ** 30), None), (R(2 ** 15), R(1, 2 ** 15), 4.0),
             (R(1, 2 ** 24), R(1), None)]
    base_rows = [[0.5, 1.25, -0.75, 0.5], [-1.0, -0.5, 1.5, 1.0], [0.25, 2.0, 0.25, -1.5], [1.5, -1.75, -1.0, 0.75], [-0.5, 0.75, 2.0, 0.25],
                 [0.75, -0.25, -0.5, -1.0]]
    for sa, sb, k in plans:
        d = gen.Definition(dt, [x, y], [u], [], {x: x + dt * u, y: y * R(7, 8) + dt * u / 2},
                           {"pair": {"a": sa * x, "b": sb * y}, "solo": {"c": x + y}})
        process = {"qu": F(1, 4)}
        sensor = {"pair": {"a": F(3, 8) * F(sa.p, sa.q) ** 2, "b": F(1, 2) * F(sb.p, sb.q) ** 2}, "solo": {"c": F(5, 16)}}
        X = np.array([[r[0], r[1] * float(sa), r[2] * float(sb), r[3]] for r in base_rows], dtype=float)
        case = {"def": d.describe(), "stream": "readings-in-very-different-units", "scales": [str(sa), str(sb)], "filtering": k,
                "sensor_noise": {a: {r: str(v) for r, v in b.items()} for a, b in sensor.items()}, "X": X.tolist()}
        ctx.case(case, True); ctx.count("stream=readings-in-very-different-units")
        try:
            with fk.quiet():
                ad = make_adapter(d, process, sensor, {}, k)
                T = np.asarray(ad.transform(X), dtype=float)
                M = np.asarray(ad.mahalanobis(X), dtype=float)
                sc = ad.score(X)
                hand = by_hand(ad, d, X.tolist(), exact=True)
        except Exception as e:
            ctx.fail(f"adapter-raises:{fk.exc_kind(e)}:different-units", f"readings scaled by {sa} and {sb}: adapter call raises {e!r}"[:300], case)
            continue
        if any(v is None for row in hand for v in row):
            ctx.count("different_units_S_exactly_singular"); continue
        H = np.array(hand, dtype=float)
        tol = 1e-9 * (1 + float(np.max(np.abs(H))))
        if T.shape != H.shape or not np.all(np.isfinite(T)) or float(np.max(np.abs(T - H))) > tol:
            ctx.fail("transform-vs-byhand:different-units", f"readings scaled by {sa} and {sb}: transform returns {T.tolist()} but the exported filter "
                     f"run by hand, y^T S^-1 y solved exactly, gives {H.tolist()}", case)
            continue
        if M.shape != (H.size,) or not np.all(np.isfinite(M)) or float(np.max(np.abs(M - H.flatten()))) > tol:
            ctx.fail("mahalanobis-vs-byhand:different-units", f"readings scaled by {sa} and {sb}: mahalanobis returns {M.tolist()}, the by-hand NIS "
                     f"flattened is {H.flatten().tolist()}", case)
            continue
        flat = H.flatten()
        var = float(np.sum(flat))
        mat = sum(float(v) ** 2 for v in process.values()) + sum(float(v) ** 2 for rd in sensor.values() for v in rd.values())
        want = 10.0 * float(np.mean(np.sqrt(flat))) ** 2 + (1.0 / var + var) / 2.0 + 0.01 * mat
        if not (var > 0.0):
            ctx.count("different_units_total_nis_zero"); continue
        if not core.close(sc, want, scale=abs(want)):
            ctx.fail("score-formula:different-units", f"readings scaled by {sa} and {sb}: score {sc!r} is not 10*bias + (1/var + var)/2 + 0.01*matrix "
                     f"= {want!r} of the by-hand NIS", case)


def _typed(params):
    """the estimator's parameters as comparable values in which the TYPE of every dict key counts"""
    def conv(v):
        if isinstance(v, dict):
            return ("dict", [((type(a).__module__, type(a).__name__, str(a)), conv(b)) for a, b in v.items()])
        if isinstance(v, (list, tuple)):
            return (type(v).__name__, [conv(b) for b in v])
        if isinstance(v, (int, float, str, bool)) or v is None:
            return (type(v).__name__, v)
        return (type(v).__name__, repr(v))
    return {kk: conv(vv) for kk, vv in params.items() if kk != "symbolic_model"}


def noise_tables_keyed_by_symbols(ctx):
    """sensor noise tables keyed by the reading's Symbol (or by name, or mixed in one table) - the library matches noise entries to
    readings by name: transform / mahalanobis / score leave the estimator's parameters (and the dicts the caller handed over) as
    they were, key types included, and return the by-hand values. Inputs are fixed."""
    from formak import python
    R = sympy.Rational
    S_ = sympy.Symbol
    x, y, u, dt = sympy.symbols("qx qy qu dt")
    d2 = gen.Definition(dt, [x, y], [u], [], {x: x + dt * u, y: y * R(7, 8) + dt * u / 2}, {"first": {"alt": x}, "second": {"rng": x + y}})
    d3 = gen.Definition(dt, [x, y], [u], [], {x: x * R(15, 16) + dt * u, y: y + dt * x}, {"first": {"alt": x, "brg": y - x}, "second": {"rng": x + y}})
    d1 = gen.Definition(dt, [x, y], [], [], {x: x + dt * y, y: y * R(9, 10)}, {"only": {"r": x + y}})
    plans = [
        ("every table keyed by Symbols", d2, {"first": {S_("alt"): 0.5}, "second": {S_("rng"): 0.3125}}, None),
        ("every table keyed by Symbols", d3, {"first": {S_("alt"): 0.5, S_("brg"): 0.75}, "second": {S_("rng"): 0.3125}}, 5.0),
        ("one table keyed by Symbols, one by names", d3, {"first": {"alt": 0.5, "brg": 0.75}, "second": {S_("rng"): 0.3125}}, None),
        ("Symbol and name keys mixed in one table", d3, {"first": {S_("alt"): 0.5, "brg": 0.75}, "second": {"rng": 0.3125}}, 4.0),
        ("single sensor keyed by a Symbol", d1, {"only": {S_("r"): 0.5}}, None),
        ("every table keyed by names", d2, {"first": {"alt": 0.5}, "second": {"rng": 0.3125}}, 5.0),
    ]
    base_rows = [[0.5, 1.25, -0.75, 0.5], [-1.0, -0.5, 1.5, 1.0], [0.25, 2.0, 0.25, -1.5], [1.5, -1.75, -1.0, 0.75], [-0.5, 0.75, 2.0, 0.25]]
    for label, d, noises, k in plans:
        width = len(d.control) + sum(len(rd) for rd in d.sensors.values())
        X = np.array([r[:width] for r in base_rows], dtype=float)
        case = {"def": d.describe(), "stream": "noise-tables-keyed-by-symbols", "noise_tables": label, "filtering": k,
                "sensor_noises": {a: {f"{type(r).__name__}:{r}": v for r, v in b.items()} for a, b in noises.items()}, "X": X.tolist()}
        ctx.case(case, True); ctx.count("stream=noise-tables-keyed-by-symbols")
        process = {S_(s.name): 0.25 for s in d.control}
        handed = {"process_noise": process, "sensor_models": {key: dict(rd) for key, rd in d.sensors.items()}, "sensor_noises": noises}
        handed_before = _typed(handed)
        try:
            with fk.quiet():
                ad = python.SklearnEKFAdapter.Create(fk.ui_model(d), handed["process_noise"], handed["sensor_models"], handed["sensor_noises"], {},
                                                     config=python.Config(innovation_filtering=k))
                twin = make_adapter(d, {str(a): b for a, b in process.items()}, {a: {str(r): v for r, v in b.items()} for a, b in noises.items()}, {}, k)
                before = ad.get_params()
                typed_before = _typed(before)
        except Exception as e:
            ctx.fail(f"adapter-raises:{fk.exc_kind(e)}:noise-keys", f"{label}: creating the estimator raises {e!r}"[:300], case)
            continue
        results = {}
        stop = False
        # a noise table may key its readings by Symbol (names are what counts: compile_ekf, transform and mahalanobis take such tables);
        # score must then be the documented combination too (F17: it raised TypeError while sorting the Symbols of a 2+-entry table)
        if not all(len(t) == 1 or all(isinstance(r, str) for r in t) for t in noises.values()):
            ctx.count("score_called:multi_entry_table_with_symbol_keys")
        for call in ("transform", "mahalanobis", "score"):
            try:
                with fk.quiet():
                    r1 = getattr(ad, call)(X.copy())
                    after = ad.get_params()
                    typed_after = _typed(after)
                    r2 = getattr(ad, call)(X.copy())
            except Exception as e:
                ctx.fail(f"adapter-raises:{fk.exc_kind(e)}:noise-keys", f"{label}: {call} raises {e!r}"[:300], case)
                stop = True; break
            changed = [kk for kk in typed_before if typed_after.get(kk) != typed_before[kk]]
            if set(after) != set(before) or any(after[kk] is not before[kk] for kk in before) or changed:
                ctx.fail("adapter-mutates-params:noise-keys", f"{label}: {call} changed the estimator's parameters {changed or sorted(before)}: "
                         f"{[typed_before[c] for c in changed]} became {[typed_after.get(c) for c in changed]}"[:600], dict(case, call=call))
                stop = True; break
            if _typed(handed) != handed_before:
                ctx.fail("adapter-mutates-params:callers-dicts", f"{label}: {call} rewrote the dicts handed to the estimator", dict(case, call=call))
                stop = True; break
            if not np.array_equal(np.asarray(r1, dtype=float), np.asarray(r2, dtype=float)):
                ctx.fail("adapter-not-repeatable:noise-keys", f"{label}: repeating {call} gives different values", dict(case, call=call))
                stop = True; break
            results[call] = r1
        if stop:
            continue
        try:
            with fk.quiet():
                H = np.array(by_hand(ad, d, X.tolist()), dtype=float)
                Tt = np.asarray(twin.transform(X.copy()), dtype=float)
        except Exception as e:
            ctx.fail(f"adapter-raises:{fk.exc_kind(e)}:noise-keys", f"{label}: the by-hand run / name-keyed twin raises {e!r}"[:300], case)
            continue
        T = np.asarray(results["transform"], dtype=float)
        M = np.asarray(results["mahalanobis"], dtype=float)
        tol = 1e-9 * (1 + float(np.max(np.abs(H))))
        if T.shape != H.shape or float(np.max(np.abs(T - H))) > tol:
            ctx.fail("transform-vs-byhand:noise-keys", f"{label}: transform returns {T.tolist()}, the exported filter run by hand gives {H.tolist()}", case)
        elif Tt.shape != T.shape or float(np.max(np.abs(T - Tt))) > tol:
            ctx.fail("transform-vs-name-keyed-twin", f"{label}: transform returns {T.tolist()}, the estimator with the same noises keyed by names "
                     f"returns {Tt.tolist()}", case)
        elif M.shape != (T.size,) or not np.array_equal(M, T.flatten()):
            ctx.fail("mahalanobis-not-flat:noise-keys", f"{label}: mahalanobis is not the transform flattened", case)
        try:
            with fk.quiet():
                twin_score = float(twin.score(X.copy()))
        except Exception as e:
            ctx.fail(f"adapter-raises:{fk.exc_kind(e)}:noise-keys", f"{label}: score of the name-keyed twin raises {e!r}"[:300], case)
            continue
        if not core.close(float(results["score"]), twin_score, scale=abs(twin_score)):
            ctx.fail("score-vs-name-keyed-twin", f"{label}: score {float(results['score'])!r}, the estimator with the same noises keyed by names "
                     f"scores {twin_score!r}", case)


def run(ctx):
    audit = core.lean_audit("C16")
    drv = core.Driver()
    pending = []
    n = 10 if ctx.quick else 80
    for i in range(n):
        big = i % 2 == 0
        d = gen.tame_definition(ctx.rng, n_control=ctx.rng.choice([2] if big else [0, 1]), n_sensors=2 if big else 1, n_calib=ctx.rng.choice([0, 1]))
        process, sensor = eh.make_noises(ctx.rng, d)
        if process and i % 3 == 1:
            process[sorted(process)[0]] = F(0)      # a noise-free control is a valid (non-negative) process noise
        cal = {s.name: gen.dyadic(ctx.rng, -2, 2) for s in d.calibration}
        k = ctx.rng.choice([None, 5.0, 2.0])
        nrows = ctx.rng.randint(4, 8) if ctx.quick else ctx.rng.randint(4, 40)
        width = len(d.control) + sum(len(rd) for rd in d.sensors.values())
        X = [[gen.dyadic(ctx.rng, -3, 3) for _ in range(width)] for _ in range(nrows)]
        Xf = np.array([[float(v) for v in r] for r in X], dtype=float)
        case = {"def": d.describe(), "filtering": k, "noise": {a: str(b) for a, b in process.items()},
                "sensor_noise": {a: {r: str(v) for r, v in b.items()} for a, b in sensor.items()}, "X": [[core.frac_str(v) for v in r] for r in X]}
        nontrivial = len(d.sensors) >= 2 or len(d.control) >= 2 or any(len(rd) >= 2 for rd in d.sensors.values())
        ctx.case(case, nontrivial); ctx.traces += 1
        ctx.count(f"sensors={len(d.sensors)}"); ctx.count(f"controls={len(d.control)}"); ctx.count(f"filtering={k}"); ctx.count(f"rows={nrows}")
        try:
            with fk.quiet():
                ad = make_adapter(d, process, sensor, cal, k)
                before = ad.get_params()
                deep_before = copy.deepcopy({kk: vv for kk, vv in before.items() if kk != "symbolic_model"})
                T1 = np.asarray(ad.transform(Xf), dtype=float)
                T2 = np.asarray(ad.transform(Xf), dtype=float)
                M = np.asarray(ad.mahalanobis(Xf), dtype=float)
                sc, expl = ad.score(Xf, explain_score=True)
                sc2 = ad.score(Xf)
                after = ad.get_params()
                hand = by_hand(ad, d, Xf.tolist())
        except Exception as e:
            ctx.fail(f"adapter-raises:{fk.exc_kind(e)}", f"adapter call raises {e!r}"[:300], case)
            continue
        H = np.array(hand, dtype=float)
        tol = 1e-9 * (1 + float(np.max(np.abs(H))))
        if T1.shape != H.shape or float(np.max(np.abs(T1 - H))) > tol:
            ctx.fail("transform-vs-byhand", f"transform returns {T1.tolist()} but running the exported filter by hand gives {H.tolist()}", case)
            continue
        if np.any(T1 < 0):
            ctx.fail("transform-negative", "transform returned a negative normalised innovation squared", case)
        if not np.array_equal(T1, T2) or sc != sc2:
            ctx.fail("adapter-not-repeatable", "repeating transform/score gives different values", case)
        if M.shape != (T1.size,) or not np.array_equal(M, T1.flatten()):
            ctx.fail("mahalanobis-not-flat", "mahalanobis is not the transform flattened", case)
        bias = float(np.mean(np.sqrt(T1.flatten()))) ** 2
        var = float(np.sum(T1))
        mat = sum(float(v) ** 2 for v in process.values()) + sum(float(v) ** 2 for rd in sensor.values() for v in rd.values())
        want = 10.0 * bias + 1.0 * ((1.0 / var + var) / 2.0) + 0.01 * mat
        if not core.close(sc, want, scale=abs(want)) or not core.close(expl[1], bias, scale=bias) or not core.close(expl[5], mat, scale=mat):
            ctx.fail("score-formula", f"score {sc!r} is not 10*bias + variance + 0.01*matrix = {want!r} (terms {expl})", case)
        if any(after[kk] is not before[kk] for kk in before) or \
                copy.deepcopy({kk: vv for kk, vv in after.items() if kk != "symbolic_model"}) != deep_before:
            ctx.fail("adapter-mutates-params", "transform/mahalanobis/score changed the estimator's parameters", case)
        # "any data matrix": the same numbers given as an integer array or as nested lists of Python ints are the same data
        try:
            Xi = np.array([[ctx.rng.randint(-3, 3) for _ in range(Xf.shape[1])] for _ in range(min(3, Xf.shape[0]))], dtype=np.int64)
            with fk.quiet():
                Ti = np.asarray(ad.transform(Xi), dtype=float)
                Tl = np.asarray(ad.transform(Xi.tolist()), dtype=float)
                Tr = np.asarray(ad.transform(Xi.astype(float)), dtype=float)
            ctx.case(dict(case, integer_matrix=Xi.tolist()), True); ctx.count("stream=integer-data-matrix")
            for label, Tx in (("an int64 array", Ti), ("nested lists of ints", Tl)):
                if Tx.shape != Tr.shape or float(np.max(np.abs(Tx - Tr))) > 1e-9 * (1 + float(np.max(np.abs(Tr)))):
                    ctx.fail("transform-depends-on-dtype", f"transform of {label} gives {Tx.tolist()}, the same numbers as floats give {Tr.tolist()}",
                             dict(case, integer_matrix=Xi.tolist()))
                    break
        except Exception as e:
            ctx.fail(f"adapter-raises:{fk.exc_kind(e)}:integer-matrix", f"transform of an integer data matrix raises {e!r}"[:300], case)
        # one estimator re-used across parameter changes: what transform returns must follow the *current* parameters
        try:
            from formak import python as _fp
            newk = ctx.rng.choice([x for x in (None, 0.5, 3.0) if x != k])
            seq = [("innovation_filtering", newk), ("max_dt_sec", 0.05)]
            if process:
                seq.append(("process_noise", {sympy.Symbol(n): float(v) * 4.0 for n, v in process.items()}))
            for pname, pval in seq:
                with fk.quiet():
                    ad.set_params(**{pname: pval})
                    Tn = np.asarray(ad.transform(Xf), dtype=float)
                    Hn = np.array(by_hand(ad, d, Xf.tolist()), dtype=float)
                ctx.case(dict(case, after_set_params=pname), True); ctx.count("stream=set_params-then-transform")
                if Tn.shape != Hn.shape or float(np.max(np.abs(Tn - Hn))) > 1e-9 * (1 + float(np.max(np.abs(Hn)))):
                    ctx.fail("transform-stale-after-set_params", f"after set_params({pname}=...) on the same estimator, transform differs "
                             "from running the filter exported with the current parameters", dict(case, after_set_params=pname))
                    break
        except Exception as e:
            ctx.fail(f"adapter-raises:{fk.exc_kind(e)}", f"set_params/transform sequence raises {e!r}"[:300], case)
        if eh.is_rational(d):
            # exact rationals grow tenfold in size per row: the Lean model is run on the first rows only
            # (C16.transformRows_append: the transform of a prefix is the prefix of the transform)
            idx = drv.add({"op": "transform", "ekf": eh.ekf_json(d, process, sensor, k), "cal": [[a, core.frac_str(b)] for a, b in cal.items()],
                           "X": case["X"][:LEAN_ROWS]})
            pending.append((idx, T1, k, d, case))
    special_configurations_and_data(ctx)
    results_are_values_and_vector_data(ctx)
    sensor_ids_that_are_not_strings(ctx)      # fixed inputs; no draws from ctx.rng
    score_with_sample_weights(ctx)            # fixed inputs; no draws from ctx.rng
    readings_in_very_different_units(ctx)     # fixed inputs; no draws from ctx.rng
    noise_tables_keyed_by_symbols(ctx)        # fixed inputs; no draws from ctx.rng
    ans = drv.run()
    for idx, T1, k, d, info in pending:
        a = ans[idx]
        if "ok" not in a:
            if a.get("fatal") in ("undefined", "singular"):
                continue
            ctx.broke("driver:transform", a, info); continue
        sizes = [len(d.sensors[key]) for key in sorted(d.sensors)]
        stop = False
        for r, row in enumerate(a["ok"]):
            for s, cell in enumerate(row):
                v = float(F(cell["nis"]))
                if k is not None:
                    thr = k * math.sqrt(2 * sizes[s]) + sizes[s]
                    if abs(v - thr) <= 1e-7 * (1 + thr):
                        stop = True
                if stop:
                    break
                if not core.close(T1[r][s], v, scale=abs(v)):
                    ctx.broke("correspondence:transform (Lean model vs adapter)", {"row": r, "sensor": s, "model": v, "impl": float(T1[r][s])}, info)
                    stop = True
                    break
            if stop:
                ctx.count("stopped_at_rounding_band_or_mismatch")
                break
    return core.finish(ctx, audit, NOTE, RULE, PARTIAL)


def replay(ctx, data):
    import json
    print(json.dumps(data, indent=1)[:3000]); return 0
