"""C15 — code generation is deterministic."""
from __future__ import annotations

import json
import os
import subprocess
from concurrent.futures import ThreadPoolExecutor

import core

RULE = ("each definition of a seeded stream is generated in separate processes under different PYTHONHASHSEED values x permuted "
        "declaration orders (symbols, update entries, sensors, readings, noise entries) x set/list containers; sha256 of header and source, "
        "the Python arglist and reading order are compared across all runs, and the skeleton read from the generated text is compared with "
        "the Lean skeleton; distinct by (definition, hash seed, permutation, container); non-trivial = permutation differs from the first run "
        "or hash seed differs"
        "; fixed stream noise-orders: one hand-written definition with three controls declared out of name order is generated under all six "
        "declaration orders of its process-noise entries (sensor-noise entries rotated along, set/list alternating, two hash seeds): header and "
        "source sha256 and the Python layout must all be equal, and the Python process-noise matrix must be the declared values on the diagonal "
        "in control-name order (by-hand oracle)"
        "; fixed stream config-history: one definition under one configuration (None, and a dict naming one option) is generated as the only "
        "generation of a fresh process and, in another process, before and after generations of another definition configured by dicts naming "
        "other options (EKF and plain-model entry points): all generations of the same (definition, configuration) must be byte-identical")
NOTE = ["every run's definition, exactly as declared in that run, goes through the Lean model of the emitted artifact (emitted_decl_order) and is "
        "compared with the compiled Python filter's argument order, noise diagonals, sensor ids and reading slots",
        "theorem skeleton_perm covers what FormaK decides (orders); byte-identity of the expressions inside the bodies depends on sympy's "
        "printers and cse/simplify being hash-seed independent, which is observed per run, not proven",
        "the two fixed streams (noise-orders, config-history) draw nothing from the random stream: their definitions, noise orders and "
        "configurations are written out in c15_worker.py; counters fixed:noise_orders_compared / fixed:config_generations_compared"]
PARTIAL = ["hash-seed independence of sympy internals is observed on the sampled seeds only"]


def worker(args):
    seed, k, perm, container, hashseed = args[:5]
    env = dict(os.environ, PYTHONHASHSEED=str(hashseed), PYTHONPATH=f"{core.REPO}/py:{core.VERIF}/harness", PYTHONDONTWRITEBYTECODE="1")
    if len(args) > 5:
        env["C15_CLOCK_SCALE"] = str(args[5])
    r = subprocess.run(["/venv/bin/python", "-B", os.path.join(core.VERIF, "harness", "c15_worker.py"), str(seed), str(k), str(perm), container],
                       capture_output=True, text=True, env=env, timeout=900)
    line = [l for l in r.stdout.splitlines() if l.startswith("C15RESULT ")]
    if r.returncode != 0 or not line:
        return {"error": (r.stderr or r.stdout)[-800:], "hashseed": hashseed, "perm": perm, "container": container}
    return json.loads(line[-1][len("C15RESULT "):])


def fixed_worker(args):
    mode, hashseed = args
    env = dict(os.environ, PYTHONHASHSEED=str(hashseed), PYTHONPATH=f"{core.REPO}/py:{core.VERIF}/harness", PYTHONDONTWRITEBYTECODE="1")
    r = subprocess.run(["/venv/bin/python", "-B", os.path.join(core.VERIF, "harness", "c15_worker.py"), "fixed", mode],
                       capture_output=True, text=True, env=env, timeout=900)
    line = [l for l in r.stdout.splitlines() if l.startswith("C15RESULT ")]
    if r.returncode != 0 or not line:
        return {"error": (r.stderr or r.stdout)[-800:], "hashseed": hashseed, "mode": mode}
    return json.loads(line[-1][len("C15RESULT "):])


FIXED_JOBS = [("noise-orders", 0), ("noise-orders", 7), ("history", 0), ("history", 7),
              ("alone-default", 0), ("alone-partial", 0), ("alone-default-model", 0)]


def fixed_streams_start():
    """the sub-processes of the fixed streams run next to those of the seeded stream; they are looked at after it"""
    ex = ThreadPoolExecutor(max_workers=len(FIXED_JOBS))
    return ex, [ex.submit(fixed_worker, j) for j in FIXED_JOBS]


def fixed_streams(ctx, started=None):
    """two streams with inputs written out in c15_worker.py (nothing drawn from a random stream)"""
    jobs = FIXED_JOBS
    ex, futs = started if started is not None else fixed_streams_start()
    results = dict(zip(jobs, [f.result() for f in futs]))
    ex.shutdown()
    for job, res in results.items():
        if "error" in res:
            ctx.fail("generation-raises", "code generation failed in a sub-process: " + res["error"][-300:], {"fixed_stream": job[0], "hashseed": job[1]})
    # --- noise-orders: every declaration order of the noise entries, same bytes and same Python layout
    ref = None
    for job in [j for j in jobs if j[0] == "noise-orders"]:
        res = results[job]
        if "error" in res:
            continue
        names = res["controls_by_name"]
        want_M = [[float(res["declared_process_noise"][a]) if a == b else 0.0 for b in names] for a in names]
        for one in res["runs"]:
            case = {"fixed_stream": "noise-orders", "hashseed": job[1], "noise_order": one["noise_order"],
                    "sensor_noise_order": one["sensor_noise_order"], "container": one["container"]}
            ctx.case(case, nontrivial=ref is not None)
            ctx.count("fixed:noise_orders_compared"); ctx.count(f"container={one['container']}"); ctx.traces += 1
            if one["noise_order"] != names:
                ctx.count("fixed:noise_declared_out_of_name_order")
            if one["py_arglist"][-len(names):] != names or one["py_process_noise"] != want_M:
                ctx.fail("nondeterministic:py_process_noise_layout", "the Python filter's process-noise matrix is not the declared values on the "
                         f"diagonal in control-name order: controls {one['py_arglist'][-len(names):]}, matrix {one['py_process_noise']}, wanted {want_M}", case)
            if ref is None:
                ref = (job, one)
                continue
            rjob, r1 = ref
            rdesc = {"hashseed": rjob[1], "noise_order": r1["noise_order"], "container": r1["container"]}
            for field, what in (("sha", None), ("py_arglist", "Python variable layout"), ("py_readings", "Python reading layout")):
                if one[field] == r1[field]:
                    continue
                if field == "sha":
                    field, what = ("header_sha", "C++ header") if one["sha"][0] != r1["sha"][0] else ("source_sha", "C++ source")
                ctx.fail(f"nondeterministic:{field}:noise-declaration-order", f"{what} differs between two generations of the same definition "
                         f"(process noise declared {r1['noise_order']} vs {one['noise_order']}, hash seed {rjob[1]} vs {job[1]}, "
                         f"container {r1['container']} vs {one['container']})", dict(case, reference=rdesc))
                break
    # --- config-history: same definition, same configuration, whatever the process generated before
    alone = {"default": results[("alone-default", 0)].get("default"), "partial": results[("alone-partial", 0)].get("partial"),
             "default_model": results[("alone-default-model", 0)].get("default_model")}
    told = {"default": "config=None", "partial": "config={'max_dt_sec': 0.05}", "default_model": "config=None (plain model entry point)"}
    for job in [j for j in jobs if j[0] == "history"]:
        res = results[job]
        if "error" in res:
            continue
        for key in ("default_first", "default_model_first", "default_after_dict", "default_model_after_dict", "partial_first",
                    "partial_after_dict", "default_after_two_dicts"):
            cfg = "default_model" if key.startswith("default_model") else key.split("_")[0]
            point = key[len(cfg) + 1:]
            case = {"fixed_stream": "config-history", "hashseed": job[1], "configuration": told[cfg], "generated": point}
            ctx.case(case, nontrivial=True)
            ctx.count("fixed:config_generations_compared"); ctx.traces += 1
            if alone[cfg] is None:
                continue
            if res[key] != alone[cfg]:
                which = "C++ header" if res[key][0] != alone[cfg][0] else "C++ source"
                ctx.fail(f"nondeterministic:{'header_sha' if which == 'C++ header' else 'source_sha'}:config-history",
                         f"{which} of one definition under one configuration ({told[cfg]}) differs between the only generation of a fresh "
                         f"process (hash seed 0) and a generation made '{point.replace('_', ' ')}' in a process (hash seed {job[1]}) that "
                         "also generated another definition with dict configurations naming other options", case)


def run(ctx):
    audit = core.lean_audit("C15")
    ndefs, seeds, perms = (3, [0, 1, 7], [1, 2]) if ctx.quick else (20, [0, 1, 2, 3, 11, 123, 4242, 99999], [1, 2, 3, 4, 5, 6])
    jobs = []
    for k in range(ndefs):
        for hs in seeds:
            for p in perms:
                jobs.append((ctx.seed, k, p, "set" if (hs + p) % 2 == 0 else "list", hs))
        # one more generation of the same definition in a process for which time passes 5000 times faster
        jobs.append((ctx.seed, k, perms[0], "set" if (seeds[0] + perms[0]) % 2 == 0 else "list", seeds[0], 5000))
    fixed_started = fixed_streams_start()
    with ThreadPoolExecutor(max_workers=14) as ex:
        results = list(ex.map(worker, jobs))
    drv = core.Driver()
    pending = []
    pending_emitted = []
    by_def = {}
    for job, res in zip(jobs, results):
        by_def.setdefault(job[1], []).append((job, res))
    for k, runs in by_def.items():
        ref = None
        for job, res in runs:
            case = {"definition": k, "hashseed": job[4], "perm": job[2], "container": job[3], "clock_scale": job[5] if len(job) > 5 else 1}
            ctx.case(case, nontrivial=ref is not None)
            ctx.count(f"hashseed={job[4]}"); ctx.count(f"container={job[3]}"); ctx.traces += 1
            if "error" in res:
                ctx.fail("generation-raises", "code generation failed in a sub-process: " + res["error"][-300:], case)
                continue
            if res.get("regen_after_python_filter_same") is False:
                ctx.fail("nondeterministic:regeneration-after-python-filter", "C++ generated from one model object differs before and after a Python "
                         "filter was built from that same object (a generator changed the definition it was given)", case)
            if res.get("regen_same") is False:
                ctx.fail("nondeterministic:regeneration-in-process", "generating the same definition twice in one process (with another "
                         "generation in between) gives different header/source bytes", case)
            if "declared" in res:
                idx = drv.add({"op": "emitted", "ekf": res["declared"]})
                pending_emitted.append((idx, res, case))
            if ref is None:
                ref = res
                idx = drv.add({"op": "skeleton", "def": {"dt": "dt", "state": res["names"]["state"][::-1], "control": res["names"]["control"],
                                                         "calibration": res["names"]["calibration"][::-1], "update": []},
                               "sensors": [[s, list(res["py_readings"][s])[::-1]] for s in res["names"]["sensors"]]})
                pending.append((idx, res, case))
                continue
            for field in ("header_sha", "source_sha", "py_arglist", "py_readings", "adapter_transform"):
                if res[field] != ref[field]:
                    what = {"header_sha": "C++ header", "source_sha": "C++ source", "py_arglist": "Python variable layout",
                            "py_readings": "Python reading layout",
                            "adapter_transform": "scikit-learn adapter's data-matrix layout (transform of one fixed matrix)"}[field]
                    same_seed = job[4] == runs[0][0][4]
                    ctx.fail(f"nondeterministic:{field}", f"{what} differs between two generations of the same definition "
                             f"(hash seed {runs[0][0][4]} vs {job[4]}, declaration permutation {runs[0][0][2]} vs {job[2]}, container {runs[0][0][3]} vs {job[3]})",
                             dict(case, reference={"hashseed": runs[0][0][4], "perm": runs[0][0][2], "container": runs[0][0][3]}))
                    break
    ans = drv.run()
    for idx, res, case in pending:
        a = ans[idx]
        if "ok" not in a:
            ctx.broke("driver:skeleton", a, case); continue
        m = a["ok"]
        impl_state = [[n, int(i)] for n, i in res["skeleton"]["state_accessors"]]
        opts = [t for t in res["skeleton"]["options_fields"] if t not in ("double", "=", "0.0;")]
        ids = [t.strip(",") for t in res["skeleton"]["sensor_ids"]]
        ok = (impl_state == m["state"] and opts == [n for n, _ in m["state"]] and res["py_arglist"] == m["arglist"]
              and ids == [s.upper() for s in m["sensors"]]
              and all([[r, i] for i, r in enumerate(res["py_readings"][s])] == m["readings"][s] for s in m["sensors"]))
        if not ok:
            ctx.broke("correspondence:skeleton (generated text / Python layout vs Lean skeleton)",
                      {"model": m, "impl": {"state": impl_state, "options": opts, "arglist": res["py_arglist"], "ids": ids, "readings": res["py_readings"]}}, case)
    from fractions import Fraction as F
    for idx, res, case in pending_emitted:
        a = ans[idx]
        if "ok" not in a:
            ctx.broke("driver:emitted", a, case); continue
        m = a["ok"]
        ctx.count("emitted_artifacts_compared")
        impl = {"arglist": res["py_arglist"], "M": [float(x) for x in res["py_process_noise_diag"]],
                "sensors": [{"key": k2, "readings": res["py_readings"][k2], "noise": [float(x) for x in res["py_sensor_noise_diag"][k2]]}
                            for k2 in sorted(res["py_readings"])]}
        model = {"arglist": m["arglist"], "M": [float(F(x)) for x in m["M"]],
                 "sensors": [{"key": s2["key"], "readings": s2["readings"], "noise": [float(F(x)) for x in s2["noise"]]} for s2 in m["sensors"]]}
        if impl != model or not res["py_process_noise_offdiag_zero"]:
            ctx.broke("correspondence:emitted (argument order, noise diagonals, sensor ids, reading slots: Python filter vs Lean emitted artifact)",
                      {"model": model, "impl": impl}, case)
    fixed_streams(ctx, fixed_started)
    return core.finish(ctx, audit, NOTE, RULE, PARTIAL)


def replay(ctx, data):
    print(json.dumps(data, indent=1)[:3000]); return 0
