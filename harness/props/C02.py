"""C02 — generated C++ computes the symbolic model, its derivatives and noise matrices, each in the slot named for it."""
from __future__ import annotations

import re
from fractions import Fraction as F

import sympy

import core
import cparse
import cppgen
import ekf_h as eh
import fk
import gen
import runtime_h as rh

RULE = ("generated units over all four control/calibration presence combinations x 0-3 sensors of 1-3 readings x CSE on/off, for both "
        "cpp.compile (Model) and cpp.compile_ekf; every unit is compiled with g++ and run at dyadic points with inputs set through the "
        "named option fields and outputs read through the named accessors; every function body is parsed back into a program and checked "
        "in Lean (WellScoped + exact agreement with the definition / with Lean's own derivative); distinct by (definition, config, point); "
        "non-trivial = >=2 states whose sort order differs from declaration order, or a rectangular Jacobian, or control/calibration present; "
        "boundary noises (fixed inputs): filters with 1-, 2- and 3-reading sensors in which some or all readings have a configured noise of "
        "exactly zero (0, 0.0, -0.0: a fully trusted reading) next to non-zero ones, and a control with zero process noise, with and without "
        "control/calibration, CSE on and off - every noise-covariance entry must equal the configured value by name; "
        "numbered readings (fixed inputs): filters whose sensors have 2, 3 and 12 readings named with numbers of different widths (r2/r10, "
        "beam_9/beam_10/beam_11, c1..c12, ch3/ch20/ch100) so that alphabetical and numeric order of the names disagree, over all four "
        "control/calibration combinations, CSE on and off - prediction, Jacobian row and noise entry of every reading by name")
NOTE = ["'compiles' = exit status of g++ -std=c++20 against the Eigen stand-in (real Eigen/clang are absent)",
        "translator: generated source text -> function bodies -> Programs (cparse.py); obligations: checkprog / checkjac in the Lean driver at "
        "4 rational points per block (randomised identity test) + single-assignment/ordering (WellScoped)",
        "oracle: sympy evaluation / sympy diff by name",
        "zero-noise stream: the configured numbers themselves are the oracle (diagonal entry of a reading/control = its configured noise, 0 "
        "stays 0; off-diagonal 0); counters zero_noise_reading / zero_noise_control / zero_noise_unit",
        "numbered-readings stream: oracle = sympy value / sympy diff / configured noise of the reading whose named accessor is bound to that "
        "data row (the binding itself is read from the compiled header); pairwise distinct noises and expressions per reading; counters "
        "numbered_reading_unit / numbered_reading_sensor / numbered_reading_reading"]
PARTIAL = ["g++ and the stand-in instead of clang+Eigen; ccode printer outside the model"]


def layout_check(ctx, d, lay, case):
    Ls, Lc, Lk = eh.names_of(d)
    exp = {}
    for i, s in enumerate(Ls):
        exp[f"state.{s}"] = exp[f"stateopt.{s}"] = str(i)
        if any(k.startswith("cov.") for k in lay) or d._kind == "ekf":
            exp[f"cov.{s}"] = str(i)
    for i, s in enumerate(Lc):
        exp[f"control.{s}"] = str(i)
    for i, s in enumerate(Lk):
        exp[f"calibration.{s}"] = str(i)
    if d._kind == "ekf":
        for key, rd in d.sensors.items():
            for i, r in enumerate(sorted(rd)):
                exp[f"reading.{key}.{r}"] = exp[f"readingopt.{key}.{r}"] = str(i)
    bad = {k: (lay.get(k), v) for k, v in exp.items() if lay.get(k) != v}
    if bad:
        ctx.fail("cpp-layout:" + sorted(bad)[0].split(".")[0], f"named field/accessor bound to the wrong slot: {bad}", case)
        return False
    return True


def mat_from(out, tag, r, c):
    return [[rh.bitsf(out[f"{tag}.{i}.{j}"]) for j in range(c)] for i in range(r)]


def check_unit(ctx, drv, pending, d, process, sensor, pts, exe, cfgdesc, noise_tag=""):
    Ls, Lc, Lk = eh.names_of(d)
    core.set_tolerance(d.transcend)
    um = {s.name: e for s, e in d.state_model.items()}
    n = len(Ls)
    lines = ["layout"]
    kind = d._kind
    Ps = []
    for pt in pts:
        P = eh.spd(ctx.rng, n)
        Ps.append(P)
        lines.append(cppgen.point_line("predict" if kind == "ekf" else "model", d, pt, P, kind=kind))
    zs = []
    if kind == "ekf":
        for key, rd in sorted(d.sensors.items()):
            for pt, P in zip(pts, Ps):
                z = {r: gen.dyadic(ctx.rng) for r in rd}
                zs.append((key, pt, P, z))
                lines.append(cppgen.point_line(f"update:{key}", d, pt, P, z))
    try:
        outs = cppgen.run_exe(exe, lines)
    except Exception as e:
        ctx.fail("generated-cpp-crashes", f"generated program crashes: {e!r}"[:300], cfgdesc)
        return
    case0 = dict(cfgdesc)
    if not layout_check(ctx, d, outs[0], case0):
        return
    for problem in cppgen.const_read_problems(outs[0], d, kind):
        ctx.fail("cpp-const-accessor", "generated C++: " + problem, case0)
    # the configuration the header carries is the configuration that was asked for, exactly
    want_cfg = {"config.max_dt_sec": float(cfgdesc["max_dt_sec"]), "config.innovation_filtering": float(cfgdesc["innovation_filtering"] or 0.0)}
    for k, v in want_cfg.items():
        if k in outs[0] and rh.bitsf(outs[0][k]) != v:
            ctx.fail("cpp-config-constant:" + k.split(".")[1], f"generated header carries {k.split('.')[1]} = {rh.bitsf(outs[0][k])!r}, configured {v!r}", case0)
    for pt, P, out in zip(pts, Ps, outs[1:1 + len(pts)]):
        case = dict(cfgdesc, point=eh.point_json(pt))
        rect = bool(Lc) and len(Lc) != n
        ctx.case(case, nontrivial=d.sort_differs() or rect or bool(Lk) or bool(Lc))
        ctx.count(f"kind={kind}"); ctx.count(f"control={bool(Lc)}"); ctx.count(f"calibration={bool(Lk)}"); ctx.count(f"sensors={len(d.sensors)}")
        sub = eh.subs_map(d, pt)
        want = dict(zip(Ls, eh.oracle_vals(um, Ls, sub)))
        got = {s: rh.bitsf(out[f"model.{s}"]) for s in Ls}
        sc = max([abs(float(v)) for v in want.values()] + [1.0])
        badn = [s for s in Ls if not core.close(got[s], want[s], scale=sc)]
        if badn:
            ctx.fail(f"cpp-model-value:{kind}", f"generated model returns {got[badn[0]]!r} in field {badn[0]}, the symbolic expression gives {float(want[badn[0]])!r}", case)
            continue
        if kind != "ekf":
            continue
        for tag, rows, cols, wantm in (("G", n, n, eh.oracle_jac(um, Ls, Ls, sub)), ("V", n, len(Lc), eh.oracle_jac(um, Ls, Lc, sub)),
                                       ("M", len(Lc), len(Lc), [[process[a] if a == b else F(0) for b in Lc] for a in Lc])):
            gm = mat_from(out, tag, rows, cols)
            if rows and cols and not eh.mat_close(gm, wantm):
                ctx.fail(f"cpp-{tag}" + (noise_tag if tag == "M" else ""), f"generated {tag} = {gm} differs from {[[float(x) for x in r] for r in wantm]} (rows/cols in name order)", case)
    k = 1 + len(pts)
    for (key, pt, P, z), out in zip(zs, outs[k:]):
        rd = d.sensors[key]
        Lr = sorted(rd)
        case = dict(cfgdesc, point=eh.point_json(pt), sensor=key)
        ctx.case(case, nontrivial=len(Lr) != n or bool(Lk))
        ctx.count(f"readings={len(Lr)}")
        sub = eh.subs_map(d, pt)
        wanth = eh.oracle_vals(rd, Lr, sub)
        goth = [rh.bitsf(out[f"h.{r}"]) for r in Lr]
        sc = max([abs(float(v)) for v in wanth] + [1.0])
        if not all(core.close(g, w, scale=sc) for g, w in zip(goth, wanth)):
            ctx.fail("cpp-sensor-prediction", f"generated sensor prediction {dict(zip(Lr, goth))} differs from {dict(zip(Lr, map(float, wanth)))}", case)
        H = mat_from(out, "H", len(Lr), n)
        if not eh.mat_close(H, eh.oracle_jac(rd, Lr, Ls, sub)):
            ctx.fail("cpp-H:" + ("rect" if len(Lr) != n else "square"), f"generated sensor Jacobian {H} differs from the partial derivatives by name", case)
        Q = mat_from(out, "Q", len(Lr), len(Lr))
        if not eh.mat_close(Q, [[sensor[key][a] if a == b else F(0) for b in Lr] for a in Lr]):
            ctx.fail("cpp-Q" + noise_tag, f"generated sensor noise {Q} differs from the per-reading noise by name", case)


def translator_obligations(ctx, drv, pending, d, ginfo, process, sensor, cfgdesc):
    """parse every generated function body back into a Program and check it in Lean"""
    Ls, Lc, Lk = eh.names_of(d)
    args = ["dt"] + Ls + Lk + Lc
    sargs = Ls + Lk
    if not eh.is_rational(d):
        ctx.count("numeric_only_unit"); return
    try:
        bodies = cparse.function_bodies(open(ginfo["source"]).read())
    except Exception as e:
        ctx.broke("translator:cparse", repr(e), cfgdesc); return
    um = {s.name: gen.expr_json(e) for s, e in d.state_model.items()}

    def pts_for(a):
        return [[core.frac_str(gen.dyadic(ctx.rng)) for _ in a] for _ in range(4)]

    def add(kind, fname, req, extra_ok=True):
        idx = drv.add(req)
        pending.append((kind, idx, extra_ok, dict(cfgdesc, function=fname)))

    def prog_of(fname, a):
        p = cparse.body_program(bodies[fname])
        return p, {"args": a, "pre": p["pre"], "body": [t[1] for t in p["targets"]]}

    try:
        mname = "ExtendedKalmanFilterProcessModel::model" if ginfo["kind"] == "ekf" else "Model::model"
        p, prog = prog_of(mname, args)
        tnames = [t[0] for t in p["targets"]]
        # returned under its own field: State({.A=A, ...}) or State({A, B}) in layout order
        ret = p["return"] or ""
        fields = re.findall(r"\.(\w+)\s*=\s*(\w+)", ret)
        ret_ok = (fields == [(s, s) for s in Ls]) if fields else (re.findall(r"\{([^}]*)\}", ret) and [x.strip() for x in re.findall(r"\{([^}]*)\}", ret)[0].split(",")] == Ls)
        add("checkprog", mname, {"op": "checkprog", "prog": prog, "spec": [um[t] for t in tnames if t in um], "points": pts_for(args)},
            extra_ok=bool(ret_ok) and sorted(tnames) == Ls)
        if ginfo["kind"] == "ekf":
            for fname, wrt in (("ExtendedKalmanFilterProcessModel::process_jacobian", Ls), ("ExtendedKalmanFilterProcessModel::control_jacobian", Lc)):
                p, prog = prog_of(fname, args)
                tg = [t[0] for t in p["targets"]]
                full = tg == [f"jacobian({i},{j})" for i in range(len(Ls)) for j in range(len(wrt))]
                add("checkjac", fname, {"op": "checkjac", "prog": prog, "outs": [um[s] for s in Ls], "wrt": wrt, "points": pts_for(args)}, extra_ok=full)
            for key, rd in sorted(d.sensors.items()):
                T = cppgen.typename(key)
                Lr = sorted(rd)
                rj = {r: gen.expr_json(rd[r]) for r in Lr}
                p, prog = prog_of(f"{T}SensorModel::model", sargs)
                tnames = [t[0] for t in p["targets"]]
                retl = re.findall(r"\{([^}]*)\}", p["return"] or "")
                ret_ok = bool(retl) and [x.strip() for x in retl[0].split(",")] == Lr
                add("checkprog", f"{T}SensorModel::model", {"op": "checkprog", "prog": prog, "spec": [rj[t] for t in tnames if t in rj], "points": pts_for(sargs)},
                    extra_ok=ret_ok and sorted(tnames) == Lr)
                p, prog = prog_of(f"{T}SensorModel::jacobian", sargs)
                tg = [t[0] for t in p["targets"]]
                full = tg == [f"jacobian({i},{j})" for i in range(len(Lr)) for j in range(len(Ls))]
                add("checkjac", f"{T}SensorModel::jacobian", {"op": "checkjac", "prog": prog, "outs": [rj[r] for r in Lr], "wrt": Ls, "points": pts_for(sargs)}, extra_ok=full)
    except (cparse.CParseError, KeyError) as e:
        ctx.broke("translator:cparse", repr(e), cfgdesc)


def settle(ctx, ans, pending):
    for kind, idx, extra_ok, info in pending:
        a = ans[idx]
        ctx.translator_obligations += 1
        if "ok" not in a:
            ctx.broke(f"translator:{kind}", a, info); continue
        r = a["ok"]
        sym = r.get("symbolic")
        ctx.count(f"symbolic={sym}")
        key = "symbolically_verified_blocks" if sym is True else "numeric_only_blocks"
        ctx.extra[key] = ctx.extra.get(key, 0) + 1
        if r["wellscoped"] and r["agree"] and r["speclen_ok"] and extra_ok and r["evaluated"] > 0 and sym is not False:
            ctx.translator_discharged += 1
        else:
            ctx.broke(f"translator:{kind} (generated C++ body vs definition / Lean derivative)", dict(r, targets_ok=extra_ok), info)


def units(ctx):
    combos = [(c, k) for c in (0, 2) for k in (0, 1)]
    n = 2 if ctx.quick else 14
    out = []
    any_inverse = False
    for rep in range(n):
        for (nc, nk) in combos:
            nsen = ctx.rng.choice([0, 1, 2, 3]) if rep else [0, 1, 2, 3][combos.index((nc, nk))]
            d = gen.gen_definition(ctx.rng, n_state=ctx.rng.choice([2, 3, 4]), n_control=nc and ctx.rng.choice([1, 2]), n_calib=nk and ctx.rng.choice([1, 2]),
                                   n_sensors=nsen, depth=2, transcend=(rep % 4 == 3) or (rep == 1 and (nc, nk) == (2, 1)))
            if rep == 0 and (nc, nk) == (2, 0):
                d = gen.paired_powers_definition(ctx.rng)      # statements that differ only by -1 / -2
            if rep == 1 and (nc, nk) == (2, 0):
                d = gen.many_temporaries_definition(ctx.rng, n=6)   # generated functions with more than ten CSE temporaries
                d._force_cse = True
            if d.transcend and not any_inverse:
                gen.force_inverse_composition(ctx.rng, d); any_inverse = True
                gen.force_sign_sensitive(ctx.rng, d)
            if nc and rep % 2 == 0 and not d.transcend:
                # state i' = ... + control i with NO dt factor and no other occurrence of that control (same sorted index on both
                # sides): the control-Jacobian entry (i, i) is exactly the constant 1
                Ls = sorted(d.state, key=lambda x: x.name); Lc = sorted(d.control, key=lambda x: x.name)
                d.state_model[Ls[0]] = sympy.sympify(d.state_model[Ls[0]]).xreplace({Lc[0]: sympy.Integer(0)}) + Lc[0]
                if not any(Lc[0] in sympy.sympify(e).free_symbols for e in d.state_model.values()):
                    d.state_model[Ls[0]] = d.state_model[Ls[0]] + Lc[0]
            if nsen and rep % 2 == 1:
                gen.unsort_readings(d)
            if rep == 1 and (nc, nk) == (0, 1) and not d.transcend:
                # a physical constant far below 1e-12 as a FLOAT coefficient of a high power (radiative cooling, 9e-13 * T^4): small
                # coefficient, sizeable term
                s0, s1 = d.state[0], d.state[-1]
                d._force_cse = True
                d.state_model[s0] = d.state_model[s0] + sympy.Float(9.0e-13) * s0 ** 6 * s1 ** 6
                for rd in d.sensors.values():
                    r0 = sorted(rd)[0]
                    rd[r0] = rd[r0] + sympy.Float(4.5e-13) * s0 ** 6 * s1 ** 6
                    break
            if nc and rep == 1 and not d.transcend:
                # a control that enters quadratically (thrust ~ rpm^2): its Jacobian column is 2*u*..., not the linear coefficient
                u0 = sorted(d.control, key=lambda x: x.name)[0]
                d.state_model[d.state[-1]] = d.state_model[d.state[-1]] + d.dt * u0 ** 2 * (1 + d.state[0]) + u0 ** 3 / 8
            if d.sensors and "shared0" not in d.sensors:
                # every filter generated in this process has a sensor of the SAME name (with its own readings and expressions)
                first = sorted(d.sensors)[0]
                d.sensors = {("shared0" if kk == first else kk): vv for kk, vv in d.sensors.items()}
            out.append(d)
    return out


def zero_noise_units():
    """FIXED filters whose configured noises include exact zeros (a reading that is trusted completely, a control applied exactly):
    (definition, process noise, sensor noise, calibration values, points, cse).  The numbers are handed to the generator as they are
    written here (int 0, 0.0, -0.0, ordinary floats)."""
    dt = sympy.Symbol("dt")
    out = []
    # control + calibration, declaration order differs from name order, sensors of 2 / 1 / 3 readings
    x, y, v, a, w, b = sympy.symbols("x y v a w b")
    d = gen.Definition(dt, [y, x, v], [w, a], [b],
                       {x: x + v * dt + b, y: y + dt * w + a / 4, v: v + a * dt - x * y / 8},
                       {"gps": {"py": y * y + b + v, "px": x * y + 2 * x},
                        "odom": {"speed": v * v + 3 * v + x},
                        "imu": {"r2": x + 2 * y, "r0": y - v + b, "r1": v * x + 3 * v}})
    process = {"a": 0.25, "w": 0.0}
    sensor = {"gps": {"px": 0.5, "py": 0.0}, "odom": {"speed": 0}, "imu": {"r0": -0.0, "r1": 0.375, "r2": 0.0}}
    cal = {"b": F(3, 8)}
    pts = [{"dt": F(1, 8), "cal": cal, "control": {"a": F(1, 2), "w": F(-3, 4)}, "state": {"x": F(5, 4), "y": F(-1, 2), "v": F(3, 2)}},
           {"dt": F(0), "cal": cal, "control": {"a": F(-2), "w": F(1, 4)}, "state": {"x": F(-3, 4), "y": F(2), "v": F(1, 4)}}]
    out.append((d, process, sensor, cal, pts, True))
    # neither control nor calibration, every reading of every sensor has zero noise, CSE off
    p, q = sympy.symbols("p q")
    d = gen.Definition(dt, [q, p], [], [], {p: p + dt * q, q: q - dt * p / 2},
                       {"solo": {"only": p * q + q}, "pair": {"second": p - 2 * q, "first": p * p + q}})
    sensor = {"solo": {"only": 0.0}, "pair": {"first": 0, "second": 0.0}}
    pts = [{"dt": F(1, 4), "cal": {}, "control": {}, "state": {"p": F(3, 2), "q": F(-5, 4)}},
           {"dt": F(1, 16), "cal": {}, "control": {}, "state": {"p": F(-1, 2), "q": F(7, 4)}}]
    out.append((d, {}, sensor, {}, pts, False))
    # control only, a 3-reading sensor with all-zero noise beside a 1-reading sensor with a non-zero one, CSE off
    s0, s1, u0 = sympy.symbols("s0 s1 u0")
    d = gen.Definition(dt, [s0, s1], [u0], [], {s0: s0 + dt * s1 + u0, s1: s1 + dt * u0 * u0},
                       {"tri": {"c": s0 * s1, "a": s0 + s1, "b": s0 - 3 * s1}, "one": {"z": s1 * s1 + s0}})
    sensor = {"tri": {"a": 0.0, "b": 0, "c": 0.0}, "one": {"z": 1.5}}
    pts = [{"dt": F(1, 2), "cal": {}, "control": {"u0": F(3, 4)}, "state": {"s0": F(1, 4), "s1": F(-3, 2)}}]
    out.append((d, {"u0": 0}, sensor, {}, pts, False))
    # calibration only, a 2-reading sensor (zero, non-zero) - the same sensor with CSE on
    g, h, k = sympy.symbols("g h k")
    d = gen.Definition(dt, [h, g], [], [k], {g: g + dt * h * k, h: h + k / 2},
                       {"mix": {"m1": g * h + k, "m0": g - h}})
    sensor = {"mix": {"m0": 0.0, "m1": 2.0}}
    cal = {"k": F(-5, 8)}
    pts = [{"dt": F(3, 8), "cal": cal, "control": {}, "state": {"g": F(9, 4), "h": F(-1, 4)}}]
    out.append((d, {}, sensor, cal, pts, True))
    return out


def zero_noise_stream(ctx):
    """every noise-covariance entry equals the configured value by name when that value is exactly zero"""
    import random
    prng = random.Random(20702)
    jobs, metas = [], []
    for i, (d, process, sensor, cal, pts, cse) in enumerate(zero_noise_units()):
        d._kind = "ekf"
        cfgdesc = {"def": d.describe(), "kind": "ekf", "cse": cse, "noise": {k_: repr(v_) for k_, v_ in process.items()},
                   "sensor_noise": {k_: {r_: repr(v_) for r_, v_ in rd.items()} for k_, rd in sensor.items()},
                   "max_dt_sec": 0.1, "innovation_filtering": None, "stream": "zero-noise"}
        try:
            g = cppgen.generate(d, process, sensor, cal, ctx.scratch, f"zn{i}e", cse=cse, kind="ekf", rng=prng, container="list",
                                max_dt=0.1, filtering=None, raw_noise=True)
        except Exception as e:
            ctx.case(cfgdesc, True)
            ctx.fail(f"cpp-generate-raises:ekf:zero-noise:{fk.exc_kind(e)}", f"C++ generation refuses a filter with a zero noise: {e!r}"[:300], cfgdesc)
            continue
        jobs.append((g, d, None))
        metas.append((d, process, sensor, pts, cfgdesc))
    for (d, process, sensor, pts, cfgdesc), (exe, err) in zip(metas, cppgen.build_many(jobs)):
        if exe is None:
            ctx.case(cfgdesc, True)
            ctx.fail("generated-cpp-does-not-compile:ekf:zero-noise", "generated header/source do not compile: " + err[-600:], cfgdesc)
            continue
        ctx.count("zero_noise_unit")
        ctx.count("zero_noise_control", sum(1 for v_ in process.values() if v_ == 0))
        ctx.count("zero_noise_reading", sum(1 for rd in sensor.values() for v_ in rd.values() if v_ == 0))
        check_unit(ctx, None, None, d, process, sensor, pts, exe, cfgdesc, noise_tag=":zero-noise")


def numbered_units():
    """FIXED filters whose sensors have NUMBERED readings with numbers of different widths (r2 / r10, beam_9 / beam_10, c1..c12), so the
    alphabetical order of the reading names differs from their numeric order: (definition, process noise, sensor noise, calibration
    values, points, cse).  Every reading of a sensor has its own expression and its own noise."""
    dt = sympy.Symbol("dt")
    out = []
    # control + calibration, CSE on: a 2-reading array (r2, r10) next to an unnumbered 1-reading sensor
    x, y, v, a, w, b = sympy.symbols("x y v a w b")
    d = gen.Definition(dt, [y, x, v], [w, a], [b],
                       {x: x + v * dt + b, y: y + dt * w + a / 4, v: v + a * dt - x * y / 8},
                       {"array": {"r2": 2 * x + b + y * v, "r10": 10 * v + y * y},
                        "odom": {"speed": v * v + 3 * v + x}})
    process = {"a": F(1, 4), "w": F(5, 8)}
    sensor = {"array": {"r2": F(1, 8), "r10": F(3, 2)}, "odom": {"speed": F(7, 8)}}
    cal = {"b": F(3, 8)}
    pts = [{"dt": F(1, 8), "cal": cal, "control": {"a": F(1, 2), "w": F(-3, 4)}, "state": {"x": F(5, 4), "y": F(-1, 2), "v": F(3, 2)}},
           {"dt": F(1, 16), "cal": cal, "control": {"a": F(-2), "w": F(1, 4)}, "state": {"x": F(-3, 4), "y": F(2), "v": F(1, 4)}}]
    out.append((d, process, sensor, cal, pts, True))
    # neither control nor calibration, CSE off: beam_9 / beam_10 / beam_11 and a ring of twelve numbered channels c1..c12
    p, q = sympy.symbols("p q")
    ring = {f"c{k}": k * p + (13 - k) * q * q + (k % 3) * p * q for k in range(1, 13)}
    d = gen.Definition(dt, [q, p], [], [], {p: p + dt * q, q: q - dt * p / 2},
                       {"lidar": {"beam_10": p * p + q, "beam_9": p - 2 * q, "beam_11": 3 * p * q + p},
                        "ring": ring})
    sensor = {"lidar": {"beam_9": F(1, 4), "beam_10": F(9, 8), "beam_11": F(5, 2)},
              "ring": {f"c{k}": F(k, 8) for k in range(1, 13)}}
    pts = [{"dt": F(1, 4), "cal": {}, "control": {}, "state": {"p": F(3, 2), "q": F(-5, 4)}},
           {"dt": F(1, 16), "cal": {}, "control": {}, "state": {"p": F(-1, 2), "q": F(7, 4)}}]
    out.append((d, {}, sensor, {}, pts, False))
    # control only, CSE off: the 2-reading array again (declared r10 first), with other expressions
    s0, s1, u0 = sympy.symbols("s0 s1 u0")
    d = gen.Definition(dt, [s0, s1], [u0], [], {s0: s0 + dt * s1 + u0, s1: s1 + dt * u0 * u0},
                       {"array": {"r10": s0 * s1 + 10 * s1, "r2": 2 * s0 - s1}, "one": {"z": s1 * s1 + s0}})
    sensor = {"array": {"r10": F(3, 4), "r2": F(1, 16)}, "one": {"z": F(3, 2)}}
    pts = [{"dt": F(1, 2), "cal": {}, "control": {"u0": F(3, 4)}, "state": {"s0": F(1, 4), "s1": F(-3, 2)}},
           {"dt": F(1, 8), "cal": {}, "control": {"u0": F(-1, 4)}, "state": {"s0": F(-7, 4), "s1": F(5, 8)}}]
    out.append((d, {"u0": F(3, 8)}, sensor, {}, pts, False))
    # calibration only, CSE on: channel numbers of one, two and three digits
    g, h, k = sympy.symbols("g h k")
    d = gen.Definition(dt, [h, g], [], [k], {g: g + dt * h * k, h: h + k / 2},
                       {"sonar": {"ch20": g * h + k, "ch3": g - 3 * h, "ch100": g * g + 100 * h + k * h}})
    sensor = {"sonar": {"ch3": F(3, 8), "ch20": F(5, 2), "ch100": F(25, 2)}}
    cal = {"k": F(-5, 8)}
    pts = [{"dt": F(3, 8), "cal": cal, "control": {}, "state": {"g": F(9, 4), "h": F(-1, 4)}},
           {"dt": F(1, 32), "cal": cal, "control": {}, "state": {"g": F(-3, 2), "h": F(11, 8)}}]
    out.append((d, {}, sensor, cal, pts, True))
    return out


def _numeric_name_key(name):
    return [int(t) if t.isdigit() else t for t in re.split(r"(\d+)", name)]


def numbered_readings_stream(ctx):
    """prediction, Jacobian row and noise entry of every reading sit in the slot named for that reading when the reading names are
    numbered and their alphabetical order differs from their numeric order"""
    import random
    prng = random.Random(20802)
    jobs, metas = [], []
    for i, (d, process, sensor, cal, pts, cse) in enumerate(numbered_units()):
        d._kind = "ekf"
        cfgdesc = {"def": d.describe(), "kind": "ekf", "cse": cse, "noise": {k_: str(v_) for k_, v_ in process.items()},
                   "sensor_noise": {k_: {r_: str(v_) for r_, v_ in rd.items()} for k_, rd in sensor.items()},
                   "max_dt_sec": 0.1, "innovation_filtering": None, "stream": "numbered-readings"}
        try:
            g = cppgen.generate(d, process, sensor, cal, ctx.scratch, f"nr{i}e", cse=cse, kind="ekf", rng=prng, container="list",
                                max_dt=0.1, filtering=None)
        except Exception as e:
            ctx.case(cfgdesc, True)
            ctx.fail(f"cpp-generate-raises:ekf:numbered-readings:{fk.exc_kind(e)}", f"C++ generation refuses a filter with numbered readings: {e!r}"[:300], cfgdesc)
            continue
        jobs.append((g, d, None))
        metas.append((d, process, sensor, pts, cfgdesc))
    for (d, process, sensor, pts, cfgdesc), (exe, err) in zip(metas, cppgen.build_many(jobs)):
        if exe is None:
            ctx.case(cfgdesc, True)
            ctx.fail("generated-cpp-does-not-compile:ekf:numbered-readings", "generated header/source do not compile: " + err[-600:], cfgdesc)
            continue
        ctx.count("numbered_reading_unit")
        for rd in d.sensors.values():
            if sorted(rd) != sorted(rd, key=_numeric_name_key):
                ctx.count("numbered_reading_sensor")
                ctx.count("numbered_reading_reading", len(rd))
        check_unit(ctx, None, None, d, process, sensor, pts, exe, cfgdesc, noise_tag=":numbered-readings")


def run(ctx):
    audit = core.lean_audit("C02")
    drv = core.Driver()
    pending = []
    jobs, metas = [], []
    for i, d in enumerate(units(ctx)):
        process, sensor = eh.make_noises(ctx.rng, d)
        pts = [gen.gen_point(ctx.rng, d) for _ in range(3 if ctx.quick else 8)]
        if any(sympy.sympify(e).atoms(sympy.Float) for e in d.state_model.values()):
            # a point where the high powers make the tiny coefficient's term sizeable
            pts.append({"dt": pts[0]["dt"], "cal": pts[0]["cal"], "control": dict(pts[0]["control"]), "state": {n_: F(6) for n_ in pts[0]["state"]}})
        cal = pts[0]["cal"]
        pts = [dict(p, cal=cal) for p in pts]
        # one process noise and one reading noise with more significant digits than any short literal carries
        for nm in sorted(process)[:1]:
            process[nm] = F(0.0123456789)
        for key in sorted(sensor)[:1]:
            for r_ in sorted(sensor[key])[:1]:
                sensor[key][r_] = F(7.615435494667714e-05 * 1.2345678)
        cse = True if (d.transcend or getattr(d, "_force_cse", False)) else ctx.rng.random() < 0.6   # simplification only runs with CSE on
        max_dt = ctx.rng.choice([0.1, 0.05, 0.0123456789, 1.0 / 3.0, 2.5e-6])
        filt = ctx.rng.choice([5.0, None, 1.0 / 3.0, 2.125])
        for kind in ("ekf", "model"):
            dd = gen.Definition(d.dt, d.state, d.control, d.calibration, d.state_model, d.sensors if kind == "ekf" else {}, d.transcend)
            dd._kind = kind
            cfgdesc = {"def": dd.describe(), "kind": kind, "cse": cse, "noise": {k: str(v) for k, v in process.items()},
                       "max_dt_sec": max_dt, "innovation_filtering": filt}
            try:
                variant = {"config_as_dict": ctx.rng.random() < 0.4, "noise_keys": "symbol" if ctx.rng.random() < 0.4 else "same"}
                if i % 3 == 1:
                    # the model's symbols carry a sympy assumption (declared real): they are still the model's symbols
                    variant["symbol_assumptions"] = {"real": True}     # (every value the check feeds in is real)
                cfgdesc["entry_variant"] = dict(variant)
                g = cppgen.generate(dd, process, sensor, cal, ctx.scratch, f"u{i}{kind[0]}", cse=cse, kind=kind, rng=ctx.rng,
                                    container=ctx.rng.choice(["set", "list"]), max_dt=max_dt, filtering=filt, **variant)
            except Exception as e:
                ctx.fail(f"cpp-generate-raises:{kind}:{fk.exc_kind(e)}", f"C++ generation refuses a valid definition: {e!r}"[:300], cfgdesc)
                continue
            jobs.append((g, dd, None))
            metas.append((dd, g, process, sensor, pts, cfgdesc))
    built = cppgen.build_many(jobs)
    for (dd, g, process, sensor, pts, cfgdesc), (exe, err) in zip(metas, built):
        if exe is None:
            presence = f"control={bool(dd.control)},calibration={bool(dd.calibration)}"
            ctx.case(cfgdesc, True)
            ctx.fail(f"generated-cpp-does-not-compile:{dd._kind}:{presence}", "generated header/source do not compile: " + err[-600:], cfgdesc)
            continue
        check_unit(ctx, drv, pending, dd, process, sensor, pts, exe, cfgdesc)
        translator_obligations(ctx, drv, pending, dd, g, process, sensor, cfgdesc)
    settle(ctx, drv.run(), pending)
    zero_noise_stream(ctx)      # fixed inputs; runs after every seeded stream
    numbered_readings_stream(ctx)   # fixed inputs; appended after the zero-noise stream
    return core.finish(ctx, audit, NOTE, RULE, PARTIAL)


def replay(ctx, data):
    import json
    print(json.dumps(data, indent=1)[:3000]); return 0
