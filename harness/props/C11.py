"""C11 — tick = fold readings in order, hold at last reading, report at output time."""
from __future__ import annotations

import os
import subprocess

import core
import runtime_h as rh

RULE = ("multi-tick histories (<=6 ticks quick / <=12 thorough, <=4 / <=8 readings per tick) with reading timestamps in any order "
        "relative to each other, to the held time and to the output time (grid times k/64 and random binary64), read-only ticks "
        "interleaved, control given/omitted (Python), both runtimes and all compiled control/calibration combinations; distinct by "
        "(runtime, max_dt, t0, history); non-trivial = >=2 ticks and at least one tick with >=2 readings whose timestamps are not sorted")
NOTE = ["filter calls are observed through a recording stand-in filter (Python) and a recording Impl (C++): the state is the call log, "
        "so held-state semantics are visible in what later ticks return",
        "the by-hand oracle replays the history directly on the recording filter using the plan of C10",
        "C++ 'cannot tick a control model without control' is a negative compile test (static_assert / overload resolution by g++)"]
PARTIAL = ["g++ overload resolution and static_assert are trusted for the C++ control clause"]


def gen_history(ctx, max_dt):
    rng = ctx.rng
    nt = rng.randint(1, 6 if ctx.quick else 12)
    maxr = 4 if ctx.quick else 8

    def t():
        # times within a few steps of each other (the call log grows with every step)
        if rng.random() < 0.6:
            return max_dt * rng.randint(-64, 128) / 16.0
        return max_dt * rng.uniform(-4.0, 8.0)
    hist = []
    for _ in range(nt):
        nr = rng.choice([0, 0, 1, 2, 3, maxr])
        rs = [(t(), rng.choice([0, 1, 2, 3, 3, 100, 101])) for _ in range(nr)]     # ids >= 100: readings the filter rejects
        seen = [r for h in hist for r in h["readings"]] + rs
        if seen and rng.random() < 0.35:
            # a reading that was delivered before (in this tick's list or in an earlier tick) is delivered again: the filter
            # goes back to its timestamp, applies it and holds there, like for any other reading
            rs.insert(rng.randint(0, len(rs)), rng.choice(seen))
        out = t()
        if hist and rng.random() < 0.3:
            out, rs = hist[-1]["out"], []          # the same output time asked again, with another control
        hist.append({"out": out, "readings": rs, "control": True, "control_id": rng.randint(1, 3), "with_list": rng.random() < 0.3})
    return t(), hist


def by_hand(max_dt, t0, hist, plan, tagged=True):
    """oracle: the property's sentence executed directly on the recording filter"""
    held_t, held = t0, []
    outs = []
    for tk in hist:
        c = f" c{tk['control_id']}" if tagged and tk.get("control_id") else ""
        for ts, i in tk["readings"]:
            held = held + [f"p {rh.fbits(d)}{c}" for d in plan(max_dt, held_t, ts)] + ([f"s {i}"] if i < 100 else [])
            held_t = ts
        outs.append(held + [f"p {rh.fbits(d)}{c}" for d in plan(max_dt, held_t, tk["out"])])
    return outs


def py_plan(max_dt, cur, out):
    r = rh.py_history(max_dt, cur, [{"out": out, "readings": []}])["outs"][0]
    return [rh.bitsf(c[2:]) for c in r]


def negative_compile(ctx) -> bool | None:
    """a control model ticked without control must not compile"""
    src = os.path.join(ctx.scratch, "neg.cpp")
    base = open(os.path.join(core.VERIF, "harness", "cpp", "managed_trace.cpp")).read()
    base = base[: base.index("struct Runner")]
    open(src, "w").write(base + """
int main() { using I = Impl<0, true, false>; formak::runtime::ManagedFilter<I> mf(0.0, Log{}); auto r = mf.tick(1.0); return r.head; }
""")
    pos = os.path.join(ctx.scratch, "pos.cpp")
    open(pos, "w").write(base + """
int main() { using I = Impl<0, true, false>; formak::runtime::ManagedFilter<I> mf(0.0, Log{}); auto r = mf.tick(1.0, Ctl{}); return r.head > 1000; }
""")
    flags = ["g++", "-std=c++20", "-O0", "-fsyntax-only", f"-I{core.REPO}/cpp/runtime/include", "-DMAXDT_LIST=0.1"]
    rp = subprocess.run(flags + [pos], capture_output=True, text=True)
    if rp.returncode != 0:
        return None
    rn = subprocess.run(flags + [neg_path := src], capture_output=True, text=True)
    return rn.returncode != 0


def run(ctx):
    audit = core.lean_audit("C11")
    exe = rh.build_cpp(ctx)
    nh = 60 if ctx.quick else 1500
    cases = []
    for _ in range(nh):
        k = ctx.rng.randrange(len(rh.MAXDTS))
        t0, hist = gen_history(ctx, rh.MAXDTS[k])
        cases.append((k, t0, hist))
    drv = core.Driver()

    def enc_hist(hist):
        return [{"out": rh.fbits(t["out"]), "readings": [[rh.fbits(ts), i] for ts, i in t["readings"]], "control": t["control"],
                 "control_id": t.get("control_id", 0) if t["control"] else 0} for t in hist]
    idx = {}
    for n, (k, t0, hist) in enumerate(cases):
        for rt in ("py", "cpp"):
            idx[(n, rt)] = drv.add({"op": "ticks", "runtime": rt, "maxdt": rh.fbits(rh.MAXDTS[k]), "t0": rh.fbits(t0),
                                    "hascontrol": True, "history": enc_hist(hist)})
    # Python control clause: a model with control inputs ticked without control
    ctl_cases = []
    for n in range(8 if ctx.quick else 60):
        k = ctx.rng.randrange(len(rh.MAXDTS))
        t0, hist = gen_history(ctx, rh.MAXDTS[k])
        held = t0
        for t in hist:
            t["control"] = ctx.rng.random() < 0.5
            if ctx.rng.random() < 0.35:
                # asked for exactly the time the estimate is held at (no time to cover), with no reading or one stamped at that instant
                t["out"] = held
                t["readings"] = [] if ctx.rng.random() < 0.5 else [(held, ctx.rng.randint(0, 3))]
            if t["readings"]:
                held = t["readings"][-1][0]
        hc = ctx.rng.random() < 0.7
        ctl_cases.append((k, t0, hist, hc))
        idx[("ctl", n)] = drv.add({"op": "ticks", "runtime": "py", "maxdt": rh.fbits(rh.MAXDTS[k]), "t0": rh.fbits(t0),
                                   "hascontrol": hc, "history": enc_hist(hist)})
    ans = drv.run()
    cpp = None
    if exe is None:
        ctx.broke("correspondence:cpp-build", ctx.extra.get("cpp_build_error"))
    else:
        cpp = {c: rh.cpp_run(exe, [(rh.NCOMBO * k + c, t0, hist) for k, t0, hist in cases]) for c in rh.COMBOS}

    def nontrivial(hist):
        return len(hist) >= 2 and any(len(t["readings"]) >= 2 and [r[0] for r in t["readings"]] != sorted(r[0] for r in t["readings"]) for t in hist)

    for n, (k, t0, hist) in enumerate(cases):
        m = rh.MAXDTS[k]
        runs = {"python": ("py", rh.py_history(m, t0, hist)["outs"])}
        if cpp:
            for c in cpp:
                runs[f"cpp[{rh.COMBOS[c]}]"] = ("cpp", cpp[c][n])
        hand_tagged = by_hand(m, t0, hist, py_plan, True)
        hand_plain = by_hand(m, t0, hist, py_plan, False)
        for name, (rt, outs) in runs.items():
            has_ctl = name in ("python", "cpp[control+calibration]", "cpp[control only]")
            hand = hand_tagged if has_ctl else hand_plain
            case = {"runtime": name, "max_dt": m, "t0": t0, "history": hist}
            ctx.case(case, nontrivial(hist))
            ctx.traces += 1
            ctx.count(f"ticks={len(hist)}"); ctx.count(f"readings={sum(len(t['readings']) for t in hist)}")
            ctx.count("readonly_ticks", sum(1 for t in hist if not t["readings"]))
            model = ans[idx[(n, rt)]]["ok"]["outs"]
            if not has_ctl:
                model = [[c.split(" c")[0] if c.startswith("p ") else c for c in o] for o in model]
            # oracle 1: by-hand replay (uses the Python runtime's own plan, already checked by C10)
            if outs != hand:
                tick_i = next(i for i, (a, b) in enumerate(zip(outs, hand)) if a != b)
                ctx.fail(f"tick-fold:{rt}", f"{name}: tick {tick_i} returns a call sequence different from folding the readings by hand",
                         dict(case, tick=tick_i, got=outs[tick_i], by_hand=hand[tick_i]))
            elif outs != model:
                ctx.broke(f"correspondence:ticks ({name} vs Lean model)", {"impl": outs, "model": model}, case)
            # oracle 2: dropping the read-only ticks leaves the other ticks' results unchanged
            if rt == "py" and any(not t["readings"] for t in hist) and any(t["readings"] for t in hist):
                keep = [i for i, t in enumerate(hist) if t["readings"]]
                outs2 = rh.py_history(m, t0, [hist[i] for i in keep])["outs"]
                if outs2 != [outs[i] for i in keep]:
                    ctx.fail("tick-readonly:py", "a tick without readings changes what later ticks return", case)
    for n, (k, t0, hist, hc) in enumerate(ctl_cases):
        m = rh.MAXDTS[k]
        got = rh.py_history(m, t0, hist, has_control=hc)["outs"]
        model = ans[idx[("ctl", n)]]["ok"]["outs"]
        case = {"runtime": "python", "max_dt": m, "t0": t0, "history": hist, "has_control": hc}
        ctx.case(case, True); ctx.traces += 1; ctx.count("control_clause")
        for i, t in enumerate(hist):
            must_raise = hc and not t["control"]
            if must_raise != (got[i] == "missing-control"):
                ctx.fail("tick-control:py", f"tick {i}: control {'omitted' if not t['control'] else 'given'} on a model "
                         f"{'with' if hc else 'without'} control inputs -> {'no error' if must_raise else 'error'}", case)
                break
        else:
            if got != model:
                ctx.broke("correspondence:ticks control clause (python vs Lean model)", {"impl": got, "model": model}, case)
    neg = negative_compile(ctx)
    ctx.count(f"negative_compile={neg}")
    if neg is None:
        ctx.broke("correspondence:cpp control clause (positive compile failed)", None)
    elif neg is False:
        ctx.fail("tick-control:cpp", "C++: a model with control inputs can be ticked without control (compiles)", {"runtime": "cpp"})
    return core.finish(ctx, audit, NOTE, RULE, PARTIAL)


def replay(ctx, data):
    import json
    print(json.dumps(data, indent=1)[:3000])
    return 0
