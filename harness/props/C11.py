"""C11 — tick = fold readings in order, hold at last reading, report at output time."""
from __future__ import annotations

import os
import subprocess

import core
import runtime_h as rh

RULE = ("multi-tick histories (<=6 ticks quick / <=12 thorough, <=4 / <=8 readings per tick) with reading timestamps in any order "
        "relative to each other, to the held time and to the output time (grid times k/64 and random binary64), read-only ticks "
        "interleaved, control given/omitted (Python), both runtimes and all compiled control/calibration combinations; distinct by "
        "(runtime, max_dt, t0, history); non-trivial = >=2 ticks and at least one tick with >=2 readings whose timestamps are not sorted; "
        "stream far-times: fixed multi-tick histories whose times sit at clock-style origins (+-1.7e9 s, ~1e6 s) for every max_dt, "
        "both runtimes, each propagation of the fold checked against the clauses of C10 in exact rational arithmetic; "
        "stream generated-max-dt: fixed and fixed-seed histories on the C++ runtime driven with the Tag::max_dt_sec constants of "
        "filters generated for frame-rate / binary-fraction steps (1/30, 1/128, ...), against the Python runtime's fold")
NOTE = ["filter calls are observed through a recording stand-in filter (Python) and a recording Impl (C++): the state is the call log, "
        "so held-state semantics are visible in what later ticks return",
        "the by-hand oracle replays the history directly on the recording filter using the plan of C10",
        "C++ 'cannot tick a control model without control' is a negative compile test (static_assert / overload resolution by g++)",
        "far-times: the fold is replayed by hand on the returned call logs; every run of prediction steps must cover exactly the span "
        "between the time the estimate was held at and the reading's timestamp / the output time (clauses and slack of C10's plan_oracle)",
        "generated-max-dt: the recording Impl takes max_dt_sec from the generated filter's own Tag (generated header included as is)"]
PARTIAL = ["g++ overload resolution and static_assert are trusted for the C++ control clause"]


def gen_history(ctx, max_dt):
    rng = ctx.rng
    nt = rng.randint(1, 6 if ctx.quick else 12)
    maxr = 4 if ctx.quick else 8

    def t():
        # times within a few steps of each other (the call log grows with every step)
        if rng.random() < 0.6:
            return max_dt * rng.randint(-64, 128) / 16.0
        return max_dt * rng.uniform(-4.0, 8.0)
    hist = []
    for _ in range(nt):
        nr = rng.choice([0, 0, 1, 2, 3, maxr])
        rs = [(t(), rng.choice([0, 1, 2, 3, 3, 100, 101])) for _ in range(nr)]     # ids >= 100: readings the filter rejects
        seen = [r for h in hist for r in h["readings"]] + rs
        if seen and rng.random() < 0.35:
            # a reading that was delivered before (in this tick's list or in an earlier tick) is delivered again: the filter
            # goes back to its timestamp, applies it and holds there, like for any other reading
            rs.insert(rng.randint(0, len(rs)), rng.choice(seen))
        out = t()
        if hist and rng.random() < 0.3:
            out, rs = hist[-1]["out"], []          # the same output time asked again, with another control
        hist.append({"out": out, "readings": rs, "control": True, "control_id": rng.randint(1, 3), "with_list": rng.random() < 0.3})
    return t(), hist


def by_hand(max_dt, t0, hist, plan, tagged=True):
    """oracle: the property's sentence executed directly on the recording filter"""
    held_t, held = t0, []
    outs = []
    for tk in hist:
        c = f" c{tk['control_id']}" if tagged and tk.get("control_id") else ""
        for ts, i in tk["readings"]:
            held = held + [f"p {rh.fbits(d)}{c}" for d in plan(max_dt, held_t, ts)] + ([f"s {i}"] if i < 100 else [])
            held_t = ts
        outs.append(held + [f"p {rh.fbits(d)}{c}" for d in plan(max_dt, held_t, tk["out"])])
    return outs


def py_plan(max_dt, cur, out):
    r = rh.py_history(max_dt, cur, [{"out": out, "readings": []}])["outs"][0]
    return [rh.bitsf(c[2:]) for c in r]


def negative_compile(ctx) -> bool | None:
    """a control model ticked without control must not compile"""
    src = os.path.join(ctx.scratch, "neg.cpp")
    base = open(os.path.join(core.VERIF, "harness", "cpp", "managed_trace.cpp")).read()
    base = base[: base.index("struct Runner")]
    open(src, "w").write(base + """
int main() { using I = Impl<0, true, false>; formak::runtime::ManagedFilter<I> mf(0.0, Log{}); auto r = mf.tick(1.0); return r.head; }
""")
    pos = os.path.join(ctx.scratch, "pos.cpp")
    open(pos, "w").write(base + """
int main() { using I = Impl<0, true, false>; formak::runtime::ManagedFilter<I> mf(0.0, Log{}); auto r = mf.tick(1.0, Ctl{}); return r.head > 1000; }
""")
    flags = ["g++", "-std=c++20", "-O0", "-fsyntax-only", f"-I{core.REPO}/cpp/runtime/include", "-DMAXDT_LIST=0.1"]
    rp = subprocess.run(flags + [pos], capture_output=True, text=True)
    if rp.returncode != 0:
        return None
    rn = subprocess.run(flags + [neg_path := src], capture_output=True, text=True)
    return rn.returncode != 0


FAR_ORIGINS = [1.7e9, -1.7e9, 1048576.5, 946684800.25]      # epoch-style clocks (seconds since 1970 / 2000), ~12 days of uptime
# (output offset, [(reading offset, id)], control id) in units of max_dt from the origin
FAR_PATTERNS = [
    [(3.0, [(2.5, 0)], 1), (4.5, [], 2), (7.0, [(6.2, 1), (5.5, 2)], 3), (6.5, [], 1), (10.0, [(9.3, 3)], 2)],
    [(-1.25, [(0.75, 1), (-2.5, 0), (0.75, 1)], 2), (-1.25, [], 3), (2.0, [(-0.3, 2)], 1), (2.0, [(2.0, 3)], 1), (0.4, [], 2)],
]


def fold_by_clauses(max_dt, t0, hist, outs, tagged):
    """the property's sentence checked on the returned call logs themselves: every tick's log starts with the held log, then for each
    reading a run of prediction steps that covers held time -> timestamp (clauses of C10, exact rationals) and the sensor call, then a
    run that covers last timestamp -> output time; the held log ends at the last sensor call. Returns None or (tick, description)."""
    held_t, held = t0, []
    for i, tk in enumerate(hist):
        log = outs[i]
        if not isinstance(log, list):
            return i, f"tick raised ({log})"
        if log[:len(held)] != held:
            return i, "the returned estimate does not start from the estimate held after the last reading"
        pos = len(held)
        c = f"c{tk['control_id']}" if tagged and tk.get("control_id") else ""
        cur = held_t
        for ts, sid in list(tk["readings"]) + [(tk["out"], None)]:
            dts = []
            while pos < len(log) and log[pos].startswith("p "):
                b, _, tag = log[pos][2:].partition(" ")
                if tag != c:
                    return i, f"prediction step made with control {tag or 'none'!r}, the tick was given {c or 'none'!r}"
                dts.append(rh.bitsf(b))
                pos += 1
            bad = rh.plan_oracle(max_dt, cur, ts, dts)
            if bad:
                what = f"reading {sid} stamped {ts!r}" if sid is not None else f"output time {ts!r}"
                return i, f"propagation from {cur!r} to {what}: {bad}"
            if sid is not None:
                if pos >= len(log) or log[pos] != f"s {sid}":
                    return i, f"reading {sid} stamped {ts!r} is not applied after propagating to its timestamp"
                pos += 1
                held, held_t = log[:pos], ts
            cur = ts
        if pos != len(log):
            return i, f"{len(log) - pos} filter call(s) after reaching the output time"
    return None


def far_times(ctx, exe):
    """histories at clock-style time origins: the fold (and each propagation in it) does not depend on where the clock's zero is"""
    cases = []
    for t0 in FAR_ORIGINS:
        for k, m in enumerate(rh.MAXDTS):
            for pi, pat in enumerate(FAR_PATTERNS):
                hist = [{"out": t0 + o * m, "readings": [(t0 + r * m, i) for r, i in rs], "control": True, "control_id": cid,
                         "with_list": False} for o, rs, cid in pat]
                cases.append((k, t0 + (0.0 if pi == 0 else 0.5 * m), hist))
    runs = {"python": [rh.py_history(rh.MAXDTS[k], t0, h)["outs"] for k, t0, h in cases]}
    if exe:
        for c in rh.COMBOS:
            runs[f"cpp[{rh.COMBOS[c]}]"] = rh.cpp_run(exe, [(rh.NCOMBO * k + c, t0, h) for k, t0, h in cases])
    for n, (k, t0, hist) in enumerate(cases):
        m = rh.MAXDTS[k]
        ok = {}
        for name, outs_all in runs.items():
            outs = outs_all[n]
            rt = "py" if name == "python" else "cpp"
            has_ctl = name in ("python", "cpp[control+calibration]", "cpp[control only]")
            case = {"stream": "far-times", "runtime": name, "max_dt": m, "t0": t0, "history": hist}
            ctx.case(case, True); ctx.traces += 1; ctx.count("stream=far-times")
            bad = fold_by_clauses(m, t0, hist, outs, has_ctl)
            if bad:
                ctx.fail(f"tick-fold:{rt}:far-times", f"{name}: tick {bad[0]}: {bad[1]}", dict(case, tick=bad[0], got=outs[bad[0]]))
                continue
            ok[name] = outs if has_ctl else None
            if rt == "py":
                keep = [i for i, t in enumerate(hist) if t["readings"]]
                if rh.py_history(m, t0, [hist[i] for i in keep])["outs"] != [outs[i] for i in keep]:
                    ctx.fail("tick-readonly:py:far-times", "a tick without readings changes what later ticks return", case)
        # same history, same sequence of filter calls in both runtimes
        for name in ("cpp[control+calibration]", "cpp[control only]"):
            if ok.get("python") is not None and ok.get(name) is not None and ok[name] != ok["python"]:
                tick_i = next(i for i, (a, b) in enumerate(zip(ok[name], ok["python"])) if a != b)
                ctx.fail("tick-same-calls:far-times", f"{name} and python issue different filter calls in tick {tick_i}",
                         {"stream": "far-times", "runtime": name, "max_dt": m, "t0": t0, "history": hist, "tick": tick_i,
                          "cpp": ok[name][tick_i], "python": ok["python"][tick_i]})


GEN_MAXDTS_QUICK = [1.0 / 30.0, 1.0 / 128.0]
GEN_MAXDTS_MORE = [1.0 / 60.0, 2.0 / 3.0, 0.0123456789, 1.0 / 120.0]


def generated_max_dt_ticks(ctx):
    """the C++ runtime driven with the max_dt_sec constant a generated filter really carries (Tag::max_dt_sec of the generated
    header) issues the calls the Python runtime issues for the configured value"""
    import random
    from types import SimpleNamespace

    import cppgen
    import fk
    import gen
    from sympy import Symbol
    x, v, a, dt = Symbol("x"), Symbol("v"), Symbol("a"), Symbol("dt")
    d = gen.Definition(dt, [x, v], [a], [], {x: x + dt * v, v: v + dt * a}, {"pos": {"x": x}})
    d._kind = "ekf"
    ms = GEN_MAXDTS_QUICK if ctx.quick else GEN_MAXDTS_QUICK + GEN_MAXDTS_MORE
    gens = []
    for i, m in enumerate(ms):
        try:
            g = cppgen.generate(d, {"a": 0.5}, {"pos": {"x": 0.3}}, {}, ctx.scratch, f"tg{i}", max_dt=m, filtering=None, rng=None,
                                config_as_dict=(i % 2 == 1), namespace=f"tickgen{i}")
        except Exception as e:  # noqa: BLE001
            ctx.fail(f"cpp-generate-raises:{fk.exc_kind(e)}", repr(e)[:300], {"stream": "generated-max-dt", "max_dt_sec": m}); continue
        gens.append((i, m, g))
    if not gens:
        return
    exe = rh.build_cpp(ctx, maxdt_exprs=[f"tickgen{i}::ExtendedKalmanFilter::Tag::max_dt_sec" for i, _, _ in gens],
                       pre_includes=[g["header"] for _, _, g in gens],
                       include_dirs=[cppgen.STANDIN, f"{core.REPO}/cpp/include"], exe_name="managed_trace_generated")
    if exe is None:
        ctx.broke("correspondence:cpp-build (recording Impl with the generated filters' Tag::max_dt_sec)", ctx.extra.get("cpp_build_error"))
        return
    shim = SimpleNamespace(rng=random.Random(1105), quick=True)
    cases = []
    for j, (_, m, _) in enumerate(gens):
        # whole multiples of the configured step, halves, and times that are no multiple at all
        hist = [{"out": o * m, "readings": [(r * m, i) for r, i in rs], "control": True, "control_id": cid, "with_list": False}
                for o, rs, cid in FAR_PATTERNS[0]]
        cases.append((j, m, 0.0, hist))
        hist = [{"out": o, "readings": [(r, 0) for r in rs], "control": True, "control_id": 1, "with_list": False}
                for o, rs in ((0.10, [0.05]), (0.20, []), (0.50, [0.40, 0.30]), (0.45, []), (1.00, [0.90]))]
        cases.append((j, m, 0.0, hist))
        for _ in range(6 if ctx.quick else 40):
            t0, hist = gen_history(shim, m)
            cases.append((j, m, t0, hist))
    cpp = {c: rh.cpp_run(exe, [(rh.NCOMBO * j + c, t0, hist) for j, m, t0, hist in cases]) for c in rh.COMBOS}
    for n, (j, m, t0, hist) in enumerate(cases):
        hand = {True: by_hand(m, t0, hist, py_plan, True), False: by_hand(m, t0, hist, py_plan, False)}
        py = rh.py_history(m, t0, hist)["outs"]
        for c in cpp:
            name = f"cpp[{rh.COMBOS[c]}]"
            has_ctl = c in (0, 1)
            outs = cpp[c][n]
            case = {"stream": "generated-max-dt", "runtime": name, "max_dt": m, "t0": t0, "history": hist}
            ctx.case(case, True); ctx.traces += 1; ctx.count("stream=generated-max-dt")
            if outs != hand[has_ctl] or (has_ctl and outs != py):
                ref = hand[has_ctl] if outs != hand[has_ctl] else py
                tick_i = next((i for i, (p, q) in enumerate(zip(outs, ref)) if p != q), 0)
                ctx.fail("tick-fold:cpp:generated-max-dt",
                         f"{name} driven with the generated filter's Tag::max_dt_sec (configured {m!r}): tick {tick_i} returns a call "
                         "sequence different from the fold / from the Python runtime's for the configured value",
                         dict(case, tick=tick_i, got=outs[tick_i][:40], want=ref[tick_i][:40]))


def run(ctx):
    audit = core.lean_audit("C11")
    exe = rh.build_cpp(ctx)
    nh = 60 if ctx.quick else 1500
    cases = []
    for _ in range(nh):
        k = ctx.rng.randrange(len(rh.MAXDTS))
        t0, hist = gen_history(ctx, rh.MAXDTS[k])
        cases.append((k, t0, hist))
    drv = core.Driver()

    def enc_hist(hist):
        return [{"out": rh.fbits(t["out"]), "readings": [[rh.fbits(ts), i] for ts, i in t["readings"]], "control": t["control"],
                 "control_id": t.get("control_id", 0) if t["control"] else 0} for t in hist]
    idx = {}
    for n, (k, t0, hist) in enumerate(cases):
        for rt in ("py", "cpp"):
            idx[(n, rt)] = drv.add({"op": "ticks", "runtime": rt, "maxdt": rh.fbits(rh.MAXDTS[k]), "t0": rh.fbits(t0),
                                    "hascontrol": True, "history": enc_hist(hist)})
    # Python control clause: a model with control inputs ticked without control
    ctl_cases = []
    for n in range(8 if ctx.quick else 60):
        k = ctx.rng.randrange(len(rh.MAXDTS))
        t0, hist = gen_history(ctx, rh.MAXDTS[k])
        held = t0
        for t in hist:
            t["control"] = ctx.rng.random() < 0.5
            if ctx.rng.random() < 0.35:
                # asked for exactly the time the estimate is held at (no time to cover), with no reading or one stamped at that instant
                t["out"] = held
                t["readings"] = [] if ctx.rng.random() < 0.5 else [(held, ctx.rng.randint(0, 3))]
            if t["readings"]:
                held = t["readings"][-1][0]
        hc = ctx.rng.random() < 0.7
        ctl_cases.append((k, t0, hist, hc))
        idx[("ctl", n)] = drv.add({"op": "ticks", "runtime": "py", "maxdt": rh.fbits(rh.MAXDTS[k]), "t0": rh.fbits(t0),
                                   "hascontrol": hc, "history": enc_hist(hist)})
    ans = drv.run()
    cpp = None
    if exe is None:
        ctx.broke("correspondence:cpp-build", ctx.extra.get("cpp_build_error"))
    else:
        cpp = {c: rh.cpp_run(exe, [(rh.NCOMBO * k + c, t0, hist) for k, t0, hist in cases]) for c in rh.COMBOS}

    def nontrivial(hist):
        return len(hist) >= 2 and any(len(t["readings"]) >= 2 and [r[0] for r in t["readings"]] != sorted(r[0] for r in t["readings"]) for t in hist)

    for n, (k, t0, hist) in enumerate(cases):
        m = rh.MAXDTS[k]
        runs = {"python": ("py", rh.py_history(m, t0, hist)["outs"])}
        if cpp:
            for c in cpp:
                runs[f"cpp[{rh.COMBOS[c]}]"] = ("cpp", cpp[c][n])
        hand_tagged = by_hand(m, t0, hist, py_plan, True)
        hand_plain = by_hand(m, t0, hist, py_plan, False)
        for name, (rt, outs) in runs.items():
            has_ctl = name in ("python", "cpp[control+calibration]", "cpp[control only]")
            hand = hand_tagged if has_ctl else hand_plain
            case = {"runtime": name, "max_dt": m, "t0": t0, "history": hist}
            ctx.case(case, nontrivial(hist))
            ctx.traces += 1
            ctx.count(f"ticks={len(hist)}"); ctx.count(f"readings={sum(len(t['readings']) for t in hist)}")
            ctx.count("readonly_ticks", sum(1 for t in hist if not t["readings"]))
            model = ans[idx[(n, rt)]]["ok"]["outs"]
            if not has_ctl:
                model = [[c.split(" c")[0] if c.startswith("p ") else c for c in o] for o in model]
            # oracle 1: by-hand replay (uses the Python runtime's own plan, already checked by C10)
            if outs != hand:
                tick_i = next(i for i, (a, b) in enumerate(zip(outs, hand)) if a != b)
                ctx.fail(f"tick-fold:{rt}", f"{name}: tick {tick_i} returns a call sequence different from folding the readings by hand",
                         dict(case, tick=tick_i, got=outs[tick_i], by_hand=hand[tick_i]))
            elif outs != model:
                ctx.broke(f"correspondence:ticks ({name} vs Lean model)", {"impl": outs, "model": model}, case)
            # oracle 2: dropping the read-only ticks leaves the other ticks' results unchanged
            if rt == "py" and any(not t["readings"] for t in hist) and any(t["readings"] for t in hist):
                keep = [i for i, t in enumerate(hist) if t["readings"]]
                outs2 = rh.py_history(m, t0, [hist[i] for i in keep])["outs"]
                if outs2 != [outs[i] for i in keep]:
                    ctx.fail("tick-readonly:py", "a tick without readings changes what later ticks return", case)
    for n, (k, t0, hist, hc) in enumerate(ctl_cases):
        m = rh.MAXDTS[k]
        got = rh.py_history(m, t0, hist, has_control=hc)["outs"]
        model = ans[idx[("ctl", n)]]["ok"]["outs"]
        case = {"runtime": "python", "max_dt": m, "t0": t0, "history": hist, "has_control": hc}
        ctx.case(case, True); ctx.traces += 1; ctx.count("control_clause")
        for i, t in enumerate(hist):
            must_raise = hc and not t["control"]
            if must_raise != (got[i] == "missing-control"):
                ctx.fail("tick-control:py", f"tick {i}: control {'omitted' if not t['control'] else 'given'} on a model "
                         f"{'with' if hc else 'without'} control inputs -> {'no error' if must_raise else 'error'}", case)
                break
        else:
            if got != model:
                ctx.broke("correspondence:ticks control clause (python vs Lean model)", {"impl": got, "model": model}, case)
    neg = negative_compile(ctx)
    ctx.count(f"negative_compile={neg}")
    if neg is None:
        ctx.broke("correspondence:cpp control clause (positive compile failed)", None)
    elif neg is False:
        ctx.fail("tick-control:cpp", "C++: a model with control inputs can be ticked without control (compiles)", {"runtime": "cpp"})
    # deterministic streams (no draws from ctx.rng)
    far_times(ctx, exe)
    generated_max_dt_ticks(ctx)
    return core.finish(ctx, audit, NOTE, RULE, PARTIAL)


def replay(ctx, data):
    import json
    print(json.dumps(data, indent=1)[:3000])
    return 0
