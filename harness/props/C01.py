"""C01 — compiled Python model = the user's symbolic model, by name, CSE on or off."""
from __future__ import annotations

from fractions import Fraction

import sympy

import core
import fk
import gen

RULE = ("definitions from the seeded grammar (1-5 states, 0-3 controls, 0-3 calibration; shared sub-expressions; "
        "rational stream and transcendental stream), declaration order/container shuffled, x CSE on/off x dyadic points; "
        "distinct by hash of (definition, cse, point); non-trivial = >=2 states whose sort order differs from declaration "
        "order, or a control/calibration symbol present (slot binding matters); "
        "input-history stream: fixed definitions (rational with 2 controls + 1 calibration, transcendental, one without control), one "
        "compiled model per CSE setting evaluated at a HISTORY of distinct points with the same dt, the vectors handed over as arrays "
        "(State.from_data / Control.from_data) and as keyword-built vectors whose .data the caller edits in place between calls; "
        "every call against exact sympy evaluation at the values the vectors hold at that call")
NOTE = ["input-history stream: a named vector IS the numbers it holds when the model is called, however it was constructed "
        "(keywords, from_data, from_dict) or edited since; earlier calls on the same compiled model are not an input of a later one",
        "sympy lambdify/printers and binary64 rounding (tolerance 1e-9 relative) are outside the model",
        "per-instance obligation `Computes` is established by exact rational evaluation of the recorded block against the "
        "definition's expressions at seeded points (randomised identity test), plus WellScoped; not by a symbolic proof"]
PARTIAL = ["transcendental definitions: model evaluated in Lean Float (libm), compared within tolerance, no exact obligation"]


def oracle_values(d, pt):
    sub = {d.dt: sympy.Rational(pt["dt"].numerator, pt["dt"].denominator)}
    for grp, key in ((d.state, "state"), (d.control, "control"), (d.calibration, "cal")):
        for s in grp:
            q = pt[key][s.name]
            sub[s] = sympy.Rational(q.numerator, q.denominator)
    out = {}
    for s in d.state:
        v = sympy.sympify(d.state_model[s]).xreplace(sub)
        out[s.name] = float(v.evalf(30)) if not v.is_Rational else float(Fraction(int(v.p), int(v.q)))
    return out


def run_model_object(pm, d, pt):
    conv = int if pt.get("ints") else float     # "ints": every value is a (large) Python int
    st = pm.State(**{k: conv(v) for k, v in pt["state"].items()})
    ct = pm.Control(**{k: conv(v) for k, v in pt["control"].items()})
    with fk.quiet():
        return pm.model(float(pt["dt"]), st, ct)


def run_model(pm, d, pt):
    return fk.by_name(run_model_object(pm, d, pt))


def pt_json(pt):
    return {"ints": bool(pt.get("ints")), "dt": core.frac_str(pt["dt"]), **{k: {n: core.frac_str(v) for n, v in pt[k].items()} for k in ("state", "control", "cal")}}


def float_bits(x: float) -> str:
    import struct
    return str(struct.unpack("<Q", struct.pack("<d", float(x)))[0])


def bits_float(s: str) -> float:
    import struct
    return struct.unpack("<d", struct.pack("<Q", int(s)))[0]


def check_definition(ctx, drv, d, points, pending, stream):
    from formak import python
    core.set_tolerance(d.transcend)
    cal_map = None
    for cse in (True, False):
        container = ctx.rng.choice(["set", "list"])
        try:
            with fk.quiet(), gen.LambdifyRecorder():
                m = fk.ui_model(d, ctx.rng, container)
                # the caller's own dict object, written in REVERSE name order (a dict has no business being sorted)
                cal_dict = {s: float(points[0]["cal"][s.name]) for s in sorted(d.calibration, key=lambda x: x.name, reverse=True)}
                pm = python.compile(m, calibration_map=cal_dict, config={"common_subexpression_elimination": cse})
                prog = gen.program_of_block(pm._impl)
        except Exception as e:  # a valid definition must compile
            ctx.fail(f"compile-raises:{fk.exc_kind(e)}", f"python.compile refuses a valid definition: {e!r}"[:300],
                     {"def": d.describe(), "cse": cse})
            continue
        dj = d.to_json()
        rational = all(gen.is_rational_fragment(u[1]) for u in dj["update"])
        # translator obligation: the recorded block against the definition's own expressions
        if rational:
            try:
                pj = gen.program_json(prog)
                names = sorted(s.name for s in d.state)
                spec = [gen.expr_json(d.state_model[sympy.Symbol(n)]) for n in names]
                pts = []
                for _ in range(4):
                    pts.append([core.frac_str(gen.dyadic(ctx.rng)) for _ in pj["args"]])
                idx = drv.add({"op": "checkprog", "prog": pj, "spec": spec, "points": pts})
                pending.append(("checkprog", idx, {"def": d.describe(), "cse": cse, "prog": str(prog)}))
            except gen.Untranslatable as e:
                ctx.count("untranslatable_block")
        held = []
        for pt in points:
            # calibration is frozen at compile time: all points of a definition share it
            pt = dict(pt, cal=points[0]["cal"])
            case = {"def": d.describe(), "cse": cse, "container": container, "point": pt_json(pt), "stream": stream}
            nontrivial = d.sort_differs() or bool(d.control) or bool(d.calibration)
            ctx.case(case, nontrivial)
            ctx.count(f"states={len(d.state)}"); ctx.count(f"controls={len(d.control)}"); ctx.count(f"calib={len(d.calibration)}")
            ctx.count(f"cse={cse}"); ctx.count(f"stream={stream}"); ctx.count(f"prefix_len={min(len(prog['pre']), 5)}")
            try:
                obj = run_model_object(pm, d, pt)
                got = fk.by_name(obj)
                held.append((obj, dict(got), case))
            except Exception as e:
                ctx.fail(f"model-call-raises:{fk.exc_kind(e)}", f"compiled model call raises {e!r}"[:300], case)
                continue
            want = oracle_values(d, pt)
            bad = [n for n in want if not core.close(got.get(n, float("nan")), want[n], scale=max(map(abs, want.values())))]
            if bad:
                ctx.fail(f"model-value:{core.sha(case)}", f"state {bad[0]}: compiled model returns {got.get(bad[0])}, "
                         f"symbolic expression evaluates to {want[bad[0]]}", dict(case, got=got, want=want))
            req = {"op": "pyrun", "def": dj, "arith": "rat" if rational else "float"}
            enc = core.frac_str if rational else (lambda q: float_bits(float(q)))
            req.update({"cal": [[k, enc(v)] for k, v in pt["cal"].items()], "dt": enc(pt["dt"]),
                        "state": [[k, enc(v)] for k, v in pt["state"].items()],
                        "control": [[k, enc(v)] for k, v in pt["control"].items()]})
            idx = drv.add(req)
            pending.append(("pyrun", idx, dict(case, got=got, rational=rational)))
        # the calibration a compiled model works with is the one it was compiled with: the caller editing its dict afterwards (to
        # compile the next model of a sweep) changes nothing about this one
        if cal_dict and held:
            for key in list(cal_dict):
                cal_dict[key] = cal_dict[key] + 3.25
            pt0 = dict(points[0], cal=points[0]["cal"])
            try:
                again = run_model(pm, d, pt0)
                if again != held[0][1]:
                    ctx.fail("model-follows-callers-dict", f"after the caller edited the calibration dict it had passed to compile, the compiled model "
                             f"returns {again} instead of {held[0][1]}", held[0][2])
            except Exception as e:
                ctx.fail(f"model-call-raises:{fk.exc_kind(e)}", repr(e)[:300], held[0][2])
        # a result handed out earlier is still what it was after the later evaluations (results are values, not views of a buffer)
        for obj, first, case in held:
            if fk.by_name(obj) != first:
                ctx.fail("model-result-overwritten", "a state returned by an earlier call of the compiled model changed when the model was "
                         f"called again: was {first}, now reads {fk.by_name(obj)}", case)
                break


def settle(ctx, answers, pending):
    for kind, idx, info in pending:
        ans = answers[idx]
        if "fatal" in ans:
            ctx.broke("driver", ans["fatal"], info)
            continue
        if kind == "checkprog":
            ctx.translator_obligations += 1
            r = ans["ok"]
            sym = r.get("symbolic")
            ctx.count(f"symbolic={sym}")
            key = "symbolically_verified_blocks" if sym is True else "numeric_only_blocks"
            ctx.extra[key] = ctx.extra.get(key, 0) + 1
            if r["wellscoped"] and r["agree"] and r["speclen_ok"] and r["evaluated"] > 0 and sym is not False:
                ctx.translator_discharged += 1
            else:
                ctx.broke("translator:checkprog (recorded block vs definition)", r, info)
        else:
            ctx.traces += 1
            if "err" in ans:
                if ans["err"] == "eval-failed":
                    ctx.count("model_undefined_point")
                    continue
                ctx.broke("correspondence:pyrun", ans, info)
                continue
            model = ans["ok"]
            got = info["got"]
            vals = {n: (float(Fraction(v)) if info["rational"] else bits_float(v)) for n, v in model.items()}
            scale = max([abs(x) for x in vals.values()] + [1.0])
            bad = [n for n in vals if not core.close(got.get(n, float("nan")), vals[n], scale=scale,
                                                     tol=1e-9 if info["rational"] else 1e-7)]
            if set(vals) != set(got) or bad:
                ctx.broke("correspondence:pyrun (model vs implementation, by name)",
                          {"model": model, "impl": got, "names": bad}, info)


def role_swap_pairs(ctx, drv, pending):
    """two models in one process with identical update expressions and symbol sets, where a control symbol of the first
    is a calibration symbol of the second and vice versa (slot order of the positional call differs)"""
    for _ in range(2 if ctx.quick else 12):
        d = gen.gen_definition(ctx.rng, n_state=ctx.rng.choice([2, 3]), n_control=1, n_calib=1, n_sensors=0, depth=2)
        d2 = gen.Definition(d.dt, d.state, d.calibration, d.control, d.state_model, {}, d.transcend)
        pts = [gen.gen_point(ctx.rng, d) for _ in range(2)]
        for dd in (d, d2):
            pp = []
            for p in pts:
                vals = dict(p["control"], **p["cal"])
                pp.append({"dt": p["dt"], "state": p["state"], "control": {s.name: vals[s.name] for s in dd.control},
                           "cal": {s.name: vals[s.name] for s in dd.calibration}})
            check_definition(ctx, drv, dd, pp, pending, "role-swap")


def flag_variants(ctx):
    """the optional switches do not change what is computed: `proactive_simplify=True` on the model (update entries declared in
    non-alphabetical order), `extra_validation=True` in the configuration, at points that include very small magnitudes (products
    and exponentials that underflow to 0 / subnormals are still finite, well-defined values)"""
    from formak import python
    from fractions import Fraction as Fr
    for i in range(3 if ctx.quick else 20):
        names = sorted(gen.fresh_names(ctx.rng, 4), reverse=True)        # declared in reverse-sorted order
        x, w, v, u = (sympy.Symbol(n) for n in names)
        dt = sympy.Symbol("dt")
        sm = {x: x + w * w * x + sympy.Rational(1, 3) * v, w: w / 2 + u * dt, v: v * sympy.exp(-v * v) + dt * x}
        d = gen.Definition(dt, [x, w, v], [u], [], sm, {}, transcend=True)
        core.set_tolerance(True)
        for simp, ev, cse in ((True, False, True), (False, True, True), (True, True, False)):
            case0 = {"def": d.describe(), "proactive_simplify": simp, "extra_validation": ev, "cse": cse, "stream": "flag-variants"}
            try:
                with fk.quiet():
                    m = fk.ui_model(d, None, ctx.rng.choice(["set", "list"]), **({"proactive_simplify": True} if simp else {}))
                    pm = python.compile(m, config={"common_subexpression_elimination": cse, "extra_validation": ev})
            except Exception as e:
                ctx.fail(f"compile-raises:{fk.exc_kind(e)}", f"python.compile refuses a valid definition: {e!r}"[:300], case0); continue
            for vals in ((Fr(3, 2), Fr(1, 10 ** 160), Fr(30), Fr(1, 4)), (Fr(-9, 4), Fr(1, 2), Fr(1), Fr(2)), (Fr(1, 10 ** 200), Fr(5, 4), Fr(-28), Fr(0)),
                         # a far input: v*v leaves the double range on the way, v*exp(-v*v) itself is exactly 0
                         (Fr(1, 2), Fr(1, 4), Fr(3 * 10 ** 160), Fr(1))):
                pt = {"dt": Fr(1, 8), "cal": {}, "state": {x.name: vals[0], w.name: vals[1], v.name: vals[2]}, "control": {u.name: vals[3]}}
                case = dict(case0, point=pt_json(pt))
                ctx.case(case, True); ctx.count("stream=flag-variants")
                try:
                    got = run_model(pm, d, pt)
                except Exception as e:
                    ctx.fail(f"model-call-raises:{fk.exc_kind(e)}:flag-variants", f"compiled model call raises {e!r}"[:300], case); continue
                want = oracle_values(d, pt)
                bad = [n for n in want if not core.close(got.get(n, float("nan")), want[n], scale=max(map(abs, want.values())))]
                if bad:
                    ctx.fail("model-value:flag-variants", f"state {bad[0]}: compiled model returns {got.get(bad[0])}, symbolic expression evaluates to {float(want[bad[0]])}",
                             dict(case, got=got))


def input_history(ctx):
    """one compiled model evaluated at a history of different points with the SAME dt: what a call returns depends on the values the
    state / control vectors hold at that call only - not on how the vectors were constructed (arrays through from_data, keywords,
    from_dict), not on what they held when they were constructed, and not on the points the model was evaluated at before"""
    import numpy as np
    from formak import python
    from fractions import Fraction as Fr
    dt = sympy.Symbol("dt")
    a, b, c, u, t, k = (sympy.Symbol(n) for n in ("ha", "hb", "hc", "hu", "ht", "hk"))
    px, py, hd, sp, trn, acc, wb = (sympy.Symbol(n) for n in ("px", "py", "hd", "sp", "trn", "acc", "wb"))
    p, q = sympy.Symbol("hp"), sympy.Symbol("hq")
    defs = [
        gen.Definition(dt, [b, a, c], [u, t], [k], {a: a + dt * b * u / k, b: b * c - t * dt + k, c: c + a * a * dt - u}, {}, transcend=False),
        gen.Definition(dt, [px, py, hd, sp], [trn, acc], [wb], {px: px + dt * sp * sympy.cos(hd), py: py + dt * sp * sympy.sin(hd),
                                                                 hd: hd + dt * sp * trn / wb, sp: sp + dt * acc}, {}, transcend=True),
        gen.Definition(dt, [q, p], [], [], {p: p + dt * q, q: q - dt * p * p / 4 + 1}, {}, transcend=False),
    ]
    # (state values in declaration order, control values in declaration order); consecutive points differ in both, in the control
    # only, in the state only
    rows = [((Fr(1, 8), Fr(1), Fr(2), Fr(3)), (Fr(1, 2), Fr(1, 4))),
            ((Fr(3, 4), Fr(-2), Fr(5), Fr(-1)), (Fr(-3, 2), Fr(3, 8))),
            ((Fr(3, 4), Fr(-2), Fr(5), Fr(-1)), (Fr(5, 2), Fr(-7, 8))),
            ((Fr(-5, 4), Fr(4), Fr(1, 4), Fr(7)), (Fr(5, 2), Fr(-7, 8))),
            ((Fr(9, 8), Fr(-3, 2), Fr(-6), Fr(1, 2)), (Fr(-1, 4), Fr(2)))]
    for d in defs:
        core.set_tolerance(d.transcend)
        cal = {s.name: Fr(5, 2) for s in d.calibration}
        points = [{"dt": Fr(1, 8), "cal": cal, "state": {s.name: r[0][i] for i, s in enumerate(d.state)},
                   "control": {s.name: r[1][i] for i, s in enumerate(d.control)}} for r in rows]
        for cse in (True, False):
            case0 = {"def": d.describe(), "cse": cse, "stream": "input-history"}
            try:
                with fk.quiet():
                    pm = python.compile(fk.ui_model(d, None, "list"), calibration_map={s: float(cal[s.name]) for s in d.calibration},
                                        config={"common_subexpression_elimination": cse})
            except Exception as e:
                ctx.fail(f"compile-raises:{fk.exc_kind(e)}", f"python.compile refuses a valid definition: {e!r}"[:300], case0); continue

            def column(cls, values):
                return np.array([[float(values[str(n)])] for n in cls._arglist], dtype=float).reshape(len(cls._arglist), 1)

            def compare(kind, step, pt, call):
                case = dict(case0, history=kind, step=step, point=pt_json(pt))
                ctx.case(case, True); ctx.count("stream=input-history"); ctx.count(f"history={kind}"); ctx.count(f"cse={cse}")
                try:
                    with fk.quiet():
                        got = fk.by_name(call())
                except Exception as e:
                    ctx.fail(f"model-call-raises:{fk.exc_kind(e)}:input-history:{kind}", f"compiled model call raises {e!r}"[:300], case); return
                want = oracle_values(d, pt)
                bad = [n for n in want if not core.close(got.get(n, float("nan")), want[n], scale=max(map(abs, want.values())))]
                if set(got) != set(want) or bad:
                    n = bad[0] if bad else sorted(set(got) ^ set(want))[0]
                    ctx.fail(f"model-value:input-history:{kind}", f"call {step} on one compiled model (same dt, {kind}): state {n}: compiled model returns "
                             f"{got.get(n)}, symbolic expression at the values held by the vectors at this call evaluates to {want.get(n)}",
                             dict(case, got=got, want=want))

            # (a) every point as fresh arrays through from_data (the form a filter hands its own state on in)
            for i, pt in enumerate(points):
                compare("from_data", i, pt, lambda: pm.model(float(pt["dt"]), pm.State.from_data(column(pm.State, pt["state"])),
                                                             *([pm.Control.from_data(column(pm.Control, pt["control"]))] if d.control else [])))
            # (b) one keyword-built State / Control, advanced by the caller in place between the calls
            try:
                st = pm.State(**{n: float(v) for n, v in points[0]["state"].items()})
                ct = pm.Control(**{n: float(v) for n, v in points[0]["control"].items()}) if d.control else None
            except Exception as e:
                ctx.fail(f"model-call-raises:{fk.exc_kind(e)}:input-history:construct", repr(e)[:300], case0); continue
            for i, pt in enumerate(points):
                def call(pt=pt):
                    st.data[:, 0] = column(pm.State, pt["state"])[:, 0]
                    if ct is not None:
                        ct.data[:, 0] = column(pm.Control, pt["control"])[:, 0]
                    return pm.model(float(pt["dt"]), st, *([ct] if ct is not None else []))
                compare("edited-in-place", i, pt, call)
            # (c) keyword-built and from_dict-built vectors, a fresh pair per point, taken in reverse order, at another dt
            for i, pt in enumerate(reversed(points)):
                pt = dict(pt, dt=Fr(3, 16))
                mk = (lambda cls, vals: cls(**{n: float(v) for n, v in vals.items()})) if i % 2 == 0 else \
                     (lambda cls, vals: cls.from_dict({sympy.Symbol(n): float(v) for n, v in vals.items()}))
                compare("keywords", i, pt, lambda: pm.model(float(pt["dt"]), mk(pm.State, pt["state"]),
                                                            *([mk(pm.Control, pt["control"])] if d.control else [])))


def run(ctx):
    audit = core.lean_audit("C01")
    drv = core.Driver()
    pending = []
    ndefs, npts = (16, 4) if ctx.quick else (160, 10)
    for i in range(ndefs):
        transcend = (i % 4 == 3)
        d = gen.gen_definition(ctx.rng, transcend=transcend, n_sensors=0)
        if transcend and i % 8 == 3:
            gen.force_inverse_composition(ctx.rng, d)
        points = [gen.gen_point(ctx.rng, d) for _ in range(npts)]
        if not transcend and i % 3 == 0:
            # a point given entirely as large Python ints (named values need not be floats)
            big = {"dt": points[0]["dt"], "cal": points[0]["cal"], "ints": True,
                   "state": {s.name: ctx.rng.randint(10 ** 6, 4 * 10 ** 6) * ctx.rng.choice([1, -1]) for s in d.state},
                   "control": {s.name: ctx.rng.randint(10 ** 6, 4 * 10 ** 6) for s in d.control}}
            from fractions import Fraction as _F
            big["state"] = {k: _F(v) for k, v in big["state"].items()}
            big["control"] = {k: _F(v) for k, v in big["control"].items()}
            points.append(big)
        check_definition(ctx, drv, d, points, pending, "transcendental" if transcend else "rational")
    big = gen.many_temporaries_definition(ctx.rng, n=12)
    check_definition(ctx, drv, big, [gen.gen_point(ctx.rng, big) for _ in range(2)], pending, "many-temporaries")
    role_swap_pairs(ctx, drv, pending)
    flag_variants(ctx)
    input_history(ctx)          # fixed inputs, consumes nothing from ctx.rng
    settle(ctx, drv.run(), pending)
    return core.finish(ctx, audit, NOTE, RULE, PARTIAL)


def replay(ctx, data):
    print(json.dumps(data, indent=1)[:4000])
    return 0
