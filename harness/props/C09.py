"""C09 — valid covariance in, valid covariance out, along any update history."""
from __future__ import annotations

import numpy as np
import sympy
from sympy import Rational, Symbol

import core
import cppgen
import ekf_h as eh
import runtime_h as rh
import fk
import gen

RULE = ("(a) short exact histories (<=6 ops) of predict/update compared with the Lean model; (b) float histories of 40-200 (quick) / 2000 "
        "(thorough) predictions with dt in (0, max_dt] and sensor updates on the project's mass/z/v/a example (singular Jacobian), a "
        "rocket-like model and generated singular-Jacobian models, started from SPD and from singular PSD covariances; distinct by "
        "(model, seed of the history); non-trivial = singular process Jacobian or >=20 operations; (c) fixed histories that start from an "
        "uninformative prior (variance 1e6..1e12, and 1 against reading noise 1e-12) and receive precise readings of combinations of ALL "
        "states (2- and 3-state filters, Python and generated C++), measured relative to the covariance's OWN magnitude; (d) fixed "
        "histories ticked through formak.runtime.ManagedFilter on the mass/z/v/a example from covariances with an exactly zero variance "
        "(each state known exactly in turn, everything known) and with an exact (zero-noise) sensor that makes the filter hold one; "
        "(e) fixed histories on the mass/z/v/a example (thrust noise 1 and 0 = exactly correlated states) whose starting covariance has small "
        "whole-number entries and is handed over as a float64, float32, int64 or int32 array (the same symmetric PSD matrix in every storage type)")
NOTE = ["the theorem (C09.invariant) is over exact arithmetic; on binary64 the claim checked on the implementation is: no AssertionError on a "
        "history whose exact counterpart is PSD, asymmetry and min eigenvalue >= -1e-9 * max|P|",
        "min eigenvalue measured with numpy eigvalsh of the symmetrised matrix",
        "uninformative-prior histories (c): the posterior is 10..18 orders of magnitude smaller than the prior, so 'relative to their magnitude' "
        "is taken literally there: asymmetry and min eigenvalue are divided by max|P| of the returned matrix itself (no floor of 1), same 1e-9",
        "managed-filter histories (d): the covariance held before every tick is measured valid by the harness itself, so ANY exception of "
        "the tick (not only AssertionError) is a refusal of a valid covariance; returned and held covariances are measured as in (c)",
        "storage-type histories (e): the entries (small whole numbers) are exactly representable in every storage type offered, so each array IS "
        "the same symmetric PSD covariance and lies inside the quantifier; the oracle is the one of (b) (asymmetry and min eigenvalue >= -1e-9 * "
        "max(1, max|P|), measured in binary64 by the harness) and any exception of a step is a refusal; nothing is demanded of the returned dtype"]
PARTIAL = ["PSD-ness after binary64 rounding is measured on the implementation, not proven"]


def project_model():
    """the project's own mass/z/v/a example (docs / featuretests): exactly correlated states"""
    dt = Symbol("dt")
    mass, z, v, a = sympy.symbols("mass z v a")
    thrust = Symbol("thrust")
    g = Rational(98, 10)
    F = -g * mass + thrust
    sm = {mass: mass, z: z + dt * v, v: v + dt * a, a: F / mass}
    return gen.Definition(dt, [mass, z, v, a], [thrust], [], sm, {"simple": {"reading_v": v}, "alt": {"alt_z": z, "alt_v": v + z}})


def tame_definition(rng, singular):
    """bounded dynamics: each state is a contraction-weighted combination of states plus dt*control plus a bounded
    rational term, so that states, covariances and noises stay bounded along any history"""
    n = rng.choice([3, 4])
    names = gen.fresh_names(rng, n + 1)
    state = [Symbol(x) for x in names[:n]]
    u = Symbol(names[n])
    dt = Symbol("dt")
    model = {}
    for s in state:
        terms = rng.sample(state, rng.choice([1, 2]))
        w = Rational(1, 2 * len(terms))
        e = sum(w * rng.choice([1, -1]) * t for t in terms) + dt * u * Rational(rng.choice([1, 2, 3]), 2)
        if rng.random() < 0.5:
            t = rng.choice(state)
            e = e + Rational(rng.choice([1, 2]), 1) * t / (1 + t ** 2)
        model[s] = sympy.sympify(e)
    if singular:
        model[state[1]] = model[state[0]]
    sensors = {"alt0": {"r1": state[0] + state[-1], "r2": 2 * state[1] - 1 / (1 + state[0] ** 2)},
               # two different states observed directly by one precise sensor (they become correlated through the dynamics)
               "direct9": {"d1": state[0], "d2": state[-1]}}
    return gen.Definition(dt, state, [u], [], model, sensors)


def singular_generated(rng):
    return tame_definition(rng, True)


def min_eig_rel(P):
    P = np.asarray(P, dtype=float)
    if P.size == 0:
        return 0.0, 0.0
    s = 0.5 * (P + P.T)
    scale = max(1.0, float(np.max(np.abs(P))))
    return float(np.min(np.linalg.eigvalsh(s))) / scale, float(np.max(np.abs(P - P.T))) / scale


def float_history(ctx, d, name, nops, singular_start, scale=1.0):
    rng = ctx.rng
    process, sensor = eh.make_noises(rng, d)
    if "direct9" in sensor:
        from fractions import Fraction as _Fr
        sensor["direct9"] = {r: _Fr(1, 100) for r in sensor["direct9"]}
    if scale != 1.0:
        # a consistently scaled problem: covariance AND noises times `scale` (same conditioning, different magnitude)
        from fractions import Fraction
        sc = Fraction(scale)
        process = {k: v * sc for k, v in process.items()}
        sensor = {k: {r: v * sc for r, v in rd.items()} for k, rd in sensor.items()}
    max_dt = rng.choice([0.1, 0.05, 0.5])
    try:
        ekf = eh.compile_ekf(d, process, sensor, {}, rng, cse=rng.random() < 0.5, filtering=rng.choice([None, 5.0]), max_dt=max_dt)
    except Exception as e:
        ctx.fail(f"compile-ekf-raises:{fk.exc_kind(e)}", f"compile_ekf refuses a valid definition: {e!r}"[:300], {"def": d.describe()})
        return
    n = len(d.state)
    st = ekf.State(**{s.name: float(gen.dyadic(rng, 1, 4)) for s in d.state})
    P = eh.to_np(eh.spd(rng, n), (n, n)) * scale     # "relative to their magnitude": valid at any scale
    if singular_start:
        P[:, 0] = 0.0
        P[0, :] = 0.0
    cov = ekf.Covariance.from_data(P)
    case = {"model": name, "def": d.describe(), "max_dt": max_dt, "ops": nops, "singular_start": singular_start, "seed": ctx.seed,
            "covariance_scale": scale}
    ctx.case(dict(case, nonce=rng.random()), nontrivial=True)
    ctx.count(f"model={name}"); ctx.count(f"ops={nops}"); ctx.count(f"scale={scale:g}")
    worst = (0.0, 0.0)
    for step in range(nops):
        if float(np.max(np.abs(st.data))) > 1e6 or float(np.max(np.abs(cov.data))) > 1e12 * max(scale, 1.0):
            ctx.count("history_left_bounded_domain"); break
        try:
            with fk.quiet():
                if d.sensors and rng.random() < 0.3:
                    key = rng.choice(sorted(d.sensors))
                    with_noise = {r: float(gen.dyadic(rng, -2, 2)) for r in d.sensors[key]}
                    pred = ekf.sensor_models[key].model(st)
                    z = ekf.make_reading(key, data=pred.data + np.array([[with_noise[r]] for r in sorted(with_noise)]))
                    st, cov = ekf.sensor_model(st, cov, sensor_key=key, sensor_reading=z)
                    op = f"update:{key}"
                else:
                    dt = max_dt * rng.choice([1.0, 1.0, rng.uniform(0.05, 1.0)])
                    ctl = ekf.Control(**{s.name: float(gen.dyadic(rng, 0, 4)) + 10.0 for s in d.control})
                    st, cov = ekf.process_model(dt, st, cov, ctl)
                    op = "predict"
        except AssertionError as e:
            me, asym = min_eig_rel(cov.data)
            msg = str(e).split("\n")[0]
            ctx.fail("covariance-refused:" + ("singular-jacobian" if name != "rocket-lite" else "regular") + ("" if scale == 1.0 else ":scaled"),
                     f"{name}: step {step} ({op if 'op' in dir() else '?'}) refuses a covariance as invalid ({msg}); before the step "
                     f"min eigenvalue/scale={me:.3e}, asymmetry/scale={asym:.3e}", dict(case, step=step))
            return
        except Exception as e:
            ctx.fail(f"history-raises:{fk.exc_kind(e)}", f"{name}: step {step} raises {e!r}"[:300], dict(case, step=step))
            return
        if not np.all(np.isfinite(cov.data)) or not np.all(np.isfinite(st.data)):
            ctx.count("history_diverged"); return
        me, asym = min_eig_rel(cov.data)
        worst = (min(worst[0], me), max(worst[1], asym))
        if me < -1e-9 or asym > 1e-9:
            ctx.fail("covariance-invalid", f"{name}: after step {step} the covariance has min eigenvalue/scale={me:.3e}, asymmetry/scale={asym:.3e}",
                     dict(case, step=step))
            return
    ctx.extra.setdefault("worst_min_eig_rel", 0.0)
    ctx.extra["worst_min_eig_rel"] = min(ctx.extra["worst_min_eig_rel"], worst[0])
    ctx.extra["worst_asym_rel"] = max(ctx.extra.get("worst_asym_rel", 0.0), worst[1])


def slowly_varying_precise_history(ctx):
    """predict/update cycles whose innovation covariance changes only in the 6th-7th significant digit from one cycle to the next
    (a step length drifting by 4e-7 per cycle), with a sensor far more precise than the predicted variance; and the same at a scale
    of 1e-9. Every covariance must stay valid and none may be refused."""
    dt = Symbol("dt")
    p, v, a = sympy.symbols("pos9 vel9 acc9")
    d = gen.Definition(dt, [p, v], [a], [], {p: p + dt * v, v: v + dt * a}, {"speedo": {"speed9": v}})
    from fractions import Fraction as Fr
    for label, pn, sn, p0 in (("ordinary-scale", Fr(100), Fr(1, 10 ** 8), 1.0), ("small-scale", Fr(5, 10 ** 7), Fr(1, 10 ** 10), 1e-9)):
        process, sensor = {"acc9": pn}, {"speedo": {"speed9": sn}}
        case = {"model": "slowly-varying-precise", "variant": label, "def": d.describe(), "seed": ctx.seed}
        ctx.case(case, True); ctx.count("model=slowly-varying-precise")
        try:
            ekf = eh.compile_ekf(d, process, sensor, {}, ctx.rng, cse=True, filtering=None, max_dt=0.5)
        except Exception as e:
            ctx.fail(f"compile-ekf-raises:{fk.exc_kind(e)}", repr(e)[:300], case); continue
        st = ekf.State(pos9=0.0, vel9=1.0)
        cov = ekf.Covariance.from_data(np.eye(2) * p0)
        ncycles = 30 if ctx.quick else 300
        for k in range(ncycles):
            step_dt = 0.1 + 4e-7 * k
            try:
                with fk.quiet():
                    st, cov = ekf.process_model(step_dt, st, cov, ekf.Control(acc9=0.25))
                    pred = ekf.sensor_models["speedo"].model(st)
                    z = ekf.make_reading("speedo", data=pred.data + np.array([[1e-4 * ((k % 3) - 1)]]))
                    st, cov = ekf.sensor_model(st, cov, sensor_key="speedo", sensor_reading=z)
            except AssertionError as e:
                ctx.fail("covariance-refused:slowly-varying", f"cycle {k} refuses a covariance as invalid ({str(e).splitlines()[0]})", dict(case, cycle=k))
                break
            except Exception as e:
                ctx.fail(f"history-raises:{fk.exc_kind(e)}", f"cycle {k} raises {e!r}"[:300], dict(case, cycle=k)); break
            me, asym = min_eig_rel(cov.data)
            if me < -1e-9 or asym > 1e-9:
                ctx.fail("covariance-invalid:slowly-varying", f"after cycle {k} the covariance has min eigenvalue/scale={me:.3e}, asymmetry/scale={asym:.3e}",
                         dict(case, cycle=k, covariance=cov.data.tolist()))
                break


def overdetermined_histories(ctx):
    """a sensor with MORE readings than the filter has states (position, velocity and their sum of a 2-state filter), from priors
    that are singular (exactly correlated states) or much larger than the reading noise: every posterior must be a valid covariance
    and the next step must accept it"""
    dt = Symbol("dt")
    p, v, a = sympy.symbols("pos8 vel8 acc8")
    d = gen.Definition(dt, [p, v], [a], [], {p: p + dt * v, v: v + dt * a}, {"triple": {"r_pos": p, "r_vel": v, "r_sum": p + v}})
    from fractions import Fraction as Fr
    variants = [("singular-prior", np.array([[1.0, 1.0], [1.0, 1.0]]), Fr(1, 4)), ("zero-variance-prior", np.diag([0.0, 2.0]), Fr(1, 2)),
                ("prior/noise=1e4", np.eye(2) * 1e2, Fr(1, 100)), ("prior/noise=1e6", np.eye(2) * 1e3, Fr(1, 1000)),
                ("prior/noise=1e8", np.eye(2) * 1e4, Fr(1, 10000))]
    for label, P0, noise in variants:
        sensor = {"triple": {"r_pos": noise, "r_vel": noise * 2, "r_sum": noise * 3}}
        case = {"model": "overdetermined", "variant": label, "def": d.describe(), "prior": P0.tolist(), "reading_noise": str(noise)}
        ctx.case(case, True); ctx.count("model=overdetermined")
        try:
            ekf = eh.compile_ekf(d, {"acc8": Fr(1, 2)}, sensor, {}, ctx.rng, cse=True, filtering=None, max_dt=0.5)
        except Exception as e:
            ctx.fail(f"compile-ekf-raises:{fk.exc_kind(e)}", repr(e)[:300], case); continue
        st = ekf.State(pos8=1.0, vel8=2.0)
        cov = ekf.Covariance.from_data(P0.copy())
        try:
            with fk.quiet():
                for k in range(4):
                    pred = ekf.sensor_models["triple"].model(st)
                    z = ekf.make_reading("triple", data=pred.data + np.array([[0.1], [-0.1], [0.05]]) * float(noise) ** 0.5)
                    st, cov = ekf.sensor_model(st, cov, sensor_key="triple", sensor_reading=z)
                    me, asym = min_eig_rel(cov.data)
                    if me < -1e-9 or asym > 1e-9:
                        ctx.fail("covariance-invalid:overdetermined", f"{label}: after update {k} the covariance has min eigenvalue/scale={me:.3e}, "
                                 f"asymmetry/scale={asym:.3e}: {np.asarray(cov.data).tolist()}", dict(case, update=k))
                        raise StopIteration
                    st, cov = ekf.process_model(0.25, st, cov, ekf.Control(acc8=0.5))
        except StopIteration:
            continue
        except AssertionError as e:
            ctx.fail("covariance-refused:overdetermined", f"{label}: a step refuses the filter's own covariance ({(str(e).splitlines() or ['AssertionError'])[0][:120]})", case)
        except Exception as e:
            ctx.fail(f"history-raises:{fk.exc_kind(e)}:overdetermined", f"{label}: {e!r}"[:300], case)


def redundant_precise_readings(ctx):
    """two very precise readings of the SAME state (front and rear encoder), with the optional extra validation switched on: the
    innovation covariance is nearly singular, the update is still a valid one and must not be refused"""
    dt = Symbol("dt")
    p, v, a = sympy.symbols("pos7 vel7 acc7")
    d = gen.Definition(dt, [p, v], [a], [], {p: p + dt * v, v: v + dt * a}, {"pair": {"front": p, "rear": p}})
    from fractions import Fraction as Fr
    for extra in (True, False):
        case = {"model": "redundant-precise-readings", "extra_validation": extra, "def": d.describe()}
        ctx.case(case, True); ctx.count("model=redundant-precise-readings")
        try:
            ekf = eh.compile_ekf(d, {"acc7": Fr(1, 2)}, {"pair": {"front": Fr(1, 10 ** 9), "rear": Fr(1, 10 ** 9)}}, {}, ctx.rng, cse=True, filtering=None,
                                 max_dt=0.5, extra_validation=extra)
        except Exception as e:
            ctx.fail(f"compile-ekf-raises:{fk.exc_kind(e)}", repr(e)[:300], case); continue
        for trial in range(4):
            A = np.array([[float(gen.dyadic(ctx.rng, -2, 2)) for _ in range(2)] for _ in range(2)])
            st, cov = ekf.State(pos7=1.0, vel7=-0.5), ekf.Covariance.from_data(A @ A.T + np.eye(2) * 0.25)
            try:
                with fk.quiet():
                    for k in range(3):
                        pred = ekf.sensor_models["pair"].model(st)
                        st, cov = ekf.sensor_model(st, cov, sensor_key="pair", sensor_reading=ekf.make_reading("pair", data=pred.data + np.array([[1e-5], [-1e-5]])))
                        st, cov = ekf.process_model(0.25, st, cov, ekf.Control(acc7=0.25))
                me, asym = min_eig_rel(cov.data)
                if me < -1e-9 or asym > 1e-9:
                    ctx.fail("covariance-invalid:redundant-readings", f"min eigenvalue/scale={me:.3e}, asymmetry/scale={asym:.3e}", dict(case, trial=trial)); break
            except AssertionError as e:
                ctx.fail("covariance-refused:redundant-readings", f"a step refuses a valid update ({(str(e).splitlines() or ['AssertionError'])[0][:120]})", dict(case, trial=trial)); break
            except Exception as e:
                ctx.fail(f"history-raises:{fk.exc_kind(e)}:redundant-readings", repr(e)[:300], dict(case, trial=trial)); break


def own_scale_rel(P):
    """(min eigenvalue, asymmetry) divided by the matrix's OWN magnitude max|P| (no floor): the property's 'relative to their magnitude'
    read literally; the zero matrix is valid"""
    P = np.asarray(P, dtype=float)
    scale = float(np.max(np.abs(P))) if P.size else 0.0
    if scale == 0.0:
        return 0.0, 0.0
    return float(np.min(np.linalg.eigvalsh(0.5 * (P + P.T)))) / scale, float(np.max(np.abs(P - P.T))) / scale


def uninformative_definitions():
    dt = Symbol("dt")
    x, v, w, a = sympy.symbols("x6 v6 w6 a6")
    d2 = gen.Definition(dt, [x, v], [a], [], {x: x + dt * v, v: v + dt * a},
                        {"fix": {"pa": x + Rational(3, 10) * v, "pb": Rational(7, 10) * x - v}, "odo": {"pv": v}})
    d3 = gen.Definition(dt, [x, v, w], [a], [], {x: x + dt * v, v: v + dt * w, w: w / 2 + dt * a},
                        {"fix": {"pa": x + Rational(3, 10) * v - w / 5, "pb": Rational(7, 10) * x - v + w / 3, "pc": x / 4 + v / 7 + w},
                         "odo": {"pv": v}})
    return d2, d3


UNINFORMATIVE_VARIANTS = [  # (states, prior variance, reading variance)
    (2, 1e6, (1, 10 ** 4)), (2, 1e9, (1, 10 ** 4)), (2, 1e12, (1, 10 ** 4)), (2, 1.0, (1, 10 ** 12)),
    (3, 1e8, (1, 10 ** 6)), (3, 1e12, (1, 10 ** 6))]


def uninformative_prior_histories(ctx):
    """the usual way to start a filter when nothing is known: a huge diagonal prior, then precise readings of combinations of ALL
    states (the sensor Jacobian is not a selection of states), alternating with a single-state sensor and predictions. The posterior
    is many orders of magnitude smaller than the prior; it must be symmetric and PSD relative to ITS OWN magnitude and the next
    step must accept it. Inputs are fixed (no draws from ctx.rng)."""
    import random
    from fractions import Fraction as Fr
    d2, d3 = uninformative_definitions()
    for n, prior, (nn, nd) in UNINFORMATIVE_VARIANTS:
        d = d2 if n == 2 else d3
        noise = Fr(nn, nd)
        label = f"{n}-state prior={prior:g} reading-noise={float(noise):g}"
        case = {"model": "uninformative-prior", "variant": label, "def": d.describe(), "prior_variance": prior, "reading_noise": str(noise)}
        ctx.case(case, True); ctx.count("model=uninformative-prior"); ctx.count(f"prior/noise=1e{round(np.log10(prior / float(noise)))}")
        sensor = {"fix": {r: noise for r in d.sensors["fix"]}, "odo": {"pv": noise}}
        try:
            ekf = eh.compile_ekf(d, {"a6": Fr(1, 4)}, sensor, {}, random.Random(909), cse=(n == 2), filtering=None, max_dt=0.5)
        except Exception as e:
            ctx.fail(f"compile-ekf-raises:{fk.exc_kind(e)}", repr(e)[:300], case); continue
        st = ekf.State(**{s.name: 0.0 for s in d.state})
        cov = ekf.Covariance.from_data(np.eye(n) * prior)
        op = "start"
        try:
            with fk.quiet():
                for step in range(6):
                    op = f"predict {step}"
                    st, cov = ekf.process_model(0.1, st, cov, ekf.Control(a6=0.0))
                    bad = own_scale_rel(cov.data)
                    if not (bad[0] < -1e-9 or bad[1] > 1e-9):
                        key = "fix" if step % 2 == 0 else "odo"
                        op = f"update:{key} {step}"
                        pred = ekf.sensor_models[key].model(st)
                        z = ekf.make_reading(key, data=pred.data + 0.01 * (1 + step % 3))
                        st, cov = ekf.sensor_model(st, cov, sensor_key=key, sensor_reading=z)
                        bad = own_scale_rel(cov.data)
                    if bad[0] < -1e-9 or bad[1] > 1e-9:
                        ctx.fail("covariance-invalid:uninformative-prior", f"{label}: after {op} the covariance has min eigenvalue/max|P|={bad[0]:.3e}, "
                                 f"asymmetry/max|P|={bad[1]:.3e}: {np.asarray(cov.data).tolist()}", dict(case, op=op))
                        break
        except AssertionError as e:
            ctx.fail("covariance-refused:uninformative-prior", f"{label}: {op} refuses the filter's own covariance "
                     f"({(str(e).splitlines() or ['AssertionError'])[0][:120]})", dict(case, op=op))
        except Exception as e:
            ctx.fail(f"history-raises:{fk.exc_kind(e)}:uninformative-prior", f"{label}: {op}: {e!r}"[:300], dict(case, op=op))


def uninformative_prior_cpp(ctx):
    """the same 2-state histories through the generated C++ filter (one build)"""
    import random
    from fractions import Fraction as Fr
    d = uninformative_definitions()[0]
    d._kind = "ekf"
    noise = Fr(1, 10 ** 4)
    try:
        g = cppgen.generate(d, {"a6": Fr(1, 4)}, {"fix": {"pa": noise, "pb": noise}, "odo": {"pv": noise}}, {}, ctx.scratch, "uninf2",
                            filtering=None, max_dt=0.5, rng=random.Random(909))
    except Exception as e:
        ctx.fail(f"cpp-generate-raises:{fk.exc_kind(e)}", repr(e)[:300], {"def": d.describe()}); return
    exe, err = cppgen.build(g, d)
    if exe is None:
        ctx.fail("generated-cpp-does-not-compile", err[-400:], {"backend": "cpp", "def": d.describe()}); return
    Ls = sorted(s.name for s in d.state)
    n = len(Ls)
    for prior in (1e6, 1e9, 1e12):
        label = f"2-state prior={prior:g} reading-noise={float(noise):g}"
        case = {"backend": "cpp", "model": "uninformative-prior", "variant": label, "def": d.describe(), "prior_variance": prior}
        ctx.case(case, True); ctx.count("model=uninformative-prior-cpp")
        x = {s: 0.0 for s in Ls}
        P = np.eye(n) * prior
        for step in range(12):
            cur = {"dt": 0.1, "state": x, "cal": {}, "control": {"a6": 0.0}}
            if step % 2 == 0:
                op = f"predict {step // 2}"
                line = cppgen.point_line("predict", d, cur, P.tolist())
            else:
                key = "fix" if (step // 2) % 2 == 0 else "odo"
                op = f"update:{key} {step // 2}"
                # readings 0.01 beside the predicted ones (the sensor models are linear: evaluated exactly enough by hand)
                sub = {Symbol(k): val for k, val in x.items()}
                line = cppgen.point_line(f"update:{key}", d, cur, P.tolist(),
                                         {r: float(sympy.sympify(e).xreplace(sub)) + 0.01 for r, e in d.sensors[key].items()})
            try:
                out = cppgen.run_exe(exe, [line])[0]
            except Exception as e:
                ctx.fail("generated-cpp-crashes", repr(e)[:300], dict(case, op=op)); break
            x = {s: rh.bitsf(out[f"state.{s}"]) for s in Ls}
            P = np.array([[rh.bitsf(out[f"cov.{i}.{j}"]) for j in range(n)] for i in range(n)])
            if not np.all(np.isfinite(P)):
                ctx.fail("covariance-invalid:uninformative-prior:cpp", f"generated C++ filter, {label}: covariance not finite after {op}", dict(case, op=op)); break
            me, asym = own_scale_rel(P)
            if me < -1e-9 or asym > 1e-9:
                ctx.fail("covariance-invalid:uninformative-prior:cpp", f"generated C++ filter, {label}: after {op} min eigenvalue/max|P|={me:.3e}, "
                         f"asymmetry/max|P|={asym:.3e}: {P.tolist()}", dict(case, op=op)); break


def managed_definition():
    """the project's mass/z/v/a example with its two sensors and an exact altimeter"""
    d = project_model()
    z = [s for s in d.state if s.name == "z"][0]
    d.sensors["laser"] = {"laser_z": z}
    return d


def managed_zero_variance_histories(ctx):
    """histories ticked through formak.runtime.ManagedFilter (the runtime entry point that holds the estimate between ticks) from
    symmetric PSD covariances with an EXACTLY zero variance: each state known exactly in turn, everything known exactly, and an exact
    (zero-noise) sensor after whose reading the filter itself holds a zero variance. The harness measures the held covariance valid
    before every tick, so any exception of the tick is a refusal of a valid covariance. Inputs are fixed (no draws from ctx.rng)."""
    import random
    from fractions import Fraction as Fr
    from formak import runtime
    d = managed_definition()
    names = [s.name for s in d.state]
    base = {"mass": 0.01, "z": 4.0, "v": 1.0, "a": 1.0}
    variants = [(f"known-exactly:{k}", dict(base, **{k: 0.0}), Fr(1, 4), ["simple", "alt"]) for k in names]
    variants.append(("known-exactly:all", {k: 0.0 for k in names}, Fr(1, 4), ["simple", "alt"]))
    variants.append(("exact-sensor", dict(base), Fr(0), ["laser", "simple"]))
    variants.append(("positive-variances", dict(base), Fr(1, 4), ["simple", "alt", "laser"]))
    for label, variances, laser_noise, keys in variants:
        sensor = {"simple": {"reading_v": Fr(1)}, "alt": {"alt_z": Fr(1, 2), "alt_v": Fr(1, 3)}, "laser": {"laser_z": laser_noise}}
        case = {"model": "managed-filter mass/z/v/a", "variant": label, "def": d.describe(), "start_variances": variances,
                "laser_noise": str(laser_noise), "sensors_used": keys}
        ctx.case(case, True); ctx.count("model=managed-filter"); ctx.count(f"managed:{label.split(':')[0]}")
        try:
            ekf = eh.compile_ekf(d, {"thrust": Fr(1)}, sensor, {}, random.Random(910), cse=True, filtering=None, max_dt=0.1)
        except Exception as e:
            ctx.fail(f"compile-ekf-raises:{fk.exc_kind(e)}", repr(e)[:300], case); continue
        st = ekf.State(mass=2.0, z=10.0, v=0.0, a=0.0)
        cov = ekf.Covariance(**variances)     # diagonal, by state name
        me, asym = own_scale_rel(cov.data)
        if me < -1e-9 or asym > 1e-9:
            ctx.count("managed_start_not_psd"); continue
        tick = -1
        try:
            with fk.quiet():
                mf = runtime.ManagedFilter(ekf, 0.0, st, cov)
                for tick in range(12):
                    t = 0.25 * (tick + 1)
                    key = keys[tick % len(keys)]
                    # a reading 0.1 beside what the held state predicts, stamped between the ticks
                    pred = ekf.sensor_models[key].model(mf.state)
                    vals = fk.by_name(pred)
                    reading = runtime.StampedReading(t - 0.05, key, **{r: vals[r] + 0.1 for r in d.sensors[key]})
                    result = mf.tick(t, control=ekf.Control(thrust=19.6), readings=[reading])
                    if not (np.all(np.isfinite(result.covariance.data)) and np.all(np.isfinite(mf.covariance.data))):
                        ctx.count("history_diverged"); break
                    bad = None
                    for what, P in (("returned", result.covariance.data), ("held", mf.covariance.data)):
                        me, asym = own_scale_rel(P)
                        if me < -1e-9 or asym > 1e-9:
                            bad = (what, me, asym, np.asarray(P).tolist())
                    if bad:
                        ctx.fail("covariance-invalid:managed-filter", f"{label}: after tick {tick} the {bad[0]} covariance has min eigenvalue/max|P|="
                                 f"{bad[1]:.3e}, asymmetry/max|P|={bad[2]:.3e}: {bad[3]}", dict(case, tick=tick))
                        break
                    if float(np.min(np.diagonal(mf.covariance.data))) == 0.0:
                        ctx.count("managed_holds_zero_variance")
        except Exception as e:
            kind = "at-construction" if tick < 0 else "at-tick"
            ctx.fail(f"covariance-refused:managed-filter:{kind}", f"{label}: {'construction' if tick < 0 else 'tick %d' % tick} refuses a valid "
                     f"(symmetric PSD) covariance with {fk.exc_kind(e)} ({(str(e).splitlines() or [''])[0][:160]})", dict(case, tick=tick))


STORAGE_TYPES = ["float64", "float32", "int64", "int32"]


def storage_type_histories(ctx):
    """the same symmetric PSD starting covariance (small whole-number entries, exactly representable in every type offered) handed to
    Covariance.from_data as a float64 / float32 / int64 / int32 array (a covariance read from a single-precision log, or written as
    np.diag([4, 1, 1, 1]) / np.eye(n, dtype=int)); then a fixed history of predictions (dt cycling through 0.1, 0.05, 0.013) with a
    sensor update after every fourth, on the project's mass/z/v/a example with thrust noise 1 and with thrust noise 0 (mass and a stay
    exactly correlated: rank deficient covariances). Every returned covariance must be symmetric and PSD relative to its magnitude
    and no step may refuse. Inputs are fixed (no draws from ctx.rng)."""
    import random
    from fractions import Fraction as Fr
    d = project_model()
    names = sorted(s.name for s in d.state)
    A = np.array([[1, 0, 0, 0], [1, 1, 0, 0], [0, -1, 2, 0], [1, 0, 1, 1]])
    B = np.array([[1, 0], [1, 0], [0, 1], [2, -1]])
    starts = [("diagonal", np.diag([4, 1, 1, 1])), ("identity", np.eye(4, dtype=int)), ("full", A @ A.T), ("rank-2", B @ B.T)]
    nsteps = 24 if ctx.quick else 120
    for thrust_noise in (Fr(1), Fr(0)):
        try:
            ekf = eh.compile_ekf(d, {"thrust": thrust_noise}, {"simple": {"reading_v": Fr(1)}, "alt": {"alt_z": Fr(1, 2), "alt_v": Fr(1, 3)}}, {},
                                 random.Random(911), cse=True, filtering=None, max_dt=0.1)
        except Exception as e:
            ctx.fail(f"compile-ekf-raises:{fk.exc_kind(e)}", repr(e)[:300], {"def": d.describe(), "thrust_noise": str(thrust_noise)}); continue
        for start_label, P0 in starts:
            for tname in STORAGE_TYPES:
                arr = np.array(P0, dtype=getattr(np, tname))
                label = f"thrust-noise={thrust_noise} start={start_label} storage={tname}"
                case = {"model": "storage-type mass/z/v/a", "variant": label, "def": d.describe(), "thrust_noise": str(thrust_noise),
                        "start": np.asarray(P0).tolist(), "storage_type": tname, "steps": nsteps}
                ctx.case(case, True); ctx.count("model=storage-type"); ctx.count(f"storage={tname}")
                if not np.array_equal(arr.astype(float), np.asarray(P0, dtype=float)):
                    ctx.count("storage_type_not_exact"); continue          # not the same matrix: outside the stream
                ident = "float64" if tname == "float64" else ("single-precision" if tname == "float32" else "integer")
                op = "start"
                try:
                    with fk.quiet():
                        st = ekf.State(mass=1.0, z=0.0, v=0.0, a=0.0)
                        cov = ekf.Covariance.from_data(arr)
                        for i in range(nsteps):
                            op = f"prediction {i}"
                            st, cov = ekf.process_model([0.1, 0.05, 0.013][i % 3], st, cov, ekf.Control(thrust=9.8))
                            P = np.asarray(getattr(cov, "data", None), dtype=float)
                            if i % 4 == 3 and P.shape == (4, 4) and np.all(np.isfinite(P)) and min_eig_rel(P)[0] >= -1e-9 and min_eig_rel(P)[1] <= 1e-9:
                                key = "simple" if i % 8 == 3 else "alt"
                                op = f"update:{key} after prediction {i}"
                                pred = ekf.sensor_models[key].model(st)
                                z = ekf.make_reading(key, data=np.asarray(pred.data, dtype=float) + 0.1)
                                st, cov = ekf.sensor_model(st, cov, sensor_key=key, sensor_reading=z)
                                P = np.asarray(getattr(cov, "data", None), dtype=float)
                            if P.shape != (4, 4):
                                ctx.fail(f"covariance-invalid:storage-type:{ident}", f"{label}: after {op} the covariance has shape {P.shape}", dict(case, op=op))
                                break
                            if not (np.all(np.isfinite(P)) and np.all(np.isfinite(np.asarray(st.data, dtype=float)))):
                                ctx.count("history_diverged"); break
                            me, asym = min_eig_rel(P)
                            if me < -1e-9 or asym > 1e-9:
                                ctx.fail(f"covariance-invalid:storage-type:{ident}", f"{label}: after {op} the covariance has min eigenvalue/scale={me:.3e}, "
                                         f"asymmetry/scale={asym:.3e}: {P.tolist()}", dict(case, op=op))
                                break
                except AssertionError as e:
                    ctx.fail(f"covariance-refused:storage-type:{ident}", f"{label}: {op} refuses a valid covariance "
                             f"({(str(e).splitlines() or ['AssertionError'])[0][:120]})", dict(case, op=op))
                except Exception as e:
                    ctx.fail(f"history-raises:{fk.exc_kind(e)}:storage-type:{ident}", f"{label}: {op}: {e!r}"[:300], dict(case, op=op))


def run(ctx):
    audit = core.lean_audit("C09")
    # (a) short exact histories against the Lean model (predict / update chains)
    drv = core.Driver()
    pending = []
    for i in range(6 if ctx.quick else 60):
        d = gen.gen_definition(ctx.rng, n_state=ctx.rng.choice([2, 3]), n_control=1, n_calib=0, n_sensors=1, depth=2, max_readings=2)
        if i % 2 == 0:
            d.state_model[d.state[1]] = d.state_model[d.state[0]]   # singular Jacobian
        if not eh.is_rational(d):
            continue
        process, sensor = eh.make_noises(ctx.rng, d)
        try:
            ekf = eh.compile_ekf(d, process, sensor, {}, ctx.rng)
        except Exception as e:
            ctx.fail(f"compile-ekf-raises:{fk.exc_kind(e)}", f"compile_ekf refuses a valid definition: {e!r}"[:300], {"def": d.describe()})
            continue
        pt = gen.gen_point(ctx.rng, d)
        P = eh.spd(ctx.rng, len(d.state))
        idx = drv.add({"op": "predict", "ekf": eh.ekf_json(d, process, sensor), "point": eh.point_json(pt), "P": eh.mat_json(P)})
        try:
            with fk.quiet():
                r = ekf.process_model(float(pt["dt"]), eh.state_obj(ekf, pt), eh.cov_obj(ekf, P), eh.control_obj(ekf, pt))
            pending.append((idx, r.covariance.data.copy(), {"def": d.describe(), "point": eh.point_json(pt), "P": eh.mat_json(P)}))
        except AssertionError as e:
            ctx.fail("covariance-refused:singular-jacobian" if i % 2 == 0 else "covariance-refused:regular",
                     f"process_model refuses a valid covariance: {str(e).splitlines()[0]}", {"def": d.describe(), "point": eh.point_json(pt), "P": eh.mat_json(P)})
        ctx.case({"def": d.describe(), "point": eh.point_json(pt), "P": eh.mat_json(P)}, nontrivial=(i % 2 == 0))
    for idx, gP, info in [(i, g, inf) for i, g, inf in pending]:
        pass
    ans = drv.run()
    for idx, gP, info in pending:
        a = ans[idx]
        if "ok" not in a:
            ctx.count("model_undefined_point"); continue
        ctx.traces += 1
        mP = [[core.parse_frac(x) for x in r] for r in a["ok"]["cov"]]
        if not eh.mat_close(gP, mP):
            ctx.broke("correspondence:predict (Lean model vs process_model)", {"model": a["ok"]["cov"], "impl": gP.tolist()}, info)
    # (b) float histories on the implementation
    nh, nops = (10, 120) if ctx.quick else (120, 1500)
    pm = project_model()
    for h in range(nh):
        which = h % 3
        if which == 0:
            float_history(ctx, pm, "mass/z/v/a", nops, singular_start=(h % 2 == 1), scale=[1.0, 1e8, 1e-6, 1e6][(h // 3) % 4])
        elif which == 1:
            float_history(ctx, singular_generated(ctx.rng), "generated-singular", nops // 3, singular_start=False)
        else:
            float_history(ctx, tame_definition(ctx.rng, False), "rocket-lite", nops // 3, False)
    slowly_varying_precise_history(ctx)
    overdetermined_histories(ctx)
    redundant_precise_readings(ctx)
    cpp_histories(ctx)
    # fixed streams (no draws from ctx.rng), after every stream that draws
    uninformative_prior_histories(ctx)
    uninformative_prior_cpp(ctx)
    managed_zero_variance_histories(ctx)
    storage_type_histories(ctx)
    return core.finish(ctx, audit, NOTE, RULE, PARTIAL)


def cpp_histories(ctx):
    """the generated C++ filter along a history: every covariance finite, symmetric and PSD relative to its magnitude"""
    jobs, metas = [], []
    for i in range(2 if ctx.quick else 10):
        d = gen.tame_definition(ctx.rng, n_control=1, n_sensors=1, singular=(i % 2 == 0), max_readings=2)
        k0 = sorted(d.sensors)[0]
        while len(d.sensors[k0]) < 2:
            d.sensors[k0][gen.fresh_names(ctx.rng, 1, {x.name for x in d.all_symbols()} | set(d.sensors[k0]))[0]] = d.state[0] + 2 * d.state[-1]
        d._kind = "ekf"
        process, sensor = eh.make_noises(ctx.rng, d)
        try:
            g = cppgen.generate(d, process, sensor, {}, ctx.scratch, f"h{i}", filtering=None, rng=ctx.rng)
        except Exception as e:
            ctx.fail(f"cpp-generate-raises:{fk.exc_kind(e)}", repr(e)[:300], {"def": d.describe()}); continue
        jobs.append((g, d, None)); metas.append(d)
    for d, (exe, err) in zip(metas, cppgen.build_many(jobs)):
        case = {"backend": "cpp", "def": d.describe()}
        ctx.case(dict(case, nonce=ctx.rng.random()), True); ctx.count("model=cpp-generated")
        if exe is None:
            ctx.fail("generated-cpp-does-not-compile", err[-400:], case); continue
        Ls = sorted(s.name for s in d.state)
        n = len(Ls)
        pt = gen.gen_point(ctx.rng, d)
        x = {s: float(pt["state"][s]) for s in Ls}
        P = np.array([[float(v) for v in r] for r in eh.spd(ctx.rng, n)])
        key = sorted(d.sensors)[0]
        for step in range(16 if ctx.quick else 60):
            cur = {"dt": gen.gen_point(ctx.rng, d)["dt"], "state": x, "cal": {}, "control": {s.name: gen.dyadic(ctx.rng, 0, 2) for s in d.control}}
            if step % 3 == 2:
                line = cppgen.point_line(f"update:{key}", d, cur, P.tolist(), {r: 0.5 for r in d.sensors[key]})
            else:
                line = cppgen.point_line("predict", d, cur, P.tolist())
            try:
                out = cppgen.run_exe(exe, [line])[0]
            except Exception as e:
                ctx.fail("generated-cpp-crashes", repr(e)[:300], dict(case, step=step)); break
            x = {s: rh.bitsf(out[f"state.{s}"]) for s in Ls}
            P = np.array([[rh.bitsf(out[f"cov.{i}.{j}"]) for j in range(n)] for i in range(n)])
            if not np.all(np.isfinite(P)):
                ctx.fail("covariance-invalid:cpp", f"generated C++ filter: covariance not finite after step {step} ({'update' if step % 3 == 2 else 'predict'})",
                         dict(case, step=step)); break
            me, asym = min_eig_rel(P)
            if me < -1e-9 or asym > 1e-9:
                ctx.fail("covariance-invalid:cpp", f"generated C++ filter: after step {step} min eigenvalue/scale={me:.3e}, asymmetry/scale={asym:.3e}",
                         dict(case, step=step)); break
            P = 0.5 * (P + P.T)


def replay(ctx, data):
    import json
    print(json.dumps(data, indent=1)[:3000]); return 0
