"""C04 — prediction is x' = f(x,u), P' = G P Gᵀ + V M Vᵀ; pure and repeatable."""
from __future__ import annotations

import numpy as np

import sympy

import core
import ekf_h as eh
import fk
import gen

RULE = ("definitions with 0-3 controls (all occurring in some update, pairwise distinct noises), with/without calibration, SPD dyadic "
        "covariances; each (dt, x, P, u) is run through process_model twice with input snapshots; distinct by (definition, noise, input); "
        "non-trivial = at least one control (V M Vᵀ term present) or non-symmetric process Jacobian; "
        "fixed (seed-independent) streams: fast-clock models (rates 2^20..2^30) stepped by dt between 2^-36 and 2^-18 that are not a whole "
        "number of nanoseconds / carry a residue below 1 ns, every dt-dependent term of order 1; "
        "roots of even powers (t*sqrt(t^2), (t^2)^(3/2), sqrt(a^2*b^2), of states and of controls) at every sign combination of the "
        "symbols involved, with and without CSE; "
        "a walk over a lattice of whole-number points (states and controls in -3..3, two dt, one control stepped 1 -> 2^61 -> 1) on ONE "
        "filter object, consecutive points differing in exactly one entry of (dt, state, control), every point checked against the exact oracle")
NOTE = ["oracle: numpy-free exact recomputation G P Gᵀ + V M Vᵀ from sympy derivatives by name and the noise supplied by name",
        "purity is checked by bitwise comparison of the inputs' arrays before/after and of two consecutive calls",
        "stream=fast-clock-dt: the prediction is taken at the dt the caller passed, whatever its magnitude (exact oracle at the binary64 dt itself)",
        "stream=even-power-roots: sqrt(t^2) is |t|, not t - exact oracle at points where the radicand's base is negative (the points with a "
        "zero base, where the derivative does not exist, are not generated)",
        "stream=lattice-walk: the prediction is taken at the point of THIS call, whatever the same filter was asked before - neighbouring "
        "whole-number points (-1 next to -2, 1 next to 2^61, ...) are different points; polynomial models, exact oracle at every step",
        "random points at which the exact derivative is 0/0 (acos(cos(dt*s)) at dt = 0) are skipped and counted (oracle_undefined_point)"]
PARTIAL = ["binary64 rounding (1e-9 relative tolerance)"]


def same_filter_sequences(ctx):
    """several predictions on ONE filter object with the same dt and different controls / states (history dependence)"""
    for i in range(4 if ctx.quick else 30):
        d = gen.control_coefficient_definition(ctx.rng) if i % 2 == 0 else gen.gen_definition(ctx.rng, n_control=ctx.rng.choice([1, 2]), n_sensors=0, depth=2)
        process, sensor = eh.make_noises(ctx.rng, d)
        try:
            ekf = eh.compile_ekf(d, process, sensor, {s.name: 1.0 for s in d.calibration}, ctx.rng, cse=ctx.rng.random() < 0.5)
        except Exception as e:
            ctx.fail(f"compile-ekf-raises:{fk.exc_kind(e)}", f"compile_ekf refuses a valid definition: {e!r}"[:300], {"def": d.describe()})
            continue
        Ls, Lc, Lk = eh.names_of(d)
        um = {s.name: e for s, e in d.state_model.items()}
        dt = gen.gen_point(ctx.rng, d)["dt"]
        prev = None       # (returned covariance object, snapshot of its data, returned state object, snapshot)
        for step in range(5):
            pt = gen.gen_point(ctx.rng, d)
            pt["dt"] = dt
            pt["cal"] = {s.name: 1 for s in d.calibration}
            if step == 3:
                pt["control"] = {k: 0 for k in pt["control"]}      # a control that is exactly zero still carries its noise
            P = eh.spd(ctx.rng, len(Ls))
            if prev is not None and step % 2 == 0 and np.all(np.isfinite(prev[1])) and float(np.max(np.abs(prev[1]))) < 1e6:
                # the ordinary filter loop: the covariance returned by the previous call is the next input
                from fractions import Fraction as _F
                P = [[_F(float(v)) for v in row] for row in (0.5 * (prev[1] + prev[1].T)).tolist()]
            case = {"def": d.describe(), "stream": "same-filter-sequence", "step": step, "point": eh.point_json(pt), "P": eh.mat_json(P),
                    "noise": {k: str(v) for k, v in process.items()}}
            ctx.case(case, nontrivial=step >= 1); ctx.count("stream=same-filter-sequence")
            sub = eh.subs_map(d, pt)
            G, V = eh.oracle_jac(um, Ls, Ls, sub), eh.oracle_jac(um, Ls, Lc, sub)
            M = [[process[a] if a == b else 0 for b in Lc] for a in Lc]
            want_P = eh.madd(eh.mmul(eh.mmul(G, P), eh.mT(G)), eh.mmul(eh.mmul(V, M), eh.mT(V)))
            try:
                with fk.quiet():
                    cov_in = eh.cov_obj(ekf, P)
                    snap_in = cov_in.data.copy()
                    if step == 3 and Lc:
                        r = ekf.process_model(float(pt["dt"]), eh.state_obj(ekf, pt), cov_in)     # no control argument = all zero
                    else:
                        r = ekf.process_model(float(pt["dt"]), eh.state_obj(ekf, pt), cov_in, eh.control_obj(ekf, pt))
            except Exception as e:
                ctx.fail(f"process-model-raises:{fk.exc_kind(e)}", f"process_model raises {e!r}"[:300], case); break
            if not np.array_equal(cov_in.data, snap_in):
                ctx.fail("process-model-mutates-input", "process_model modified the covariance it was given", case); break
            if prev is not None and (not np.array_equal(prev[0].data, prev[1]) or not np.array_equal(prev[2].data, prev[3])):
                ctx.fail("process-model-result-aliased", "a later process_model call changed a result returned by an earlier call", case); break
            prev = (r.covariance, r.covariance.data.copy(), r.state, r.state.data.copy())
            if not eh.mat_close(r.covariance.data, want_P):
                ctx.fail("predict-cov:history-dependent" if step else "predict-cov:with-control",
                         f"call {step} on the same filter (same dt, new control): covariance differs from G P G^T + V M V^T", case)
                break


def predict_against_oracle(ctx, d, ekf, process, pt, tag):
    """one prediction of `ekf` (built from `d`) at `pt` against G P G^T + V M V^T and the propagated state, by name"""
    Ls, Lc, Lk = eh.names_of(d)
    um = {s.name: e for s, e in d.state_model.items()}
    P = eh.spd(ctx.rng, len(Ls))
    sub = eh.subs_map(d, pt)
    G = eh.oracle_jac(um, Ls, Ls, sub)
    V = eh.oracle_jac(um, Ls, Lc, sub)
    M = [[process[a] if a == b else 0 for b in Lc] for a in Lc]
    want_P = eh.mmul(eh.mmul(G, P), eh.mT(G))
    if Lc:
        want_P = eh.madd(want_P, eh.mmul(eh.mmul(V, M), eh.mT(V)))
    want_x = eh.oracle_vals(um, Ls, sub)
    case = {"def": d.describe(), "noise": {k: str(v) for k, v in process.items()}, "point": eh.point_json(pt), "P": eh.mat_json(P), "stream": tag}
    ctx.case(case, True); ctx.count(f"stream={tag}")
    try:
        with fk.quiet():
            r = ekf.process_model(float(pt["dt"]), eh.state_obj(ekf, pt), eh.cov_obj(ekf, P), eh.control_obj(ekf, pt))
    except Exception as e:
        ctx.fail(f"process-model-raises:{fk.exc_kind(e)}", f"process_model raises {e!r}"[:300], case); return
    gx = fk.by_name(r.state)
    if not all(core.close(gx[n], w, scale=max(map(abs, want_x))) for n, w in zip(Ls, want_x)):
        ctx.fail(f"predict-state:{tag}", f"predicted state {gx} differs from the model-propagated state {dict(zip(Ls, map(float, want_x)))}", case)
    if not eh.mat_close(r.covariance.data, want_P):
        ctx.fail(f"predict-cov:{tag}", f"predicted covariance {r.covariance.data.tolist()} differs from G P G^T + V M V^T = "
                 f"{[[float(x) for x in row] for row in want_P]}", case)


def integrators_and_integer_covariances(ctx):
    """(a) pure integrators of the controls (the symbolic process Jacobian is exactly the identity): the covariance handed in is
    left as it was, the result is a fresh value, repeating the call repeats the result; (b) a covariance handed over as an INTEGER
    array (from_data only looks at the shape) is the same covariance as with floats"""
    from fractions import Fraction as Fr
    for i in range(3 if ctx.quick else 20):
        names = gen.fresh_names(ctx.rng, 4)
        a, b, u, w = (sympy.Symbol(x) for x in names)
        dt = sympy.Symbol("dt")
        sm = {a: a + dt * u, b: b + dt * w + dt * u / 2} if i % 2 == 0 else {a: a + dt * u * w, b: b + u}
        d = gen.Definition(dt, [a, b], [u, w], [], sm, {})
        process, sensor = eh.make_noises(ctx.rng, d)
        pt = gen.gen_point(ctx.rng, d)
        try:
            ekf = eh.compile_ekf(d, process, sensor, {}, ctx.rng, cse=(i % 2 == 0))
        except Exception as e:
            ctx.fail(f"compile-ekf-raises:{fk.exc_kind(e)}", f"compile_ekf refuses a valid definition: {e!r}"[:300], {"def": d.describe()}); continue
        Ls, Lc, Lk = eh.names_of(d)
        um = {s.name: e for s, e in d.state_model.items()}
        sub = eh.subs_map(d, pt)
        G = eh.oracle_jac(um, Ls, Ls, sub); V = eh.oracle_jac(um, Ls, Lc, sub)
        M = [[process[x] if x == y else 0 for y in Lc] for x in Lc]
        for label, Pi in (("float", None), ("int64", np.array([[2, 1], [1, 3]], dtype=np.int64)), ("int-diagonal", np.diag([2, 3]))):
            P = [[Fr(int(v)) for v in row] for row in Pi] if Pi is not None else eh.spd(ctx.rng, 2)
            want_P = eh.madd(eh.mmul(eh.mmul(G, P), eh.mT(G)), eh.mmul(eh.mmul(V, M), eh.mT(V)))
            case = {"def": d.describe(), "noise": {k: str(v) for k, v in process.items()}, "point": eh.point_json(pt), "P": eh.mat_json(P),
                    "covariance_given_as": label, "stream": "integrators"}
            ctx.case(case, True); ctx.count(f"stream=integrators:{label}")
            cv = ekf.Covariance.from_data(Pi.copy()) if Pi is not None else eh.cov_obj(ekf, P)
            st, ct = eh.state_obj(ekf, pt), eh.control_obj(ekf, pt)
            snap = np.array(cv.data, dtype=float).copy()
            try:
                with fk.quiet():
                    r1 = ekf.process_model(float(pt["dt"]), st, cv, ct)
                    first = np.array(r1.covariance.data, dtype=float).copy()
                    r2 = ekf.process_model(float(pt["dt"]), st, cv, ct)
            except Exception as e:
                ctx.fail(f"process-model-raises:{fk.exc_kind(e)}", f"process_model raises {e!r}"[:300], case); continue
            if not np.array_equal(np.array(cv.data, dtype=float), snap):
                ctx.fail("process-model-mutates-input", "process_model changed the covariance it was given", case)
            elif not np.array_equal(np.array(r2.covariance.data, dtype=float), first) or not np.array_equal(np.array(r1.covariance.data, dtype=float), first):
                ctx.fail("process-model-not-repeatable", "repeating process_model on the same inputs gives a different covariance (or changes the one "
                         "returned before)", case)
            elif not eh.mat_close(first, want_P):
                ctx.fail(f"predict-cov:covariance-as-{label}", f"predicted covariance {first.tolist()} differs from G P G^T + V M V^T = "
                         f"{[[float(x) for x in row] for row in want_P]}", case)


def callers_dicts_edited_later(ctx):
    """the calibration values a filter works with are the ones it was BUILT with: editing the dict that was passed in (to build
    the next filter, say) changes nothing about a filter that already exists"""
    for i in range(2 if ctx.quick else 12):
        d = gen.gen_definition(ctx.rng, n_state=2, n_control=1, n_calib=1, n_sensors=0, depth=2)
        k = d.calibration[0]
        d.state_model[d.state[0]] = d.state_model[d.state[0]] + k * d.state[-1] * d.control[0] * d.dt + k * d.state[0] ** 2
        process, sensor = eh.make_noises(ctx.rng, d)
        pt = gen.gen_point(ctx.rng, d)
        maps = {}
        try:
            ekf = eh.compile_ekf(d, process, sensor, pt["cal"], ctx.rng, cse=(i % 2 == 0), maps=maps)
        except Exception as e:
            ctx.fail(f"compile-ekf-raises:{fk.exc_kind(e)}", repr(e)[:300], {"def": d.describe()}); continue
        P = eh.spd(ctx.rng, 2)
        case = {"def": d.describe(), "point": eh.point_json(pt), "P": eh.mat_json(P), "stream": "callers-dict-edited-later"}
        ctx.case(case, True); ctx.count("stream=callers-dict-edited-later")
        try:
            with fk.quiet():
                r1 = ekf.process_model(float(pt["dt"]), eh.state_obj(ekf, pt), eh.cov_obj(ekf, P), eh.control_obj(ekf, pt))
                first = (np.array(r1.state.data, dtype=float).copy(), np.array(r1.covariance.data, dtype=float).copy())
                for key in list(maps["calibration_map"]):
                    maps["calibration_map"][key] = maps["calibration_map"][key] + 2.5
                r2 = ekf.process_model(float(pt["dt"]), eh.state_obj(ekf, pt), eh.cov_obj(ekf, P), eh.control_obj(ekf, pt))
        except Exception as e:
            ctx.fail(f"process-model-raises:{fk.exc_kind(e)}", repr(e)[:300], case); continue
        if not (np.array_equal(first[0], np.array(r2.state.data, dtype=float)) and np.array_equal(first[1], np.array(r2.covariance.data, dtype=float))):
            ctx.fail("process-model-follows-callers-dict", "after the caller edited the calibration dict it had passed in, the same prediction on the "
                     "same filter gives another result", case)


def role_swapped_twins(ctx):
    """two filters built one after the other in this process from the SAME expressions over the SAME symbols, in which a control and
    a calibration value have exchanged roles (so every positional argument list differs although the symbol sets are equal)"""
    for i in range(3 if ctx.quick else 25):
        d = gen.gen_definition(ctx.rng, n_state=ctx.rng.choice([2, 3]), n_control=1, n_calib=1, n_sensors=0, depth=2)
        # make sure both the control and the calibration symbol occur inside state-dependent products (Jacobian entries mention them)
        u, k = d.control[0], d.calibration[0]
        d.state_model[d.state[0]] = d.state_model[d.state[0]] + u * k * d.state[-1] * d.dt + u * d.state[0] * d.state[-1]
        d2 = gen.Definition(d.dt, list(d.state), [k], [u], dict(d.state_model), {})
        for dd in (d, d2):
            process, sensor = eh.make_noises(ctx.rng, dd)
            pt = gen.gen_point(ctx.rng, dd)
            try:
                ekf = eh.compile_ekf(dd, process, sensor, pt["cal"], ctx.rng, cse=(i % 2 == 0))
            except Exception as e:
                ctx.fail(f"compile-ekf-raises:{fk.exc_kind(e)}", f"compile_ekf refuses a valid definition: {e!r}"[:300], {"def": dd.describe()})
                break
            predict_against_oracle(ctx, dd, ekf, process, pt, "role-swapped-twin")


def _fixed_prediction(ctx, d, ekf, process, pt, P, tag, extra):
    """one prediction at fixed inputs against the exact x' = f(x,u) and G P G^T + V M V^T (by name), twice, inputs compared bitwise"""
    Ls, Lc, Lk = eh.names_of(d)
    um = {s.name: e for s, e in d.state_model.items()}
    sub = eh.subs_map(d, pt)
    case = dict({"def": d.describe(), "noise": {k: str(v) for k, v in process.items()}, "point": eh.point_json(pt), "P": eh.mat_json(P),
                 "stream": tag}, **extra)
    try:
        G = eh.oracle_jac(um, Ls, Ls, sub)
        V = eh.oracle_jac(um, Ls, Lc, sub)
        want_x = eh.oracle_vals(um, Ls, sub)
    except Exception:
        ctx.count(f"stream={tag}:oracle-undefined"); return
    M = [[process[a] if a == b else 0 for b in Lc] for a in Lc]
    want_P = eh.mmul(eh.mmul(G, P), eh.mT(G))
    if Lc:
        want_P = eh.madd(want_P, eh.mmul(eh.mmul(V, M), eh.mT(V)))
    ctx.case(case, True); ctx.count(f"stream={tag}")
    st, ct, cv = eh.state_obj(ekf, pt), eh.control_obj(ekf, pt), eh.cov_obj(ekf, P)
    snap = (st.data.copy(), ct.data.copy(), cv.data.copy())
    try:
        with fk.quiet():
            r1 = ekf.process_model(float(pt["dt"]), st, cv, ct)
            r2 = ekf.process_model(float(pt["dt"]), st, cv, ct)
    except Exception as e:
        ctx.fail(f"process-model-raises:{fk.exc_kind(e)}", f"process_model raises {e!r}"[:300], case); return
    if not (np.array_equal(snap[0], st.data) and np.array_equal(snap[1], ct.data) and np.array_equal(snap[2], cv.data)):
        ctx.fail("process-model-mutates-input", "process_model modified one of its inputs", case)
    if not (np.array_equal(r1.state.data, r2.state.data) and np.array_equal(r1.covariance.data, r2.covariance.data)):
        ctx.fail("process-model-not-repeatable", "repeating process_model gives a different result", case)
    gx = fk.by_name(r1.state)
    if not all(core.close(gx[n], w, scale=max(map(abs, want_x))) for n, w in zip(Ls, want_x)):
        ctx.fail(f"predict-state:{tag}", f"predicted state {gx} differs from the model-propagated state {dict(zip(Ls, map(float, want_x)))}", case)
    if not eh.mat_close(r1.covariance.data, want_P):
        ctx.fail(f"predict-cov:{tag}", f"predicted covariance {r1.covariance.data.tolist()} differs from G P G^T + V M V^T = "
                 f"{[[float(x) for x in row] for row in want_P]}", case)


def fast_clock_time_steps(ctx):
    """'for all dt' includes the steps of a fast clock: models whose rates are 2^20 .. 2^30 per second, stepped by dt between 2^-36
    and 2^-18 s (below / around a nanosecond, or a microsecond plus a sub-nanosecond residue), so that every dt-dependent term of the
    state and of both Jacobians is of order 1. The prediction is the model at THE dt that was passed. Fixed inputs, private generator."""
    import random
    from fractions import Fraction as Fr
    rng = random.Random(40417)
    p, v, a, c = (sympy.Symbol(n) for n in ("pos_f", "vel_f", "acc_f", "rate_f"))
    dt = sympy.Symbol("dt")
    models = [
        # first-order lag with rate c/4, driven by a; position integrates c*v
        {p: p + c * v * dt + a * (c * dt) ** 2 / 2, v: v - c * v * dt / 4 + c * a * dt},
        # state-dependent Jacobian entries that carry dt
        {p: p + c * dt * v * v / 2 - c * dt * p * a, v: v + c * dt * (a - v * p)},
    ]
    # (rate, dt): c*dt is 1/2 .. 3 in every row; none of the dt is a whole number of nanoseconds
    steps = [(Fr(2) ** 30, Fr(1, 2 ** 31)), (Fr(2) ** 30, Fr(3, 2 ** 31)), (Fr(2) ** 30, Fr(5, 2 ** 32)), (Fr(2) ** 34, Fr(3, 2 ** 36)),
             (Fr(2) ** 20, Fr(1, 2 ** 20) + Fr(1, 2 ** 31)), (Fr(2) ** 20, Fr(3, 2 ** 20) + Fr(3, 2 ** 33)),
             (Fr(2) ** 24, Fr(1, 2 ** 25) + Fr(1, 2 ** 34)), (Fr(2) ** 18, Fr(1, 2 ** 18) + Fr(5, 2 ** 32))]
    for mi, sm in enumerate(models):
        d = gen.Definition(dt, [p, v], [a], [c], dict(sm), {})
        process = {"acc_f": Fr(3, 4)}
        for cse in (True, False):
            by_rate = {}
            for rate, step in steps:
                if not ctx.quick or (len(by_rate.get(rate, [])) < 2):
                    by_rate.setdefault(rate, []).append(step)
            for rate, dts in by_rate.items():
                cal = {"rate_f": rate}
                try:
                    ekf = eh.compile_ekf(d, process, {}, cal, rng, cse=cse)
                except Exception as e:
                    ctx.fail(f"compile-ekf-raises:{fk.exc_kind(e)}", f"compile_ekf refuses a valid definition: {e!r}"[:300], {"def": d.describe()})
                    continue
                for step in dts:
                    pt = {"dt": step, "cal": cal, "state": {"pos_f": Fr(3, 4), "vel_f": Fr(-5, 8) if mi else Fr(3, 2)}, "control": {"acc_f": Fr(5, 4)}}
                    _fixed_prediction(ctx, d, ekf, process, pt, eh.spd(rng, 2), "fast-clock-dt", {"cse": cse})


def even_power_roots_at_negative_points(ctx):
    """roots of even powers - the smooth |t| of a quadratic drag t*sqrt(t^2), (t^2)^(3/2), sqrt(a^2*b^2) - of states and of controls,
    at EVERY sign combination of the symbols involved, with and without CSE: sqrt(t^2) is |t|, and rewriting it as t is wrong for t < 0
    (state, process Jacobian and control Jacobian). Fixed inputs, private generator; exact oracle (the roots are rational here)."""
    import itertools
    import random
    from fractions import Fraction as Fr
    rng = random.Random(40418)
    p, v, u, k = (sympy.Symbol(n) for n in ("pos_r", "vel_r", "thrust_r", "drag_r"))
    dt = sympy.Symbol("dt")
    sq = sympy.sqrt
    models = [
        ("quadratic-drag", {p: p + v * dt, v: v + (u - k * v * sq(v ** 2)) * dt}),
        ("cubed-speed", {p: p + sq(p ** 2 * v ** 2) * dt, v: v - k * (v ** 2) ** sympy.Rational(3, 2) * dt + u * dt}),
        ("control-magnitude", {p: p + v * dt + u * sq(u ** 2) * dt * dt / 2, v: v + k * u * sq(u ** 2) * dt - v * sq(p ** 2) * dt}),
    ]
    mags = {"pos_r": Fr(5, 4), "vel_r": Fr(3, 2), "thrust_r": Fr(7, 8)}
    for label, sm in models:
        d = gen.Definition(dt, [p, v], [u], [k], dict(sm), {})
        process = {"thrust_r": Fr(5, 8)}
        cal = {"drag_r": Fr(3, 8)}
        for cse in (True, False):
            try:
                ekf = eh.compile_ekf(d, process, {}, cal, rng, cse=cse)
            except Exception as e:
                ctx.fail(f"compile-ekf-raises:{fk.exc_kind(e)}", f"compile_ekf refuses a valid definition: {e!r}"[:300], {"def": d.describe()})
                continue
            for signs in itertools.product((1, -1), repeat=3):
                pt = {"dt": Fr(1, 4), "cal": cal, "state": {"pos_r": signs[0] * mags["pos_r"], "vel_r": signs[1] * mags["vel_r"]},
                      "control": {"thrust_r": signs[2] * mags["thrust_r"]}}
                if signs != (1, 1, 1):
                    ctx.count("stream=even-power-roots:negative-base")
                _fixed_prediction(ctx, d, ekf, process, pt, eh.spd(rng, 2), "even-power-roots", {"cse": cse, "model": label})


def lattice_walk_on_one_filter(ctx):
    """a caller sweeping a grid of starting points: ONE filter object is asked for the prediction at a sequence of whole-number points
    (states and controls in -3..3, dt 1/4 or 1/2, and one additive control stepped 1 -> 2^61 -> 1) in which consecutive points differ
    in exactly one entry of (dt, state, control). Every answer is the model at the point of THAT call: f, G and V are re-evaluated
    there (polynomial models whose state, process Jacobian and control Jacobian depend on every entry). Fixed inputs, private generator."""
    import random
    from fractions import Fraction as Fr
    rng = random.Random(40419)
    p, v, a, b, k = (sympy.Symbol(n) for n in ("pos_g", "vel_g", "acc_g", "bias_g", "gain_g"))
    dt = sympy.Symbol("dt")
    models = [
        ("bilinear", {p: p + dt * v * p + dt * b, v: v + dt * a * p * k}),
        ("driven-lag", {p: p + dt * v + a * p * dt * dt / 2 + dt * b, v: v + dt * (a - k * v * p)}),
    ]
    # the walk: (entry, successive values); every other entry keeps the value it has at that moment
    legs = [("pos_g", [0, -1, -2, -3]), ("vel_g", [0, -1, -2, -1]), ("acc_g", [0, -1, -2, -3, -2, -1]), ("dt", [Fr(1, 2)]),
            ("pos_g", [-2, -1, 0, 1, 2, 3]), ("vel_g", [-2, -3]), ("bias_g", [2 ** 61, 1, 0, -1, -2]), ("dt", [Fr(1, 4)]),
            ("acc_g", [-2, -1]), ("bias_g", [-1, -2, -1])]
    for label, sm in models:
        d = gen.Definition(dt, [p, v], [a, b], [k], dict(sm), {})
        process = {"acc_g": Fr(3, 4), "bias_g": Fr(5, 8)}
        cal = {"gain_g": Fr(3, 2)}
        for cse in (True, False):
            try:
                ekf = eh.compile_ekf(d, process, {}, cal, rng, cse=cse)
            except Exception as e:
                ctx.fail(f"compile-ekf-raises:{fk.exc_kind(e)}", f"compile_ekf refuses a valid definition: {e!r}"[:300], {"def": d.describe()})
                continue
            cur = {"dt": Fr(1, 4), "pos_g": Fr(1), "vel_g": Fr(1), "acc_g": Fr(1), "bias_g": Fr(1)}
            walk = [dict(cur)]
            for entry, values in legs:
                for val in values:
                    cur[entry] = Fr(val)
                    walk.append(dict(cur))
            P = eh.spd(rng, 2)
            for step, c in enumerate(walk):
                pt = {"dt": c["dt"], "cal": cal, "state": {"pos_g": c["pos_g"], "vel_g": c["vel_g"]},
                      "control": {"acc_g": c["acc_g"], "bias_g": c["bias_g"]}}
                if step:
                    ctx.count("stream=lattice-walk:one-entry-changed")
                _fixed_prediction(ctx, d, ekf, process, pt, P, "lattice-walk", {"cse": cse, "model": label, "step": step})


def run(ctx):
    audit = core.lean_audit("C04")
    drv = core.Driver()
    pending = []
    ndefs, npts = (14, 3) if ctx.quick else (150, 8)
    for i in range(ndefs):
        d = gen.gen_definition(ctx.rng, n_control=ctx.rng.choice([0, 1, 2, 3]), n_sensors=0, transcend=(i % 6 == 5))
        if i % 6 == 5:
            gen.force_sign_sensitive(ctx.rng, d)       # t*sqrt(t^2): rewriting it as if t were positive is wrong for negative t
        process, sensor = eh.make_noises(ctx.rng, d)
        if i % 4 == 2:
            # very small (but positive) per-control noises: the noise given is the noise used, whatever its magnitude
            from fractions import Fraction as _F
            process = {n: _F(j + 1, ctx.rng.choice([2 ** 22, 10 ** 8, 3 * 10 ** 10])) for j, n in enumerate(sorted(process))}
            ctx.count("tiny_process_noise")
        pts = [gen.gen_point(ctx.rng, d) for _ in range(npts)]
        cal = pts[0]["cal"]
        cse = ctx.rng.random() < 0.5
        try:
            ekf = eh.compile_ekf(d, process, sensor, cal, ctx.rng, cse=cse)
        except Exception as e:
            ctx.fail(f"compile-ekf-raises:{fk.exc_kind(e)}", f"compile_ekf refuses a valid definition: {e!r}"[:300], {"def": d.describe()})
            continue
        Ls, Lc, Lk = eh.names_of(d)
        um = {s.name: e for s, e in d.state_model.items()}
        rational = eh.is_rational(d)
        for pt in pts:
            pt = dict(pt, cal=cal)
            P = eh.spd(ctx.rng, len(Ls))
            case = {"def": d.describe(), "cse": cse, "noise": {k: str(v) for k, v in process.items()},
                    "point": eh.point_json(pt), "P": eh.mat_json(P)}
            sub = eh.subs_map(d, pt)
            try:
                G = eh.oracle_jac(um, Ls, Ls, sub)
                V = eh.oracle_jac(um, Ls, Lc, sub)
            except ValueError:
                # the exact derivative is 0/0 at this point (e.g. acos(cos(dt*s)) at dt = 0 has a kink): G is not defined, nothing to demand
                ctx.count("oracle_undefined_point"); continue
            M = [[process[a] if a == b else 0 for b in Lc] for a in Lc]
            asym = any(G[a][b] != G[b][a] for a in range(len(Ls)) for b in range(len(Ls)))
            ctx.case(case, nontrivial=bool(Lc) or asym)
            ctx.count(f"controls={len(Lc)}"); ctx.count(f"states={len(Ls)}"); ctx.count(f"calib={len(Lk)}")
            want_P = eh.mmul(eh.mmul(G, P), eh.mT(G))
            if Lc:
                want_P = eh.madd(want_P, eh.mmul(eh.mmul(V, M), eh.mT(V)))
            want_x = eh.oracle_vals(um, Ls, sub)
            st, ct, cv = eh.state_obj(ekf, pt), eh.control_obj(ekf, pt), eh.cov_obj(ekf, P)
            snap = (st.data.copy(), ct.data.copy(), cv.data.copy(), ekf.process_noise.copy())
            try:
                with fk.quiet():
                    r1 = ekf.process_model(float(pt["dt"]), st, cv, ct)
                    r2 = ekf.process_model(float(pt["dt"]), st, cv, ct)
            except Exception as e:
                ctx.fail(f"process-model-raises:{fk.exc_kind(e)}", f"process_model raises {e!r}"[:300], case)
                continue
            if not (np.array_equal(snap[0], st.data) and np.array_equal(snap[1], ct.data) and np.array_equal(snap[2], cv.data)
                    and np.array_equal(snap[3], ekf.process_noise)):
                ctx.fail("process-model-mutates-input", "process_model modified one of its inputs", case)
            if not (np.array_equal(r1.state.data, r2.state.data) and np.array_equal(r1.covariance.data, r2.covariance.data)):
                ctx.fail("process-model-not-repeatable", "repeating process_model gives a different result", case)
            gx = fk.by_name(r1.state)
            if not all(core.close(gx[n], w, scale=max(map(abs, want_x))) for n, w in zip(Ls, want_x)):
                ctx.fail("predict-state", f"predicted state {gx} differs from the model-propagated state {dict(zip(Ls, map(float, want_x)))}", case)
            if not eh.mat_close(r1.covariance.data, want_P):
                ctx.fail("predict-cov:" + ("with-control" if Lc else "no-control"),
                         f"predicted covariance {r1.covariance.data.tolist()} differs from G P G^T + V M V^T = {[[float(x) for x in r] for r in want_P]}", case)
            if rational:
                idx = drv.add({"op": "predict", "ekf": eh.ekf_json(d, process, sensor), "point": eh.point_json(pt), "P": eh.mat_json(P)})
                pending.append((idx, gx, r1.covariance.data.copy(), case))
    same_filter_sequences(ctx)
    role_swapped_twins(ctx)
    integrators_and_integer_covariances(ctx)
    callers_dicts_edited_later(ctx)
    ans = drv.run()
    for idx, gx, gP, info in pending:
        a = ans[idx]
        if "ok" not in a:
            if a.get("fatal") in ("undefined", "eval-failed"):
                ctx.count("model_undefined_point"); continue
            ctx.broke("driver:predict", a, info); continue
        ctx.traces += 1
        ms = {n: core.parse_frac(v) for n, v in a["ok"]["state"].items()}
        mP = [[core.parse_frac(x) for x in r] for r in a["ok"]["cov"]]
        sc = max([abs(float(v)) for v in ms.values()] + [1.0])
        if set(ms) != set(gx) or not all(core.close(gx[n], ms[n], scale=sc) for n in ms) or not eh.mat_close(gP, mP):
            ctx.broke("correspondence:predict (Lean model vs process_model)", {"model": a["ok"], "impl_state": gx, "impl_cov": gP.tolist()}, info)
    # fixed streams last (they draw nothing from ctx.rng; the tolerance in force is the 1e-9 of non-transcendental definitions)
    fast_clock_time_steps(ctx)
    even_power_roots_at_negative_points(ctx)
    lattice_walk_on_one_filter(ctx)
    return core.finish(ctx, audit, NOTE, RULE, PARTIAL)


def replay(ctx, data):
    import json
    print(json.dumps(data, indent=1)[:3000]); return 0
