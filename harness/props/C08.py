"""C08 — CSE never changes a result; temporaries are single-assignment, ordered."""
from __future__ import annotations

import re

import numpy as np
import sympy

from fractions import Fraction as F

import core
import cparse
import cppgen
import ekf_h as eh
import fk
import gen
import runtime_h as rh
from props import C02

RULE = ("definitions from the nested-share stream (deliberately shared and nested shared sub-expressions across outputs) compiled with "
        "CSE on and off, Python filter (model, process/control/sensor Jacobian, sensor model blocks recorded at the lambdify seam) and "
        "generated C++ (every function body parsed back); each block: WellScoped + exact agreement with the definition / Lean derivative "
        "(obligation), and all numeric outputs on vs off; distinct by (definition, block or point); non-trivial = the CSE block has >=1 temporary; "
        "long-blocks stream: fixed models whose blocks have 36-68 statements (and a 7-state filter with a 6-reading sensor, thorough: 36 readings: 49- and 42- / 252-entry Jacobian blocks) "
        "with the shared sub-expressions placed early, late, or everywhere in the block, flat and nested: every value with CSE on = with CSE off "
        "= the exact value of the definition (Python and generated C++ model), generated text scanned for temporary order")
NOTE = ["block-level theorems: C08.block_eq_inlined, wellScoped_total, on_off; `ComputesSpec` is established per block by exact rational "
        "evaluation at 4 seeded points (randomised identity test), not by a symbolic equivalence proof",
        "C++ text scan additionally checks that no `_tk` is used before its declaration and none is declared twice",
        "long-blocks stream: deterministic (no random draws); oracle = exact rational evaluation of the definition and of its sympy "
        "derivatives at two fixed points; blocks of more than a few dozen statements are where an implementation may batch its search"]
PARTIAL = ["sympy cse/simplify are parameters; their output is checked per instance, not verified"]


def share_definition(rng, transcend=False):
    d = gen.gen_definition(rng, n_state=rng.choice([2, 3, 4]), n_control=rng.choice([0, 1, 2]), n_calib=rng.choice([0, 1]),
                           n_sensors=rng.choice([1, 2]), depth=3, share=True, transcend=transcend)
    # force cross-output sharing: add one common nested term to every state update and every reading
    syms = d.state + d.control + d.calibration
    a, b = rng.choice(syms), rng.choice(syms)
    inner = (a + 2 * b + 1) ** 2
    common = inner / (1 + inner ** 2) + inner
    for s in d.state:
        d.state_model[s] = d.state_model[s] + common * rng.choice([1, 2, 3])
    ssyms = d.state + d.calibration
    a, b = rng.choice(ssyms), rng.choice(ssyms)
    inner = (a - b) ** 2 + 1
    for rd in d.sensors.values():
        for r in rd:
            rd[r] = rd[r] + 3 / inner + inner
    return d


def py_blocks(ekf, d):
    Ls, Lc, Lk = eh.names_of(d)
    um = {s.name: gen.expr_json(e) for s, e in d.state_model.items()}
    out = [("model", gen.program_of_block(ekf._state_model._impl), ("spec", [um[s] for s in Ls])),
           ("process_jacobian", gen.program_of_block(ekf._impl_process_jacobian), ("jac", [um[s] for s in Ls], Ls))]
    if Lc:
        out.append(("control_jacobian", gen.program_of_block(ekf._impl_control_jacobian), ("jac", [um[s] for s in Ls], Lc)))
    for key, rd in d.sensors.items():
        Lr = sorted(rd)
        rj = [gen.expr_json(rd[r]) for r in Lr]
        out.append((f"sensor:{key}", gen.program_of_block(ekf.sensor_models[key]._impl), ("spec", rj)))
        out.append((f"sensor_jacobian:{key}", gen.program_of_block(ekf._impl_sensor_jacobians[key]), ("jac", rj, Ls + Lk)))
    return out


def py_outputs(ekf, d, pt, P):
    with fk.quiet():
        st, ct, cv = eh.state_obj(ekf, pt), eh.control_obj(ekf, pt), eh.cov_obj(ekf, P)
        r = ekf.process_model(float(pt["dt"]), st, cv, ct)
        vals = [r.state.data.copy(), r.covariance.data.copy()]
        for key, rd in sorted(d.sensors.items()):
            z = ekf.make_reading(key, **{x: 0.25 for x in rd})
            u = ekf.sensor_model(st, cv, sensor_key=key, sensor_reading=z)
            vals += [u.state.data.copy(), u.covariance.data.copy(), ekf.sensor_jacobian(key, st)]
    return vals


def text_scan(source_text):
    """every _tk declared once and before any use, per function body"""
    problems = []
    for fname, body in cparse.function_bodies(source_text).items():
        declared = set()
        for ln in body:
            m = re.match(r"^\s*double\s+(_t\d+)\s*=\s*(.*);\s*$", ln)
            rhs = m.group(2) if m else (ln.split("=", 1)[1] if "=" in ln else ln)
            for use in re.findall(r"\b_t\d+\b", rhs):
                if use not in declared:
                    problems.append(f"{fname}: {use} used before its declaration")
            if m:
                if m.group(1) in declared:
                    problems.append(f"{fname}: {m.group(1)} declared twice")
                declared.add(m.group(1))
    return problems


def run(ctx):
    audit = core.lean_audit("C08")
    drv = core.Driver()
    pending = []
    ndefs = 5 if ctx.quick else 50
    jobs, metas = [], []
    for i in range(ndefs):
        d = share_definition(ctx.rng, transcend=(i % 5 == 4))
        if i == 1:
            d = gen.paired_powers_definition(ctx.rng)
        if i % 5 == 4:
            gen.force_inverse_composition(ctx.rng, d)      # asin(sin u) etc.: cancelling it is only right on the principal branch
        d._kind = "ekf"
        rational = eh.is_rational(d)
        process, sensor = eh.make_noises(ctx.rng, d)
        pts = [gen.gen_point(ctx.rng, d) for _ in range(3)]
        if i % 5 == 4:
            # a point well outside (-pi/2, pi/2) in every state
            pts[-1] = {"dt": pts[0]["dt"], "cal": pts[0]["cal"], "control": dict(pts[0]["control"]), "state": {n_: F(5, 2) for n_ in pts[0]["state"]}}
        cal = pts[0]["cal"]
        pts = [dict(p, cal=cal) for p in pts]
        # every point is followed by a NEARBY one (all inputs moved by 2^-22 relative): consecutive evaluations of one block on
        # almost-equal inputs are ordinary use (a settled filter, a finite-difference probe)
        eps = 1 + F(1, 2 ** 22)
        pts = [q for p in pts for q in (p, {"dt": p["dt"] * eps, "cal": cal, "state": {a: v * eps for a, v in p["state"].items()},
                                            "control": {a: v * eps for a, v in p["control"].items()}})]
        desc = {"def": d.describe()}
        outs = {}
        for cse in (True, False):
            try:
                with gen.LambdifyRecorder():
                    ekf = eh.compile_ekf(d, process, sensor, cal, ctx.rng, cse=cse)
                blocks = py_blocks(ekf, d)
            except gen.Untranslatable as e:
                ctx.count("untranslatable_definition"); ctx.notes.append(f"definition outside the translator's fragment: {e}")
                continue
            except Exception as e:
                ctx.fail(f"compile-ekf-raises:{fk.exc_kind(e)}", f"compile_ekf (cse={cse}) raises {e!r}"[:300], desc)
                continue
            for bname, prog, spec in blocks:
                ctx.count(f"py_block_temporaries={min(len(prog['pre']), 6)}")
                case = dict(desc, backend="python", block=bname, cse=cse)
                ctx.case(case, nontrivial=len(prog["pre"]) >= 1)
                if not rational:
                    continue
                try:
                    pj = gen.program_json(prog)
                except gen.Untranslatable:
                    ctx.count("untranslatable_block"); continue
                ptsq = [[core.frac_str(gen.dyadic(ctx.rng)) for _ in pj["args"]] for _ in range(4)]
                if spec[0] == "spec":
                    idx = drv.add({"op": "checkprog", "prog": pj, "spec": spec[1], "points": ptsq})
                else:
                    idx = drv.add({"op": "checkjac", "prog": pj, "outs": spec[1], "wrt": spec[2], "points": ptsq})
                pending.append(("checkprog", idx, True, case))
            try:
                outs[cse] = [py_outputs(ekf, d, pt, eh.spd(__import__("random").Random(7 + k), len(d.state))) for k, pt in enumerate(pts)]
            except Exception as e:
                ctx.fail(f"py-run-raises:{fk.exc_kind(e)}", f"filter (cse={cse}) raises {e!r}"[:300], desc)
        if True in outs and False in outs:
            for k, (a, b) in enumerate(zip(outs[True], outs[False])):
                case = dict(desc, backend="python", point=eh.point_json(pts[k]))
                ctx.case(case, True); ctx.traces += 1
                for x, y in zip(a, b):
                    sc = 1.0 + float(np.max(np.abs(y))) if y.size else 1.0
                    if x.shape != y.shape or (x.size and float(np.max(np.abs(x - y))) > core.DEFAULT_TOL * sc):
                        ctx.fail("cse-on-off:python", f"a Python filter output differs with CSE on vs off: {x.tolist()} vs {y.tolist()}", case)
                        break
        for cse in (True, False):
            try:
                g = cppgen.generate(d, process, sensor, cal, ctx.scratch, f"c{i}{int(cse)}", cse=cse, rng=ctx.rng)
            except Exception as e:
                ctx.fail(f"cpp-generate-raises:{fk.exc_kind(e)}", f"C++ generation (cse={cse}) raises {e!r}"[:300], desc)
                continue
            probs = text_scan(open(g["source"]).read())
            ntemps = len(re.findall(r"double\s+_t\d+\s*=", open(g["source"]).read()))
            ctx.count(f"cpp_unit_temporaries={'0' if ntemps == 0 else '1-5' if ntemps <= 5 else '6+'}")
            ctx.case(dict(desc, backend="cpp", cse=cse), nontrivial=ntemps >= 1)
            if probs:
                ctx.fail("cpp-temporary-order", "; ".join(probs[:3]), dict(desc, cse=cse))
            C02.translator_obligations(ctx, drv, pending, d, g, process, sensor, dict(desc, backend="cpp", cse=cse))
            jobs.append((g, d, None)); metas.append((i, cse, d, pts))
    built = cppgen.build_many(jobs)
    cpp_out = {}
    for (i, cse, d, pts), (exe, err) in zip(metas, built):
        if exe is None:
            ctx.fail("generated-cpp-does-not-compile", f"generated filter (cse={cse}) does not compile: " + err[-400:], {"def": d.describe(), "cse": cse})
            continue
        lines = []
        for k, pt in enumerate(pts):
            P = eh.spd(__import__("random").Random(7 + k), len(d.state))
            lines.append(cppgen.point_line("predict", d, pt, P))
            for key, rd in sorted(d.sensors.items()):
                lines.append(cppgen.point_line(f"update:{key}", d, pt, P, {x: 0.25 for x in rd}))
        try:
            cpp_out[(i, cse)] = cppgen.run_exe(exe, lines)
        except Exception as e:
            ctx.fail("generated-cpp-crashes", repr(e)[:300], {"def": d.describe(), "cse": cse})
    transcend_units = {i for (i, cse, d, pts) in metas if d.transcend}
    for (i, cse), outs in cpp_out.items():
        core.set_tolerance(i in transcend_units)
        if cse and (i, False) in cpp_out:
            for a, b in zip(outs, cpp_out[(i, False)]):
                ctx.traces += 1
                ctx.case({"backend": "cpp", "unit": i, "keys": len(a)}, True)
                for key in a:
                    if key == "unchanged":
                        if a[key] != b.get(key):
                            ctx.fail("cse-on-off:cpp", "accept/reject differs with CSE on vs off", {"unit": i})
                        continue
                    x, y = rh.bitsf(a[key]), rh.bitsf(b.get(key, "0"))
                    if not core.close(x, y, scale=1.0):
                        ctx.fail("cse-on-off:cpp", f"generated C++ output {key} differs with CSE on vs off: {x!r} vs {y!r}", {"unit": i, "key": key})
                        break
    custom_modules(ctx)
    toggled_on_an_estimator(ctx)
    floor_terms_in_a_generated_model(ctx)
    long_blocks(ctx)
    C02.settle(ctx, drv.run(), pending)
    return core.finish(ctx, audit, NOTE, RULE, PARTIAL)


def custom_modules(ctx):
    """Config.python_modules: the same symbolic model compiled under two different implementations of a user function, CSE on
    and off each; within one set of modules CSE must not change a value"""
    from formak import python, ui
    x, v, dt = sympy.symbols("px pv dt")
    drag = sympy.Function("drag")
    model = ui.Model(dt=dt, state={x, v}, control=set(), state_model={x: x + dt * v + drag(v) * dt, v: v - drag(v) * dt + drag(v) * drag(v) * dt / 4})
    results = {}
    for tag, impl in (("A", lambda q: 2.0 * q), ("B", lambda q: q * q * q)):
        mods = ("scipy", "numpy", "math", {"drag": impl})
        for cse in (True, False):
            case = {"stream": "custom-python-modules", "modules": tag, "cse": cse}
            ctx.case(case, True); ctx.count("stream=custom-python-modules")
            try:
                with fk.quiet():
                    pm = python.compile(model, config=python.Config(common_subexpression_elimination=cse, python_modules=mods))
                    r = pm.model(0.125, pm.State(px=1.5, pv=-0.75))
                results[(tag, cse)] = fk.by_name(r)
            except Exception as e:
                ctx.fail(f"custom-modules-raises:{fk.exc_kind(e)}", repr(e)[:300], case)
    for tag in ("A", "B"):
        if (tag, True) in results and (tag, False) in results:
            a, b = results[(tag, True)], results[(tag, False)]
            if any(not core.close(a[k], b[k], scale=1.0, tol=1e-9) for k in a):
                ctx.fail("cse-on-off:python:custom-modules", f"modules {tag}: CSE on gives {a}, CSE off gives {b}", {"stream": "custom-python-modules", "modules": tag})


def floor_terms_in_a_generated_model(ctx):
    """a generated C++ model (no filter: floor has no derivative) in which floor(...) terms occur several times and are divided by
    one another: the value with CSE on equals the value with CSE off (a shared floor term is still a real number)"""
    x, y, dt = sympy.symbols("fx fy dt")
    fa, fb = sympy.floor(2 * x + y), sympy.floor(y + 3)
    d = gen.Definition(dt, [x, y], [], [], {x: x + dt * fa / fb + fa * sympy.Rational(1, 8), y: y + fa / fb - fb / 4}, {})
    d._kind = "model"
    d.transcend = True
    jobs = []
    for cse in (True, False):
        try:
            jobs.append((cppgen.generate(d, {}, {}, {}, ctx.scratch, f"fl{int(cse)}", cse=cse, kind="model", rng=None), d, None))
        except Exception as e:
            ctx.fail(f"cpp-generate-raises:{fk.exc_kind(e)}:floor", repr(e)[:300], {"def": d.describe(), "cse": cse}); return
    built = cppgen.build_many(jobs)
    if any(exe is None for exe, _ in built):
        ctx.fail("generated-cpp-does-not-compile:floor", (built[0][1] or built[1][1])[-400:], {"def": d.describe()}); return
    for vals in ((F(7, 2), F(1, 4)), (F(-9, 4), F(5, 2)), (F(45, 10) * 10 ** 9, F(1, 2)), (F(3), F(11, 4))):
        pt = {"dt": F(1, 8), "cal": {}, "control": {}, "state": {"fx": vals[0], "fy": vals[1]}}
        case = {"def": d.describe(), "stream": "floor-terms", "point": eh.point_json(pt)}
        ctx.case(case, True); ctx.count("stream=floor-terms")
        outs = [cppgen.run_exe(exe, [cppgen.point_line("model", d, pt, None, kind="model")])[0] for exe, _ in built]
        on, off = ({s_: rh.bitsf(o[f"model.{s_}"]) for s_ in ("fx", "fy")} for o in outs)
        want = dict(zip(("fx", "fy"), eh.oracle_vals({"fx": d.state_model[x], "fy": d.state_model[y]}, ["fx", "fy"], eh.subs_map(d, pt))))
        sc = max(abs(float(v)) for v in want.values()) + 1.0
        if any(not core.close(on[k2], off[k2], scale=sc) for k2 in on):
            ctx.fail("cse-on-off:cpp:floor", f"generated model with floor terms: CSE on gives {on}, CSE off gives {off}", case)
        elif any(not core.close(off[k2], want[k2], scale=sc) for k2 in off):
            ctx.fail("cpp-model-value:floor", f"generated model returns {off}, the expressions give { {k2: float(v) for k2, v in want.items()} }", case)


def long_block_definition(n, clusters, sensor_clusters=None, n_readings=0):
    """a model with n states q00, q01, ... (a block of n statements, n*n Jacobian entries) and one control. `clusters` lists
    (first, count, m, nested): states first .. first+count-1 all use the same m shared sub-expressions (nested: each shared term also
    occurs inside a second shared term); every other state shares nothing with anybody. Optionally one sensor "wide" of n_readings
    readings r00, r01, ... built the same way from `sensor_clusters`."""
    dt, u = sympy.Symbol("dt"), sympy.Symbol("uu")
    q = [sympy.Symbol(f"q{i:02d}") for i in range(n)]
    R = sympy.Rational

    def fill(base, coef, clusters_, size, with_dt):
        out = {}
        for i in range(size):
            out[i] = base(i) * R(15 + (i % 5), 16) + (R(i + 1, 64) * dt if with_dt else R(i + 1, 64))
        for first, count, m, nested in clusters_:
            members = [q[(first + k) % n] for k in range(max(count, 2))]
            terms = [members[j % len(members)] + R(j + 2, 3) * members[(j + 1) % len(members)] + R(j + 1, 4) for j in range(m)]
            for k in range(count):
                e = base(first + k)
                for j, t in enumerate(terms):
                    if nested:
                        w = 1 + t ** 2
                        e = e + coef * R(k + j + 1, 4) * t / w + R(1, k + 2) * w ** 2 * (u if with_dt else 1) / 8
                    else:
                        e = e + R(2 * (k + j) + 1, 4) * base(first + k) * t ** 2
                out[first + k] = e
        return out

    model = fill(lambda i: q[i], dt, clusters, n, True)
    sensors = {}
    if n_readings:
        rd = fill(lambda i: q[i % n], 1, sensor_clusters or [], n_readings, False)
        sensors["wide"] = {f"r{i:02d}": sympy.sympify(e) for i, e in rd.items()}
    d = gen.Definition(dt, q, [u], [], {q[i]: sympy.sympify(e) for i, e in model.items()}, sensors)
    return d


LONG_BLOCK_PROFILES = [
    # (name, n, clusters, in the quick tier, generated C++ in the quick tier)     where in the block the shared sub-expressions sit
    ("late-flat", 36, [(2, 3, 1, False), (32, 4, 3, False)], True, False),
    ("late-nested", 36, [(2, 3, 1, False), (32, 4, 3, True)], True, True),
    ("early-nested", 36, [(1, 6, 3, True), (33, 3, 1, True)], False, False),
    ("three-groups", 68, [(0, 3, 1, False), (40, 6, 2, True), (62, 6, 4, False)], True, False),
    ("early-flat", 40, [(1, 6, 3, False), (36, 3, 1, False)], False, False),
    ("everywhere", 40, [(4 * k, 4, 1 + k % 3, k % 2 == 1) for k in range(10)], False, False),
    ("one-late-group", 40, [(30, 8, 4, True)], False, False),
]


def long_block_points(d):
    pts = []
    for a, b in ((7, 11), (5, 13)):
        pts.append({"dt": F(1, 16) if a == 7 else F(3, 32), "cal": {}, "control": {"uu": F(3, 4) if a == 7 else F(-5, 8)},
                    "state": {s.name: F((a * i + 3) % b - b // 2, 4) for i, s in enumerate(d.state)}})
    return pts


def long_blocks(ctx):
    """blocks of many statements (36 to 68 state models; the 49-entry process Jacobian, sensor model and 42-entry (thorough: 252-entry)
    sensor Jacobian of a 7-state filter) with the shared sub-expressions early, late or everywhere in the block: with CSE on and
    with CSE off every value equals the exact rational value of the definition (or of its sympy derivative); generated C++ model:
    text scan for temporary order, on = off = exact value. Deterministic: no random draws."""
    tol_before = core.DEFAULT_TOL
    try:
        core.set_tolerance(False)           # rational definitions: 1e-9 relative
        _long_blocks(ctx)
    finally:
        core.DEFAULT_TOL = tol_before


def _long_blocks(ctx):
    from formak import python
    defs = [(name, long_block_definition(n, clusters)) for name, n, clusters, quick, _ in LONG_BLOCK_PROFILES if quick or not ctx.quick]
    cpp_profiles = {name for name, _, _, _, quick_cpp in LONG_BLOCK_PROFILES if quick_cpp or not ctx.quick}
    for name, d in defs:
        d._kind = "model"
        Ls = sorted(s.name for s in d.state)
        pts = long_block_points(d)
        um = {s.name: e for s, e in d.state_model.items()}
        wants = [eh.oracle_vals(um, Ls, eh.subs_map(d, pt)) for pt in pts]
        got = {}
        for cse in (True, False):
            case = {"stream": "long-blocks", "profile": name, "backend": "python", "cse": cse, "def": d.describe()}
            ctx.case(case, True); ctx.count("stream=long-blocks:python-model")
            try:
                with fk.quiet():
                    pm = python.compile(fk.ui_model(d), config=python.Config(common_subexpression_elimination=cse))
                    got[cse] = [fk.by_name(pm.model(float(pt["dt"]), pm.State(**{k: float(v) for k, v in pt["state"].items()}),
                                                    pm.Control(**{k: float(v) for k, v in pt["control"].items()}))) for pt in pts]
            except Exception as e:
                ctx.fail(f"long-block-raises:{fk.exc_kind(e)}", f"model with a {len(Ls)}-statement block (cse={cse}) raises {e!r}"[:300], case)
        for k, pt in enumerate(pts):
            want = dict(zip(Ls, wants[k]))
            sc = max(abs(float(v)) for v in want.values())
            case = {"stream": "long-blocks", "profile": name, "backend": "python", "def": d.describe(), "point": eh.point_json(pt)}
            ctx.traces += 1
            if True in got and False in got:
                bad = [s_ for s_ in Ls if not core.close(got[True][k][s_], got[False][k][s_], scale=sc)]
                if bad:
                    ctx.fail("cse-on-off:python:long-block", f"{len(Ls)}-statement model, states {bad[:4]}: CSE on gives "
                             f"{[got[True][k][s_] for s_ in bad[:4]]}, CSE off gives {[got[False][k][s_] for s_ in bad[:4]]}, "
                             f"the definition gives {[float(want[s_]) for s_ in bad[:4]]}", case)
                    continue
            for cse in got:
                bad = [s_ for s_ in Ls if not core.close(got[cse][k][s_], want[s_], scale=sc)]
                if bad:
                    ctx.fail("py-model-value:long-block", f"{len(Ls)}-statement model (cse={cse}), states {bad[:4]}: returns "
                             f"{[got[cse][k][s_] for s_ in bad[:4]]}, the definition gives {[float(want[s_]) for s_ in bad[:4]]}", case)
                    break
    long_block_filter(ctx)
    # generated C++ (model only: a 40-state filter would take minutes to build)
    jobs, metas = [], []
    for name, d in defs:
        if name not in cpp_profiles:
            continue
        for cse in (True, False):
            case = {"stream": "long-blocks", "profile": name, "backend": "cpp", "cse": cse, "def": d.describe()}
            ctx.case(case, True); ctx.count("stream=long-blocks:cpp-model")
            try:
                g = cppgen.generate(d, {}, {}, {}, ctx.scratch, f"lb{len(jobs)}", cse=cse, kind="model", rng=None)
            except Exception as e:
                ctx.fail(f"cpp-generate-raises:{fk.exc_kind(e)}:long-block", repr(e)[:300], case)
                continue
            probs = text_scan(open(g["source"]).read())
            if probs:
                ctx.fail("cpp-temporary-order:long-block", "; ".join(probs[:3]), case)
            jobs.append((g, d, None)); metas.append((name, d, cse))
    built = cppgen.build_many(jobs)
    outs = {}
    for (name, d, cse), (exe, err) in zip(metas, built):
        case = {"stream": "long-blocks", "profile": name, "backend": "cpp", "cse": cse, "def": d.describe()}
        if exe is None:
            ctx.fail("generated-cpp-does-not-compile:long-block", f"generated model (cse={cse}) does not compile: " + err[-400:], case)
            continue
        try:
            outs[(name, cse)] = cppgen.run_exe(exe, [cppgen.point_line("model", d, pt, None, kind="model") for pt in long_block_points(d)])
        except Exception as e:
            ctx.fail("generated-cpp-crashes:long-block", repr(e)[:300], case)
    for name, d in defs:
        Ls = sorted(s.name for s in d.state)
        um = {s.name: e for s, e in d.state_model.items()}
        for k, pt in enumerate(long_block_points(d)):
            vals = {cse: {s_: rh.bitsf(outs[(name, cse)][k][f"model.{s_}"]) for s_ in Ls} for cse in (True, False) if (name, cse) in outs}
            if not vals:
                continue
            want = dict(zip(Ls, eh.oracle_vals(um, Ls, eh.subs_map(d, pt))))
            sc = max(abs(float(v)) for v in want.values())
            case = {"stream": "long-blocks", "profile": name, "backend": "cpp", "def": d.describe(), "point": eh.point_json(pt)}
            ctx.traces += 1
            if len(vals) == 2:
                bad = [s_ for s_ in Ls if not core.close(vals[True][s_], vals[False][s_], scale=sc)]
                if bad:
                    ctx.fail("cse-on-off:cpp:long-block", f"generated {len(Ls)}-statement model, states {bad[:4]}: CSE on gives "
                             f"{[vals[True][s_] for s_ in bad[:4]]}, CSE off gives {[vals[False][s_] for s_ in bad[:4]]}, "
                             f"the definition gives {[float(want[s_]) for s_ in bad[:4]]}", case)
                    continue
            for cse in vals:
                bad = [s_ for s_ in Ls if not core.close(vals[cse][s_], want[s_], scale=sc)]
                if bad:
                    ctx.fail("cpp-model-value:long-block", f"generated {len(Ls)}-statement model (cse={cse}), states {bad[:4]}: returns "
                             f"{[vals[cse][s_] for s_ in bad[:4]]}, the definition gives {[float(want[s_]) for s_ in bad[:4]]}", case)
                    break


def long_block_filter(ctx):
    """a 7-state Python filter with a 6-reading sensor (thorough: 36 readings): process Jacobian (49 entries), sensor model and sensor
    Jacobian (42 / 252 entries), shared structure in the late states / readings and (thorough: a second filter) in the early ones;
    each with CSE on and off against the exact sympy derivative of the definition"""
    nr = 6 if ctx.quick else 36
    for name, clusters, sclusters in (("late", [(0, 2, 1, False), (4, 3, 3, True)], [(0, 2, 1, False), (nr - 3, 3, 2, False)]),
                                      ("early", [(0, 3, 3, True), (5, 2, 1, False)], [(0, 3, 2, True), (nr - 2, 2, 1, False)]))[:1 if ctx.quick else 2]:
        d = long_block_definition(7, clusters, sclusters, n_readings=nr)
        d._kind = "ekf"
        Ls = sorted(s.name for s in d.state)
        Lr = sorted(d.sensors["wide"])
        process = {"uu": F(1, 4)}
        sensor = {"wide": {r: F(1 + i % 5, 8) for i, r in enumerate(Lr)}}
        um = {s.name: e for s, e in d.state_model.items()}
        pts = long_block_points(d)
        oracle = []
        for pt in pts:
            sub = eh.subs_map(d, pt)
            oracle.append((eh.oracle_jac(um, Ls, Ls, sub), [[v] for v in eh.oracle_vals(d.sensors["wide"], Lr, sub)],
                           eh.oracle_jac(d.sensors["wide"], Lr, Ls, sub)))
        for cse in (True, False):
            case = {"stream": "long-blocks", "profile": f"filter-{name}", "backend": "python", "cse": cse, "def": d.describe()}
            ctx.case(case, True); ctx.count("stream=long-blocks:python-filter")
            try:
                ekf = eh.compile_ekf(d, process, sensor, {}, None, cse=cse)
                res = []
                with fk.quiet():
                    for pt in pts:
                        st, ct = eh.state_obj(ekf, pt), eh.control_obj(ekf, pt)
                        res.append((np.asarray(ekf.process_jacobian(float(pt["dt"]), st, ct), dtype=float),
                                    np.asarray(ekf.sensor_models["wide"].model(st).data, dtype=float).reshape(-1),
                                    np.asarray(ekf.sensor_jacobian("wide", st), dtype=float)))
            except Exception as e:
                ctx.fail(f"long-block-raises:{fk.exc_kind(e)}", f"7-state filter with a {nr}-reading sensor (cse={cse}) raises {e!r}"[:300], case)
                continue
            for pt, (G, z, H), (wG, wz, wH) in zip(pts, res, oracle):
                wants = (("process Jacobian", G, wG), ("sensor model", z.reshape(-1, 1), wz), ("sensor Jacobian", H, wH))
                ctx.traces += 1
                for what, gotm, wantm in wants:
                    sc = max(abs(float(v)) for row in wantm for v in row)
                    bad = [(i, j) for i, row in enumerate(wantm) for j, v in enumerate(row)
                           if gotm.shape != (len(wantm), len(row)) or not core.close(gotm[i, j], v, scale=sc)]
                    if bad:
                        i, j = bad[0]
                        ctx.fail(f"cse-value:python:long-block:{what.replace(' ', '-')}",
                                 f"{what} of {gotm.size} entries (cse={cse}): {len(bad)} entries differ from the definition's exact value, e.g. "
                                 f"[{i}][{j}] = {gotm[i, j] if gotm.shape == (len(wantm), len(wantm[0])) else gotm.shape}, exact {float(wantm[i][j])}",
                                 dict(case, point=eh.point_json(pt)))
                        break


def toggled_on_an_estimator(ctx):
    """turning CSE on or off through the scikit-learn estimator's set_params (on ONE estimator, filtering disabled, data with an
    outlier row) changes no value of transform"""
    from props import C16
    for i in range(2 if ctx.quick else 10):
        d = gen.tame_definition(ctx.rng, n_state=2, n_control=1, n_sensors=2, max_readings=2)
        process, sensor = eh.make_noises(ctx.rng, d)
        width = len(d.control) + sum(len(rd) for rd in d.sensors.values())
        X = np.array([[float(gen.dyadic(ctx.rng, -1, 1)) for _ in range(width)] for _ in range(4)], dtype=float)
        X[1, len(d.control):] += 500.0          # a gross outlier row
        case = {"stream": "set_params-toggle", "def": d.describe(), "X": X.tolist()}
        ctx.case(case, True); ctx.count("stream=set_params-toggle")
        try:
            with fk.quiet():
                ad = C16.make_adapter(d, process, sensor, {}, None)
                out = {"as constructed (CSE on)": [np.asarray(ad.transform(X), dtype=float)]}
                for cse in (True, False, True):
                    ad.set_params(common_subexpression_elimination=cse)
                    out.setdefault(cse, []).append(np.asarray(ad.transform(X), dtype=float))
        except Exception as e:
            ctx.fail(f"adapter-raises:{fk.exc_kind(e)}", f"set_params / transform raises {e!r}"[:300], case); continue
        ref = out["as constructed (CSE on)"][0]
        sc = 1.0 + float(np.max(np.abs(ref)))
        for cse, arrs in out.items():
            for a in arrs:
                if a.shape != ref.shape or float(np.max(np.abs(a - ref))) > 1e-9 * sc:
                    ctx.fail("cse-on-off:python:estimator", f"after set_params(common_subexpression_elimination={cse}) transform gives {a.tolist()}, "
                             f"with CSE on it gave {ref.tolist()}", case)
                    break


def replay(ctx, data):
    import json
    print(json.dumps(data, indent=1)[:3000]); return 0
