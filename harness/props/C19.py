"""C19 — the strapdown IMU reference model obeys rigid-body kinematics."""
from __future__ import annotations

from fractions import Fraction as F

import sympy

import core
import fk
import gen
import strapdown_tr as tr

RULE = ("(translator) the 16 update expressions of the current strapdown_imu.py are rewritten as Lean real functions and the 16 kinematic "
        "identities are re-proved by the kernel (field_simp/ring) for all inputs with |q|^2 != 0; (correspondence) the compiled Python model "
        "(CSE on and off) is evaluated at seeded rational points with NON-unit orientation and calibration quaternions and compared, by "
        "name, with an independent exact implementation of the kinematic specification and with the Lean by-name model of C01; distinct by "
        "(cse, point); non-trivial = both quaternions non-unit and all gyro/accelerometer/bias components non-zero; (reused vectors) one State "
        "and one Control object per compiled model are passed to model() repeatedly with their public .data column overwritten in place "
        "between the calls (new IMU sample into the same Control, orientation rescaled / velocity bumped in the same State, a Control() "
        "filled through .data before its first use): every call must return the kinematics of the values the vectors hold at that call; (partly named controls) on one compiled model a "
        "fully named IMU sample is followed by Controls built from keywords naming only a SUBSET of the entries (gyro only, accelerometer "
        "only, one entry, none; also through from_dict), the other entries at the library's default: every call must return the kinematics "
        "of the sample that was passed at that call, whatever the model processed before")
NOTE = ["symbols are renamed to Lean identifiers by a fixed table; sympy Float 0.5 is translated as the exact rational 1/2",
        "every divisor in the model must be a rational multiple of |ori (x) cori|^2 - emitted as a lemma and checked by `ring`",
        "reused-vector stream: fixed dyadic samples (exact in binary64), the oracle is spec() of the vectors' contents read back through "
        ".data immediately before each call; counters reused_vector_call / control_overwritten_in_place / state_edited_in_place / "
        "control_filled_before_first_use",
        "partly-named-control stream: fixed dyadic samples, a fixed history per compiled model (full, gyro-only, full, accelerometer-only, "
        "one gyro entry, one accelerometer entry, none, from_dict gyro-only after a full one); the oracle is spec() of the Control's contents "
        "read back through .data before the call (non-finite contents are skipped and counted); counters partly_named_control_call / "
        "control_gyro_only / control_accel_only / control_single_entry / control_no_entry / partly_named_after_full_sample"]
PARTIAL = ["sympy's Quaternion algebra / integrate are not trusted: their output is what gets verified"]


def ham(p, q):
    a, b, c, d = p
    e, f, g, h = q
    return (a * e - b * f - c * g - d * h, a * f + b * e + c * h - d * g, a * g - b * h + c * e + d * f, a * h + b * g - c * f + d * e)


def spec(pt):
    """independent exact implementation of the property's sentences"""
    ori = tuple(pt[k] for k in ("oriw", "orix", "oriy", "oriz"))
    cori = tuple(pt[k] for k in ("coriw", "corix", "coriy", "coriz"))
    q = ham(ori, cori)
    qc = (q[0], -q[1], -q[2], -q[3])
    n2 = sum(x * x for x in q)
    fb = (F(0), pt["f1"] - pt["fb1"], pt["f2"] - pt["fb2"], pt["f3"] - pt["fb3"])
    rf = ham(ham(q, fb), qc)
    acc = [rf[1] / n2, rf[2] / n2, rf[3] / n2 - pt["g"]]
    rw = ham(ham(q, (F(0), pt["w1"], pt["w2"], pt["w3"])), qc)
    dt = pt["dt"]
    dq = ham(ori, (F(0), pt["w1"], pt["w2"], pt["w3"]))
    out = {"a1": acc[0], "a2": acc[1], "a3": acc[2], "rollr": rw[1], "pitchr": rw[2], "yawr": rw[3]}
    for i in (1, 2, 3):
        out[f"v{i}"] = pt[f"v{i}"] + acc[i - 1] * dt
        out[f"x{i}"] = pt[f"x{i}"] + pt[f"v{i}"] * dt + acc[i - 1] * dt * dt / 2
    for i, k in enumerate(("oriw", "orix", "oriy", "oriz")):
        out[k] = ori[i] + dq[i] * dt / 2
    return out

# fixed dyadic samples (exact in binary64): orientation non-unit, every gyro / accelerometer component non-zero and different per sample
_S0 = {"oriw": F(5, 4), "orix": F(-1, 2), "oriy": F(3, 4), "oriz": F(1, 4), "x1": F(1), "x2": F(-2), "x3": F(1, 2),
       "v1": F(3, 8), "v2": F(1, 8), "v3": F(-1, 4), "a1": F(1, 4), "a2": F(-3, 8), "a3": F(5, 8), "yawr": F(1, 8), "pitchr": F(-1, 2),
       "rollr": F(3, 4)}
_S1 = {"oriw": F(-3, 4), "orix": F(7, 8), "oriy": F(1, 2), "oriz": F(-5, 4), "x1": F(-3, 2), "x2": F(1, 4), "x3": F(2),
       "v1": F(-5, 8), "v2": F(3, 4), "v3": F(1, 2), "a1": F(-7, 8), "a2": F(1, 2), "a3": F(-1, 4), "yawr": F(-3, 8), "pitchr": F(5, 8),
       "rollr": F(-1, 8)}
_U = [{"w1": F(3, 8), "w2": F(-1, 4), "w3": F(1, 2), "f1": F(1, 2), "f2": F(-9, 8), "f3": F(19, 2)},
      {"w1": F(-3, 4), "w2": F(1, 8), "w3": F(1, 4), "f1": F(2), "f2": F(3, 8), "f3": F(71, 8)},
      {"w1": F(1, 16), "w2": F(5, 8), "w3": F(-3, 8), "f1": F(-3, 2), "f2": F(3, 4), "f3": F(83, 8)},
      {"w1": F(7, 8), "w2": F(-5, 4), "w3": F(-1, 8), "f1": F(5, 4), "f2": F(-2), "f3": F(-37, 4)}]


def reused_vectors(ctx, pm, cse, sym, state_names, ctl_names, cal0):
    """one State / one Control object passed to model() again and again, their .data overwritten in place between the calls"""
    def rows(vec):
        return {tr.RENAME.get(str(a), str(a)): i for i, a in enumerate(type(vec)._arglist)}

    def write(vec, vals):
        r = rows(vec)
        for n, v in vals.items():
            vec.data[r[n], 0] = float(v)

    def call(label, dt, st, ct):
        # the oracle's inputs are what the two vectors hold now, read through their public .data column
        pt = dict(cal0)
        for vec in (st, ct):
            for n, v in fk.by_name(vec).items():
                pt[tr.RENAME.get(n, n)] = F(v)
        pt["dt"] = dt
        case = {"cse": cse, "reused_vectors": label, "point": {k: core.frac_str(v) for k, v in pt.items()}}
        ctx.case(case, True); ctx.count("reused_vector_call"); ctx.traces += 1
        with fk.quiet():
            got_raw = fk.by_name(pm.model(float(dt), st, ct))
        got = {tr.RENAME.get(k, k): v for k, v in got_raw.items()}
        want = spec(pt)
        sc = max(abs(float(v)) for v in want.values())
        bad = [k for k in want if not core.close(got.get(k, float("nan")), want[k], scale=sc)]
        if bad:
            kind = {"a": "acceleration", "v": "velocity", "x": "position", "o": "orientation"}.get(bad[0][0], "rates")
            ctx.fail(f"kinematics:vector-edited-in-place:{kind}", f"{label}: {bad[0]}: compiled model returns {got.get(bad[0])!r}, rigid-body "
                     f"kinematics of the values the State / Control hold at this call gives {float(want[bad[0]])!r}", case)

    dt = F(1, 64)
    with fk.quiet():
        st = pm.State(**{sym(n).name: float(_S0[n]) for n in state_names})
        ct = pm.Control(**{sym(n).name: float(_U[0][n]) for n in ctl_names})
    call("first use of both vectors", dt, st, ct)
    write(ct, _U[1]); ctx.count("control_overwritten_in_place")
    call("next IMU sample written into the same Control", dt, st, ct)
    r = rows(st)
    for n in ("oriw", "orix", "oriy", "oriz"):
        st.data[r[n], 0] *= 0.5
    st.data[r["oriy"], 0] *= -1.0
    st.data[r["v3"], 0] += 1.5
    ctx.count("state_edited_in_place")
    call("orientation rescaled and velocity bumped in the same State", F(3, 128), st, ct)
    write(st, _S1); write(ct, _U[2]); ctx.count("state_edited_in_place"); ctx.count("control_overwritten_in_place")
    call("both vectors overwritten in place", dt, st, ct)
    write(ct, _U[3]); ctx.count("control_overwritten_in_place")
    call("fourth IMU sample written into the same Control", F(1, 32), st, ct)
    # a default-constructed Control filled through .data BEFORE its first use, then overwritten once more
    with fk.quiet():
        ct2 = pm.Control()
    write(ct2, _U[2]); ctx.count("control_filled_before_first_use")
    call("Control() filled through .data before its first use", dt, st, ct2)
    write(ct2, _U[0]); ctx.count("control_overwritten_in_place")
    call("that Control overwritten in place", dt, st, ct2)


def partly_named_controls(ctx, pm, cse, sym, state_names, ctl_names, cal0):
    """one compiled model, a history of Controls built from keywords naming all / some / none of the entries"""
    import math
    gyro = [n for n in ctl_names if n.startswith("w")]
    accel = [n for n in ctl_names if n.startswith("f")]
    prev_full = [False]

    def call(label, dt, sample, names, counter, via_dict=False):
        with fk.quiet():
            st = pm.State(**{sym(n).name: float(_S0[n]) for n in state_names})
            kw = {sym(n).name: float(sample[n]) for n in names}
            ct = pm.Control.from_dict(kw) if via_dict else pm.Control(**kw)
        pt = dict(cal0)
        for vec in (st, ct):
            for n, v in fk.by_name(vec).items():
                pt[tr.RENAME.get(n, n)] = v
        if not all(isinstance(v, F) or math.isfinite(v) for v in pt.values()):
            ctx.count("partly_named_control_skipped_nonfinite"); return
        pt = {k: F(v) for k, v in pt.items()}
        # the entries that were named hold the values that were named
        named_ok = all(pt[n] == sample[n] for n in names)
        pt["dt"] = dt
        case = {"cse": cse, "partly_named_control": label, "named": sorted(names), "via": "from_dict" if via_dict else "keywords",
                "point": {k: core.frac_str(v) for k, v in pt.items()}}
        ctx.case(case, True); ctx.count("partly_named_control_call"); ctx.count(counter); ctx.traces += 1
        if prev_full[0] and len(names) < len(ctl_names):
            ctx.count("partly_named_after_full_sample")
        prev_full[0] = len(names) == len(ctl_names)
        if not named_ok:
            ctx.fail("kinematics:control-partly-named:named-entry-lost", f"{label}: the Control does not hold the values it was built with", case)
            return
        with fk.quiet():
            got_raw = fk.by_name(pm.model(float(dt), st, ct))
        got = {tr.RENAME.get(k, k): v for k, v in got_raw.items()}
        want = spec(pt)
        sc = max(abs(float(v)) for v in want.values())
        bad = [k for k in want if not core.close(got.get(k, float("nan")), want[k], scale=sc)]
        if bad:
            kind = {"a": "acceleration", "v": "velocity", "x": "position", "o": "orientation"}.get(bad[0][0], "rates")
            ctx.fail(f"kinematics:control-partly-named:{kind}", f"{label}: {bad[0]}: compiled model returns {got.get(bad[0])!r}, rigid-body "
                     f"kinematics of the sample passed at this call gives {float(want[bad[0]])!r}", case)

    dt = F(1, 64)
    call("full IMU sample", dt, _U[0], ctl_names, "control_fully_named")
    call("gyro-only sample after a full one", dt, _U[1], gyro, "control_gyro_only")
    call("full IMU sample again", F(3, 128), _U[2], ctl_names, "control_fully_named")
    call("accelerometer-only sample after a full one", dt, _U[3], accel, "control_accel_only")
    call("one gyro entry named", dt, _U[0], gyro[1:2], "control_single_entry")
    call("one accelerometer entry named", F(1, 32), _U[1], accel[2:3], "control_single_entry")
    call("full IMU sample once more", dt, _U[3], ctl_names, "control_fully_named")
    call("no entry named after a full sample", dt, _U[0], [], "control_no_entry")
    call("full IMU sample, fourth", dt, _U[1], ctl_names, "control_fully_named")
    call("gyro-only sample through from_dict after a full one", dt, _U[2], gyro, "control_gyro_only", via_dict=True)


def run(ctx):
    try:
        text, meta, s = tr.generate()
        gen_err = None
    except Exception as e:
        gen_err, s = repr(e), None
    audit = core.lean_audit("C19")
    ctx.translator_obligations += 1
    if gen_err is None and audit.get("built"):
        ctx.translator_discharged += 1
    elif gen_err:
        ctx.broke("translator:strapdown (expressions -> Lean)", gen_err)
    if s is None:
        from formak.reference_models import strapdown_imu as s   # noqa: F811
    from formak import python
    inv = {v: k for k, v in tr.RENAME.items()}

    def sym(n):
        return sympy.Symbol(inv.get(n, n))
    state_names = [tr.vname(x) for x in s.state]
    ctl_names = [tr.vname(x) for x in s.control]
    cal_names = [tr.vname(x) for x in s.calibration]
    npts = 6 if ctx.quick else 60
    d = gen.Definition(s.dt, sorted(s.state, key=lambda x: x.name), sorted(s.control, key=lambda x: x.name),
                       sorted(s.calibration, key=lambda x: x.name), dict(s.state_model), {})
    drv = core.Driver()
    pending = []
    pts = []
    compiled = []
    for _ in range(npts):
        pt = {n: gen.dyadic(ctx.rng, -3, 3) for n in tr.VARS}
        for kq in ("oriw", "coriw"):
            pt[kq] = pt[kq] + 2     # keep |q|^2 away from zero, and non-unit
        pt["dt"] = F(ctx.rng.randint(1, 16), 64)
        for k in ("w1", "w2", "w3", "f1", "f2", "f3", "fb1", "fb2", "fb3"):
            if pt[k] == 0:
                pt[k] = F(3, 8)
        pts.append(pt)
        # followed by a NEARBY sample (a slowly varying stream): every non-calibration input moved by 2^-22 relative
        eps = 1 + F(1, 2 ** 22)
        pts.append({n: (v if n in cal_names else v * eps) for n, v in pt.items()})
    # zero-length and sub-nanosecond steps are steps like any other (the stored acceleration / rates must still be recomputed)
    for tiny in (F(0), F(1, 2 * 10 ** 9), F(-3, 10 ** 10)):
        pts.append(dict(pts[ctx.rng.randrange(len(pts))], dt=tiny))
    cal0 = {n: pts[0][n] for n in cal_names}
    # a SIBLING of the reference model is compiled first in this process: the same expressions over the same symbols, with the
    # accelerometer bias declared as control inputs instead of calibration values (every positional argument list differs)
    try:
        from formak import ui as _ui
        bias = [x for x in s.calibration if "bias" in x.name]
        with fk.quiet():
            sib = _ui.Model(dt=s.dt, state=set(s.state), control=set(s.control) | set(bias), state_model=dict(s.state_model),
                            calibration=set(s.calibration) - set(bias))
            python.compile(sib, calibration_map={sym(n): float(cal0[n]) for n in cal_names if sym(n) not in bias},
                           config={"common_subexpression_elimination": True})
        ctx.count("sibling_model_compiled_first")
    except Exception as e:
        ctx.notes.append(f"sibling model not compiled: {e!r}"[:200])
    for cse in (True, False):
        held = []
        try:
            with fk.quiet():
                pm = python.compile(s.symbolic_model, calibration_map={sym(n): float(cal0[n]) for n in cal_names},
                                    config={"common_subexpression_elimination": cse})
        except Exception as e:
            ctx.fail(f"compile-raises:{fk.exc_kind(e)}", f"python.compile of the reference model raises {e!r}"[:300], {"cse": cse})
            continue
        compiled.append((cse, pm))
        for pt in pts:
            pt = dict(pt, **cal0)
            case = {"cse": cse, "point": {k: core.frac_str(v) for k, v in pt.items()}}
            nonunit = sum(pt[k] ** 2 for k in ("oriw", "orix", "oriy", "oriz")) != 1 and sum(pt[k] ** 2 for k in ("coriw", "corix", "coriy", "coriz")) != 1
            ctx.case(case, nontrivial=nonunit); ctx.count(f"cse={cse}"); ctx.traces += 1
            try:
                with fk.quiet():
                    st = pm.State(**{sym(n).name: float(pt[n]) for n in state_names})
                    ct = pm.Control(**{sym(n).name: float(pt[n]) for n in ctl_names})
                    obj = pm.model(float(pt["dt"]), st, ct)
                    got_raw = fk.by_name(obj)
                    held.append((obj, dict(got_raw), case))
            except Exception as e:
                ctx.fail(f"model-call-raises:{fk.exc_kind(e)}", f"compiled reference model raises {e!r}"[:300], case)
                continue
            got = {tr.RENAME.get(k, k): v for k, v in got_raw.items()}
            want = spec(pt)
            sc = max(abs(float(v)) for v in want.values())
            bad = [k for k in want if not core.close(got.get(k, float("nan")), want[k], scale=sc)]
            if bad:
                kind = {"a": "acceleration", "v": "velocity", "x": "position", "o": "orientation"}.get(bad[0][0], "rates")
                ctx.fail(f"kinematics:{kind}", f"{bad[0]}: compiled model returns {got.get(bad[0])!r}, rigid-body kinematics gives {float(want[bad[0]])!r}", case)
            if cse:
                req = {"op": "pyrun", "def": d.to_json(), "arith": "rat", "cal": [[sym(n).name, core.frac_str(cal0[n])] for n in cal_names],
                       "dt": core.frac_str(pt["dt"]), "state": [[sym(n).name, core.frac_str(pt[n])] for n in state_names],
                       "control": [[sym(n).name, core.frac_str(pt[n])] for n in ctl_names]}
                pending.append((drv.add(req), got_raw, case))
        # a state handed out earlier is still what it was after the later calls
        for obj, first, case in held:
            if fk.by_name(obj) != first:
                ctx.fail("kinematics:result-overwritten", "a state returned by an earlier call of the compiled reference model changed when the "
                         "model was called again", case)
                break
    # the reference model compiled AGAIN in this process with another calibration (mounting rotated, bias, g changed): the second
    # compiled model works with its own calibration
    try:
        cal1 = dict(cal0)
        for n_, dv in (("coriw", F(1, 2)), ("corix", F(3, 4)), ("fb1", F(1, 2)), ("fb3", F(-1, 4)), ("g", F(-1, 8))):
            if n_ in cal1:
                cal1[n_] = cal1[n_] + dv
        with fk.quiet():
            pm2 = python.compile(s.symbolic_model, calibration_map={sym(n): float(cal1[n]) for n in cal_names},
                                 config={"common_subexpression_elimination": True})
        pt = dict(pts[0], **cal1)
        case = {"cse": True, "second_compile_with_other_calibration": True, "point": {k: core.frac_str(v) for k, v in pt.items()}}
        ctx.case(case, True); ctx.count("second_compile_other_calibration")
        with fk.quiet():
            st = pm2.State(**{sym(n).name: float(pt[n]) for n in state_names})
            ct = pm2.Control(**{sym(n).name: float(pt[n]) for n in ctl_names})
            got = {tr.RENAME.get(k, k): v for k, v in fk.by_name(pm2.model(float(pt["dt"]), st, ct)).items()}
        want = spec(pt)
        sc = max(abs(float(v)) for v in want.values())
        bad = [k for k in want if not core.close(got.get(k, float("nan")), want[k], scale=sc)]
        if bad:
            ctx.fail("kinematics:second-compile", f"{bad[0]}: the reference model compiled a second time with another calibration returns "
                     f"{got.get(bad[0])!r}, rigid-body kinematics with that calibration gives {float(want[bad[0]])!r}", case)
    except Exception as e:
        ctx.fail(f"compile-raises:{fk.exc_kind(e)}:second", repr(e)[:300], {"second_compile_with_other_calibration": True})
    # REUSED VECTORS (deterministic, no ctx.rng): a strapdown loop keeps one Control (and often one State) and overwrites its public
    # .data column for every IMU sample; each call has to return the kinematics of what the vectors hold AT THAT CALL
    for cse, pm in compiled:
        try:
            reused_vectors(ctx, pm, cse, sym, state_names, ctl_names, cal0)
        except Exception as e:
            ctx.fail(f"model-call-raises:{fk.exc_kind(e)}:reused-vectors", f"compiled reference model with vectors edited in place raises {e!r}"[:300],
                     {"cse": cse, "reused_vectors": True})
    # PARTLY NAMED CONTROLS (deterministic, no ctx.rng): gyro-only / accelerometer-only samples between full ones on the same compiled model
    for cse, pm in compiled:
        try:
            partly_named_controls(ctx, pm, cse, sym, state_names, ctl_names, cal0)
        except Exception as e:
            ctx.fail(f"model-call-raises:{fk.exc_kind(e)}:partly-named-controls", f"compiled reference model with a partly named Control raises {e!r}"[:300],
                     {"cse": cse, "partly_named_control": True})
    ans = drv.run()
    for idx, got, case in pending:
        a = ans[idx]
        if "ok" not in a:
            ctx.broke("driver:pyrun (strapdown)", a, case); continue
        vals = {n: float(F(v)) for n, v in a["ok"].items()}
        sc = max([abs(x) for x in vals.values()] + [1.0])
        if set(vals) != set(got) or not all(core.close(got[n], vals[n], scale=sc) for n in vals):
            ctx.broke("correspondence:pyrun (Lean by-name model vs compiled reference model)", {"model": a["ok"], "impl": got}, case)
    return core.finish(ctx, audit, NOTE, RULE, PARTIAL)


def replay(ctx, data):
    import json
    print(json.dumps(data, indent=1)[:3000]); return 0
