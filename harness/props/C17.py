"""C17 — estimator parameters round-trip; fitting only retunes noise."""
from __future__ import annotations

import copy
import dataclasses
import math
import time
from fractions import Fraction as F

import numpy as np
import sympy

import core
import ekf_h as eh
import fk
import gen
from props import C16

RULE = ("estimators created with an explicit Config over seeded definitions (0-2 controls, 1-2 sensors): get->set, sklearn clone, every "
        "Config field with several values, unknown keys, flatten / inverse-flatten of the noise magnitudes (including negative and tiny "
        "entries), and fit on seeded finite matrices with the outcome classified {returned, MinimizationFailure, other}; distinct by "
        "(definition, operation, argument); non-trivial = >=2 noise entries or a Config field other than the default is involved; "
        "fixed stream controlless-fits: a model without control inputs (empty process-noise table) and one with a single control fitted on fixed data; "
        "written-order stream (fixed inputs): two estimators whose process / sensor noise dicts are written in NON-alphabetical key order with a "
        "different magnitude per entry (2 and 3 readings per sensor, 2 sensors, 2 controls): flatten -> inverse gives back the held noise, "
        "inverse -> set_params -> flatten gives back the vector, both against the Lean model, and through fit with the minimiser as a parameter: "
        "the objective at the starting point is the estimator's own score, a minimiser returning its starting point leaves the noise as held, "
        "and a second fit starts from the vector the first fit's minimiser proposed; "
        "re-pointed stream (fixed inputs, a history): an estimator created over one model and already USED with it (score / transform / fit) is given, "
        "with set_params, every parameter of an estimator created over ANOTHER accepted model whose controls differ (1 -> 2 controls, 2 -> 1, "
        "same count under another name, 1 -> none), and is then fitted: get_params gives back the objects that were set, flatten gives the "
        "magnitudes now held (Lean model over the NEW controls), fit with a minimiser that returns its starting point is started from those "
        "magnitudes, its objective there is the score of a fresh estimator with the same parameters, and it returns an estimator with the new "
        "model / sensor models / calibration / configuration holding the noise it was given; one pair is also fitted with scipy's own minimiser "
        "(returned with noise naming exactly the new controls / readings, finite, process noise positive, or MinimizationFailure)")
NOTE = ["flatten / inverse-flatten are private methods; they are called on deep copies to tie the Lean model to the code, while the property "
        "itself is judged on the public API (get_params, set_params, clone, fit)",
        "scipy.optimize.minimize is a parameter: whatever vector it proposes, the outcome must be a returned estimator satisfying the "
        "postconditions or MinimizationFailure",
        "written-order stream: the minimiser is supplied by replacing the name formak.python.minimize for the duration of one fit call (a stand-in "
        "that returns its starting point, or a fixed proposal); the oracle does not assume any layout of the vector, only that the estimator "
        "reads back the magnitude it holds for each reading (dict equality ignores the order in which keys were written)",
        "re-pointed stream: the estimator's parameters are what get_params returns; whatever else it keeps from an earlier use (a compiled filter) "
        "is not a parameter, so an estimator holding the parameters of one created over model B is judged as an estimator over model B"]
PARTIAL = ["scipy's minimiser and scikit-learn's clone are outside the model"]


def enc(v):
    return repr(v)


def params_json(p):
    cfg = dataclasses.asdict(p["config"])
    return {"symbolic_model": "M", "process_noise": enc(sorted((str(k), v) for k, v in p["process_noise"].items())),
            "sensor_models": "S", "sensor_noises": enc(sorted((k, sorted((str(r), v) for r, v in rd.items())) for k, rd in p["sensor_noises"].items())),
            "calibration_map": enc(sorted((str(k), v) for k, v in p["calibration_map"].items())),
            "config": {k: enc(v) for k, v in cfg.items()}}


def noises_json(process_noise, sensor_noises):
    return {"process": [[str(k), core.frac_str(F(v))] for k, v in process_noise.items()],
            "sensors": [[k, [[str(r), core.frac_str(F(v))] for r, v in rd.items()]] for k, rd in sensor_noises.items()]}


def written_order_definitions():
    """Fixed estimators whose noise maps are WRITTEN in an order other than the alphabetical one, a different magnitude per entry."""
    px, pv, pu, pw, dts = sympy.symbols("px pv pu pw dt")
    out = []
    # one control; a two-reading sensor whose noise is written q-then-p (its model p-then-q) next to a single-reading sensor
    d1 = gen.Definition(dts, [px, pv], [pu], [], {px: px + dts * pv, pv: pv + dts * pu},
                        {"pos": {"x": px}, "both": {"p": px, "q": pv}})
    out.append(("two-readings-written-q-p", d1, {"pu": F(3, 4)}, {"pos": {"x": F(1, 2)}, "both": {"q": F(2), "p": F(1, 4)}}))
    # two controls written w-then-u; sensors written zeta-then-alpha; three readings written m, z, a and two written t, s
    d2 = gen.Definition(dts, [px, pv], [pw, pu], [], {px: px + dts * pv + dts * pw, pv: pv + dts * pu},
                        {"zeta": {"m": px + pv, "z": pv, "a": px}, "alpha": {"t": px - pv, "s": pv}})
    out.append(("three-readings-two-sensors-two-controls", d2, {"pw": F(5, 8), "pu": F(9, 4)},
                {"zeta": {"m": F(3), "z": F(1, 8), "a": F(7, 8)}, "alpha": {"t": F(5, 2), "s": F(3, 8)}}))
    return out


def written_order_stream(ctx, drv, pending):
    """Deterministic (consumes nothing from ctx.rng). The estimator's noise maps are dicts, so the order in which the caller wrote
    their keys is not part of the parameters: the magnitude held for a reading is the magnitude that comes back for THAT reading from
    flatten -> inverse, from inverse -> flatten, and from a fit whose minimiser returns the point it was started from; the objective
    at the starting point is the score of the estimator as it stands; and a second fit starts from what the first one proposed."""
    from formak import python
    from formak.exceptions import MinimizationFailure
    from scipy.optimize import OptimizeResult

    def held(p):
        return ({str(k): float(v) for k, v in p["process_noise"].items()},
                {k: {str(r): float(v) for r, v in rd.items()} for k, rd in p["sensor_noises"].items()})

    for label, d, process, sensor in written_order_definitions():
        Lc = sorted(s.name for s in d.control)
        desc = {"stream": "written-order", "def": d.describe(), "label": label, "noise": {a: str(b) for a, b in process.items()},
                "sensor_noise": {a: {r: str(v) for r, v in b.items()} for a, b in sensor.items()}}
        want = ({a: float(b) for a, b in process.items()}, {a: {r: float(v) for r, v in b.items()} for a, b in sensor.items()})
        nentries = len(process) + sum(len(rd) for rd in sensor.values())

        def build():
            with fk.quiet():
                return C16.make_adapter(d, process, sensor, {}, None)
        try:
            ad = build()
        except Exception as e:
            ctx.fail(f"adapter-raises:{fk.exc_kind(e)}:written-order", repr(e)[:300], desc); continue
        if held(ad.get_params()) != want:
            ctx.fail("written-order:create", f"the estimator does not hold the noise it was created with: {held(ad.get_params())}, expected {want}", desc)
            continue
        # --- flatten (Lean correspondence) and flatten -> inverse gives back what is held
        case = dict(desc, op="flatten-inverse")
        ctx.case(case, True); ctx.count("op=written-order:flatten-inverse")
        a3 = copy.deepcopy(ad)
        try:
            flat = [float(x) for x in a3._flatten_scoring_params()]
            idx = drv.add({"op": "flatten", "controls": Lc, "noises": noises_json(a3.process_noise, a3.sensor_noises)})
            pending.append(("flatten", idx, flat, case))
            back = held(a3._inverse_flatten_scoring_params(list(flat)))
            if len(flat) != nentries or sorted(flat) != sorted([*want[0].values()] + [v for rd in want[1].values() for v in rd.values()]):
                ctx.fail("written-order:flatten", f"the flattened noise {flat} is not the {nentries} magnitudes the estimator holds", case)
            if back != want:
                ctx.fail("written-order:round-trip", f"flatten -> inverse gives {back} for an estimator holding {want}", case)
        except Exception as e:
            ctx.fail(f"flatten-raises:{fk.exc_kind(e)}:written-order", repr(e)[:300], case)
        # --- inverse (Lean correspondence, including entries that get clamped) and inverse -> set -> flatten gives back the vector
        vectors = [[F(k + 1, 8) for k in range(nentries)], [F(7 * (nentries - k), 4) for k in range(nentries)],
                   [[F(-1, 4), F(1, 10 ** 9), F(3, 2), F(0), F(11, 8), F(1, 16), F(9, 2)][k % 7] for k in range(nentries)]]
        for vi, vec in enumerate(vectors):
            case = dict(desc, op="inverse-flatten", vector=[core.frac_str(x) for x in vec])
            ctx.case(case, True); ctx.count("op=written-order:inverse-flatten")
            a4 = copy.deepcopy(ad)
            old = noises_json(a4.process_noise, a4.sensor_noises)
            try:
                got = a4._inverse_flatten_scoring_params([float(x) for x in vec])
                idx = drv.add({"op": "inverse", "controls": Lc, "noises": old, "vector": [core.frac_str(x) for x in vec]})
                pending.append(("inverse", idx, noises_json(got["process_noise"], got["sensor_noises"]), case))
                if ({str(k) for k in got["process_noise"]}, {k: {str(r) for r in rd} for k, rd in got["sensor_noises"].items()}) != \
                        (set(want[0]), {k: set(rd) for k, rd in want[1].items()}):
                    ctx.fail("inverse-sensor-keys", "re-assembled noise does not name exactly the controls, sensors and readings", case)
                if vi < 2:     # every entry well above the positive floor: nothing is clamped, so the vector itself must come back
                    a4.set_params(process_noise=got["process_noise"], sensor_noises=got["sensor_noises"])
                    again = [float(x) for x in a4._flatten_scoring_params()]
                    if again != [float(x) for x in vec]:
                        ctx.fail("written-order:inverse-flatten", f"inverse -> set_params -> flatten gives {again} for the vector {[float(x) for x in vec]}", case)
            except Exception as e:
                ctx.fail(f"inverse-raises:{fk.exc_kind(e)}:written-order", repr(e)[:300], case)
        # --- fit, with the minimiser as a parameter (public API only)
        width = len(d.control) + sum(len(rd) for rd in d.sensors.values())
        X = np.array([[((7 * i + 3 * j) % 9 - 4) / 4.0 for j in range(width)] for i in range(6)], dtype=float)
        case = dict(desc, op="fit-minimiser-returns-start", X=X.tolist())
        ctx.case(case, True); ctx.count("op=written-order:fit-minimiser-returns-start")
        try:
            with fk.quiet():
                own_score = float(build().score(X))
        except Exception as e:
            own_score = None; ctx.count(f"written-order:score_raises={fk.exc_kind(e)}")
        seen = {}

        def returns_start(fun, x0, *a, **kw):
            seen["x0"] = [float(v) for v in x0]
            seen["f0"] = float(fun(np.array(x0, dtype=float)))
            return OptimizeResult(x=np.array(x0, dtype=float), success=True, fun=seen["f0"], message="returned the starting point")

        proposal = [float(F(2 * k + 3, 8)) for k in range(nentries)]

        def returns_proposal(fun, x0, *a, **kw):
            seen["x0"] = [float(v) for v in x0]
            return OptimizeResult(x=np.array(proposal, dtype=float), success=True, fun=float(fun(np.array(proposal, dtype=float))),
                                  message="returned a fixed proposal")

        def fit_with(minimiser, est):
            original = python.minimize
            python.minimize = minimiser
            try:
                with fk.quiet():
                    return est.fit(X)
            finally:
                python.minimize = original
        try:
            keep = ad.get_params()
            res = fit_with(returns_start, ad)
            after = res.get_params()
            if own_score is not None and math.isfinite(own_score) and math.isfinite(seen["f0"]) and \
                    abs(seen["f0"] - own_score) > 1e-9 * max(1.0, abs(own_score)):
                ctx.fail("written-order:fit-start-score", f"the objective fit hands to the minimiser is {seen['f0']!r} at the starting point, but the "
                         f"estimator's own score on the same data is {own_score!r}", case)
            elif own_score is None or not (math.isfinite(own_score) and math.isfinite(seen["f0"])):
                ctx.count("written-order:score_undefined")
            if held(after) != want:
                ctx.fail("written-order:fit-start-returned", f"a fit whose minimiser returns its starting point changed the noise from {want} to {held(after)}", case)
            if any(after[k] is not keep[k] for k in ("symbolic_model", "sensor_models", "calibration_map")) or \
                    dataclasses.asdict(after["config"]) != dataclasses.asdict(keep["config"]):
                ctx.fail("fit-changes-non-noise", "fit changed the model, the sensor models, the calibration or the configuration", case)
            ctx.count("written-order:fit_outcome=returned")
        except MinimizationFailure:
            ctx.count("written-order:fit_outcome=MinimizationFailure")
        except Exception as e:
            ctx.fail(f"fit-raises:{fk.exc_kind(e)}", f"fit neither returns nor raises MinimizationFailure: {e!r}"[:300], case)
        # --- a second fit starts from what the first fit's minimiser proposed
        case = dict(desc, op="fit-then-fit", X=X.tolist(), proposal=proposal)
        ctx.case(case, True); ctx.count("op=written-order:fit-then-fit")
        try:
            a7 = build()
            fit_with(returns_proposal, a7)
            first_start = list(seen["x0"])
            fit_with(returns_start, a7)
            if sorted(first_start) != sorted([*want[0].values()] + [v for rd in want[1].values() for v in rd.values()]):
                ctx.fail("written-order:flatten", f"the minimiser is started from {first_start}, which is not the magnitudes the estimator holds", case)
            if seen["x0"] != proposal:
                ctx.fail("written-order:refit-start", f"the first fit's minimiser proposed {proposal}; the second fit starts from {seen['x0']}", case)
        except MinimizationFailure:
            ctx.count("written-order:fit_outcome=MinimizationFailure")
        except Exception as e:
            ctx.fail(f"fit-raises:{fk.exc_kind(e)}", f"fit neither returns nor raises MinimizationFailure: {e!r}"[:300], case)


def repointed_definitions():
    """Fixed (label, first definition + noises, how it is used, second definition + noises): the two models' control sets differ."""
    dts = sympy.Symbol("dt")
    ax, au = sympy.symbols("ax au")
    one = (gen.Definition(dts, [ax], [au], [], {ax: ax + dts * au}, {"simple": {"r": ax}}), {"au": F(1)}, {"simple": {"r": F(1)}})
    bp, bq, ba, bw = sympy.symbols("bp bq ba bw")
    two = (gen.Definition(dts, [bp, bq], [ba, bw], [], {bp: bp + dts * ba, bq: bq + dts * bw},
                          {"both": {"rp": bp, "rq": bq + bp}, "one": {"rq": bq}}),
           {"ba": F(1, 2), "bw": F(2)}, {"both": {"rp": F(1), "rq": F(3)}, "one": {"rq": F(3, 4)}})
    cx, cv, cu = sympy.symbols("cx cv cu")
    other = (gen.Definition(dts, [cx, cv], [cu], [], {cx: cx + dts * cv, cv: cv + dts * cu}, {"gps": {"p": cx, "v": cv}}),
             {"cu": F(5, 4)}, {"gps": {"p": F(3, 4), "v": F(3, 2)}})
    ex, eu = sympy.symbols("ex eu")
    renamed = (gen.Definition(dts, [ex], [eu], [], {ex: ex + dts * eu}, {"s": {"r": ex}}), {"eu": F(7, 4)}, {"s": {"r": F(5, 8)}})
    fx, fv = sympy.symbols("fx fv")
    free = (gen.Definition(dts, [fx, fv], [], [], {fx: fx + dts * fv, fv: fv * sympy.Rational(9, 10)}, {"gps": {"px": fx, "pv": fv + fx}}),
            {}, {"gps": {"px": F(3, 4), "pv": F(5, 4)}})
    return [("one-control-then-two", one, "score", two, False), ("two-controls-then-one", two, "transform", other, False),
            ("one-control-then-another-name", one, "fit", renamed, True), ("one-control-then-none", one, "score", free, False)]


def repointed_stream(ctx, drv, pending):
    """Deterministic (consumes nothing from ctx.rng). An estimator is its parameters: one that has been used with model A and is then
    given, with set_params, all the parameters of an estimator created over model B must fit as an estimator over model B does."""
    from formak import python
    from formak.exceptions import MinimizationFailure
    from scipy.optimize import OptimizeResult

    def held(p):
        return ({str(k): float(v) for k, v in p["process_noise"].items()},
                {k: {str(r): float(v) for r, v in rd.items()} for k, rd in p["sensor_noises"].items()})

    def data(d, rows):
        width = len(d.control) + sum(len(rd) for rd in d.sensors.values())
        return np.array([[((5 * i + 3 * j) % 7 - 3) / 4.0 for j in range(width)] for i in range(rows)], dtype=float)

    def fit_with(minimiser, est, X):
        original = python.minimize
        python.minimize = minimiser
        try:
            with fk.quiet():
                return est.fit(X)
        finally:
            python.minimize = original

    def returns_start_into(seen):
        def returns_start(fun, x0, *a, **kw):
            seen["x0"] = [float(v) for v in x0]
            seen["f0"] = float(fun(np.array(x0, dtype=float)))
            return OptimizeResult(x=np.array(x0, dtype=float), success=True, fun=seen["f0"], message="returned the starting point")
        return returns_start

    for label, (dA, pA, sA), use, (dB, pB, sB), real_fit in repointed_definitions():
        desc = {"stream": "re-pointed", "label": label, "first": dA.describe(), "used-with": use, "def": dB.describe(),
                "noise": {a: str(b) for a, b in pB.items()}, "sensor_noise": {a: {r: str(v) for r, v in b.items()} for a, b in sB.items()}}
        want = ({a: float(b) for a, b in pB.items()}, {a: {r: float(v) for r, v in b.items()} for a, b in sB.items()})
        magnitudes = sorted([*want[0].values()] + [v for rd in want[1].values() for v in rd.values()])
        Lc = sorted(s.name for s in dB.control)
        XA, XB = data(dA, 4), data(dB, 6)

        def build():
            """an estimator created over the first model, used once with it, then holding every parameter of one created over the second"""
            with fk.quiet():
                est = C16.make_adapter(dA, pA, sA, {}, None)
                if use == "score":
                    est.score(XA)
                elif use == "transform":
                    est.transform(XA)
                else:
                    try:
                        fit_with(returns_start_into({}), est, XA)
                    except MinimizationFailure:
                        pass
                given = C16.make_adapter(dB, pB, sB, {}, None).get_params()
                est.set_params(**given)
            return est, given
        try:
            ad, given = build()
        except Exception as e:
            ctx.fail(f"adapter-raises:{fk.exc_kind(e)}:re-pointed", repr(e)[:300], desc); continue
        # --- get after set
        case = dict(desc, op="set-get")
        ctx.case(case, True); ctx.count("op=re-pointed:set-get")
        try:
            now = ad.get_params()
            if set(now) != set(given) or any(now[k] is not given[k] for k in given):
                ctx.fail("re-pointed:get-set-changes", "get_params does not give back the objects handed to set_params", case)
        except Exception as e:
            ctx.fail(f"get-params-raises:{fk.exc_kind(e)}:re-pointed", repr(e)[:300], case); continue
        # --- flatten (private, on a deep copy): the magnitudes now held, over the controls of the model now held
        case = dict(desc, op="flatten")
        ctx.case(case, True); ctx.count("op=re-pointed:flatten")
        try:
            a3 = copy.deepcopy(ad)
            flat = [float(x) for x in a3._flatten_scoring_params()]
            idx = drv.add({"op": "flatten", "controls": Lc, "noises": noises_json(a3.process_noise, a3.sensor_noises)})
            pending.append(("flatten", idx, flat, case))
            if sorted(flat) != magnitudes:
                ctx.fail("re-pointed:flatten", f"the flattened noise {flat} is not the {len(magnitudes)} magnitudes the estimator holds {want}", case)
            back = held(a3._inverse_flatten_scoring_params(list(flat)))
            if back != want:
                ctx.fail("re-pointed:round-trip", f"flatten -> inverse gives {back} for an estimator holding {want}", case)
        except Exception as e:
            ctx.fail(f"flatten-raises:{fk.exc_kind(e)}:re-pointed", repr(e)[:300], case)
        # --- fit with a minimiser that returns its starting point (public API only)
        case = dict(desc, op="fit-minimiser-returns-start", X=XB.tolist())
        ctx.case(case, True); ctx.count("op=re-pointed:fit-minimiser-returns-start")
        try:
            with fk.quiet():
                own_score = float(C16.make_adapter(dB, pB, sB, {}, None).score(XB))      # a fresh estimator with the same parameters
        except Exception as e:
            own_score = None; ctx.count(f"re-pointed:score_raises={fk.exc_kind(e)}")
        seen = {}
        try:
            res = fit_with(returns_start_into(seen), ad, XB)
            after = res.get_params()
            if sorted(seen["x0"]) != magnitudes:
                ctx.fail("re-pointed:fit-start", f"the minimiser is started from {seen['x0']}, which is not the magnitudes the estimator holds {want}", case)
            if own_score is not None and math.isfinite(own_score) and math.isfinite(seen["f0"]):
                if abs(seen["f0"] - own_score) > 1e-9 * max(1.0, abs(own_score)):
                    ctx.fail("re-pointed:fit-start-score", f"the objective fit hands to the minimiser is {seen['f0']!r} at the starting point, but a fresh "
                             f"estimator with the same parameters scores {own_score!r} on the same data", case)
            else:
                ctx.count("re-pointed:score_undefined")
            if any(after[k] is not given[k] for k in ("symbolic_model", "sensor_models", "calibration_map")) or \
                    dataclasses.asdict(after["config"]) != dataclasses.asdict(given["config"]):
                ctx.fail("fit-changes-non-noise:re-pointed", "fit changed the model, the sensor models, the calibration or the configuration", case)
            if held(after) != want:
                ctx.fail("re-pointed:fit-start-returned", f"a fit whose minimiser returns its starting point changed the noise from {want} to {held(after)}", case)
            ctx.count("re-pointed:fit_outcome=returned")
        except MinimizationFailure:
            ctx.count("re-pointed:fit_outcome=MinimizationFailure")
        except Exception as e:
            ctx.fail(f"fit-raises:{fk.exc_kind(e)}:re-pointed", f"fit neither returns nor raises MinimizationFailure: {e!r}"[:300], case)
        # --- fit with scipy's own minimiser
        if not real_fit:
            continue
        case = dict(desc, op="fit", X=XB.tolist())
        ctx.case(case, True); ctx.count("op=re-pointed:fit")
        try:
            a5, given5 = build()
            with fk.quiet():
                res = a5.fit(XB)
            after = res.get_params()
        except MinimizationFailure:
            ctx.count("re-pointed:fit_outcome=MinimizationFailure"); continue
        except Exception as e:
            ctx.fail(f"fit-raises:{fk.exc_kind(e)}:re-pointed", f"fit neither returns nor raises MinimizationFailure: {e!r}"[:300], case); continue
        ctx.count("re-pointed:fit_outcome=returned")
        try:
            pn, sn = after["process_noise"], after["sensor_noises"]
            if any(after[k] is not given5[k] for k in ("symbolic_model", "sensor_models", "calibration_map")) or \
                    dataclasses.asdict(after["config"]) != dataclasses.asdict(given5["config"]):
                ctx.fail("fit-changes-non-noise:re-pointed", "fit changed the model, the sensor models, the calibration or the configuration", case)
            if sorted(str(k) for k in pn) != Lc or any(not (math.isfinite(v_) and v_ > 0) for v_ in pn.values()):
                ctx.fail("fit-process-noise:re-pointed", f"fitted process noise {pn} is not a finite positive magnitude per control of the model held", case)
            if {k: sorted(map(str, rd)) for k, rd in sn.items()} != {k: sorted(rd) for k, rd in sB.items()} or \
                    any(not math.isfinite(v_) for rd in sn.values() for v_ in rd.values()):
                ctx.fail("fit-sensor-noise:re-pointed", f"fitted sensor noise {sn} does not name exactly the sensors/readings with finite magnitudes", case)
        except Exception as e:
            ctx.fail(f"fit-result-odd:{fk.exc_kind(e)}:re-pointed", f"the fitted estimator's parameters cannot be read: {e!r}"[:300], case)


def controlless_fits(ctx):
    """fixed stream: models with NO control inputs (the only valid process noise is the empty table) and with one control, fitted on
    fixed data: fit returns (noise tables naming exactly the controls / readings, finite) or raises the library's minimisation error"""
    from formak.exceptions import MinimizationFailure
    x, v, u, dt = sympy.symbols("fx fv fu dt")
    free = gen.Definition(dt, [x, v], [], [], {x: x + dt * v, v: v * sympy.Rational(9, 10)}, {"gps": {"px": x, "pv": v + x}})
    driven = gen.Definition(dt, [x, v], [u], [], {x: x + dt * v, v: v + dt * u}, {"gps": {"px": x, "pv": v + x}})
    rows = [[0.25, -0.5], [0.5, 0.25], [-0.25, 0.75], [1.0, -0.25], [0.75, 0.5], [-0.5, 1.0]]
    for label, d, process in (("no-control", free, {}), ("one-control", driven, {"fu": F(1, 2)})):
        sensor = {"gps": {"px": F(3, 4), "pv": F(5, 4)}}
        X = np.array([([0.125 * (i + 1)] if d.control else []) + r for i, r in enumerate(rows)], dtype=float)
        case = {"stream": "controlless-fits", "variant": label, "def": d.describe(), "X": X.tolist()}
        ctx.case(case, True); ctx.count(f"stream=controlless-fits:{label}")
        try:
            with fk.quiet():
                ad = C16.make_adapter(d, process, sensor, {}, None)
                res = ad.fit(X)
        except MinimizationFailure:
            ctx.count("controlless_fit_outcome=MinimizationFailure"); continue
        except Exception as e:
            ctx.fail(f"fit-raises:{fk.exc_kind(e)}:{label}", f"fit neither returns nor raises MinimizationFailure: {e!r}"[:300], case); continue
        ctx.count("controlless_fit_outcome=returned")
        after = res.get_params()
        pn, sn = after["process_noise"], after["sensor_noises"]
        if sorted(str(k) for k in pn) != sorted(s_.name for s_ in d.control) or any(not (math.isfinite(v_) and v_ > 0) for v_ in pn.values()):
            ctx.fail(f"fit-process-noise:{label}", f"fitted process noise {pn} is not a finite positive magnitude per control", case)
        if {k: sorted(map(str, rd)) for k, rd in sn.items()} != {"gps": ["pv", "px"]} or any(not math.isfinite(v_) for rd in sn.values() for v_ in rd.values()):
            ctx.fail(f"fit-sensor-noise:{label}", f"fitted sensor noise {sn} does not name exactly the sensors/readings with finite magnitudes", case)


def run(ctx):
    from formak import python
    from formak.exceptions import MinimizationFailure, ModelConstructionError
    from sklearn.base import clone
    audit = core.lean_audit("C17")
    drv = core.Driver()
    pending = []
    n = 6 if ctx.quick else 60
    for i in range(n):
        d = gen.tame_definition(ctx.rng, n_control=ctx.rng.choice([0, 1, 2]), n_sensors=ctx.rng.choice([1, 2]), n_calib=ctx.rng.choice([0, 1]))
        process, sensor = eh.make_noises(ctx.rng, d)
        cal = {s.name: gen.dyadic(ctx.rng, -2, 2) for s in d.calibration}
        k0 = ctx.rng.choice([None, 5.0])
        desc = {"def": d.describe(), "noise": {a: str(b) for a, b in process.items()}, "filtering": k0}
        nz = len(process) + sum(len(rd) for rd in sensor.values())
        with fk.quiet():
            ad = C16.make_adapter(d, process, sensor, cal, k0)
        # --- get -> set
        p0 = ad.get_params()
        ad.set_params(**p0)
        p1 = ad.get_params()
        ctx.case(dict(desc, op="get-set"), nz >= 2); ctx.count("op=get-set")
        if any(p1[k] is not p0[k] for k in p0):
            ctx.fail("get-set-changes", "set_params(**get_params()) changed a parameter", dict(desc, op="get-set"))
        # --- clone
        ctx.case(dict(desc, op="clone"), nz >= 2); ctx.count("op=clone")
        try:
            c = clone(ad)
            pc = c.get_params()
            same = (pc["symbolic_model"] is p0["symbolic_model"] or True) and all(
                params_json(pc)[k] == params_json(p0)[k] for k in ("process_noise", "sensor_noises", "calibration_map", "config"))
            if not same or set(pc) != set(p0):
                ctx.fail("clone-changes", "sklearn clone does not preserve the parameters", dict(desc, op="clone"))
        except Exception as e:
            ctx.fail(f"clone-raises:{fk.exc_kind(e)}", f"clone raises {e!r}"[:300], dict(desc, op="clone"))
        # --- Config fields
        fields = {"common_subexpression_elimination": [True, False], "extra_validation": [True, False], "max_dt_sec": [0.05, 1.0, 0.013],
                  "innovation_filtering": [None, 1.5, 7.0, 0.0], "python_modules": [("numpy", "math", "scipy", {})]}
        for fld, values in list(fields.items()) + [("innovation_filtering", [None if k0 is not None else 0.0])]:
            v = ctx.rng.choice(values)
            a2 = copy.copy(ad)
            before = a2.get_params()
            cfg_before = dataclasses.asdict(before["config"])
            case = dict(desc, op="set-config", field=fld, value=repr(v))
            ctx.case(case, True); ctx.count(f"op=set-config:{fld}")
            try:
                a2.set_params(**{fld: v})
            except Exception as e:
                ctx.fail(f"set-config-raises:{fld}", f"set_params({fld}=...) raises {e!r}"[:300], case); continue
            after = a2.get_params()
            cfg_after = dataclasses.asdict(after["config"])
            want = dict(cfg_before, **{fld: v})
            if cfg_after != want or any(after[k] is not before[k] for k in before if k != "config"):
                ctx.fail(f"set-config-frame:{fld}", f"set_params({fld}={v!r}) gives config {cfg_after}, expected {want}", case)
            pj = params_json(before)
            idx = drv.add(dict(pj, op="setparams", set=[[fld, enc(v)]]))
            pending.append(("setparams", idx, params_json(after), case))
        # --- an estimator whose configuration is the design workflow's ConfigView (what fit_model hands to the grid search)
        try:
            from formak import ui_state_machine as _sm
            a6 = copy.copy(ad)
            view = _sm.ConfigView({"max_dt_sec": 0.2, "innovation_filtering": 3.0})
            a6.set_params(config=view)
            for fld, v in (("max_dt_sec", 0.07), ("innovation_filtering", None), ("common_subexpression_elimination", False)):
                case = dict(desc, op="set-config-on-ConfigView", field=fld, value=repr(v))
                ctx.case(case, True); ctx.count("op=set-config-on-ConfigView")
                prev = {k2: getattr(a6.get_params()["config"], k2) for k2 in ("common_subexpression_elimination", "extra_validation", "max_dt_sec", "innovation_filtering")}
                try:
                    a6.set_params(**{fld: v})
                except Exception as e:
                    ctx.fail(f"set-config-raises:{fld}:ConfigView", f"set_params({fld}=...) on an estimator configured with a ConfigView raises {e!r}"[:300], case)
                    break
                now = {k2: getattr(a6.get_params()["config"], k2) for k2 in prev}
                if now != dict(prev, **{fld: v}):
                    ctx.fail(f"set-config-frame:{fld}:ConfigView", f"set_params({fld}={v!r}) on a ConfigView gives {now}, expected {dict(prev, **{fld: v})}", case)
        except Exception as e:
            ctx.fail(f"adapter-raises:{fk.exc_kind(e)}:ConfigView", repr(e)[:300], dict(desc, op="set-config-on-ConfigView"))
        # --- several parameters in ONE call (what GridSearchCV does with a multi-parameter grid)
        for trial in range(3):
            names = ctx.rng.sample(["max_dt_sec", "innovation_filtering", "extra_validation", "common_subexpression_elimination"], 2)
            vals = {nm: ctx.rng.choice(fields[nm]) for nm in names}
            a2 = copy.copy(ad)
            before = a2.get_params()
            if trial == 2:   # a whole config object together with a field name
                vals = {"config": python.Config(max_dt_sec=0.25, innovation_filtering=2.0), "extra_validation": True}
            case = dict(desc, op="set-config-multi", values={k2: repr(v2) for k2, v2 in vals.items()})
            ctx.case(case, True); ctx.count("op=set-config-multi")
            try:
                a2.set_params(**vals)
            except Exception as e:
                ctx.fail("set-config-raises:multi", f"set_params with several names raises {e!r}"[:300], case); continue
            cfg_after = dataclasses.asdict(a2.get_params()["config"])
            want = dataclasses.asdict(vals["config"]) if "config" in vals else dataclasses.asdict(before["config"])
            want.update({k2: v2 for k2, v2 in vals.items() if k2 != "config"})
            if cfg_after != want:
                ctx.fail("set-config-frame:multi", f"set_params({case['values']}) gives config {cfg_after}, expected {want}", case)
            if "config" not in vals:
                idx = drv.add(dict(params_json(before), op="setparams", set=[[k2, enc(v2)] for k2, v2 in vals.items()]))
                pending.append(("setparams", idx, params_json(a2.get_params()), case))
        # --- unknown keys
        for bad in (gen.fresh_names(ctx.rng, 1)[0] + "_zz", "max_dt", "Config", "process_noises",
                    # nested-looking spellings of names that are NOT fields of the configuration
                    "config__process_noise", "config__sensor_noises", "config__config", "config__calibration_map", "config__symbolic_model"):
            a2 = copy.copy(ad)
            case = dict(desc, op="set-unknown", key=bad)
            ctx.case(case, True); ctx.count("op=set-unknown")
            try:
                a2.set_params(**{bad: 1.0})
                ctx.fail("unknown-key-accepted", f"set_params accepts the unknown parameter name {bad!r}", case)
            except ModelConstructionError:
                pass
            except Exception as e:
                ctx.count(f"unknown_key_error={fk.exc_kind(e)}")
            idx = drv.add(dict(params_json(ad.get_params()), op="setparams", set=[[bad, "1.0"]]))
            pending.append(("setparams-refuse", idx, None, case))
        # --- unknown keys on an estimator that has been used: whatever it stores besides its parameters is not a parameter
        try:
            a5 = copy.deepcopy(ad)
            width = len(d.control) + sum(len(rd) for rd in d.sensors.values())
            with fk.quiet():
                a5.transform(np.array([[0.25] * width, [0.5] * width], dtype=float))
            extras = sorted(set(vars(a5)) - set(a5.get_params()))
            for bad in extras:
                case = dict(desc, op="set-unknown-after-use", key=bad)
                ctx.case(case, True); ctx.count("op=set-unknown-after-use")
                try:
                    a5.set_params(**{bad: getattr(a5, bad)})
                    ctx.fail("unknown-key-accepted:after-use", f"after transform(), set_params accepts {bad!r}, which is not one of the estimator's parameters", case)
                except ModelConstructionError:
                    pass
                except Exception as e:
                    ctx.count(f"unknown_key_error={fk.exc_kind(e)}")
        except Exception as e:
            ctx.fail(f"adapter-raises:{fk.exc_kind(e)}", f"transform on a deep copy raises {e!r}"[:300], dict(desc, op="set-unknown-after-use"))
        # --- flatten / inverse-flatten (private, on deep copies)
        Lc = sorted(s.name for s in d.control)
        a3 = copy.deepcopy(ad)
        try:
            flat = [float(x) for x in a3._flatten_scoring_params()]
        except Exception as e:
            ctx.fail(f"flatten-raises:{fk.exc_kind(e)}", repr(e)[:300], desc); flat = None
        if flat is not None:
            idx = drv.add({"op": "flatten", "controls": Lc, "noises": noises_json(a3.process_noise, a3.sensor_noises)})
            pending.append(("flatten", idx, flat, dict(desc, op="flatten")))
            ctx.case(dict(desc, op="flatten"), nz >= 2); ctx.count("op=flatten")
            for trial in range(3):
                vec = [ctx.rng.choice([F(1, 8), F(3, 2), F(-1, 4), F(1, 10 ** 9), F(0), F(7, 4)]) * ctx.rng.choice([1, 2]) for _ in flat]
                a4 = copy.deepcopy(ad)
                old = noises_json(a4.process_noise, a4.sensor_noises)
                case = dict(desc, op="inverse", vector=[core.frac_str(x) for x in vec])
                ctx.case(case, nz >= 2); ctx.count("op=inverse")
                try:
                    got = a4._inverse_flatten_scoring_params([float(x) for x in vec])
                except Exception as e:
                    ctx.fail(f"inverse-raises:{fk.exc_kind(e)}", f"re-assembling the noise maps from a vector of the flattened length raises {e!r}"[:300], case)
                    break
                idx = drv.add({"op": "inverse", "controls": Lc, "noises": old, "vector": [core.frac_str(x) for x in vec]})
                pending.append(("inverse", idx, noises_json(got["process_noise"], got["sensor_noises"]), case))
                # the property's clauses on the result
                if sorted(str(k) for k in got["process_noise"]) != Lc or any(not (v > 0) for v in got["process_noise"].values()):
                    ctx.fail("inverse-process-noise", f"re-assembled process noise {got['process_noise']} does not name exactly the controls with positive magnitudes", case)
                if {k: sorted(map(str, rd)) for k, rd in got["sensor_noises"].items()} != {k: sorted(rd) for k, rd in sensor.items()}:
                    ctx.fail("inverse-sensor-keys", "re-assembled sensor noise does not name exactly the sensors and readings", case)
                if any(got[k] is not getattr(a4, k) for k in ("symbolic_model", "sensor_models", "calibration_map", "config")):
                    ctx.fail("inverse-touches-rest", "re-assembling noise replaced a parameter other than the noise maps", case)
    # --- fit
    nfit = 4 if ctx.quick else 14
    for i in range(nfit):
        d = gen.tame_definition(ctx.rng, n_state=2, n_control=ctx.rng.choice([0, 1]), n_sensors=1, max_readings=ctx.rng.choice([1, 2]))
        if i % 4 == 1 or i % 4 == 3:
            # constant-velocity model: passes the (slow) extra validation quickly, so extra_validation=True can be exercised
            xs, vs, us, dts = sympy.symbols("px pv pu dt")
            d = gen.Definition(dts, [xs, vs], [us], [], {xs: xs + dts * vs, vs: vs + dts * us},
                               {"odo": {"speed": vs, "place": (xs + 1) * (vs + 1) - xs * vs - vs - 1}})      # (= place, written unsimplified)
        if i % 2 == 0:
            # (CSE stays on for these) a reading written in unsimplified form: + (a+1)(b+1) - ab - a - b - 1, which is zero
            k0 = sorted(d.sensors)[0]; r0 = sorted(d.sensors[k0])[0]
            a_, b_ = d.state[0], d.state[-1]
            d.sensors[k0][r0] = d.sensors[k0][r0] + (a_ + 1) * (b_ + 1) - a_ * b_ - a_ - b_ - 1
        process, sensor = eh.make_noises(ctx.rng, d)
        integer_matrix = (i % 4 == 3)
        if integer_matrix:
            # "all finite training matrices": small INTEGER data against large noises (every normalised innovation is below 1)
            process = {k2: v2 + 40 for k2, v2 in process.items()}
            sensor = {k2: {r: v2 + 60 for r, v2 in rd.items()} for k2, rd in sensor.items()}
        with fk.quiet():
            ad = C16.make_adapter(d, process, sensor, {}, None)
            if i % 2 == 1:   # a non-default configuration must survive fitting too
                ad.set_params(config=python.Config(innovation_filtering=ctx.rng.choice([None, 7.0]), max_dt_sec=0.05,
                                                   common_subexpression_elimination=False, extra_validation=(i % 4 == 1)))
        cfg_value_before = dataclasses.asdict(ad.get_params()["config"])
        width = len(d.control) + sum(len(rd) for rd in d.sensors.values())
        nrows = ctx.rng.choice([2, 3, 6])
        X = np.array([[float(gen.dyadic(ctx.rng, -2, 2)) for _ in range(width)] for _ in range(nrows)], dtype=float)
        if integer_matrix:
            X = np.array([[ctx.rng.choice([-1, 0, 1, 1]) for _ in range(width)] for _ in range(6)], dtype=np.int64)
            ctx.count("fit_on_integer_matrix")
        before = ad.get_params()
        keep = {k: before[k] for k in ("symbolic_model", "sensor_models", "calibration_map", "config")}
        sens_shape = {k: sorted(map(str, rd)) for k, rd in before["sensor_noises"].items()}
        # the sensor models as WRITTEN (a snapshot taken now: the dict objects themselves could be edited in place)
        written = {k: {str(r): sympy.srepr(sympy.sympify(e)) for r, e in rd.items()} for k, rd in before["sensor_models"].items()}
        case = {"def": d.describe(), "op": "fit", "X": X.tolist(), "noise": {a: str(b) for a, b in process.items()},
                "sensor_noise": {a: {r: str(v) for r, v in b.items()} for a, b in sensor.items()}}
        ctx.case(case, True); ctx.count("op=fit")
        t0 = time.time()
        try:
            with fk.quiet():
                res = ad.fit(X)
            outcome = "returned"
        except MinimizationFailure:
            outcome = "MinimizationFailure"
        except Exception as e:
            outcome = "other:" + fk.exc_kind(e)
            ctx.fail(f"fit-raises:{fk.exc_kind(e)}", f"fit neither returns nor raises MinimizationFailure: {e!r}"[:300], case)
        ctx.count(f"fit_outcome={outcome}"); ctx.count(f"fit_seconds<={int(math.ceil(time.time() - t0))}")
        if outcome == "returned":
            after = res.get_params()
            if any(after[k] is not keep[k] for k in keep if k != "config") or dataclasses.asdict(after["config"]) != cfg_value_before:
                ctx.fail("fit-changes-non-noise", "fit changed the model, the sensor models, the calibration or the configuration "
                         f"(config before {cfg_value_before}, after {dataclasses.asdict(after['config'])})", case)
            now_written = {k: {str(r): sympy.srepr(sympy.sympify(e)) for r, e in rd.items()} for k, rd in after["sensor_models"].items()}
            if now_written != written:
                ctx.fail("fit-rewrites-sensor-models", "after fit the estimator's sensor models are not the expressions it was given "
                         f"(was {written}, now {now_written})", case)
            pn = after["process_noise"]
            if sorted(str(k) for k in pn) != sorted(s.name for s in d.control) or any(not (math.isfinite(v) and v > 0) for v in pn.values()):
                ctx.fail("fit-process-noise", f"fitted process noise {pn} is not a finite positive magnitude per control", case)
            sn = after["sensor_noises"]
            if {k: sorted(map(str, rd)) for k, rd in sn.items()} != sens_shape or any(not math.isfinite(v) for rd in sn.values() for v in rd.values()):
                ctx.fail("fit-sensor-noise", f"fitted sensor noise {sn} does not name exactly the sensors/readings with finite magnitudes", case)
    written_order_stream(ctx, drv, pending)
    controlless_fits(ctx)                     # fixed inputs; no draws from ctx.rng
    repointed_stream(ctx, drv, pending)       # fixed inputs; no draws from ctx.rng
    ans = drv.run()
    for kind, idx, got, info in pending:
        a = ans[idx]
        ctx.traces += 1
        if kind == "setparams":
            if "ok" not in a or a["ok"] != got:
                ctx.broke("correspondence:set_params (Lean Params.set1 vs implementation)", {"model": a, "impl": got}, info)
        elif kind == "setparams-refuse":
            if "err" not in a:
                ctx.broke("correspondence:set_params refusal", {"model": a}, info)
        elif kind == "flatten":
            if "ok" not in a or [float(F(x)) for x in a["ok"]] != got:
                ctx.broke("correspondence:flatten (Lean flattenNoises vs _flatten_scoring_params)", {"model": a, "impl": got}, info)
        elif kind == "inverse":
            def norm(nzj):
                return (sorted((k, float(F(v))) for k, v in nzj["process"]), sorted((k, sorted((r, float(F(v))) for r, v in rd)) for k, rd in nzj["sensors"]))
            if "ok" not in a or norm(a["ok"]) != norm(got):
                ctx.broke("correspondence:inverse (Lean inverseNoises vs _inverse_flatten_scoring_params)", {"model": a, "impl": got}, info)
    return core.finish(ctx, audit, NOTE, RULE, PARTIAL)


def replay(ctx, data):
    import json
    print(json.dumps(data, indent=1)[:3000]); return 0
