"""C05 — the sensor update is the Kalman correction, for any number of readings."""
from __future__ import annotations

from fractions import Fraction as F

import numpy as np
import sympy

import core
import ekf_h as eh
import fk
import gen

RULE = ("definitions with 1-2 sensors of 1-3 readings (pairwise distinct per-reading noise), with/without calibration, SPD dyadic priors, "
        "readings on / near / far from the prediction, innovation filtering disabled or enabled-but-accepting; distinct by (definition, "
        "sensor, input); non-trivial = >=2 readings or rectangular H; "
        "fixed stream: readings that depend on the sign of a state (bearing atan2, sqrt(x^2), sqrt((y-w)^2), log(x^2)) at estimates in all four "
        "quadrants, CSE on and off; "
        "fixed stream: noise table listing the sensors (and readings) in another insertion order than the sensor table, sensors with the same "
        "and with different reading names; "
        "fixed stream: the same integer-valued SPD priors handed over as int64 / int32 / float32 / float64 / Fortran-ordered arrays, sensors "
        "of 1, 2 and 3 readings, one update and a chain of two updates (the posterior object fed back as the next prior); "
        "fixed stream: one well-conditioned two-state problem (sensors of two and three correlated readings) with prior and per-reading noise "
        "scaled by 1e-14 .. 1e8 and the innovation by the square root: correction and posterior compared RELATIVE to their exact magnitude")
NOTE = ["oracle: exact Fractions recomputation of S, K, x', P' from sympy h and dh/dx by name and the per-reading noise supplied by name",
        "the Lean model checks its own Gauss-Jordan inverse (S*Sinv = 1) before using it",
        "sign-dependent readings: h and dh/dx are those of the expression as written, evaluated at the (negative) estimate by sympy",
        "noise-table order: Q of a sensor is built from the entries supplied under that sensor's key, whatever the order of the table",
        "prior element type: the prior is the matrix of VALUES the caller supplied; the posterior is P - K H P of those values (generally "
        "not integers), whatever the element type / memory order of the array they arrived in"]
PARTIAL = ["binary64 rounding (1e-9 relative tolerance); numpy.linalg.inv is outside the model"]


def oracle_update(d, rd, noise, sub, P, x, z):
    Ls = sorted(s.name for s in d.state)
    Lr = sorted(rd)
    H = eh.oracle_jac(rd, Lr, Ls, sub)
    hx = eh.oracle_vals(rd, Lr, sub)
    Q = [[noise[a] if a == b else F(0) for b in Lr] for a in Lr]
    S = eh.madd(eh.mmul(eh.mmul(H, P), eh.mT(H)), Q)
    Si = eh.minv(S)
    K = eh.mmul(eh.mmul(P, eh.mT(H)), Si)
    y = [[z[r] - h] for r, h in zip(Lr, hx)]
    xn = [a + b[0] for a, b in zip(x, eh.mmul(K, y))]
    Pn = eh.msub(P, eh.mmul(eh.mmul(K, H), P))
    nis = eh.mmul(eh.mmul(eh.mT(y), Si), y)[0][0]
    return {"H": H, "hx": hx, "S": S, "K": K, "y": [r[0] for r in y], "x": xn, "P": Pn, "nis": nis, "Lr": Lr}


def one_update_against_oracle(ctx, d, ekf, sensor, key, pt, z, reading_obj, tag, P=None, cov=None, state=None, extra=None):
    """one sensor update of `ekf` at `pt` with reading values `z` (passed as `reading_obj`) against the exact Kalman update
    (`P`: a fixed prior covariance; drawn from ctx.rng when not given; `cov` / `state`: ready-made Covariance / State objects holding
    the values of `P` / `pt` to pass instead of the ones built here; `extra`: more entries for the reported case).
    Returns (result of sensor_model, oracle) when the call went through, None otherwise."""
    Ls = sorted(s.name for s in d.state)
    rd = d.sensors[key]
    Lr = sorted(rd)
    m = len(Lr)
    sub = eh.subs_map(d, pt)
    P = eh.spd(ctx.rng, len(Ls)) if P is None else P
    x = [pt["state"][n] for n in Ls]
    want = oracle_update(d, rd, sensor[key], sub, P, x, z)
    case = {"def": d.describe(), "sensor": key, "noise": {r: str(v) for r, v in sensor[key].items()}, "point": eh.point_json(pt),
            "P": eh.mat_json(P), "z": {r: core.frac_str(F(v)) for r, v in z.items()}, "stream": tag}
    case.update(extra or {})
    ctx.case(case, True); ctx.count(f"stream={tag}")
    try:
        with fk.quiet():
            res = ekf.sensor_model(eh.state_obj(ekf, pt) if state is None else state, eh.cov_obj(ekf, P) if cov is None else cov,
                                   sensor_key=key, sensor_reading=reading_obj)
        gx = fk.by_name(res.state)
        np.asarray(res.covariance.data, dtype=float)
    except Exception as e:
        ctx.fail(f"sensor-model-raises:{fk.exc_kind(e)}:{tag}", f"sensor_model raises {e!r}"[:300], case); return
    sc = max([abs(float(v)) for v in want["x"]] + [1.0])
    if key not in ekf.innovations or key not in ekf.sensor_prediction_uncertainty:
        ctx.fail(f"update-innovation:not-recorded:{tag}", "after the update the filter holds no innovation / innovation covariance for this sensor", case)
        return
    y_rec = eh.recorded(ekf.innovations, key)
    S_rec = eh.recorded(ekf.sensor_prediction_uncertainty, key)
    if S_rec.shape != (m, m) or not eh.mat_close(S_rec, want["S"]):
        ctx.fail(f"update-S:{tag}", f"recorded innovation covariance {S_rec.tolist()} differs from H P H^T + Q = {[[float(v) for v in r] for r in want['S']]}", case)
    elif y_rec.shape != (m, 1) or not eh.mat_close(y_rec, [[v] for v in want["y"]]):
        ctx.fail(f"update-innovation:{tag}", f"recorded innovation {y_rec.tolist()} differs from z - h(x) = {[float(v) for v in want['y']]}", case)
    elif not all(core.close(gx[n], w, scale=sc) for n, w in zip(Ls, want["x"])):
        ctx.fail(f"update-state:{tag}", f"updated state {gx} differs from x + K (z - h(x)) = {dict(zip(Ls, map(float, want['x'])))}", case)
    elif not eh.mat_close(res.covariance.data, want["P"]):
        ctx.fail(f"update-cov:{tag}", f"updated covariance {np.asarray(res.covariance.data, dtype=float).tolist()} differs from P - K H P = "
                 f"{[[float(v) for v in r] for r in want['P']]}"[:600], case)
    return res, want


def later_filters_and_own_readings(ctx):
    """(a) a second filter built later in the same process from the same definition with OTHER calibration values uses its own values;
    (b) a reading object produced by the filter's own sensor model (a simulated measurement) is a reading like any other"""
    for i in range(3 if ctx.quick else 25):
        d = gen.gen_definition(ctx.rng, n_state=ctx.rng.choice([2, 3]), n_control=0, n_calib=1, n_sensors=1, depth=2)
        key = sorted(d.sensors)[0]
        k = d.calibration[0]
        r0 = sorted(d.sensors[key])[0]
        d.sensors[key][r0] = d.sensors[key][r0] + k * d.state[0] + 2 * k       # the prediction depends on the calibration value
        process, sensor0 = eh.make_noises(ctx.rng, d)
        filters = []
        for which in (0, 1):
            pt = gen.gen_point(ctx.rng, d)
            # the second filter: other calibration values AND other per-reading noises, same sensor keys
            sensor = sensor0 if which == 0 else {k2: {r: v * 3 + F(1, 4) for r, v in rd.items()} for k2, rd in sensor0.items()}
            if which == 1:
                pt["cal"] = {n: v + 3 for n, v in filters[0][1]["cal"].items()}
            try:
                mp = {}
                ekf = eh.compile_ekf(d, process, sensor, pt["cal"], ctx.rng, cse=(i % 2 == 0), maps=mp)
            except Exception as e:
                ctx.fail(f"compile-ekf-raises:{fk.exc_kind(e)}", f"compile_ekf refuses a valid definition: {e!r}"[:300], {"def": d.describe()}); break
            filters.append((ekf, pt, sensor, {"maps": mp}))
            Lr = sorted(d.sensors[key])
            hx = eh.oracle_vals(d.sensors[key], Lr, eh.subs_map(d, pt))
            z = {r: F(h).limit_denominator(2 ** 20) + gen.dyadic(ctx.rng, -1, 1, 4) for r, h in zip(Lr, hx)}
            one_update_against_oracle(ctx, d, ekf, sensor, key, pt, z, ekf.make_reading(key, **{r: float(v) for r, v in z.items()}),
                                      "second-filter-other-calibration" if which else "first-filter")
        if not filters:
            continue
        # a third filter built from the SAME dict objects the first one was built from (one sensor table for a fleet), with its own
        # calibration values
        if filters and "maps" in filters[0][3]:
            maps0 = filters[0][3]["maps"]
            pt3 = gen.gen_point(ctx.rng, d)
            pt3["cal"] = {n: v - 2 for n, v in filters[0][1]["cal"].items()}
            try:
                ekf3 = eh.compile_ekf(d, process, sensor0, pt3["cal"], ctx.rng, cse=(i % 2 == 0),
                                      maps={"sensor_models": maps0["sensor_models"], "sensor_noises": maps0["sensor_noises"], "process_noise": maps0["process_noise"]})
                Lr = sorted(d.sensors[key])
                hx = eh.oracle_vals(d.sensors[key], Lr, eh.subs_map(d, pt3))
                z = {r: F(h).limit_denominator(2 ** 20) + gen.dyadic(ctx.rng, -1, 1, 4) for r, h in zip(Lr, hx)}
                one_update_against_oracle(ctx, d, ekf3, sensor0, key, pt3, z, ekf3.make_reading(key, **{r: float(v) for r, v in z.items()}),
                                          "filter-from-the-same-dicts-other-calibration")
            except Exception as e:
                ctx.fail(f"compile-ekf-raises:{fk.exc_kind(e)}:same-dicts", f"a second filter from the same definition dicts raises {e!r}"[:300], {"def": d.describe()})
        if len(filters) == 2:
            # both filter objects are alive: the FIRST one still uses its own noises and keeps its own records
            ekf, pt, sn, _ = filters[0]
            Lr = sorted(d.sensors[key])
            hx = eh.oracle_vals(d.sensors[key], Lr, eh.subs_map(d, pt))
            z = {r: F(h).limit_denominator(2 ** 20) + gen.dyadic(ctx.rng, -1, 1, 4) for r, h in zip(Lr, hx)}
            one_update_against_oracle(ctx, d, ekf, sn, key, pt, z, ekf.make_reading(key, **{r: float(v) for r, v in z.items()}), "first-filter-revisited")
        # (b) simulated measurement: z = h(true state), produced by the filter's own sensor model, applied at another estimate
        ekf, pt, sensor, _ = filters[-1]
        truth = gen.gen_point(ctx.rng, d); truth["cal"] = pt["cal"]
        with fk.quiet():
            zobj = ekf.sensor_models[key].model(eh.state_obj(ekf, truth))
        Lr = sorted(d.sensors[key])
        z = {r: F(float(v)) for r, v in zip(Lr, np.asarray(zobj.data, dtype=float).reshape(-1))}
        one_update_against_oracle(ctx, d, ekf, sensor, key, pt, z, zobj, "reading-from-own-sensor-model")


def far_from_a_bell_shaped_reading(ctx):
    """a sensor with one reading that is a narrow bell exp(-(x-c)^2) and one ordinary reading, at an estimate 40 units away from the
    bell's centre: the bell's prediction and Jacobian row underflow to 0 - perfectly good values - and the update goes through the
    other reading"""
    x, y, dt = sympy.symbols("bx by dt")
    d = gen.Definition(dt, [x, y], [], [], {x: x + dt * y, y: y}, {"mix": {"beacon": sympy.exp(-(x - 5) ** 2), "sum": x + 2 * y}})
    d.transcend = True
    process, sensor = {}, {"mix": {"beacon": F(1, 4), "sum": F(1, 2)}}
    pt = {"dt": F(1, 8), "cal": {}, "control": {}, "state": {"bx": F(45), "by": F(-3, 2)}}
    try:
        ekf = eh.compile_ekf(d, process, sensor, {}, ctx.rng, cse=True)
    except Exception as e:
        ctx.fail(f"compile-ekf-raises:{fk.exc_kind(e)}", repr(e)[:300], {"def": d.describe()}); return
    z = {"beacon": F(1, 100), "sum": F(43)}
    one_update_against_oracle(ctx, d, ekf, sensor, "mix", pt, z, ekf.make_reading("mix", **{r: float(v) for r, v in z.items()}), "far-from-bell")


def readings_that_depend_on_a_sign(ctx):
    """fixed stream: readings whose value and Jacobian depend on the SIGN of a state - a bearing atan2(py, px), a distance to a wall
    sqrt(px^2), a distance to a calibrated fence sqrt((py - w)^2), a log-intensity log(px^2) - next to an ordinary range reading,
    at estimates in all four quadrants (px < 0 and / or py < 0 included, never on an axis), with and without CSE, readings on and
    off the prediction.  The oracle differentiates the expressions as written (d/dx sqrt(x^2) = x / sqrt(x^2) = -1 at x < 0)."""
    import random
    own = random.Random(50571)
    px, py, w, dt = sympy.symbols("px py w dt")
    sensors = {"radar": {"bearing": sympy.atan2(py, px), "range": sympy.sqrt(px ** 2 + py ** 2)},
               "wall": {"distance": sympy.sqrt(px ** 2)},
               "fence": {"gap": sympy.sqrt((py - w) ** 2), "along": px + w},
               "glow": {"lg": sympy.log(px ** 2) / 2 + py}}
    noise = {"radar": {"bearing": F(3, 8), "range": F(5, 8)}, "wall": {"distance": F(1, 2)},
             "fence": {"gap": F(1, 4), "along": F(7, 8)}, "glow": {"lg": F(9, 8)}}
    P = [[F(2), F(1, 2)], [F(1, 2), F(3, 2)]]
    quadrants = [(F(3), F(2)), (F(-3), F(2)), (F(-5, 2), F(-3, 2)), (F(7, 4), F(-9, 4))]
    for cse in (True, False):
        d = gen.Definition(dt, [px, py], [], [w], {px: px + dt * py, py: py}, {k: dict(rd) for k, rd in sensors.items()})
        d.transcend = True
        cal = {"w": F(1, 2)}
        try:
            ekf = eh.compile_ekf(d, {}, noise, cal, own, cse=cse)
        except Exception as e:
            ctx.fail(f"compile-ekf-raises:{fk.exc_kind(e)}:sign-dependent", f"compile_ekf refuses a valid definition: {e!r}"[:300], {"def": d.describe()})
            continue
        for qi, (vx, vy) in enumerate(quadrants):
            pt = {"dt": F(1, 8), "cal": cal, "control": {}, "state": {"px": vx, "py": vy}}
            sub = eh.subs_map(d, pt)
            for key in sensors:
                Lr = sorted(d.sensors[key])
                hx = eh.oracle_vals(d.sensors[key], Lr, sub)
                for off in (F(0), F(3, 16)):
                    z = {r: h + off * (j + 1) for j, (r, h) in enumerate(zip(Lr, hx))}
                    ctx.count(f"sign_dependent:{'px<0' if vx < 0 else 'px>0'},{'py<0' if vy < 0 else 'py>0'}")
                    one_update_against_oracle(ctx, d, ekf, noise, key, pt, z, ekf.make_reading(key, **{r: float(v) for r, v in z.items()}),
                                              "sign-dependent-reading", P=P)


def sensor_tables_in_different_orders(ctx):
    """fixed stream: the noise table lists the sensors in another insertion order than the sensor table (rotated, reversed), (a) three
    sensors that all have the same reading names with different noise values, (b) sensors with different reading names and sizes.
    The noise of a reading is the one supplied under its sensor's KEY and its own name."""
    import random
    own = random.Random(50572)
    e, n, b, dt = sympy.symbols("east north bias dt")
    same = {"gps_a": {"e_m": e + b, "n_m": n}, "gps_b": {"e_m": e - n, "n_m": 2 * n + e}, "gps_c": {"e_m": 3 * e, "n_m": n - b}}
    same_noise = {"gps_a": {"e_m": F(1, 8), "n_m": F(3, 8)}, "gps_b": {"e_m": F(5, 2), "n_m": F(7, 2)}, "gps_c": {"e_m": F(11), "n_m": F(13)}}
    other = {"pos": {"e_m": e, "n_m": n + b}, "dist": {"d2": e * e + n * n}, "tri": {"t1": e + n, "t2": e - n, "t3": b + 2 * e}}
    other_noise = {"pos": {"e_m": F(1, 4), "n_m": F(3, 4)}, "dist": {"d2": F(5)}, "tri": {"t1": F(9, 8), "t2": F(17, 8), "t3": F(33, 8)}}
    P = [[F(2), F(1, 2), F(-1, 4)], [F(1, 2), F(3, 2), F(1, 4)], [F(-1, 4), F(1, 4), F(1)]]
    pt = {"dt": F(1, 8), "cal": {}, "control": {}, "state": {"east": F(3, 2), "north": F(-5, 4), "bias": F(1, 2)}}
    orders = {"rotated": lambda ks: ks[1:] + ks[:1], "reversed": lambda ks: ks[::-1]}
    for label, sensors, noise in (("same-reading-names", same, same_noise), ("different-reading-names", other, other_noise)):
        for oname, order in orders.items():
            d = gen.Definition(dt, [e, n, b], [], [], {e: e + dt * n, n: n, b: b}, {k: dict(rd) for k, rd in sensors.items()})
            # the very same entries, by key and by reading name, listed in another order (readings reversed as well)
            table = {k: {r: float(noise[k][r]) for r in reversed(list(noise[k]))} for k in order(list(sensors))}
            try:
                ekf = eh.compile_ekf(d, {}, noise, {}, own, cse=(oname == "rotated"), maps={"sensor_noises": table})
            except Exception as ex:
                ctx.fail(f"compile-ekf-raises:{fk.exc_kind(ex)}:noise-table-order", f"compile_ekf refuses sensor noises listed in another order than "
                         f"the sensors: {ex!r}"[:300], {"def": d.describe(), "noise_table_order": list(table)})
                continue
            sub = eh.subs_map(d, pt)
            for key in sensors:
                Lr = sorted(d.sensors[key])
                hx = eh.oracle_vals(d.sensors[key], Lr, sub)
                z = {r: h + F(j + 1, 4) for j, (r, h) in enumerate(zip(Lr, hx))}
                ctx.count(f"noise_table_order:{label}:{oname}")
                one_update_against_oracle(ctx, d, ekf, noise, key, pt, z, ekf.make_reading(key, **{r: float(v) for r, v in z.items()}),
                                          f"noise-table-order:{label}", P=P)


def priors_of_any_element_type(ctx):
    """fixed stream: a covariance is a matrix of values; the array the caller wraps in Covariance.from_data may hold them as int64
    (np.diag([4, 9, 2]), np.array of Python ints), int32, float32, float64 or in Fortran order.  Integer-valued SPD priors (exactly
    representable in every one of those types) spelled each way, sensors of 1, 2 and 3 readings (linear, bilinear, with a calibration),
    one update each, and then a chain: the posterior OBJECT the filter returned is fed back as the prior of the next sensor's update
    (oracle: exact fold of the two Kalman updates)."""
    import random
    own = random.Random(50581)
    a, b, c, k, dt = sympy.symbols("qa qb qc kk dt")
    sensors = {"one": {"r": a - 2 * b + k}, "two": {"u": a * b + c, "w": b - c}, "three": {"f": a + k * c, "g": b, "h": a - b + 3 * c}}
    noise = {"one": {"r": F(3, 2)}, "two": {"u": F(1, 2), "w": F(5, 4)}, "three": {"f": F(2), "g": F(3, 4), "h": F(7, 4)}}
    priors = {"diag": [[F(4), F(0), F(0)], [F(0), F(9), F(0)], [F(0), F(0), F(2)]],
              "full": [[F(4), F(1), F(0)], [F(1), F(9), F(-2)], [F(0), F(-2), F(5)]]}
    spell = {"int64": lambda M: np.array([[int(v) for v in r] for r in M], dtype=np.int64),
             "int32": lambda M: np.array([[int(v) for v in r] for r in M], dtype=np.int32),
             "float32": lambda M: np.array([[float(v) for v in r] for r in M], dtype=np.float32),
             "float64": lambda M: np.array([[float(v) for v in r] for r in M], dtype=np.float64),
             "fortran-float64": lambda M: np.asfortranarray(np.array([[float(v) for v in r] for r in M], dtype=np.float64))}
    cal = {"kk": F(3, 2)}
    d = gen.Definition(dt, [a, b, c], [], [k], {a: a + dt * b, b: b, c: c}, {key: dict(rd) for key, rd in sensors.items()})
    try:
        ekf = eh.compile_ekf(d, {}, noise, cal, own, cse=True)
    except Exception as e:
        ctx.fail(f"compile-ekf-raises:{fk.exc_kind(e)}:prior-element-type", f"compile_ekf refuses a valid definition: {e!r}"[:300], {"def": d.describe()})
        return
    Ls = sorted(s.name for s in d.state)
    pt = {"dt": F(1, 8), "cal": cal, "control": {}, "state": {"qa": F(3, 2), "qb": F(-5, 4), "qc": F(1, 2)}}

    def reading(key, at, off):
        Lr = sorted(d.sensors[key])
        hx = eh.oracle_vals(d.sensors[key], Lr, eh.subs_map(d, at))
        z = {r: F(h) + off * (j + 1) for j, (r, h) in enumerate(zip(Lr, hx))}
        return z, ekf.make_reading(key, **{r: float(v) for r, v in z.items()})

    for pname, P in priors.items():
        # the state names are sorted the same way in the oracle and in the filter's Covariance (both by name); the priors are used as given
        for sname, mk in spell.items():
            for key in sensors:
                for off in (F(0), F(3, 8)):
                    try:
                        cov = ekf.Covariance.from_data(mk(P))
                    except Exception as e:
                        ctx.fail(f"covariance-from-data-raises:{fk.exc_kind(e)}:{sname}", f"Covariance.from_data refuses a valid covariance: {e!r}"[:300],
                                 {"P": eh.mat_json(P), "element_type": sname})
                        continue
                    z, zobj = reading(key, pt, off)
                    ctx.count(f"prior_element_type:{sname}")
                    out = one_update_against_oracle(ctx, d, ekf, noise, key, pt, z, zobj, f"prior-element-type:{sname}", P=P, cov=cov,
                                                    extra={"prior_array": sname, "prior": pname})
                    if out is None or off == 0 or key == "three":
                        continue
                    # chain: what the filter returned is the estimate the next update starts from
                    res, want = out
                    nxt = {"one": "two", "two": "three"}[key]
                    pt2 = dict(pt, state=dict(zip(Ls, want["x"])))
                    z2, zobj2 = reading(nxt, pt2, F(-1, 4))
                    ctx.count(f"prior_element_type_chain:{sname}")
                    one_update_against_oracle(ctx, d, ekf, noise, nxt, pt2, z2, zobj2, f"prior-element-type-chain:{sname}", P=want["P"],
                                              cov=res.covariance, state=res.state, extra={"prior_array": sname, "prior": pname, "after_update_of": key})


def priors_and_noise_of_any_magnitude(ctx):
    """fixed stream: ONE well-conditioned problem (two correlated states, a sensor with two correlated readings, one with three)
    handed over at scales from 1 down to 1e-14 and up to 1e8: the prior, the per-reading noise are multiplied by the scale and the
    innovation by its square root, so the exact gain is the SAME at every scale, the correction scales with sqrt(scale) and the
    posterior with scale. The update is compared RELATIVE to those magnitudes (1e-6 of the largest exact correction / posterior entry) -
    the absolute slack of the ordinary comparison would hide everything below 1e-9."""
    import random
    a, b, dt = sympy.symbols("pa pb dt")
    d = gen.Definition(dt, [a, b], [], [], {a: a + dt * b, b: b},
                       {"pair": {"along": a + b, "across": a - 2 * b}, "triple": {"t1": a, "t2": a + b, "t3": 3 * b - a}})
    base_noise = {"pair": {"along": F(1, 8), "across": F(3, 16)}, "triple": {"t1": F(1, 4), "t2": F(1, 16), "t3": F(5, 16)}}
    baseP = [[F(1), F(3, 4)], [F(3, 4), F(2)]]
    pt = {"dt": F(1, 8), "cal": {}, "control": {}, "state": {"pa": F(3, 2), "pb": F(-1, 2)}}
    Ls = ["pa", "pb"]
    for e in (0, -4, -6, -8, -9, -10, -12, -14, 4, 8):
        sc = F(10) ** e
        rt = F(10) ** (e // 2)
        sensor = {k: {r: v * sc for r, v in rd.items()} for k, rd in base_noise.items()}
        P = [[v * sc for v in row] for row in baseP]
        try:
            ekf = eh.compile_ekf(d, {}, sensor, {}, random.Random(5), cse=bool(e % 4 == 0))
        except Exception as ex:
            ctx.fail(f"compile-ekf-raises:{fk.exc_kind(ex)}:magnitude", repr(ex)[:300], {"def": d.describe(), "scale": f"1e{e}"}); continue
        sub = eh.subs_map(d, pt)
        x = [pt["state"][n] for n in Ls]
        for key in ("pair", "triple"):
            rd = d.sensors[key]
            Lr = sorted(rd)
            hx = eh.oracle_vals(rd, Lr, sub)
            z = {r: h + rt * F(k + 1, 3) * (-1) ** k for k, (r, h) in enumerate(zip(Lr, hx))}
            want = oracle_update(d, rd, sensor[key], sub, P, x, z)
            tag = "magnitude"
            case = {"def": d.describe(), "sensor": key, "noise": {r: str(v) for r, v in sensor[key].items()}, "point": eh.point_json(pt),
                    "P": eh.mat_json(P), "z": {r: core.frac_str(F(v)) for r, v in z.items()}, "stream": tag, "scale": f"1e{e}"}
            ctx.case(case, True); ctx.count(f"stream={tag}")
            try:
                with fk.quiet():
                    res = ekf.sensor_model(eh.state_obj(ekf, pt), eh.cov_obj(ekf, P), sensor_key=key,
                                           sensor_reading=ekf.make_reading(key, **{r: float(v) for r, v in z.items()}))
                gx = fk.by_name(res.state)
                gP = np.asarray(res.covariance.data, dtype=float)
            except Exception as ex:
                ctx.fail(f"sensor-model-raises:{fk.exc_kind(ex)}:{tag}", f"sensor_model raises {ex!r}"[:300], case); continue
            dx_want = [float(w - xi) for w, xi in zip(want["x"], x)]
            dx_got = [float(gx[n]) - float(xi) for n, xi in zip(Ls, x)]
            mag_x = max(abs(v) for v in dx_want)
            # binary64 subtraction of a state of size ~1 loses 1e-16 absolute: allow for it next to the relative slack
            if not all(abs(g - w) <= 1e-6 * mag_x + 1e-15 for g, w in zip(dx_got, dx_want)) and mag_x > 1e-8:
                ctx.fail(f"update-state:{tag}", f"at scale 1e{e} the correction x' - x = {dx_got} differs from K (z - h(x)) = {dx_want}", case)
                continue
            wP = np.array([[float(v) for v in r] for r in want["P"]], dtype=float)
            mag_P = float(np.max(np.abs(wP)))
            if gP.shape != wP.shape or not np.all(np.isfinite(gP)) or float(np.max(np.abs(gP - wP))) > 1e-6 * mag_P:
                ctx.fail(f"update-cov:{tag}", f"at scale 1e{e} the updated covariance {gP.tolist()} differs from P - K H P = {wP.tolist()} "
                         f"by more than 1e-6 of its largest entry"[:600], case)


def run(ctx, focus="C05"):
    audit = core.lean_audit("C05")
    drv = core.Driver()
    pending = []
    ndefs, npts = (12, 3) if ctx.quick else (120, 8)
    for i in range(ndefs):
        d = gen.gen_definition(ctx.rng, n_state=ctx.rng.choice([1, 2, 3, 3]), n_control=ctx.rng.choice([0, 1]),
                               n_calib=ctx.rng.choice([0, 0, 1]), n_sensors=ctx.rng.choice([1, 2]), transcend=(i % 6 == 5), depth=2)
        if i % 4 == 1 and len(d.state) >= 2:
            # a sensor that observes two different states directly (H has one non-zero per row): S is still not diagonal
            # when those states are correlated in the prior
            rn = gen.fresh_names(ctx.rng, 2, {x.name for x in d.all_symbols()} | {r for rd in d.sensors.values() for r in rd})
            d.sensors["direct9"] = {rn[0]: d.state[0], rn[1]: d.state[1]}
        if i % 4 == 3 and len(d.state) >= 2:
            # a sensor whose readings are all linear in each state separately, one of them bilinear in two states: its Jacobian moves with the state
            rn = gen.fresh_names(ctx.rng, 2, {x.name for x in d.all_symbols()} | {r for rd in d.sensors.values() for r in rd})
            d.sensors["bilin9"] = {rn[0]: d.state[0] * d.state[1] + d.state[-1], rn[1]: d.state[0] - 2 * d.state[1]}
        process, sensor = eh.make_noises(ctx.rng, d)
        if "direct9" in sensor:
            sensor["direct9"] = {r: v / 64 for r, v in sensor["direct9"].items()}     # precise sensor: correlation matters
            if i % 8 == 1:
                # a very precise one: the variance given is the variance used, whatever its magnitude
                sensor["direct9"] = {r: F(j + 1, ctx.rng.choice([10 ** 8, 2 ** 23])) for j, r in enumerate(sorted(sensor["direct9"]))}
                ctx.count("tiny_sensor_noise")
        pts = [gen.gen_point(ctx.rng, d) for _ in range(npts)]
        cal = pts[0]["cal"]
        filtering = ctx.rng.choice([None, 1000.0])
        try:
            ekf = eh.compile_ekf(d, process, sensor, cal, ctx.rng, cse=ctx.rng.random() < 0.5, filtering=filtering)
        except Exception as e:
            ctx.fail(f"compile-ekf-raises:{fk.exc_kind(e)}", f"compile_ekf refuses a valid definition: {e!r}"[:300], {"def": d.describe()})
            continue
        Ls, Lc, Lk = eh.names_of(d)
        rational = eh.is_rational(d)
        for pt in pts:
            pt = dict(pt, cal=cal)
            sub = eh.subs_map(d, pt)
            P = eh.spd(ctx.rng, len(Ls))
            x = [pt["state"][n] for n in Ls]
            for key, rd in d.sensors.items():
                Lr = sorted(rd)
                hx = eh.oracle_vals(rd, Lr, sub)
                mode = ctx.rng.choice(["on", "near", "far"])
                off = {"on": lambda: F(0), "near": lambda: gen.dyadic(ctx.rng, -1, 1, 4), "far": lambda: gen.dyadic(ctx.rng, -6, 6)}[mode]
                z = {r: F(h).limit_denominator(2 ** 20) + off() for r, h in zip(Lr, hx)}
                if mode == "on":
                    z = {r: h for r, h in zip(Lr, hx)}
                want = oracle_update(d, rd, sensor[key], sub, P, x, z)
                case = {"def": d.describe(), "sensor": key, "filtering": filtering, "noise": {r: str(v) for r, v in sensor[key].items()},
                        "point": eh.point_json(pt), "P": eh.mat_json(P), "z": {r: core.frac_str(v) for r, v in z.items()}, "mode": mode}
                m = len(Lr)
                ctx.case(case, nontrivial=(m >= 2) or (m != len(Ls)))
                ctx.count(f"readings={m}"); ctx.count(f"mode={mode}"); ctx.count(f"filtering={filtering}")
                st, cv = eh.state_obj(ekf, pt), eh.cov_obj(ekf, P)
                zr = ekf.make_reading(key, **{r: float(v) for r, v in z.items()})
                try:
                    with fk.quiet():
                        res = ekf.sensor_model(st, cv, sensor_key=key, sensor_reading=zr)
                except Exception as e:
                    ctx.fail(f"sensor-model-raises:{fk.exc_kind(e)}:m={'1' if m == 1 else '>=2'}", f"sensor_model raises {e!r}"[:300], case)
                    continue
                tag = f"m={'1' if m == 1 else '>=2'}"
                gx = fk.by_name(res.state)
                sc = max([abs(float(v)) for v in want["x"]] + [1.0])
                S_rec = eh.recorded(ekf.sensor_prediction_uncertainty, key)
                y_rec = eh.recorded(ekf.innovations, key)
                if S_rec.shape != (m, m) or not eh.mat_close(S_rec, want["S"]):
                    ctx.fail(f"update-S:{tag}", f"recorded innovation covariance {S_rec.tolist()} differs from H P H^T + Q = {[[float(v) for v in r] for r in want['S']]}", case)
                elif y_rec.shape != (m, 1) or not eh.mat_close(y_rec, [[v] for v in want["y"]]):
                    ctx.fail(f"update-innovation:{tag}", f"recorded innovation {y_rec.tolist()} differs from z - h(x)", case)
                elif not all(core.close(gx[n], w, scale=sc) for n, w in zip(Ls, want["x"])):
                    ctx.fail(f"update-state:{tag}", f"updated state {gx} differs from x + K (z - h(x)) = {dict(zip(Ls, map(float, want['x'])))}", case)
                elif not eh.mat_close(res.covariance.data, want["P"]):
                    ctx.fail(f"update-cov:{tag}", "updated covariance differs from P - K H P", case)
                else:
                    Pn = np.asarray(res.covariance.data, dtype=float)
                    if mode == "on" and not all(core.close(gx[n], float(w)) for n, w in zip(Ls, x)):
                        ctx.fail("update-fixed-point", "a reading equal to the prediction moved the state", case)
                    if np.max(np.abs(Pn - Pn.T)) > 1e-9 * (1 + np.max(np.abs(Pn))):
                        ctx.fail("update-asymmetric", "posterior covariance is not symmetric", case)
                    prior = eh.to_np(P, (len(Ls), len(Ls)))
                    if np.min(np.linalg.eigvalsh(0.5 * ((prior - Pn) + (prior - Pn).T))) < -1e-9 * (1 + np.max(np.abs(prior))):
                        ctx.fail("update-exceeds-prior", "posterior covariance exceeds the prior", case)
                if rational:
                    idx = drv.add({"op": "update", "ekf": eh.ekf_json(d, process, sensor, filtering), "point": eh.point_json(pt),
                                   "P": eh.mat_json(P), "sensor": key, "z": [[r, core.frac_str(v)] for r, v in z.items()]})
                    pending.append((idx, gx, res.covariance.data.copy(), S_rec.copy(), y_rec.copy(), case))
    if focus == "C05":
        later_filters_and_own_readings(ctx)
        far_from_a_bell_shaped_reading(ctx)
        tol = core.DEFAULT_TOL
        readings_that_depend_on_a_sign(ctx)            # fixed inputs, private random streams: nothing is drawn from ctx.rng
        sensor_tables_in_different_orders(ctx)
        priors_of_any_element_type(ctx)
        priors_and_noise_of_any_magnitude(ctx)
        core.DEFAULT_TOL = tol                         # the comparisons below keep the tolerance they had before these two streams
    ans = drv.run()
    for idx, gx, gP, gS, gy, info in pending:
        a = ans[idx]
        if "ok" not in a:
            if a.get("fatal") in ("undefined", "singular"):
                ctx.count("model_undefined_point"); continue
            ctx.broke("driver:update", a, info); continue
        ctx.traces += 1
        o = a["ok"]
        ms = {n: core.parse_frac(v) for n, v in o["state"].items()}
        sc = max([abs(float(v)) for v in ms.values()] + [1.0])
        okk = (set(ms) == set(gx) and all(core.close(gx[n], ms[n], scale=sc) for n in ms)
               and eh.mat_close(gP, [[core.parse_frac(x) for x in r] for r in o["cov"]])
               and gS.shape == (len(o["S"]), len(o["S"])) and eh.mat_close(gS, [[core.parse_frac(x) for x in r] for r in o["S"]])
               and eh.mat_close(gy, [[core.parse_frac(x)] for x in o["innovation"]]))
        if not okk:
            ctx.broke("correspondence:update (Lean model vs sensor_model)", {"model": o, "impl_state": gx, "impl_cov": gP.tolist(), "impl_S": gS.tolist()}, info)
    return core.finish(ctx, audit, NOTE, RULE, PARTIAL)


def replay(ctx, data):
    import json
    print(json.dumps(data, indent=1)[:3000]); return 0
