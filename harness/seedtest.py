"""Confirm and evaluate seeded changes.
  seedtest.py verify <dir> [...]   : in a scratch worktree: demo passes clean, fails patched; 42 baseline tests pass patched
  seedtest.py detect <dir> [...]   : apply to /repo, run all quick checks, revert; record which checks report a violation
  seedtest.py table                : write seeded/RESULTS.md from seeded/*/meta.json
<dir> holds patch.diff, demo.*, meta.json (as produced by the sub-agents, or a kept seeded/<id>/ directory)."""
from __future__ import annotations

import json
import os
import re
import shutil
import subprocess
import sys
import tempfile
from concurrent.futures import ThreadPoolExecutor

VERIF = os.path.dirname(os.path.dirname(os.path.abspath(__file__)))
REPO = "/repo"
BASE = json.load(open("/root/.vp/BASELINE.json"))["stable_pass"]


def sh(cmd, cwd=None, timeout=1800, env=None):
    r = subprocess.run(cmd, shell=True, cwd=cwd, capture_output=True, text=True, timeout=timeout, env=env)
    return r.returncode, (r.stdout + r.stderr)


def demo_cmd(d, meta):
    cmd = meta.get("demo_cmd") or "PYTHONPATH=py /venv/bin/python demo.py"
    cmd = re.sub(r"\s+\(.*$", "", cmd.strip(), flags=re.S)     # drop trailing prose
    cmd = re.sub(r"\s+#.*$", "", cmd, flags=re.S)               # drop a trailing shell comment
    cmd = re.sub(r"^cd\s+(<[^>]*>|\S+)\s*&&\s*", "", cmd)      # we set the cwd ourselves
    # make the demo path absolute to this directory
    cmd = re.sub(r"(/tmp/wt/\w+_out\d*/\d+/|/verif/seeded/[\w-]+/|(?<![\w/])seeded/[\w-]+/)", d.rstrip("/") + "/", cmd)
    if "demo" in cmd and d not in cmd:
        for f in os.listdir(d):
            if f.startswith("demo"):
                cmd = cmd.replace(f, os.path.join(d, f)) if os.path.join(d, f) not in cmd else cmd
    return cmd


def verify(d):
    d = os.path.abspath(d)
    meta = json.load(open(os.path.join(d, "meta.json")))
    wt = tempfile.mkdtemp(prefix="seedwt_")
    os.rmdir(wt)
    res = {"dir": d}
    try:
        rc, out = sh(f"git -C {REPO} worktree add -q --detach {wt} HEAD")
        if rc:
            return dict(res, error="worktree: " + out[-300:])
        cmd = demo_cmd(d, meta)
        env = dict(os.environ, PYTHONDONTWRITEBYTECODE="1")
        rc_clean, out_clean = sh(cmd, cwd=wt, env=env, timeout=1200)
        rc_apply, out_apply = sh(f"git apply {d}/patch.diff", cwd=wt)
        if rc_apply:
            return dict(res, error="patch does not apply: " + out_apply[-300:])
        rc_pat, out_pat = sh(cmd, cwd=wt, env=env, timeout=1200)
        rc_t, out_t = sh("/venv/bin/python -m pytest -q -p no:cacheprovider --timeout=900 --continue-on-collection-errors "
                         f"--junitxml={wt}/junit.xml py/test/unit experimental/test", cwd=wt, env=env, timeout=2400)
        import xml.etree.ElementTree as ET
        status = {}
        try:
            for tc in ET.parse(f"{wt}/junit.xml").getroot().iter("testcase"):
                status[f"{tc.get('classname')}::{tc.get('name')}"] = not any(ch.tag in ("failure", "error", "skipped") for ch in tc)
        except Exception as e:  # noqa: BLE001
            status = {}
        missing = [b for b in BASE if not status.get(b)]
        res.update(demo_clean_rc=rc_clean, demo_patched_rc=rc_pat, baseline_not_passing=missing,
                   ok=(rc_clean == 0 and rc_pat != 0 and not missing), demo_cmd=cmd,
                   demo_patched_tail=out_pat[-400:], demo_clean_tail=out_clean[-200:] if rc_clean else "")
        return res
    finally:
        sh(f"git -C {REPO} worktree remove --force {wt}")
        shutil.rmtree(wt, ignore_errors=True)


def detect(d, checks=None):
    d = os.path.abspath(d)
    rc, out = sh(f"git -C {REPO} status --porcelain")
    if out.strip():
        raise SystemExit("/repo is not clean")
    rc, out = sh(f"git -C {REPO} apply {d}/patch.diff")
    if rc:
        return {"dir": d, "error": "apply: " + out[-300:]}
    try:
        ids = checks or [c["property_id"] for c in json.load(open(os.path.join(VERIF, "MANIFEST.json")))["checks"]]
        logdir = tempfile.mkdtemp(prefix="seedlogs_")

        def one(pid):
            rc, out = sh(f"./check {pid} --tier quick", cwd=VERIF, timeout=3000)
            vio = [l for l in out.splitlines() if l.startswith("VIOLATION")]
            ident = ""
            if vio:
                m = re.search(r"replay=(\S+)", vio[0])
                try:
                    rp = json.load(open(m.group(1)))
                    ident = ", ".join(sorted({f["identity"].split(":")[0] + ":" + ":".join(f["identity"].split(":")[1:3]) for f in rp["failing_inputs"]})[:4]) \
                        or "; ".join(b["which"][:60] for b in rp["broken"][:2])
                except Exception:  # noqa: BLE001
                    pass
            return pid, rc, ("no-failing-input-found" in vio[0]) if vio else False, ident, out.splitlines()[-1][:160] if out else ""
        with ThreadPoolExecutor(max_workers=int(os.environ.get("SEED_WORKERS", "4"))) as ex:
            rs = list(ex.map(one, ids))
        shutil.rmtree(logdir, ignore_errors=True)
        return {"dir": d, "results": {pid: {"rc": rc, "no_input": ni, "identities": ident, "last": last} for pid, rc, ni, ident, last in rs}}
    finally:
        sh(f"git -C {REPO} checkout -- .")
        sh(f"git -C {REPO} clean -fdq")


def table():
    rows = []
    sd = os.path.join(VERIF, "seeded")
    per_round = {}
    for name in sorted(os.listdir(sd)):
        mp = os.path.join(sd, name, "meta.json")
        if not os.path.exists(mp):
            continue
        m = json.load(open(mp))
        det = m.get("detected_by", {})
        caught = [f"{p}" + (" (proof/correspondence only)" if v.get("no_input") else "") for p, v in sorted(det.items()) if v.get("rc") == 1]
        own = det.get(m["property"], {})
        rnd = m.get("round", 1)
        before = m.get("own_check_before_strengthening")
        if before is None and "detected_by_round1" in m:
            before = m["property"] in (m.get("detected_by_round1") or [])
        st = per_round.setdefault(rnd, {"n": 0, "before": 0, "after": 0, "obsolete": 0, "out_of_scope": 0})
        if m.get("out_of_scope"):
            st["out_of_scope"] += 1
            rows.append((name, str(rnd), m["property"], m["summary"].replace("\n", " ")[:150], m["needs"].replace("\n", " ")[:150],
                         "no", "deliberately not reported: outside what the property states (see meta.json: out_of_scope)", "-"))
            continue
        if m.get("obsolete"):
            st["obsolete"] += 1
            rows.append((name, str(rnd), m["property"], m["summary"].replace("\n", " ")[:150], m["needs"].replace("\n", " ")[:150],
                         "yes" if before else "no", "no longer breaks the property on the current /repo (see meta.json: obsolete)", "-"))
            continue
        st["n"] += 1; st["before"] += bool(before); st["after"] += own.get("rc") == 1
        rows.append((name, str(rnd), m["property"], m["summary"].replace("\n", " ")[:150], m["needs"].replace("\n", " ")[:150],
                     "yes" if before else "no", (own.get("identities") or "")[:90] if own.get("rc") == 1 else "MISSED", ", ".join(caught) or "MISSED"))
    with open(os.path.join(sd, "RESULTS.md"), "w") as f:
        f.write("# Seeded changes and the checks that report them (quick tier)\n\n")
        f.write("| round | changes | own check reported it before strengthening | own check reports it now | made harmless by a later fix of /repo | outside the property as stated |\n|---|---|---|---|---|---|\n")
        for rnd in sorted(per_round):
            st = per_round[rnd]
            f.write(f"| {rnd} | {st['n']} | {st['before']} | {st['after']} | {st['obsolete']} | {st['out_of_scope']} |\n")
        f.write("\n| change | round | breaks | what | needs | own check before strengthening | own check now: failing-input identities | reported by |\n"
                "|---|---|---|---|---|---|---|---|\n")
        for r in rows:
            f.write("| " + " | ".join(x.replace("|", "/") for x in r) + " |\n")
    print(open(os.path.join(sd, "RESULTS.md")).read()[:3000])


if __name__ == "__main__":
    mode, args = sys.argv[1], sys.argv[2:]
    if mode == "verify":
        with ThreadPoolExecutor(max_workers=6) as ex:
            for r in ex.map(verify, args):
                print(json.dumps(r)[:1500])
    elif mode == "detect":
        checks = None
        if args and args[0].startswith("--checks="):
            checks = args[0].split("=", 1)[1].split(",")
            args = args[1:]
        for a in args:
            print(json.dumps(detect(a, checks)), flush=True)
    elif mode == "table":
        table()
