// Recording Impl for formak::runtime::ManagedFilter (the header under test comes from /repo).
// Line protocol on stdin:
//   new <cfg> <t0 bits>                      cfg = 4*K + combo ; combo 0: control+calibration, 1: control only, 2: calibration only, 3: neither
//   tick <out bits> <with_list> <control id> <n> (<ts bits> <id>)*   prints the returned state's call log:  p <dt bits>|s <id>|...
#include <formak/runtime/ManagedFilter.h>

#include <cstdint>
#include <cstring>
#include <iostream>
#include <memory>
#include <sstream>
#include <string>
#include <type_traits>
#include <vector>

static std::string bits(double d) {
  uint64_t u;
  std::memcpy(&u, &d, 8);
  return std::to_string(u);
}
static double unbits(const std::string& s) {
  uint64_t u = std::stoull(s);
  double d;
  std::memcpy(&d, &u, 8);
  return d;
}

// persistent call log: nodes live in a global arena, a state is the index of its last call (O(1) per call,
// earlier snapshots stay valid, no deep recursion on destruction)
struct Node {
  std::string call;
  int prev;
};
static std::vector<Node> ARENA;
struct Log {
  int head = -1;
};
static Log push(const Log& s, std::string call) {
  ARENA.push_back(Node{std::move(call), s.head});
  Log r;
  r.head = static_cast<int>(ARENA.size()) - 1;
  return r;
}
struct Cal {
  int dummy = 0;
};
struct Ctl {
  int id = 0;
};

constexpr double MAXDTS[] = {MAXDT_LIST};

template <int K, bool HasCtl, bool HasCal>
struct Impl {
  struct StampedReadingBase {
    int id = 0;
    // readings numbered 100 and up are REJECTED by this stand-in filter: it hands back the state it was given
    Log sensor_model(const Impl&, const Log& s) const { return id < 100 ? push(s, "s " + std::to_string(id)) : s; }
    Log sensor_model(const Impl&, const Log& s, const Cal&) const { return id < 100 ? push(s, "s " + std::to_string(id)) : s; }
  };
  struct Tag {
    using StateAndVarianceT = Log;
    using CalibrationT = std::conditional_t<HasCal, Cal, std::false_type>;
    using ControlT = std::conditional_t<HasCtl, Ctl, std::false_type>;
    using StampedReadingBaseT = StampedReadingBase;
    static constexpr double max_dt_sec = MAXDTS[K];
  };
  static Log step(double dt, const Log& s, int ctl) {
    return push(s, "p " + bits(dt) + (ctl ? " c" + std::to_string(ctl) : std::string()));
  }
  Log process_model(double dt, const Log& s) const { return step(dt, s, 0); }
  Log process_model(double dt, const Log& s, const Cal&) const { return step(dt, s, 0); }
  Log process_model(double dt, const Log& s, const Ctl& u) const { return step(dt, s, u.id); }
  Log process_model(double dt, const Log& s, const Cal&, const Ctl& u) const { return step(dt, s, u.id); }
};

struct Runner {
  virtual ~Runner() = default;
  virtual Log tick(double out, const std::vector<std::pair<double, int>>& readings, bool with_list, int ctl) = 0;
};

template <int K, bool HasCtl, bool HasCal>
struct RunnerT : Runner {
  using I = Impl<K, HasCtl, HasCal>;
  using MF = formak::runtime::ManagedFilter<I>;
  static_assert(MF::compatible);
  std::unique_ptr<MF> mf;
  explicit RunnerT(double t0) {
    if constexpr (HasCal) {
      mf = std::make_unique<MF>(t0, Log{}, Cal{});
    } else {
      mf = std::make_unique<MF>(t0, Log{});
    }
  }
  Log tick(double out, const std::vector<std::pair<double, int>>& readings, bool with_list, int ctl) override {
    std::vector<typename MF::StampedReading> rs;
    for (const auto& [ts, id] : readings) {
      typename I::StampedReadingBase b;
      b.id = id;
      rs.push_back(MF::wrap(ts, b));
    }
    if constexpr (HasCtl) {
      Ctl u;
      u.id = ctl;
      if (with_list) return mf->tick(out, u, rs);
      return mf->tick(out, u);
    } else {
      if (with_list) return mf->tick(out, rs);
      return mf->tick(out);
    }
  }
};

template <int K>
std::unique_ptr<Runner> makeK(int combo, double t0) {
  switch (combo) {
    case 0: return std::make_unique<RunnerT<K, true, true>>(t0);
    case 1: return std::make_unique<RunnerT<K, true, false>>(t0);
    case 2: return std::make_unique<RunnerT<K, false, true>>(t0);
    default: return std::make_unique<RunnerT<K, false, false>>(t0);
  }
}

template <int... Ks>
std::unique_ptr<Runner> make(int k, int combo, double t0, std::integer_sequence<int, Ks...>) {
  std::unique_ptr<Runner> r;
  ((k == Ks ? (r = makeK<Ks>(combo, t0), 0) : 0), ...);
  return r;
}

int main() {
  std::unique_ptr<Runner> cur;
  std::string line;
  constexpr int N = sizeof(MAXDTS) / sizeof(double);
  while (std::getline(std::cin, line)) {
    std::istringstream in(line);
    std::string op;
    in >> op;
    if (op == "new") {
      int cfg;
      std::string t0;
      in >> cfg >> t0;
      cur = make(cfg / 4, cfg % 4, unbits(t0), std::make_integer_sequence<int, N>{});
      std::cout << "ok" << std::endl;
    } else if (op == "tick") {
      std::string o;
      int n, with_list, ctl;
      in >> o >> with_list >> ctl >> n;
      std::vector<std::pair<double, int>> rs;
      for (int i = 0; i < n; ++i) {
        std::string ts;
        int id;
        in >> ts >> id;
        rs.emplace_back(unbits(ts), id);
      }
      Log r = cur->tick(unbits(o), rs, with_list != 0, ctl);
      std::vector<const std::string*> calls;
      for (int k = r.head; k >= 0; k = ARENA[static_cast<size_t>(k)].prev) calls.push_back(&ARENA[static_cast<size_t>(k)].call);
      std::string outl;
      for (size_t i = calls.size(); i-- > 0;) {
        outl += *calls[i];
        if (i) outl += "|";
      }
      std::cout << outl << std::endl;
    }
  }
  return 0;
}
