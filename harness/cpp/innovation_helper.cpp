// Drives formak::innovation_filtering::edit::removeInnovation<m> (header from /repo) with the Eigen stand-in.
// stdin lines:  m k_bits  y_bits{m}  Sinv_bits{m*m}   ->  prints 0/1
#include <formak/innovation_filtering.h>

#include <cstdint>
#include <cstring>
#include <iostream>
#include <sstream>
#include <string>

static double unbits(const std::string& s) {
  uint64_t u = std::stoull(s);
  double d;
  std::memcpy(&d, &u, 8);
  return d;
}

template <int M>
bool run(double k, std::istringstream& in) {
  Eigen::Matrix<double, M, 1> y;
  Eigen::Matrix<double, M, M> s;
  std::string t;
  for (int i = 0; i < M; ++i) {
    in >> t;
    y(i, 0) = unbits(t);
  }
  for (int i = 0; i < M; ++i)
    for (int j = 0; j < M; ++j) {
      in >> t;
      s(i, j) = unbits(t);
    }
  return formak::innovation_filtering::edit::removeInnovation<M>(k, y, s);
}

int main() {
  std::string line;
  while (std::getline(std::cin, line)) {
    std::istringstream in(line);
    int m;
    std::string kb;
    in >> m >> kb;
    double k = unbits(kb);
    bool r = false;
    switch (m) {
      case 1: r = run<1>(k, in); break;
      case 2: r = run<2>(k, in); break;
      case 3: r = run<3>(k, in); break;
      case 4: r = run<4>(k, in); break;
      case 5: r = run<5>(k, in); break;
      case 6: r = run<6>(k, in); break;
      case 7: r = run<7>(k, in); break;
      case 8: r = run<8>(k, in); break;
      case 18: r = run<18>(k, in); break;
      default: std::cout << "bad-m" << std::endl; continue;
    }
    std::cout << (r ? 1 : 0) << std::endl;
  }
  return 0;
}
