"""Seeded generators (definitions, inputs, renamings) and translators sympy -> model data."""
from __future__ import annotations

import keyword
import re
from fractions import Fraction

import sympy
from sympy import Integer, Rational, Symbol

from core import frac_str

CPP_RESERVED = set("""alignas alignof and and_eq asm auto bitand bitor bool break case catch char class compl concept const
const_cast continue decltype default delete do double dynamic_cast else enum explicit export extern false float for friend goto
if inline int long mutable namespace new noexcept not not_eq nullptr operator or or_eq private protected public register
reinterpret_cast requires return short signed sizeof static static_assert static_cast struct switch template this thread_local
throw true try typedef typeid typename union unsigned using virtual void volatile wchar_t while xor xor_eq
data rows cols state dt control calibration covariance reading input_state input_control input_calibration input_reading
innovation model jacobian State Control Calibration Covariance Options options size abs sqrt pow sin cos tan exp log
NAN INFINITY EOF NULL M_PI""".split())
PY_RESERVED = set(keyword.kwlist) | {"dt", "_data", "E", "I", "N", "O", "Q", "S", "pi", "oo", "zoo", "nan", "beta", "gamma",
                                     "zeta", "lamda", "lambda", "Chi", "Ci", "Ei", "Li", "Si", "LT", "GT", "Ne", "Eq", "Le", "Lt", "Ge", "Gt"}
ALPHABET = "abcxyzABCXYZ_0123456789"


def name_ok(n: str, cpp: bool = True) -> bool:
    if not re.fullmatch(r"[A-Za-z_][A-Za-z0-9_]*", n):
        return False
    if n in PY_RESERVED or re.fullmatch(r"_t\d+", n) or n.startswith("__") or n.endswith("_"):
        return False
    if n.startswith("_"):  # `_data`-style collisions with constructor keywords; C++ reserved `_X`
        return False
    if cpp and (n in CPP_RESERVED):
        return False
    return True


def fresh_names(rng, k: int, taken: set[str] | None = None) -> list[str]:
    """adversarial pool: upper/lower case, digits, underscores, shared prefixes"""
    taken = set(taken or ())
    out = []
    stems = []
    while len(out) < k:
        if stems and rng.random() < 0.5:
            n = rng.choice(stems) + rng.choice(["1", "2", "10", "_1", "_2", "a", "A", "x", "_x"])
        else:
            ln = rng.choice([1, 1, 2, 2, 3])
            n = "".join(rng.choice(ALPHABET) for _ in range(ln))
        if name_ok(n) and n not in taken and n.lower() not in {t.lower() + "" for t in ()}:
            taken.add(n)
            out.append(n)
            stems.append(n)
    return out


def dyadic(rng, lo=-8, hi=8, bits=3) -> Fraction:
    d = 2 ** bits
    return Fraction(rng.randint(lo * d, hi * d), d)


def small_rational(rng) -> Fraction:
    return Fraction(rng.randint(-6, 6), rng.choice([1, 1, 2, 3, 4]))


def gen_expr(rng, syms: list[Symbol], depth: int, shared: list, transcend=False):
    """grammar over + - *, integer powers 2..3, division by 1 + sum of squares (always defined), rationals"""
    if depth <= 0 or rng.random() < 0.15:
        c = rng.random()
        if c < 0.7 and syms:
            return rng.choice(syms)
        q = small_rational(rng)
        return Rational(q.numerator, q.denominator)
    c = rng.random()
    if shared and c < 0.25:
        return rng.choice(shared)
    a = gen_expr(rng, syms, depth - 1, shared, transcend)
    b = gen_expr(rng, syms, depth - 1, shared, transcend)
    if c < 0.45:
        return a + b
    if c < 0.55:
        return a - b
    if c < 0.78:
        return a * b
    if c < 0.86:
        return a ** rng.choice([2, 3])
    if c < 0.94 or not transcend:
        den = 1 + sum(s ** 2 for s in rng.sample(syms, min(len(syms), rng.choice([1, 2]))))
        return a / den
    # forward functions, and inverse∘forward compositions whose simplification is only valid on the principal branch
    f = rng.choice([sympy.sin, sympy.cos, lambda u: sympy.exp(u / (1 + u ** 2)),   # bounded argument: never overflows
                    lambda u: sympy.asin(sympy.sin(u)), lambda u: sympy.acos(sympy.cos(u)), lambda u: sympy.atan(sympy.tan(u))])
    return f(a)


class Definition:
    """A model definition in FormaK's own terms plus bookkeeping for the harness."""

    def __init__(self, dt, state, control, calibration, state_model, sensors, transcend=False):
        self.dt = dt
        self.state = state              # list of Symbol, declaration order
        self.control = control
        self.calibration = calibration
        self.state_model = state_model  # Symbol -> expr
        self.sensors = sensors          # key -> {reading(str) -> expr}
        self.transcend = transcend

    def all_symbols(self):
        return list(self.state) + list(self.control) + list(self.calibration)

    def to_json(self):
        return {
            "dt": self.dt.name,
            "state": [s.name for s in self.state],
            "control": [s.name for s in self.control],
            "calibration": [s.name for s in self.calibration],
            "update": [[s.name, expr_json(self.state_model[s])] for s in self.state],
        }

    def sensors_json(self):
        return {k: [[r, expr_json(e)] for r, e in rd.items()] for k, rd in self.sensors.items()}

    def describe(self):
        return {
            "state": [s.name for s in self.state], "control": [s.name for s in self.control],
            "calibration": [s.name for s in self.calibration],
            "update": {s.name: str(self.state_model[s]) for s in self.state},
            "sensors": {k: {r: str(e) for r, e in rd.items()} for k, rd in self.sensors.items()},
        }

    def sort_differs(self):
        names = [s.name for s in self.state]
        return len(names) >= 2 and names != sorted(names)

    def renamed(self, mapping: dict[str, str]):
        sub = {s: Symbol(mapping[s.name]) for s in self.all_symbols()}
        f = lambda e: sympy.sympify(e).xreplace(sub)
        return Definition(
            self.dt, [sub[s] for s in self.state], [sub[s] for s in self.control], [sub[s] for s in self.calibration],
            {sub[s]: f(e) for s, e in self.state_model.items()},
            {k: {r: f(e) for r, e in rd.items()} for k, rd in self.sensors.items()}, self.transcend)


def gen_definition(rng, n_state=None, n_control=None, n_calib=None, n_sensors=None, transcend=False,
                   depth=3, share=True, max_readings=3) -> Definition:
    ns = n_state if n_state is not None else rng.choice([1, 2, 2, 3, 3, 4, 5])
    nc = n_control if n_control is not None else rng.choice([0, 1, 1, 2, 3])
    nk = n_calib if n_calib is not None else rng.choice([0, 0, 1, 2, 3])
    names = fresh_names(rng, ns + nc + nk)
    rng.shuffle(names)
    state = [Symbol(n) for n in names[:ns]]
    control = [Symbol(n) for n in names[ns:ns + nc]]
    calib = [Symbol(n) for n in names[ns + nc:]]
    dt = Symbol("dt")
    syms = state + control + calib + [dt]
    shared = []
    if share:
        for _ in range(rng.choice([1, 2, 3])):
            e = gen_expr(rng, syms, 2, shared[:], transcend)
            if not sympy.sympify(e).is_number:
                shared.append(e)
    model = {}
    for s in state:
        model[s] = sympy.sympify(gen_expr(rng, syms, depth, shared, transcend))
    # non-degeneracy: every control and calibration symbol occurs in some update expression
    for extra in control + calib:
        if not any(extra in model[s].free_symbols for s in state):
            s = rng.choice(state)
            model[s] = model[s] + Rational(rng.choice([1, 2, 3]), rng.choice([1, 2])) * extra * rng.choice([1, dt])
    nsen = n_sensors if n_sensors is not None else rng.choice([0, 1, 2, 3])
    sensors = {}
    ssyms = state + calib
    for i in range(nsen):
        key = rng.choice(["alt", "gps", "imu", "S", "s"]) + str(i)
        nr = rng.randint(1, max_readings)
        rnames = fresh_names(rng, nr, set(names))
        sensors[key] = {}
        for r in rnames:
            e = sympy.sympify(gen_expr(rng, ssyms, 2, [], transcend))
            if not (e.free_symbols & set(state)):
                e = e + rng.choice(state) * rng.choice([1, 2, 3])
            sensors[key][r] = e
    return Definition(dt, state, control, calib, model, sensors, transcend)


def tame_definition(rng, n_state=None, n_control=1, n_sensors=1, singular=False, n_calib=0, max_readings=2, direct=False):
    """bounded dynamics: each state is a contraction-weighted combination of states plus dt*control plus a bounded rational
    term, so that states and covariances stay bounded along any history (used for histories and data matrices)"""
    n = n_state or rng.choice([2, 3, 4])
    names = fresh_names(rng, n + n_control + n_calib)
    state = [Symbol(x) for x in names[:n]]
    control = [Symbol(x) for x in names[n:n + n_control]]
    calib = [Symbol(x) for x in names[n + n_control:]]
    dt = Symbol("dt")
    model = {}
    for s in state:
        terms = rng.sample(state, rng.choice([1, min(2, n)]))
        w = Rational(1, 2 * len(terms))
        e = sum(w * rng.choice([1, -1]) * t for t in terms)
        for u in control:
            if rng.random() < 0.7:
                e = e + dt * u * Rational(rng.choice([1, 2, 3]), 2)
        if rng.random() < 0.5:
            t = rng.choice(state)
            e = e + Rational(rng.choice([1, 2]), 1) * t / (1 + t ** 2)
        for k in calib:
            if rng.random() < 0.5:
                e = e + k * Rational(1, 4)
        model[s] = sympy.sympify(e)
    for extra in control + calib:
        if not any(extra in model[s].free_symbols for s in state):
            model[state[0]] = model[state[0]] + dt * extra
    if singular and n >= 2:
        model[state[1]] = model[state[0]]
    sensors = {}
    for i in range(n_sensors):
        key = rng.choice(["alt", "gps", "imu"]) + str(i)
        rn = fresh_names(rng, rng.randint(1, max_readings), set(names))
        sensors[key] = {}
        for r in rn:
            a, b = rng.choice(state), rng.choice(state)
            sensors[key][r] = sympy.sympify(rng.choice([1, 2]) * a + rng.choice([0, 1]) * b - rng.choice([0, 1]) / (1 + a ** 2))
    if direct and n >= 2:
        rn = fresh_names(rng, 2, set(names) | {r for rd in sensors.values() for r in rd})
        sensors["direct9"] = {rn[0]: state[0], rn[1]: state[-1]}
    return Definition(dt, state, control, calib, model, sensors)


def control_coefficient_definition(rng, n_state=None, n_control=None):
    """linear in the states with coefficients that depend on the controls: the process Jacobian depends on the control but
    not on the state (a filter that wrongly treats such a Jacobian as constant goes unnoticed on state-dependent models)"""
    n = n_state or rng.choice([2, 3])
    nc = n_control or rng.choice([1, 2])
    names = fresh_names(rng, n + nc)
    state = [Symbol(x) for x in names[:n]]
    control = [Symbol(x) for x in names[n:]]
    dt = Symbol("dt")
    model = {}
    for s in state:
        e = 0
        for t in rng.sample(state, rng.choice([1, min(2, n)])):
            e = e + (Rational(rng.choice([1, -1, 2]), 4) + Rational(rng.choice([1, 2]), 4) * rng.choice(control) * dt) * t
        e = e + dt * rng.choice(control)
        model[s] = sympy.sympify(e)
    for u in control:
        if not any(u in model[s].free_symbols for s in state):
            model[state[0]] = model[state[0]] + dt * u * state[-1]
    return Definition(dt, state, control, [], model, {})


def force_inverse_composition(rng, d: Definition):
    """make sure a definition of the transcendental stream contains an inverse∘forward composition in an update and in a
    reading (a simplifier that cancels it is only right on the principal branch)"""
    pairs = [(sympy.asin, sympy.sin), (sympy.acos, sympy.cos), (sympy.atan, sympy.tan)]
    s = rng.choice(d.state)
    inv, fwd = rng.choice(pairs)
    arg = s + rng.choice(d.state) * Rational(1, 2) + d.dt
    # once on its own, once multiplied by another symbol (so that a DERIVATIVE still contains the composition)
    d.state_model[s] = d.state_model[s] + inv(fwd(arg)) + rng.choice(d.state) * inv(fwd(s + 1))
    for rd in d.sensors.values():
        r = rng.choice(sorted(rd))
        inv, fwd = rng.choice(pairs)
        rd[r] = rd[r] + inv(fwd(rng.choice(d.state) + 1)) * (1 + rng.choice(d.state))
        break
    d.transcend = True
    return d


def many_temporaries_definition(rng, n=12, transcend=False):
    """a model large enough that common-subexpression elimination introduces MORE THAN TEN temporaries in one block (names _t10, _t11,
    ... sort before _t2 as strings): every state shares a distinct sub-term with its neighbour, used in several places"""
    names = sorted(fresh_names(rng, n + 1))
    state = [Symbol(x) for x in names[:n]]
    u = Symbol(names[n])
    dt = Symbol("dt")
    model = {}
    for i, s in enumerate(state):
        a, b = state[i], state[(i + 1) % n]
        t = a + Rational(i + 2, 3) * b              # distinct shared term per state
        w = 1 + t ** 2
        model[s] = s + dt * t / w + Rational(1, 8) * t * (u if i % 4 == 0 else 1) + (sympy.sin(t) * dt if transcend and i % 3 == 0 else 0)
    sensors = {"wide9": {"ra": state[0] + state[1] * state[2], "rb": (state[3] + 2 * state[4]) / (1 + (state[3] + 2 * state[4]) ** 2)}}
    rng.shuffle(state)
    return Definition(dt, state, [u], [], {k: sympy.sympify(v) for k, v in model.items()}, sensors, transcend)


def force_sign_sensitive(rng, d: Definition):
    """make sure a definition contains terms whose value depends on the SIGN of a sub-expression that can be negative: t*sqrt(t^2)
    with a shared t, and atan2 with a strictly negative second argument (rewriting them as if everything were positive - sqrt(t^2) -> t,
    atan2(y, x) -> atan(y/x) - is wrong on half of the inputs)"""
    s1, s2 = rng.choice(d.state), rng.choice(d.state)
    t = s1 - 2 * s2 + Rational(1, 3)
    tgt = rng.choice(d.state)
    d.state_model[tgt] = d.state_model[tgt] + t * sympy.sqrt(t ** 2) * d.dt
    for rd in d.sensors.values():
        r = rng.choice(sorted(rd))
        rd[r] = rd[r] + sympy.atan2(rng.choice(d.state), -(1 + rng.choice(d.state) ** 2))
        r2 = rng.choice(sorted(rd))
        rd[r2] = rd[r2] + t * sympy.sqrt(t ** 2)
        break
    d.transcend = True
    return d


def unsort_readings(d: Definition):
    """declare the readings of every sensor (and the sensors) in reverse-sorted order, so that dict insertion order differs
    from name order wherever there are two or more"""
    d.sensors = {k: {r: d.sensors[k][r] for r in sorted(d.sensors[k], reverse=True)} for k in sorted(d.sensors, reverse=True)}
    return d


def paired_powers_definition(rng):
    """expressions that differ only by an integer -1 versus -2 (inverse range / inverse square, x - v*dt / x - 2*v*dt):
    structurally almost identical statements inside one generation"""
    names = fresh_names(rng, 4)
    r, v, x, u = (Symbol(n) for n in names)
    dt = Symbol("dt")
    model = {r: r + dt * v + 1 / (1 + r ** 2), v: v - dt * u, x: x - v * dt + 1 / (1 + r ** 2) ** 2}
    sensors = {"range0": {"inv_r": 1 / (2 + r ** 2), "inv_r2": 1 / (2 + r ** 2) ** 2},
               "lag1": {"a_1": x - v, "a_2": x - 2 * v}}
    return Definition(dt, [r, v, x], [u], [], {k: sympy.sympify(e) for k, e in model.items()}, sensors)


def gen_point(rng, d: Definition):
    return {
        # "for all dt": includes dt = 0 (no time passes) now and then
        "dt": Fraction(0) if rng.random() < 0.12 else Fraction(rng.randint(1, 16), 32),
        "state": {s.name: dyadic(rng) for s in d.state},
        "control": {s.name: dyadic(rng) for s in d.control},
        "cal": {s.name: dyadic(rng) for s in d.calibration},
    }


def gen_renaming(rng, d: Definition) -> dict[str, str]:
    """bijective renaming to fresh identifier-safe names whose sort order differs"""
    old = [s.name for s in d.all_symbols()]
    for _ in range(50):
        new = fresh_names(rng, len(old), set(old))
        m = dict(zip(old, new))
        st = [s.name for s in d.state]
        if len(st) < 2:
            return m
        order_old = sorted(range(len(st)), key=lambda i: st[i])
        order_new = sorted(range(len(st)), key=lambda i: m[st[i]])
        if order_old != order_new:
            return m
    return m


# ---------------------------------------------------------------- sympy -> Expr JSON

class Untranslatable(Exception):
    pass


FN = {"sin", "cos", "tan", "exp", "log", "asin", "acos", "atan", "sinh", "cosh", "tanh", "Abs"}


def expr_json(e):
    e = sympy.sympify(e)
    if isinstance(e, Symbol):
        return ["var", e.name]
    if e.is_Integer:
        return ["num", str(int(e))]
    if e.is_Rational:
        return ["num", f"{e.p}/{e.q}"]
    if e.is_Float:
        return ["num", frac_str(Fraction(float(e)))]
    if e is sympy.E:
        return ["app", "exp", ["num", "1"]]
    if e is sympy.pi:
        return ["mul", ["num", "4"], ["app", "atan", ["num", "1"]]]
    if e.is_Add:
        args = [expr_json(a) for a in e.args]
        out = args[0]
        for a in args[1:]:
            out = ["add", out, a]
        return out
    if e.is_Mul:
        args = [expr_json(a) for a in e.args]
        out = args[0]
        for a in args[1:]:
            out = ["mul", out, a]
        return out
    if e.is_Pow:
        b, x = e.args
        if x.is_Integer:
            return ["pow", expr_json(b), int(x)]
        if x == Rational(1, 2):
            return ["app", "sqrt", expr_json(b)]
        if x == Rational(-1, 2):
            return ["div", ["num", "1"], ["app", "sqrt", expr_json(b)]]
        raise Untranslatable(str(e))
    if e.func.__name__ in FN and len(e.args) == 1:
        nm = {"Abs": "abs"}.get(e.func.__name__, e.func.__name__)
        return ["app", nm, expr_json(e.args[0])]
    raise Untranslatable(str(e))


def is_rational_fragment(j) -> bool:
    if j[0] == "app":
        return False
    if j[0] in ("var", "num"):
        return True
    return all(is_rational_fragment(a) for a in j[1:] if isinstance(a, list))


# ---------------------------------------------------------------- lambdify-seam recorder

class LambdifyRecorder:
    """Replaces formak.python.lambdify: every compiled statement's function object carries the (args, expr)
    it was generated from, so the post-CSE program of any BasicBlock can be rebuilt exactly as handed to sympy."""

    def __init__(self):
        import formak.python as fp
        self.fp = fp
        self.orig = fp.lambdify
        self.count = 0

    def __enter__(self):
        def rec(args, expr, **kw):
            fn = self.orig(args, expr, **kw)
            fn._verif_record = ([str(a) for a in args], expr)
            self.count += 1
            return fn
        self.fp.lambdify = rec
        return self

    def __exit__(self, *a):
        self.fp.lambdify = self.orig


def program_of_block(block) -> dict:
    """Program (args, prefix, body) of a live BasicBlock compiled under LambdifyRecorder."""
    args = [str(a) for a in block._arglist]
    temps = [str(t) for t, _ in block._prefix]
    pre = []
    for i, (t, fn) in enumerate(block._prefix):
        a, e = fn._verif_record
        if a != args + temps[:i]:
            raise Untranslatable(f"prefix {i} compiled against {a}, expected {args + temps[:i]}")
        pre.append([str(t), e])
    body = []
    for fn in block._body:
        a, e = fn._verif_record
        if a != args + temps:
            raise Untranslatable(f"body compiled against {a}, expected {args + temps}")
        body.append(e)
    return {"args": args, "pre": pre, "body": body}


def program_json(prog) -> dict:
    return {"args": prog["args"], "pre": [[t, expr_json(e)] for t, e in prog["pre"]],
            "body": [expr_json(e) for e in prog["body"]]}
