"""Shared machinery: Lean build/audit/driver, evidence, violations, known findings, PRNG."""
from __future__ import annotations

import fcntl
import hashlib
import json
import os
import random
import re
import shutil
import subprocess
import sys
import tempfile
import time
from fractions import Fraction

VERIF = os.path.dirname(os.path.dirname(os.path.abspath(__file__)))
LEAN_DIR = os.path.join(VERIF, "lean")
REPO = os.environ.get("FORMAK_REPO", "/repo")
ACCEPTED_AXIOMS = {"propext", "Classical.choice", "Quot.sound"}
FORBIDDEN = re.compile(
    r"\bsorry\b|\badmit\b|^\s*axiom\s|native_decide|bv_decide|implemented_by|\bunsafe\s|maxHeartbeats\s+0"
)

TRUSTED_BASE_COMMON = [
    "Lean 4.33 kernel; axioms accepted: propext, Classical.choice, Quot.sound (audited per theorem on every run)",
    "Lean interpreter (lake env lean --run Driver.lean) executing the model's definitions for the correspondence",
    "the Python harness: generators, canonicalisation, tolerances, translators from live objects to model data",
    "modelled, not verified: sympy (cse/simplify/diff/printers/lambdify), numpy/LAPACK, libm, g++, jinja2",
]


class Timeout(Exception):
    pass


class ImplementationHangs(Exception):
    """a binary built from the implementation's own runtime did not finish, within a generous limit, a batch of inputs the unchanged
    implementation finishes in well under a second: a failing input (carried in `case`), not a timeout of the check"""

    def __init__(self, what, case):
        super().__init__(what)
        self.what, self.case = what, case


def sha(obj) -> str:
    return hashlib.sha256(json.dumps(obj, sort_keys=True, default=str).encode()).hexdigest()[:16]


def lean_source_hash() -> str:
    """hash of every Lean source, including the translator-generated files (they are rewritten from /repo on every run
    of the checks that own them, so a change in /repo that changes them invalidates the cached audit)"""
    h = hashlib.sha256()
    for root, _dirs, files in sorted(os.walk(LEAN_DIR)):
        if ".lake" in root:
            continue
        for f in sorted(files):
            if f.endswith(".lean") or f.endswith(".toml"):
                p = os.path.join(root, f)
                h.update(p.encode())
                h.update(open(p, "rb").read())
    return h.hexdigest()[:20]


class LeanLock:
    def __enter__(self):
        self.f = open(os.path.join(LEAN_DIR, ".build.lock"), "w")
        fcntl.flock(self.f, fcntl.LOCK_EX)
        return self

    def __exit__(self, *a):
        fcntl.flock(self.f, fcntl.LOCK_UN)
        self.f.close()


def strip_comments(src: str) -> str:
    src = re.sub(r"/-.*?-/", "", src, flags=re.S)
    src = re.sub(r"--.*", "", src)
    return src


def grep_forbidden() -> list[str]:
    hits = []
    for root, _d, files in os.walk(os.path.join(LEAN_DIR, "FormakVerif")):
        for f in files:
            if f.endswith(".lean"):
                p = os.path.join(root, f)
                for i, line in enumerate(strip_comments(open(p).read()).splitlines()):
                    if FORBIDDEN.search(line):
                        hits.append(f"{p}:{i+1}:{line.strip()}")
    return hits


AUDIT_TEMPLATE = """import Lean
import FormakVerif.Properties.{pid}
open Lean Elab Command in
#eval show CommandElabM Unit from do
  let env ← getEnv
  let pref : Name := `FormakVerif.{pid}
  let mut out : Array Json := #[]
  for (n, ci) in env.constants.toList do
    if pref.isPrefixOf n && !n.isInternalDetail then
      match ci with
      | .thmInfo _ =>
        let ax ← liftCoreM (collectAxioms n)
        out := out.push (Json.mkObj [("name", toString n), ("axioms", Json.arr (ax.map (fun a => Json.str (toString a))))])
      | _ => pure ()
  IO.println (Json.arr out).compress
"""


def lean_build(targets: list[str], timeout=1500) -> tuple[bool, str]:
    with LeanLock():
        r = subprocess.run(
            ["lake", "build"] + targets, cwd=LEAN_DIR, capture_output=True, text=True, timeout=timeout
        )
    return r.returncode == 0, (r.stdout + r.stderr)[-4000:]


def lean_audit(pid: str) -> dict:
    """Build the property module and list its theorems with their axioms.
    Cached on the hash of the hand-written Lean sources (they do not depend on /repo)."""
    cache_dir = os.path.join(LEAN_DIR, ".lake", "audit")
    os.makedirs(cache_dir, exist_ok=True)
    key = lean_source_hash()
    cpath = os.path.join(cache_dir, f"{pid}.{key}.json")
    if os.path.exists(cpath):
        res = json.load(open(cpath))
        res["cached"] = True
        return res
    t0 = time.time()
    ok, log = lean_build([f"FormakVerif.Properties.{pid}", "FormakVerif"])
    res = {"pid": pid, "built": ok, "log": "" if ok else log, "theorems": [], "forbidden": grep_forbidden()}
    if ok:
        with tempfile.NamedTemporaryFile("w", suffix=".lean", delete=False) as f:
            f.write(AUDIT_TEMPLATE.format(pid=pid))
            tmp = f.name
        try:
            with LeanLock():
                r = subprocess.run(["lake", "env", "lean", tmp], cwd=LEAN_DIR, capture_output=True, text=True, timeout=900)
            line = [l for l in r.stdout.splitlines() if l.startswith("[")]
            if r.returncode == 0 and line:
                res["theorems"] = json.loads(line[-1])
            else:
                res["built"] = False
                res["log"] = (r.stdout + r.stderr)[-3000:]
        finally:
            os.unlink(tmp)
    res["audit_wall_s"] = round(time.time() - t0, 2)
    if res["built"]:
        json.dump(res, open(cpath, "w"))
    res["cached"] = False
    return res


class Driver:
    """Batch use of the Lean line-protocol driver."""

    def __init__(self):
        self.requests: list[dict] = []

    def add(self, req: dict) -> int:
        self.requests.append(req)
        return len(self.requests) - 1

    def run(self, timeout=1200) -> list[dict]:
        if not self.requests:
            return []
        ok, log = lean_build(["FormakVerif"])  # root imports the Mathlib-free model only
        if not ok:
            raise RuntimeError("lean model build failed:\n" + log)
        data = "\n".join(json.dumps(r) for r in self.requests) + "\n"
        r = subprocess.run(
            ["lake", "env", "lean", "--run", "Driver.lean"], cwd=LEAN_DIR, input=data,
            capture_output=True, text=True, timeout=timeout,
        )
        lines = [l for l in r.stdout.splitlines() if l.strip()]
        if r.returncode != 0 or len(lines) != len(self.requests):
            raise RuntimeError(f"driver failed rc={r.returncode} got {len(lines)}/{len(self.requests)} answers\n{r.stderr[-2000:]}")
        out = [json.loads(l) for l in lines]
        self.requests = []
        return out


def frac_str(q) -> str:
    q = Fraction(q)
    return str(q.numerator) if q.denominator == 1 else f"{q.numerator}/{q.denominator}"


def parse_frac(s: str) -> Fraction:
    return Fraction(s)


DEFAULT_TOL = 1e-9


def set_tolerance(transcendental: bool):
    """rational-fragment definitions: 1e-9 relative; definitions with transcendental functions (cancellation inside
    e.g. d/du asin(sin u) is legitimate rounding): 1e-6 relative"""
    global DEFAULT_TOL
    DEFAULT_TOL = 1e-6 if transcendental else 1e-9


def close(v: float, r, scale=1.0, tol=None) -> bool:
    """implementation value v (binary64) against exact model value r"""
    tol = DEFAULT_TOL if tol is None else tol
    try:
        v = float(v)
    except Exception:
        return False
    if v != v or v in (float("inf"), float("-inf")):
        return False
    r = float(r)
    return abs(v - r) <= tol * (1.0 + abs(scale) + abs(r))


class Ctx:
    def __init__(self, pid: str, tier: str, seed: int):
        self.pid = pid
        self.tier = tier
        self.seed = seed
        self.rng = random.Random(f"{pid}:{seed}")
        self.t0 = time.time()
        self.scratch = tempfile.mkdtemp(prefix=f"formak_verif_{pid}_")
        self.evaluations = 0
        self.nontrivial: set[str] = set()
        self.samples: list = []
        self.traces = 0
        self.dist: dict[str, int] = {}
        self.failures: list[dict] = []      # property fails on the implementation (failing input)
        self.broken: list[dict] = []        # proof / correspondence no longer checks (no failing input yet)
        self.translator_obligations = 0
        self.translator_discharged = 0
        self.notes: list[str] = []
        self.extra: dict = {}

    @property
    def quick(self):
        return self.tier == "quick"

    def count(self, key: str, n: int = 1):
        self.dist[key] = self.dist.get(key, 0) + n

    def case(self, case_obj, nontrivial: bool):
        self.evaluations += 1
        if nontrivial:
            self.nontrivial.add(sha(case_obj))
        if len(self.samples) < 3:
            self.samples.append(case_obj)

    def fail(self, identity: str, what: str, case):
        self.failures.append({"identity": identity, "what": what, "case": case})

    def broke(self, which: str, detail, case=None):
        self.broken.append({"which": which, "detail": detail, "case": case})

    def cleanup(self):
        shutil.rmtree(self.scratch, ignore_errors=True)


def load_known() -> list[dict]:
    p = os.path.join(VERIF, "known_findings.json")
    if os.path.exists(p):
        return json.load(open(p)).get("findings", [])
    return []


def finish(ctx: Ctx, audit: dict, level_note: list[str], rule: str, partial: list[str] | None = None) -> int:
    """Write evidence, print VIOLATION / KNOWN-FINDING lines, return the exit code."""
    theorems = audit.get("theorems", [])
    recheck = None
    if ctx.tier == "thorough" and audit.get("built"):
        # independent re-check of the compiled property module (and everything it imports from this project)
        t1 = time.time()
        try:
            with LeanLock():
                r = subprocess.run(["lake", "env", "leanchecker", f"FormakVerif.Properties.{ctx.pid}"], cwd=LEAN_DIR,
                                   capture_output=True, text=True, timeout=1800)
            recheck = {"ok": r.returncode == 0, "wall_s": round(time.time() - t1, 1), "log": (r.stdout + r.stderr)[-500:]}
        except Exception as e:  # noqa: BLE001
            recheck = {"ok": False, "log": repr(e)}
        if not recheck["ok"]:
            ctx.broke("leanchecker", recheck)
    bad_axioms = [t for t in theorems if not set(t["axioms"]) <= ACCEPTED_AXIOMS]
    proof_ok = audit.get("built", False) and theorems and not bad_axioms and not audit.get("forbidden")
    if not proof_ok:
        ctx.broke("lean-proof", {"built": audit.get("built"), "log": audit.get("log", "")[-1500:],
                                 "bad_axioms": bad_axioms, "forbidden": audit.get("forbidden")})
    obligations = len(theorems) + ctx.translator_obligations
    discharged = (len(theorems) - len(bad_axioms) if audit.get("built") else 0) + ctx.translator_discharged

    known = [k for k in load_known() if k.get("property") == ctx.pid and k.get("status") == "known"]
    known_ids = {k["identity"]: k for k in known}
    new_failures, known_hits = [], {}
    for f in ctx.failures:
        if f["identity"] in known_ids:
            known_hits[f["identity"]] = known_ids[f["identity"]]
        else:
            new_failures.append(f)
    lines = []
    for ident, k in known_hits.items():
        lines.append(f"KNOWN-FINDING: property={ctx.pid} {k['what']} [{ident}]")
    rc = 0
    replay_path = None
    if new_failures or ctx.broken:
        os.makedirs(os.path.join(VERIF, "replays"), exist_ok=True)
        replay_path = os.path.join(VERIF, "replays", f"{ctx.pid}_{ctx.tier}_{ctx.seed}.json")
        json.dump({"property": ctx.pid, "seed": ctx.seed, "tier": ctx.tier,
                   "failing_inputs": new_failures[:20], "broken": ctx.broken[:20]},
                  open(replay_path, "w"), indent=1, default=str)
        if new_failures:
            lines.append(f"VIOLATION property={ctx.pid} replay={replay_path}")
        else:
            lines.append(f"VIOLATION property={ctx.pid} replay={replay_path} no-failing-input-found")
        rc = 1
    wall = time.time() - ctx.t0
    ev = {
        "property_id": ctx.pid,
        "tier": ctx.tier,
        "seed": ctx.seed,
        "level": "proof",
        "coverage": {
            "obligations": obligations,
            "discharged": discharged,
            "checker_cmd": f"cd lean && lake build FormakVerif.Properties.{ctx.pid} && lake env lean <audit:{ctx.pid}> (collectAxioms on every theorem in namespace FormakVerif.{ctx.pid}); "
                           f"translator/correspondence: ./check {ctx.pid} --tier {ctx.tier}",
            "trusted_base": TRUSTED_BASE_COMMON + level_note,
            "theorems": [{"name": t["name"], "axioms": t["axioms"]} for t in theorems],
            "translator_obligations": ctx.translator_obligations,
            "translator_discharged": ctx.translator_discharged,
            "evaluations": ctx.evaluations,
            "distinct_nontrivial": len(ctx.nontrivial),
            "rule": rule,
            "samples": ctx.samples[:3],
            "traces_validated_against_impl": ctx.traces,
            "input_distribution": ctx.dist,
            "partial": partial or [],
            "audit_cached": audit.get("cached", False),
            "leanchecker": recheck,
            "known_findings_hit": sorted(known_hits),
            "broken": [b["which"] for b in ctx.broken],
            **ctx.extra,
        },
        "assumptions": level_note + ctx.notes,
        "wall_s": round(wall, 2),
        "violations": len(new_failures) + (1 if ctx.broken and not new_failures else 0),
    }
    os.makedirs(os.path.join(VERIF, "evidence"), exist_ok=True)
    json.dump(ev, open(os.path.join(VERIF, "evidence", f"{ctx.pid}.json"), "w"), indent=1, default=str)
    for l in lines:
        print(l)
    print(f"[{ctx.pid}] tier={ctx.tier} seed={ctx.seed} theorems={len(theorems)} obligations={obligations} discharged={discharged} "
          f"evaluations={ctx.evaluations} nontrivial={len(ctx.nontrivial)} failures={len(new_failures)} known={len(known_hits)} broken={len(ctx.broken)} wall={wall:.1f}s")
    sys.stdout.flush()
    return rc
