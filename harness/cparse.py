"""Translator: function bodies of FormaK-generated C++ -> model Programs (args, temporaries, targets).
Parses the subset of C that sympy's ccode emits: + - * / unary minus, parentheses, numeric literals, calls
(pow, sqrt, sin, ...), accessor chains `state.state.X()`, `state.X()`, `calibration.X()`, `control.X()`, `dt`, `_tK`."""
from __future__ import annotations

import re
from fractions import Fraction

TOKEN = re.compile(r"\s*(?:(\d+\.\d*(?:[eE][-+]?\d+)?|\d+(?:[eE][-+]?\d+)?|\.\d+)|([A-Za-z_][A-Za-z_0-9]*(?:\.[A-Za-z_][A-Za-z_0-9]*)*)|(.))")


class CParseError(Exception):
    pass


def tokenize(s):
    out = []
    pos = 0
    s = s.strip()
    while pos < len(s):
        m = TOKEN.match(s, pos)
        if not m:
            raise CParseError(f"cannot tokenize at {s[pos:pos+20]!r}")
        pos = m.end()
        if m.group(1) is not None:
            out.append(("num", m.group(1)))
        elif m.group(2) is not None:
            out.append(("id", m.group(2)))
        elif m.group(3).strip():
            out.append(("op", m.group(3)))
    return out


FUNCS = {"sin", "cos", "tan", "exp", "log", "sqrt", "asin", "acos", "atan", "sinh", "cosh", "tanh", "fabs"}


class Parser:
    def __init__(self, toks):
        self.t = toks
        self.i = 0

    def peek(self):
        return self.t[self.i] if self.i < len(self.t) else (None, None)

    def eat(self, kind=None, val=None):
        k, v = self.peek()
        if (kind and k != kind) or (val and v != val):
            raise CParseError(f"expected {kind} {val}, got {k} {v}")
        self.i += 1
        return v

    def expr(self):
        node = self.term()
        while self.peek() in (("op", "+"), ("op", "-")):
            op = self.eat()
            rhs = self.term()
            node = ["add", node, rhs] if op == "+" else ["add", node, ["neg", rhs]]
        return node

    def term(self):
        node = self.unary()
        while self.peek() in (("op", "*"), ("op", "/")):
            op = self.eat()
            rhs = self.unary()
            node = ["mul", node, rhs] if op == "*" else ["div", node, rhs]
        return node

    def unary(self):
        if self.peek() == ("op", "-"):
            self.eat()
            return ["neg", self.unary()]
        if self.peek() == ("op", "+"):
            self.eat()
            return self.unary()
        return self.atom()

    def atom(self):
        k, v = self.peek()
        if k == "num":
            self.eat()
            return ["num", _frac_str(Fraction(v))]
        if k == "op" and v == "(":
            self.eat()
            e = self.expr()
            self.eat("op", ")")
            return e
        if k == "id":
            self.eat()
            if self.peek() == ("op", "("):
                self.eat()
                args = []
                if self.peek() != ("op", ")"):
                    args.append(self.expr())
                    while self.peek() == ("op", ","):
                        self.eat()
                        args.append(self.expr())
                self.eat("op", ")")
                if "." in v or not args and v not in FUNCS and v != "pow":
                    # accessor call  state.state.X()
                    if args:
                        raise CParseError(f"accessor with arguments: {v}")
                    return ["var", v.split(".")[-1] + "@" + ".".join(v.split(".")[:-1])]
                if v == "pow":
                    if len(args) != 2:
                        raise CParseError("pow arity")
                    b, e = args
                    ev = _const_value(e)
                    if ev is not None and ev.denominator == 1:
                        return ["pow", b, int(ev)]
                    if ev == Fraction(1, 2):
                        return ["app", "sqrt", b]
                    if ev == Fraction(-1, 2):
                        return ["div", ["num", "1"], ["app", "sqrt", b]]
                    raise CParseError(f"pow with exponent {e}")
                if v in FUNCS and len(args) == 1:
                    return ["app", {"fabs": "abs"}.get(v, v), args[0]]
                raise CParseError(f"unknown call {v}")
            return ["var", v]
        raise CParseError(f"unexpected token {k} {v}")


def _frac_str(q):
    return str(q.numerator) if q.denominator == 1 else f"{q.numerator}/{q.denominator}"


def _const_value(e):
    if e[0] == "num":
        return Fraction(e[1])
    if e[0] == "neg":
        v = _const_value(e[1])
        return None if v is None else -v
    if e[0] == "div":
        a, b = _const_value(e[1]), _const_value(e[2])
        return None if a is None or b is None or b == 0 else a / b
    return None


def parse_expr(s):
    p = Parser(tokenize(s))
    e = p.expr()
    if p.i != len(p.t):
        raise CParseError(f"trailing tokens in {s!r}")
    return e


FUNC_HEAD = re.compile(r"^\s*(?:static\s+)?(?:typename\s+)?([\w:<>, ]+?)\s+([\w:]+)\s*\($")


def function_bodies(source_text):
    """name -> list of statement strings (between the `) {` / `) const {` line and the closing `  }` at function indent)"""
    lines = source_text.split("\n")
    out = {}
    i = 0
    while i < len(lines):
        m = re.match(r"^  (?:typename\s+)?([\w:<>, ]+?)\s+([\w:]+)\($", lines[i])
        if m:
            fname = m.group(2)
            j = i + 1
            while j < len(lines) and not re.match(r"^  \)\s*(const\s*)?\{$", lines[j]):
                j += 1
            k = j + 1
            body = []
            while k < len(lines) and lines[k] != "  }":
                body.append(lines[k])
                k += 1
            out[fname] = body
            i = k
        i += 1
    return out


ASSIGN = re.compile(r"^\s*(double\s+)?([A-Za-z_][\w]*(?:\(\s*\d+\s*,\s*\d+\s*\))?)\s*=\s*(.*);\s*$")


def body_program(body_lines, env_prefix_ok=("state.state", "state", "calibration", "control")):
    """-> {"pre": [[tmp, expr]], "targets": [[target, expr]], "return": str, "decls": [...]}.
    Variables are renamed: accessor `state.state.X()` -> `X`; `dt` stays; temporaries stay."""
    pre, targets, ret, other = [], [], None, []
    order = []   # names assigned, in order, for the single-assignment / ordering scan
    for ln in body_lines:
        s = ln.strip()
        if not s or s.startswith("//"):
            continue
        if s.startswith("return"):
            ret = s
            continue
        m = ASSIGN.match(ln)
        if not m:
            other.append(s)
            continue
        is_decl, target, rhs = bool(m.group(1)), m.group(2).replace(" ", ""), m.group(3)
        e = parse_expr(rhs)
        e = _strip_access(e, env_prefix_ok)
        order.append(target)
        if is_decl and re.fullmatch(r"_t\d+", target):
            pre.append([target, e])
        else:
            targets.append([target, e, is_decl])
    return {"pre": pre, "targets": targets, "return": ret, "other": other, "order": order}


def _strip_access(e, ok):
    if e[0] == "var":
        if "@" in e[1]:
            name, pref = e[1].split("@")
            if pref not in ok:
                raise CParseError(f"unexpected accessor prefix {pref}")
            return ["var", name]
        if e[1] != "dt" and not re.fullmatch(r"_t\d+", e[1]):
            raise CParseError(f"bare identifier {e[1]} (neither dt, a temporary nor a named accessor)")
        return e
    return [e[0]] + [(_strip_access(a, ok) if isinstance(a, list) else a) for a in e[1:]]
