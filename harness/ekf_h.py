"""Shared pieces for the Python-filter properties (C03-C06, C09, C16): building filters from generated
definitions, exact oracles (sympy derivatives + Fraction matrices), driver requests."""
from __future__ import annotations

from fractions import Fraction as F

import numpy as np
import sympy

import core
import fk
import gen


# ------------------------------------------------------------------ exact matrices over Fractions
def mmul(a, b):
    return [[sum((a[i][k] * b[k][j] for k in range(len(b))), F(0)) for j in range(len(b[0]) if b else 0)] for i in range(len(a))]


def mT(a):
    return [list(r) for r in zip(*a)] if a and a[0] else ([[] for _ in range(0)] if not a else [])


def madd(a, b):
    return [[x + y for x, y in zip(r, s)] for r, s in zip(a, b)]


def msub(a, b):
    return [[x - y for x, y in zip(r, s)] for r, s in zip(a, b)]


def minv(a):
    n = len(a)
    m = [list(r) + [F(int(i == j)) for j in range(n)] for i, r in enumerate(a)]
    for c in range(n):
        p = next(r for r in range(c, n) if m[r][c] != 0)
        m[c], m[p] = m[p], m[c]
        pv = m[c][c]
        m[c] = [x / pv for x in m[c]]
        for r in range(n):
            if r != c and m[r][c] != 0:
                f = m[r][c]
                m[r] = [x - f * y for x, y in zip(m[r], m[c])]
    return [r[n:] for r in m]


def spd(rng, n):
    """dyadic SPD matrix  A Aᵀ/4 + I  with small integer A (bounded condition number)"""
    a = [[F(rng.randint(-2, 2)) for _ in range(n)] for _ in range(n)]
    p = mmul(a, mT(a)) if n else []
    return [[p[i][j] / 4 + (1 if i == j else 0) for j in range(n)] for i in range(n)]


def to_np(m, shape=None):
    arr = np.array([[float(x) for x in r] for r in m], dtype=float)
    if shape is not None:
        arr = arr.reshape(shape)
    return arr


def mat_json(m):
    return [[core.frac_str(x) for x in r] for r in m]


def mat_close(got, want, tol=None):
    tol = core.DEFAULT_TOL if tol is None else tol
    got = np.asarray(got, dtype=float)
    w = np.array([[float(x) for x in r] for r in want], dtype=float) if got.size else np.zeros(got.shape)
    if w.size != got.size:
        return False
    w = w.reshape(got.shape)
    if got.shape != w.shape:
        return False
    if got.size == 0:
        return True
    if not np.all(np.isfinite(got)):
        return False
    scale = 1.0 + float(np.max(np.abs(w)))
    return bool(np.max(np.abs(got - w)) <= tol * scale)


def recorded(table, key):
    """what a filter recorded under `key` (innovation, innovation covariance) as a float array; a 1x1 NaN when it holds nothing for
    that key, so that every comparison with the expected value fails as a finding instead of raising inside the harness"""
    if key not in table:
        return np.full((1, 1), np.nan)
    return np.asarray(table[key], dtype=float)


# ------------------------------------------------------------------ building filters
def make_noises(rng, d):
    """pairwise distinct positive dyadic noises per control and per reading"""
    pool = [F(k, 8) for k in range(1, 40)]
    # values that need more than a handful of significant digits (exactly the binary64 value, as a Fraction)
    pool += [F(0.0123456789), F(1.0 / 3.0), F(2.718281828459045), F(7.61544e-05 * 1.2345678), F(1234567.125)][:3]
    rng.shuffle(pool)
    it = iter(pool)
    process = {s.name: next(it) for s in d.control}
    sensor = {k: {r: next(it) for r in rd} for k, rd in d.sensors.items()}
    return process, sensor


def compile_ekf(d, process, sensor, cal, rng=None, cse=True, filtering=None, max_dt=0.1, container="set", model_obj=None,
                maps=None, extra_validation=False, ui_kwargs=None):
    """`maps`: a dict that receives the very objects handed to the library (ui model, noise / sensor / calibration dicts) - or, when
    it already holds them, supplies them again (the SAME objects for a second filter)"""
    from formak import python
    core.set_tolerance(getattr(d, "transcend", False))
    maps = maps if maps is not None else {}
    m = model_obj if model_obj is not None else maps.get("model") or fk.ui_model(d, rng, container, **(ui_kwargs or {}))
    maps.setdefault("model", m)
    maps.setdefault("sensor_models", {k: dict(rd) for k, rd in d.sensors.items()})
    maps.setdefault("process_noise", {sympy.Symbol(n): float(v) for n, v in process.items()})
    maps.setdefault("sensor_noises", {k: {r: float(v) for r, v in rd.items()} for k, rd in sensor.items()})
    maps["calibration_map"] = maps.get("calibration_map_override") or {s: float(cal[s.name]) for s in d.calibration}
    with fk.quiet():
        return python.compile_ekf(
            m,
            process_noise=maps["process_noise"],
            sensor_models=maps["sensor_models"],
            sensor_noises=maps["sensor_noises"],
            calibration_map=maps["calibration_map"],
            config=python.Config(common_subexpression_elimination=cse, innovation_filtering=filtering, max_dt_sec=max_dt,
                                 extra_validation=extra_validation),
        )


def ekf_json(d, process, sensor, filtering=None):
    return {
        "model": d.to_json(),
        "noise": [[n, core.frac_str(v)] for n, v in process.items()],
        "sensors": [{"key": k, "readings": [[r, gen.expr_json(e)] for r, e in rd.items()]} for k, rd in d.sensors.items()],
        "sensor_noise": [[k, [[r, core.frac_str(v)] for r, v in rd.items()]] for k, rd in sensor.items()],
        "filtering": None if filtering is None else core.frac_str(F(filtering)),
    }


def point_json(pt):
    return {"cal": [[k, core.frac_str(v)] for k, v in pt["cal"].items()], "dt": core.frac_str(pt["dt"]),
            "state": [[k, core.frac_str(v)] for k, v in pt["state"].items()],
            "control": [[k, core.frac_str(v)] for k, v in pt["control"].items()]}


def is_rational(d) -> bool:
    # binary floating-point coefficients are not exact rationals of the definition: the generators round them when they print them
    if any(sympy.sympify(e).atoms(sympy.Float) for e in list(d.state_model.values()) + [e for rd in d.sensors.values() for e in rd.values()]):
        return False
    try:
        js = [gen.expr_json(e) for e in d.state_model.values()] + [gen.expr_json(e) for rd in d.sensors.values() for e in rd.values()]
    except gen.Untranslatable:
        return False
    return all(gen.is_rational_fragment(j) for j in js)


# ------------------------------------------------------------------ oracle: sympy derivatives by name, exact
def subs_map(d, pt):
    sub = {d.dt: sympy.Rational(pt["dt"].numerator, pt["dt"].denominator)}
    for grp, key in ((d.state, "state"), (d.control, "control"), (d.calibration, "cal")):
        for s in grp:
            q = pt[key][s.name]
            sub[s] = sympy.Rational(q.numerator, q.denominator)
    return sub


def exactify(e):
    """binary floating-point coefficients replaced by the exact rationals they are (so that the oracle computes with the very
    numbers the definition contains, without sympy's 15-digit Float arithmetic or nsimplify's guesses)"""
    e = sympy.sympify(e)
    fl = e.atoms(sympy.Float)
    return e.xreplace({f: sympy.Rational(*F(float(f)).as_integer_ratio()) for f in fl}) if fl else e


def to_frac(v):
    v = sympy.nsimplify(v) if not v.is_Rational else v
    if v.is_Rational:
        return F(int(v.p), int(v.q))
    return F(float(v.evalf(30)))


def oracle_jac(exprs_by_name: dict, out_names, wrt_names, sub):
    """[[d out_i / d wrt_j]] evaluated exactly, rows/cols in the given name orders"""
    rows = []
    for o in out_names:
        e = exactify(exprs_by_name[o])
        rows.append([to_frac(sympy.diff(e, sympy.Symbol(w)).xreplace(sub)) for w in wrt_names])
    return rows


def oracle_vals(exprs_by_name: dict, names, sub):
    return [to_frac(exactify(exprs_by_name[n]).xreplace(sub)) for n in names]


def names_of(d):
    Ls = sorted(s.name for s in d.state)
    Lc = sorted(s.name for s in d.control)
    Lk = sorted(s.name for s in d.calibration)
    return Ls, Lc, Lk


def state_obj(ekf, pt):
    return ekf.State(**{k: float(v) for k, v in pt["state"].items()})


def control_obj(ekf, pt):
    return ekf.Control(**{k: float(v) for k, v in pt["control"].items()})


def cov_obj(ekf, P):
    return ekf.Covariance.from_data(to_np(P, (len(P), len(P))))


def cov_obj_named(ekf, P_by_name):
    """Covariance from a {(row name, col name): value} map, placed through the class's own arglist"""
    names = [str(a) for a in ekf.Covariance._arglist]
    data = np.array([[float(P_by_name[(a, b)]) for b in names] for a in names], dtype=float).reshape((len(names), len(names)))
    return ekf.Covariance.from_data(data)
