"""Helpers for driving the real formak implementation."""
from __future__ import annotations

import contextlib
import io
import warnings

import numpy as np

warnings.filterwarnings("ignore")


def assume_map(d, assumptions):
    """plain symbol -> the same name carrying sympy assumptions (e.g. real=True); applied only at the library's boundary"""
    import sympy
    return {s: sympy.Symbol(s.name, **assumptions) for s in list(d.state) + list(d.control) + list(d.calibration)}


def ui_model(d, rng=None, container="set", symbol_assumptions=None, **ui_kwargs):
    from formak import ui
    import sympy
    st, ct, cal = list(d.state), list(d.control), list(d.calibration)
    items = list(d.state_model.items())
    if symbol_assumptions:
        am = assume_map(d, symbol_assumptions)
        st, ct, cal = [am[x] for x in st], [am[x] for x in ct], [am[x] for x in cal]
        items = [(am[k], sympy.sympify(v).xreplace(am)) for k, v in items]
    if rng is not None:
        rng.shuffle(st); rng.shuffle(ct); rng.shuffle(cal); rng.shuffle(items)
    conv = set if container == "set" else list
    return ui.Model(dt=d.dt, state=conv(st), control=conv(ct), state_model=dict(items), calibration=conv(cal), **ui_kwargs)


def quiet():
    return contextlib.redirect_stdout(io.StringIO())


def by_name(named) -> dict[str, float]:
    """read a named vector back by name through the class's own arglist"""
    names = [str(a) for a in type(named)._arglist]
    data = np.asarray(named.data)
    return {n: float(data[i, 0]) for i, n in enumerate(names)}


def cov_by_name(named) -> dict[tuple[str, str], float]:
    names = [str(a) for a in type(named)._arglist]
    data = np.asarray(named.data)
    return {(r, c): float(data[i, j]) for i, r in enumerate(names) for j, c in enumerate(names)}


def exc_kind(e: BaseException) -> str:
    return type(e).__name__
