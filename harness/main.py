from __future__ import annotations

import argparse
import importlib
import json
import os
import signal
import sys
import traceback

import core


def main():
    ap = argparse.ArgumentParser()
    ap.add_argument("pid")
    ap.add_argument("--tier", default=os.environ.get("VERIF_TIER", "quick"), choices=["quick", "thorough"])
    ap.add_argument("--replay", default=None)
    ap.add_argument("--seed", type=int, default=int(os.environ.get("VERIF_SEED", "0")))
    a = ap.parse_args()
    budget = int(os.environ.get("VERIF_TIMEOUT_S", "1500" if a.tier == "quick" else "7200"))

    def on_alarm(*_):
        raise core.Timeout()
    signal.signal(signal.SIGALRM, on_alarm)
    signal.alarm(budget)
    try:
        mod = importlib.import_module(f"props.{a.pid}")
    except Exception:
        traceback.print_exc()
        print(f"[{a.pid}] internal error in the checking machinery (no verdict)")
        sys.exit(3)
    ctx = core.Ctx(a.pid, a.tier, a.seed)
    try:
        if a.replay:
            rc = mod.replay(ctx, json.load(open(a.replay)))
        else:
            rc = mod.run(ctx)
    except core.Timeout:
        print(f"[{a.pid}] timed out after {budget}s (no verdict)")
        rc = 2
    except Exception:
        traceback.print_exc()
        print(f"[{a.pid}] internal error in the checking machinery (no verdict)")
        rc = 3
    finally:
        ctx.cleanup()
    sys.exit(rc)


if __name__ == "__main__":
    main()
