from __future__ import annotations

import argparse
import importlib
import json
import os
import signal
import sys
import traceback

import core


def implementation_raised(ctx, mod, exc):
    """An exception escaped the check. If the innermost frame that is neither a third-party library nor this harness lies in the
    implementation under test, the implementation raised on a use the check makes without error on the unchanged tree: that use is
    the failing input (reported as a violation with the traceback as replay). Anything else is an internal error (exit 3)."""
    repo = os.path.realpath(core.REPO) + os.sep
    here = os.path.realpath(os.path.dirname(os.path.abspath(__file__))) + os.sep
    frames = traceback.extract_tb(exc.__traceback__)
    owner = None
    for fr in reversed(frames):
        fn = os.path.realpath(fr.filename)
        if fn.startswith(repo):
            owner = fr; break
        if fn.startswith(here):
            break
    if owner is None or getattr(mod, "run", None) is None:
        return None
    try:
        ident = f"implementation-raises:{type(exc).__name__}:{os.path.basename(owner.filename)}:{owner.name}"
        ctx.fail(ident, f"{type(exc).__name__}: {exc}"[:300] + f" (raised in {owner.filename}:{owner.lineno} {owner.name})",
                 {"traceback": traceback.format_exception(exc)[-12:]})
        return core.finish(ctx, core.lean_audit(ctx.pid), ["check aborted by an exception raised inside the implementation"],
                           "aborted run: the use of the implementation that raised", ["the remaining streams of this check did not run"])
    except Exception:
        traceback.print_exc()
        return None


def main():
    ap = argparse.ArgumentParser()
    ap.add_argument("pid")
    ap.add_argument("--tier", default=os.environ.get("VERIF_TIER", "quick"), choices=["quick", "thorough"])
    ap.add_argument("--replay", default=None)
    ap.add_argument("--seed", type=int, default=int(os.environ.get("VERIF_SEED", "0")))
    a = ap.parse_args()
    budget = int(os.environ.get("VERIF_TIMEOUT_S", "1500" if a.tier == "quick" else "7200"))

    def on_alarm(*_):
        raise core.Timeout()
    signal.signal(signal.SIGALRM, on_alarm)
    signal.alarm(budget)
    try:
        mod = importlib.import_module(f"props.{a.pid}")
    except Exception:
        traceback.print_exc()
        print(f"[{a.pid}] internal error in the checking machinery (no verdict)")
        sys.exit(3)
    ctx = core.Ctx(a.pid, a.tier, a.seed)
    try:
        if a.replay:
            rc = mod.replay(ctx, json.load(open(a.replay)))
        else:
            rc = mod.run(ctx)
    except core.Timeout:
        print(f"[{a.pid}] timed out after {budget}s (no verdict)")
        rc = 2
    except core.ImplementationHangs as e:
        try:
            ctx.fail("cpp-runtime-does-not-terminate", e.what, e.case)
            rc = core.finish(ctx, core.lean_audit(ctx.pid), ["check aborted: a binary built from the implementation's runtime did not terminate"],
                             "aborted run: the histories handed to the runtime when it hung", ["the remaining streams of this check did not run"])
        except Exception:
            traceback.print_exc()
            print(f"[{a.pid}] internal error in the checking machinery (no verdict)")
            rc = 3
    except Exception as e:
        traceback.print_exc()
        rc = implementation_raised(ctx, mod, e)
        if rc is None:
            print(f"[{a.pid}] internal error in the checking machinery (no verdict)")
            rc = 3
    finally:
        ctx.cleanup()
    sys.exit(rc)


if __name__ == "__main__":
    main()
