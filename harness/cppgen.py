"""Generated-C++ path: run FormaK's C++ generator on a definition, build it with g++ against the Eigen stand-in
together with a generated driver `main` that sets every input THROUGH THE NAMED FIELDS and prints every output
THROUGH THE NAMED ACCESSORS, then run it on seeded points."""
from __future__ import annotations

import contextlib
import io
import os
import subprocess
import sys
from concurrent.futures import ThreadPoolExecutor

import sympy

import core
import fk
import runtime_h as rh

STANDIN = os.path.join(core.VERIF, "harness", "standin")


@contextlib.contextmanager
def _argv_cwd(argv, cwd):
    old_argv, old_cwd = sys.argv, os.getcwd()
    sys.argv = argv
    os.chdir(cwd)
    try:
        yield
    finally:
        sys.argv = old_argv
        os.chdir(old_cwd)


_NO_CONFIG_RAW = object()


def generate(d, process, sensor, cal, scratch, name, *, cse=True, filtering=5.0, max_dt=0.1, kind="ekf", rng=None, container="set",
             raw_noise=False, config_as_dict=False, noise_keys="same", model_obj=None, symbol_assumptions=None, namespace="verifns",
             config_raw=_NO_CONFIG_RAW, raw_maps=None, config_override=_NO_CONFIG_RAW):
    """returns paths; raises whatever the generator raises.  `raw_maps`: optional {"sensor_models": ..., "sensor_noises": ...} handed to
    the generator exactly as given (e.g. readings and noises keyed with different spellings of the same names)"""
    from formak import cpp
    root = os.path.join(scratch, name)
    os.makedirs(os.path.join(root, "generated", "formak"), exist_ok=True)
    header = os.path.join(root, "generated", "formak", f"{name}.h")
    source = os.path.join(root, f"{name}.cpp")
    m = model_obj if model_obj is not None else fk.ui_model(d, rng, container, symbol_assumptions=symbol_assumptions)
    am = fk.assume_map(d, symbol_assumptions) if symbol_assumptions else {}
    sy = (lambda n: am.get(sympy.Symbol(n), sympy.Symbol(n)))
    cfg = cpp.Config(common_subexpression_elimination=cse, innovation_filtering=filtering, max_dt_sec=max_dt)
    if config_as_dict:     # the entry points also take the configuration as a plain dict (the repository's generator scripts do)
        cfg = {"common_subexpression_elimination": cse, "innovation_filtering": filtering, "max_dt_sec": max_dt}
    if config_raw is not _NO_CONFIG_RAW:   # hand the entry point exactly this `config` argument (None, a partial dict, ...)
        cfg = config_raw
    if config_override is not _NO_CONFIG_RAW:   # the same under the name the C15 streams use
        cfg = config_override
    # the noise map may key its readings by Symbol where the sensor model keys them by str (names are what counts)
    nk = (lambda r_: sympy.Symbol(r_)) if noise_keys == "symbol" else (lambda r_: r_)
    cal_map = {am.get(s, s): float(cal[s.name]) for s in d.calibration}
    raw_maps = raw_maps or {}
    with _argv_cwd(["generator.py", "--header", header, "--source", source, "--namespace", namespace], core.REPO), \
            contextlib.redirect_stdout(io.StringIO()):
        if kind == "ekf":
            r = cpp.compile_ekf(
                m, process_noise={sy(n): (v if raw_noise else float(v)) for n, v in process.items()},
                sensor_models=raw_maps["sensor_models"] if "sensor_models" in raw_maps else
                {k: {r_: sympy.sympify(e).xreplace(am) for r_, e in rd.items()} for k, rd in d.sensors.items()},
                sensor_noises=raw_maps["sensor_noises"] if "sensor_noises" in raw_maps else
                {k: {nk(r_): (v if raw_noise else float(v)) for r_, v in rd.items()} for k, rd in sensor.items()},
                calibration_map=cal_map, config=cfg)
        else:
            r = cpp.compile(m, calibration_map=cal_map, config=cfg)
    if not r.success:
        raise RuntimeError("generator reported no success")
    return {"root": root, "header": header, "source": source, "name": name, "kind": kind}


def typename(key: str) -> str:
    return key.title()


def make_main(d, name, kind="ekf") -> str:
    Ls = sorted(s.name for s in d.state)
    Lc = sorted(s.name for s in d.control)
    Lk = sorted(s.name for s in d.calibration)
    n = len(Ls)
    o = []
    w = o.append
    w(f"#include <formak/{name}.h>")
    w("#include <cstdint>\n#include <cstring>\n#include <iostream>\n#include <string>\n#include <sstream>")
    w("using namespace verifns;")
    w("static std::string B(double d){ uint64_t u; std::memcpy(&u,&d,8); return std::to_string(u); }")
    w("static double R(std::istream& in){ std::string s; in >> s; uint64_t u = std::stoull(s); double d; std::memcpy(&d,&u,8); return d; }")
    w("int main(){ std::string line; while (std::getline(std::cin, line)) { std::istringstream in(line); std::string op; in >> op; std::ostringstream out;")
    # common input block: dt, state, [cov], cal, control
    def read_common(with_cov):
        w("  double dt = R(in); (void)dt;")
        w("  StateOptions so;")
        for s in Ls:
            w(f"  so.{s} = R(in);")
        w("  State x(so);")
        if kind == "ekf":
            w("  Covariance P;")
            if with_cov:
                w(f"  for (int i = 0; i < {n}; ++i) for (int j = 0; j < {n}; ++j) P.data(i, j) = R(in);")
            w("  StateAndVariance sv{.state = x, .covariance = P};")
        if Lk:
            w("  CalibrationOptions ko;")
            for s in Lk:
                w(f"  ko.{s} = R(in);")
            w("  Calibration cal(ko);")
        if Lc:
            w("  ControlOptions uo;")
            for s in Lc:
                w(f"  uo.{s} = R(in);")
            w("  Control u(uo);")
    sv = "sv" if kind == "ekf" else "x"
    pargs = f"dt, {sv}" + (", cal" if Lk else "") + (", u" if Lc else "")
    rargs = f"{sv}" + (", cal" if Lk else "")
    w(' if (op == "layout") {')
    w('  out << "config.max_dt_sec=" << B(cpp::Config::max_dt_sec) << " config.innovation_filtering=" << B(cpp::Config::innovation_filtering) << " ";')
    w("  { State s; ")
    for i, s in enumerate(Ls):
        w(f"   s.data = State::DataT::Zero(); s.{s}() = 1.0; for (int i = 0; i < {n}; ++i) if (s.data(i, 0) == 1.0) out << \"state.{s}=\" << i << \" \";")
        w(f"   {{ StateOptions q; q.{s} = 1.0; State t(q); for (int i = 0; i < {n}; ++i) if (t.data(i, 0) == 1.0) out << \"stateopt.{s}=\" << i << \" \"; }}")
    w("  }")
    if kind == "ekf":
        w("  { Covariance c;")
        for s in Ls:
            w(f"   c.data = Covariance::DataT::Zero(); c.{s}() = 1.0; for (int i = 0; i < {n}; ++i) if (c.data(i, i) == 1.0) out << \"cov.{s}=\" << i << \" \";")
        w("  }")
        for key, rd in sorted(d.sensors.items()):
            T = typename(key)
            for r_ in sorted(rd):
                w(f"  {{ {T}Options q; q.{r_} = 1.0; {T} z(q); for (int i = 0; i < {len(rd)}; ++i) if (z.data(i, 0) == 1.0) out << \"readingopt.{key}.{r_}=\" << i << \" \"; }}")
                w(f"  {{ {T} z; z.data = {T}::DataT::Zero(); for (int i = 0; i < {len(rd)}; ++i) {{ z.data = {T}::DataT::Zero(); z.data(i, 0) = 1.0; if (z.{r_}() == 1.0) out << \"reading.{key}.{r_}=\" << i << \" \"; }} }}")
    # reads through a CONST reference (the by-value accessors): every entry holds a different number
    w(f"  {{ State s; for (int i = 0; i < {n}; ++i) s.data(i, 0) = 7.0 + i; const State& cs = s;")
    for s_ in Ls:
        w(f"   out << \"constread.state.{s_}=\" << B(cs.{s_}()) << \" \";")
    w("  }")
    if kind == "ekf":
        w(f"  {{ Covariance c; for (int i = 0; i < {n}; ++i) for (int j = 0; j < {n}; ++j) c.data(i, j) = 100.0 * (i + 1) + j; const Covariance& cc = c;")
        for s_ in Ls:
            w(f"   out << \"constread.cov.{s_}=\" << B(cc.{s_}()) << \" \";")
        w("  }")
    for grp, cls, L in (("control", "Control", Lc), ("calibration", "Calibration", Lk)):
        if L:
            w(f"  {{ {cls} s; for (int i = 0; i < {len(L)}; ++i) s.data(i, 0) = 20.0 + i; const {cls}& cs = s;")
            for s_ in L:
                w(f"   out << \"constread.{grp}.{s_}=\" << B(cs.{s_}()) << \" \";")
            w("  }")
    for grp, cls, L in (("control", "Control", Lc), ("calibration", "Calibration", Lk)):
        if L:
            w(f"  {{ {cls} s;")
            for s in L:
                w(f"   s.data = {cls}::DataT::Zero(); s.{s}() = 1.0; for (int i = 0; i < {len(L)}; ++i) if (s.data(i, 0) == 1.0) out << \"{grp}.{s}=\" << i << \" \";")
            w("  }")
    w(" }")
    if kind == "model":
        w(' if (op == "model") {')
        read_common(False)
        w(f"  Model mdl; State r = mdl.model({pargs});")
        for s in Ls:
            w(f"  out << \"model.{s}=\" << B(r.{s}()) << \" \";")
        w(" }")
    else:
        w(' if (op == "predict") {')
        read_common(True)
        w("  ExtendedKalmanFilter ekf;")
        w(f"  State m = ExtendedKalmanFilterProcessModel::model({pargs});")
        for s in Ls:
            w(f"  out << \"model.{s}=\" << B(m.{s}()) << \" \";")
        w(f"  auto G = ExtendedKalmanFilterProcessModel::process_jacobian({pargs});")
        w(f"  for (int i = 0; i < {n}; ++i) for (int j = 0; j < {n}; ++j) out << \"G.\" << i << \".\" << j << \"=\" << B(G(i, j)) << \" \";")
        w(f"  auto V = ExtendedKalmanFilterProcessModel::control_jacobian({pargs});")
        w(f"  for (int i = 0; i < {n}; ++i) for (int j = 0; j < {len(Lc)}; ++j) out << \"V.\" << i << \".\" << j << \"=\" << B(V(i, j)) << \" \";")
        w(f"  auto M = ExtendedKalmanFilterProcessModel::covariance({pargs});")
        w(f"  for (int i = 0; i < {len(Lc)}; ++i) for (int j = 0; j < {len(Lc)}; ++j) out << \"M.\" << i << \".\" << j << \"=\" << B(M(i, j)) << \" \";")
        w(f"  StateAndVariance r = ekf.process_model({pargs});")
        for s in Ls:
            w(f"  out << \"state.{s}=\" << B(r.state.{s}()) << \" \";")
        w(f"  for (int i = 0; i < {n}; ++i) for (int j = 0; j < {n}; ++j) out << \"cov.\" << i << \".\" << j << \"=\" << B(r.covariance.data(i, j)) << \" \";")
        w(" }")
        for key, rd in sorted(d.sensors.items()):
            T = typename(key)
            Lr = sorted(rd)
            m_ = len(Lr)
            w(f' if (op == "update:{key}") {{')
            read_common(True)
            w(f"  {T}Options zo;")
            for r_ in Lr:
                w(f"  zo.{r_} = R(in);")
            w(f"  {T} z(zo);")
            w("  ExtendedKalmanFilter ekf;")
            w(f"  {T} h = {T}SensorModel::model({rargs}, z);")
            for r_ in Lr:
                w(f"  out << \"h.{r_}=\" << B(h.{r_}()) << \" \";")
            w(f"  auto H = {T}SensorModel::jacobian({rargs}, z);")
            w(f"  for (int i = 0; i < {m_}; ++i) for (int j = 0; j < {n}; ++j) out << \"H.\" << i << \".\" << j << \"=\" << B(H(i, j)) << \" \";")
            w(f"  auto Q = {T}SensorModel::covariance({rargs}, z);")
            w(f"  for (int i = 0; i < {m_}; ++i) for (int j = 0; j < {m_}; ++j) out << \"Q.\" << i << \".\" << j << \"=\" << B(Q(i, j)) << \" \";")
            w(f"  StateAndVariance r = ekf.sensor_model({rargs}, z);")
            for s in Ls:
                w(f"  out << \"state.{s}=\" << B(r.state.{s}()) << \" \";")
            w(f"  for (int i = 0; i < {n}; ++i) for (int j = 0; j < {n}; ++j) out << \"cov.\" << i << \".\" << j << \"=\" << B(r.covariance.data(i, j)) << \" \";")
            w(f"  auto inn = ekf.innovations<{T}>();")
            w(f"  if (inn) for (int i = 0; i < {m_}; ++i) out << \"inn.\" << i << \"=\" << B((*inn)(i, 0)) << \" \";")
            w("  bool same = true;")
            w(f"  for (int i = 0; i < {n}; ++i) {{ if (std::memcmp(&r.state.data(i,0), &sv.state.data(i,0), 0) != 0) same = false; double a = r.state.data(i, 0), b = sv.state.data(i, 0); if (std::memcmp(&a, &b, 8) != 0) same = false; for (int j = 0; j < {n}; ++j) {{ double c = r.covariance.data(i, j), e = sv.covariance.data(i, j); if (std::memcmp(&c, &e, 8) != 0) same = false; }} }}")
            w("  out << \"unchanged=\" << (same ? 1 : 0) << \" \";")
            w(" }")
    w(" std::cout << out.str() << std::endl; }")
    w(" return 0; }")
    return "\n".join(o) + "\n"


def const_read_problems(lay, d, kind="ekf"):
    """the by-value (const) accessors read the entry the mutable accessor of the same name writes; returns a list of mismatches"""
    bad = []
    Ls = sorted(s.name for s in d.state)

    def chk(field, slot_key, base, diag=False):
        if field not in lay or slot_key not in lay:
            return
        slot = int(lay[slot_key])
        want = (100.0 * (slot + 1) + slot) if diag else base + slot
        got = rh.bitsf(lay[field])
        if got != want:
            bad.append(f"{field.split('.', 1)[1]}: const accessor reads {got!r}, the entry written through the mutable accessor holds {want!r}")
    for s_ in Ls:
        chk(f"constread.state.{s_}", f"state.{s_}", 7.0)
        if kind == "ekf":
            chk(f"constread.cov.{s_}", f"cov.{s_}", 0.0, diag=True)
    for grp, L, base in (("control", sorted(s.name for s in d.control), 20.0), ("calibration", sorted(s.name for s in d.calibration), 20.0)):
        for s_ in L:
            chk(f"constread.{grp}.{s_}", f"{grp}.{s_}", base)
    return bad


def build(gen_info, d, extra_main=None, timeout=600):
    root, name = gen_info["root"], gen_info["name"]
    main = os.path.join(root, "main.cpp")
    open(main, "w").write(extra_main if extra_main is not None else make_main(d, name, gen_info["kind"]))
    exe = os.path.join(root, "drv")
    r = subprocess.run(
        ["g++", "-std=c++20", "-O0", "-ffp-contract=off", "-w", f"-I{STANDIN}", f"-I{root}/generated", f"-I{core.REPO}/cpp/include",
         f"-I{core.REPO}/cpp/runtime/include", gen_info["source"], main, "-o", exe],
        capture_output=True, text=True, timeout=timeout)
    return (exe if r.returncode == 0 else None), r.stderr[-4000:]


def build_many(jobs, workers=12):
    """jobs: list of (gen_info, d, extra_main)"""
    with ThreadPoolExecutor(max_workers=workers) as ex:
        return list(ex.map(lambda j: build(*j), jobs))


def run_exe(exe, lines, timeout=300):
    r = subprocess.run([exe], input="\n".join(lines) + "\n", capture_output=True, text=True, timeout=timeout)
    if r.returncode != 0:
        raise RuntimeError(f"generated driver crashed rc={r.returncode}: {r.stderr[-500:]}")
    outs = []
    for ln in r.stdout.split("\n")[:len(lines)]:
        kv = {}
        for tok in ln.split():
            k, v = tok.split("=", 1)
            kv[k] = v
        outs.append(kv)
    return outs


def point_line(op, d, pt, P=None, z=None, zkeys=None, kind="ekf"):
    Ls = sorted(s.name for s in d.state)
    Lc = sorted(s.name for s in d.control)
    Lk = sorted(s.name for s in d.calibration)
    toks = [op, rh.fbits(float(pt["dt"]))]
    toks += [rh.fbits(float(pt["state"][s])) for s in Ls]
    if kind == "ekf" and P is not None:
        toks += [rh.fbits(float(v)) for r in P for v in r]
    toks += [rh.fbits(float(pt["cal"][s])) for s in Lk]
    toks += [rh.fbits(float(pt["control"][s])) for s in Lc]
    if z is not None:
        toks += [rh.fbits(float(z[r])) for r in sorted(z)]
    return " ".join(toks)
