"""Sub-process worker for C15: regenerate definition #k of a seeded stream, permute its declaration, generate code,
print hashes + skeleton as one JSON line. Run with a chosen PYTHONHASHSEED."""
import contextlib
import hashlib
import io
import json
import os
import random
import re
import sys
import tempfile

sys.path.insert(0, os.path.dirname(os.path.abspath(__file__)))
import cppgen  # noqa: E402
import ekf_h as eh  # noqa: E402
import fk  # noqa: E402
import gen  # noqa: E402


def main():
    seed, k, perm_seed, container = int(sys.argv[1]), int(sys.argv[2]), int(sys.argv[3]), sys.argv[4]
    scale = float(os.environ.get("C15_CLOCK_SCALE", "1"))
    if scale != 1.0:
        # this process sees time pass `scale` times faster (a slow machine, a profiler): what is generated must not depend on it
        import time as _time
        for nm in ("monotonic", "perf_counter", "time", "process_time"):
            real = getattr(_time, nm)
            base = real()
            setattr(_time, nm, (lambda real=real, base=base: base + (real() - base) * scale))
    rng = random.Random(f"C15:{seed}:{k}")
    d = gen.gen_definition(rng, n_state=rng.choice([2, 3, 4]), n_control=rng.choice([0, 1, 2]), n_calib=rng.choice([0, 1, 2]),
                           n_sensors=rng.choice([1, 2, 3]), depth=2)
    if k % 3 == 2:
        # a larger model (>= 9 states: index sets no longer iterate in ascending order by accident)
        names = gen.fresh_names(rng, 11)
        st = [gen.Symbol(x) for x in names[:10]]
        u = gen.Symbol(names[10])
        dts = gen.Symbol("dt")
        sm = {}
        for idx, sx in enumerate(st):
            sm[sx] = sx + dts * st[(idx + 8) % 10] * gen.Rational(1, 2) + (dts * u if idx % 4 == 0 else 0) + st[(idx + 3) % 10] * st[(idx + 8) % 10] * gen.Rational(1, 8)
        d = gen.Definition(dts, st, [u], [], {a: gen.sympy.sympify(b) for a, b in sm.items()},
                           {"wide0": {"r_a": st[0] + st[8] * st[1], "r_b": st[9] - st[1]}})
    # one update carries a term written in unsimplified form (it is zero): a generator that "tidies" the definition it was given
    # shows in what the next generator prints
    _a, _b = sorted(d.state, key=lambda x: x.name)[0], sorted(d.state, key=lambda x: x.name)[-1]
    d.state_model[_a] = d.state_model[_a] + (_a + 1) * (_b + 1) - _a * _b - _a - _b - 1
    if k % 4 in (0, 3):
        # inputs the model declares but never reads (two controls, two calibration values): whatever the generator says about
        # them must not depend on set iteration order
        taken = {x.name for x in d.all_symbols()} | {r for rd in d.sensors.values() for r in rd}
        extra = gen.fresh_names(rng, 4, taken)
        d.control = list(d.control) + [gen.Symbol(extra[0]), gen.Symbol(extra[1])]
        d.calibration = list(d.calibration) + [gen.Symbol(extra[2]), gen.Symbol(extra[3])]
    if k % 4 == 1 and d.sensors:
        # a sensor key that is not a C++ identifier (keys are free-form strings on the Python side)
        first = sorted(d.sensors)[0]
        d.sensors = {("wheel-speed" if kk == first else kk): vv for kk, vv in d.sensors.items()}
    d._kind = "ekf"
    if k % 2 == 1:
        # names that differ only in case (sorting must still be a total order on them)
        taken = {x.name for x in d.all_symbols()}
        pairs = [("q", "Q"), ("u", "U"), ("k", "K")]
        groups = [d.state, d.control, d.calibration]
        ren = {}
        for (lo, up), grp in zip(pairs, groups):
            if len(grp) >= 2 and lo not in taken and up not in taken:
                ren[grp[0].name] = lo
                ren[grp[1].name] = up
        if ren:
            full = {x.name: ren.get(x.name, x.name) for x in d.all_symbols()}
            d = d.renamed(full)
            d._kind = "ekf"
    process, sensor = eh.make_noises(rng, d)
    from fractions import Fraction as _F
    for key in sorted(sensor):
        first = sorted(sensor[key])[0]
        sensor[key][first] = _F(4)
        break
    for key in sorted(process)[:1]:
        process[key] = _F(2)
    cal = {s.name: 1.25 for s in d.calibration}
    prng = random.Random(perm_seed)
    # permute declaration order of symbols, update entries, sensors, readings, noise entries
    prng.shuffle(d.state); prng.shuffle(d.control); prng.shuffle(d.calibration)
    items = list(d.state_model.items()); prng.shuffle(items); d.state_model = dict(items)
    sens = list(d.sensors.items()); prng.shuffle(sens)
    d.sensors = {}
    for key, rd in sens:
        r = list(rd.items()); prng.shuffle(r); d.sensors[key] = dict(r)
    pn = list(process.items()); prng.shuffle(pn); process = dict(pn)
    sn = list(sensor.items()); prng.shuffle(sn)
    sensor = {}
    for key, rd in sn:
        r = list(rd.items()); prng.shuffle(r); sensor[key] = dict(r)
    scratch = tempfile.mkdtemp(prefix="c15w_")
    out = {"hashseed": os.environ.get("PYTHONHASHSEED"), "perm": perm_seed, "container": container, "clock_scale": scale}
    try:
        if perm_seed % 2 == 1:
            # another definition generated BEFORE this one in the same process, spelling equal noise values as ints
            pre = gen.gen_definition(random.Random(perm_seed + 5), n_state=2, n_control=1, n_calib=0, n_sensors=1, depth=2)
            pre._kind = "ekf"
            ppn, psn = eh.make_noises(random.Random(2), pre)
            vals = sorted({int(v) for v in list(process.values()) + [x for rd in sensor.values() for x in rd.values()] if v == int(v)} | {4, 2})
            ppn = {key: vals[i % len(vals)] for i, key in enumerate(ppn)}
            psn = {key: {r: vals[(i + j) % len(vals)] for j, r in enumerate(rd)} for i, (key, rd) in enumerate(psn.items())}
            cppgen.generate(pre, ppn, psn, {}, scratch, "pre", rng=None, raw_noise=True)
        g = cppgen.generate(d, process, sensor, cal, scratch, "det", rng=None, container=container)
        h, s = open(g["header"]).read(), open(g["source"]).read()
        # the same definition generated again in the same process (after other generations) must give the same bytes
        other = gen.gen_definition(random.Random(perm_seed + 17), n_state=2, n_control=1, n_calib=0, n_sensors=1, depth=3)
        other._kind = "ekf"
        po, so = eh.make_noises(random.Random(1), other)
        cppgen.generate(other, po, so, {}, scratch, "other", rng=None)
        g2 = cppgen.generate(d, process, sensor, cal, scratch, "det", rng=None, container=container)
        out["regen_same"] = (open(g2["header"]).read() == h and open(g2["source"]).read() == s)
        # ONE model object used for C++ generation, then for a Python filter, then for C++ generation again: the three generators
        # are readers of the definition, none may leave it changed
        shared_m = fk.ui_model(d, None, container)
        ga = cppgen.generate(d, process, sensor, cal, scratch, "shr", rng=None, container=container, model_obj=shared_m)
        ha, sa = open(ga["header"]).read(), open(ga["source"]).read()
        with contextlib.redirect_stdout(io.StringIO()):
            eh.compile_ekf(d, process, sensor, cal, None, container=container, model_obj=shared_m)
        gb = cppgen.generate(d, process, sensor, cal, scratch, "shr", rng=None, container=container, model_obj=shared_m)
        out["regen_after_python_filter_same"] = (open(gb["header"]).read() == ha and open(gb["source"]).read() == sa)
        # the scikit-learn adapter's view of the same definition: column layout of the data matrix and of the result
        try:
            import numpy as _np2
            from props import C16 as _C16
            with contextlib.redirect_stdout(io.StringIO()):
                ad = _C16.make_adapter(d, process, sensor, cal, None)
                width = len(d.control) + sum(len(rd) for rd in d.sensors.values())
                X = _np2.array([[((7 * r + 3 * c) % 11) / 8.0 - 0.5 for c in range(width)] for r in range(3)], dtype=float)
                T = _np2.asarray(ad.transform(X), dtype=float)
            out["adapter_transform"] = hashlib.sha256(_np2.round(T, 9).tobytes()).hexdigest() if _np2.all(_np2.isfinite(T)) else "non-finite"
        except Exception as e:  # noqa: BLE001
            out["adapter_transform"] = "raises:" + type(e).__name__
        out["header_sha"] = hashlib.sha256(h.encode()).hexdigest()
        out["source_sha"] = hashlib.sha256(s.encode()).hexdigest()
        from formak import python
        with contextlib.redirect_stdout(io.StringIO()):
            ekf = eh.compile_ekf(d, process, sensor, cal, None, container=container)
        out["py_arglist"] = [str(a) for a in ekf._state_model.arglist]
        out["py_readings"] = {k2: [str(r) for r in sm.readings] for k2, sm in sorted(ekf.sensor_models.items())}
        # skeleton from the generated text
        out["skeleton"] = {
            "state_accessors": re.findall(r"double& (\w+)\(\) \{\s*return data\((\d+), 0\);", re.findall(r"struct State\s*\{(.*?)DataT data", h, flags=re.S)[0]),
            "options_fields": re.findall(r"struct StateOptions\s*\{([^}]*)\}", h)[0].split(),
            "sensor_ids": re.findall(r"enum class SensorId \{([^}]*)\}", h)[0].split(),
        }
        # the definition exactly as declared in THIS run (permuted orders), and what the compiled Python filter holds, for the
        # Lean model of the emitted artifact
        if eh.is_rational(d):
            out["declared"] = eh.ekf_json(d, process, sensor)
        import numpy as _np
        out["py_process_noise_diag"] = [repr(float(x)) for x in _np.diag(_np.asarray(ekf.process_noise, dtype=float))] if len(d.control) else []
        out["py_process_noise_offdiag_zero"] = bool(_np.count_nonzero(_np.asarray(ekf.process_noise) - _np.diag(_np.diag(_np.asarray(ekf.process_noise)))) == 0) if len(d.control) else True
        out["py_sensor_noise_diag"] = {k2: [repr(float(x)) for x in _np.diag(_np.asarray(getattr(v2, "data", v2), dtype=float))] for k2, v2 in sorted(ekf.sensor_noises.items())}
        out["names"] = {"state": sorted(x.name for x in d.state), "control": sorted(x.name for x in d.control),
                        "calibration": sorted(x.name for x in d.calibration), "sensors": sorted(d.sensors)}
    finally:
        import shutil
        shutil.rmtree(scratch, ignore_errors=True)
    print("C15RESULT " + json.dumps(out))

# ---------------------------------------------------------------------------------------------------------------------------
# fixed (not seeded) definitions: `c15_worker.py fixed <mode>`


def fixed_definition():
    """four states, THREE controls whose declaration order is not their name order, two calibration values, two sensors"""
    S = gen.Symbol
    sin, cos = gen.sympy.sin, gen.sympy.cos
    dt = S("dt")
    x, y, v, th = S("x"), S("y"), S("v"), S("th")
    turn, accel, brake = S("turn"), S("accel"), S("brake")
    k1, k2 = S("k1"), S("k2")
    sm = {x: x + v * cos(th) * dt + k1, y: y + v * sin(th) * dt, v: v + (accel - brake * v) * dt, th: th + turn * dt * k2}
    d = gen.Definition(dt, [x, y, v, th], [turn, accel, brake], [k1, k2], sm,
                       {"gps": {"gx": x + k1, "gy": y * cos(th)}, "speed": {"s": v * v}}, transcend=True)
    d._kind = "ekf"
    process = {"turn": 0.5, "accel": 0.125, "brake": 2.25}
    sensor = {"gps": {"gx": 0.5, "gy": 0.25}, "speed": {"s": 1.5}}
    cal = {"k1": 0.125, "k2": 2.0}
    return d, process, sensor, cal


def fixed_other_definition():
    S = gen.Symbol
    dt, p, q, w = S("dt"), S("p"), S("q"), S("w")
    d = gen.Definition(dt, [p, q], [w], [], {p: p + q * dt + p * q * dt, q: q + w * dt + p * q}, {"tick": {"t_a": p * q + p}})
    d._kind = "ekf"
    return d, {"w": 0.75}, {"tick": {"t_a": 0.375}}, {}


def _sha_pair(g):
    return [hashlib.sha256(open(g["header"]).read().encode()).hexdigest(), hashlib.sha256(open(g["source"]).read().encode()).hexdigest()]


def fixed_noise_orders(scratch):
    """the same definition under every declaration order of its process-noise entries (3 controls: 6 orders), the sensor-noise
    entries rotated along, set and list containers alternating"""
    import itertools
    import numpy as _np
    d, process, sensor, cal = fixed_definition()
    runs = []
    for i, order in enumerate(itertools.permutations(sorted(process))):
        pn = {n: process[n] for n in order}
        keys = sorted(sensor)
        keys = keys[i % len(keys):] + keys[:i % len(keys)]
        sn = {}
        for key in keys:
            rs = sorted(sensor[key])
            rs = rs[(i // 2) % len(rs):] + rs[:(i // 2) % len(rs)]
            sn[key] = {r: sensor[key][r] for r in rs}
        container = "set" if i % 2 == 0 else "list"
        g = cppgen.generate(d, pn, sn, cal, scratch, "fix", rng=None, container=container)
        one = {"noise_order": list(order), "sensor_noise_order": [[k2, list(v2)] for k2, v2 in sn.items()], "container": container,
               "sha": _sha_pair(g)}
        with contextlib.redirect_stdout(io.StringIO()):
            ekf = eh.compile_ekf(d, pn, sn, cal, None, container=container)
        one["py_arglist"] = [str(a) for a in ekf._state_model.arglist]
        one["py_process_noise"] = [[float(x) for x in row] for row in _np.asarray(ekf.process_noise, dtype=float)]
        one["py_readings"] = {k2: [str(r) for r in sm.readings] for k2, sm in sorted(ekf.sensor_models.items())}
        runs.append(one)
    return {"runs": runs, "declared_process_noise": process, "controls_by_name": sorted(process)}


PARTIAL_CONFIG = {"max_dt_sec": 0.05}


def fixed_config_history(scratch, mode):
    """generations of ONE definition under ONE configuration at different points of a process's life. `alone-default` /
    `alone-partial`: the only generation of a fresh process. `history`: the same generations before and after generations of another
    definition whose configuration is handed over as a dict (the repository's generator scripts do so)"""
    d, process, sensor, cal = fixed_definition()
    o, po, so, co = fixed_other_definition()

    def default(kind="ekf"):
        return _sha_pair(cppgen.generate(d, process, sensor, cal, scratch, "cfg", rng=None, kind=kind, config_override=None))

    def partial():
        return _sha_pair(cppgen.generate(d, process, sensor, cal, scratch, "cfg", rng=None, config_override=dict(PARTIAL_CONFIG)))

    def other(cfg):
        cppgen.generate(o, po, so, co, scratch, "oth", rng=None, config_override=dict(cfg))

    if mode == "alone-default":
        return {"default": default()}
    if mode == "alone-default-model":
        return {"default_model": default("model")}
    if mode == "alone-partial":
        return {"partial": partial()}
    out = {"default_first": default(), "default_model_first": default("model")}
    other({"common_subexpression_elimination": False, "innovation_filtering": 2.5})
    out["default_after_dict"] = default()
    out["default_model_after_dict"] = default("model")
    out["partial_first"] = partial()
    other({"extra_validation": True, "max_dt_sec": 0.25})
    out["partial_after_dict"] = partial()
    out["default_after_two_dicts"] = default()
    return out


def main_fixed():
    mode = sys.argv[2]
    scratch = tempfile.mkdtemp(prefix="c15f_")
    try:
        out = fixed_noise_orders(scratch) if mode == "noise-orders" else fixed_config_history(scratch, mode)
    finally:
        import shutil
        shutil.rmtree(scratch, ignore_errors=True)
    out["hashseed"] = os.environ.get("PYTHONHASHSEED")
    out["mode"] = mode
    print("C15RESULT " + json.dumps(out))


if __name__ == "__main__":
    if len(sys.argv) > 1 and sys.argv[1] == "fixed":
        main_fixed()
    else:
        main()
