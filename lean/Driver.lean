/-
Line-protocol driver: one JSON request per line on stdin, one JSON answer per line on stdout.
Run with `lake env lean --run Driver.lean`. Imports only the Mathlib-free model.
-/
import Lean.Data.Json
import FormakVerif.Model.Names
import FormakVerif.Model.Expr
import FormakVerif.Model.PyModel
import FormakVerif.Model.Runtime
import FormakVerif.Model.Ekf
import FormakVerif.Model.Iface
import FormakVerif.Model.Validate
import FormakVerif.Model.Sklearn
import FormakVerif.Model.Workflow
import FormakVerif.Model.Poly
open Lean FormakVerif

def parseRat (s : String) : Except String Rat :=
  match s.splitOn "/" with
  | [p] => match p.toInt? with
    | some n => .ok (n : Rat)
    | none => .error s!"bad rational {s}"
  | [p, q] => match p.toInt?, q.toNat? with
    | some n, some d => if d = 0 then .error "zero denominator" else .ok ((n : Rat) / (d : Rat))
    | _, _ => .error s!"bad rational {s}"
  | _ => .error s!"bad rational {s}"

def ratStr (q : Rat) : String := if q.den = 1 then toString q.num else s!"{q.num}/{q.den}"

def jRat (j : Json) : Except String Rat := do
  match j with
  | .str s => parseRat s
  | .num n => if n.exponent = 0 then .ok (n.mantissa : Rat) else .error "non-integer json number"
  | _ => .error "rational expected"

partial def jExpr (j : Json) : Except String Expr := do
  match j with
  | .arr a =>
    let tag ← (a[0]? >>= fun t => t.getStr?.toOption) |>.elim (.error "tag expected") .ok
    let arg (i : Nat) : Except String Json := (a[i]?).elim (.error s!"arg {i} missing in {tag}") .ok
    match tag with
    | "var" => return .var (← (← arg 1).getStr?)
    | "num" => return .num (← jRat (← arg 1))
    | "add" => return .add (← jExpr (← arg 1)) (← jExpr (← arg 2))
    | "mul" => return .mul (← jExpr (← arg 1)) (← jExpr (← arg 2))
    | "neg" => return .neg (← jExpr (← arg 1))
    | "div" => return .div (← jExpr (← arg 1)) (← jExpr (← arg 2))
    | "pow" => return .pow (← jExpr (← arg 1)) (← (← arg 2).getInt?)
    | "app" => return .app (← (← arg 1).getStr?) (← jExpr (← arg 2))
    | t => .error s!"unknown tag {t}"
  | _ => .error "expression must be an array"

def jList {β : Type} (f : Json → Except String β) (j : Json) : Except String (List β) := do
  let a ← j.getArr?
  a.toList.mapM f

def jStrList := jList (fun j => j.getStr?)

def jPair {β : Type} (f : Json → Except String β) (j : Json) : Except String (String × β) := do
  let a ← j.getArr?
  match a[0]?, a[1]? with
  | some k, some v => return (← k.getStr?, ← f v)
  | _, _ => .error "pair expected"

def jKw {β : Type} (f : Json → Except String β) := jList (jPair f)

def jProgram (j : Json) : Except String Program := do
  return { args := ← jStrList (← j.getObjVal? "args"),
           pre := ← jKw jExpr (← j.getObjVal? "pre"),
           body := ← jList jExpr (← j.getObjVal? "body") }

def jModelDef (j : Json) : Except String ModelDef := do
  return { dt := ← (← j.getObjVal? "dt").getStr?,
           state := ← jStrList (← j.getObjVal? "state"),
           control := ← jStrList (← j.getObjVal? "control"),
           calibration := ← jStrList (← j.getObjVal? "calibration"),
           update := ← jKw jExpr (← j.getObjVal? "update") }

def floatBits (x : Float) : Json := Json.str (toString x.toBits.toNat)
def jFloat (j : Json) : Except String Float := do
  -- floats travel as the decimal string of their IEEE-754 bit pattern
  let s ← j.getStr?
  match s.toNat? with
  | some n => .ok (Float.ofBits n.toUInt64)
  | none => .error "float bits expected"

def bindErrStr : BindErr → String
  | .unknownKey _ => "unknown-key"
  | .badShape _ _ => "bad-shape"
  | .missingControl => "missing-control"

def runErrStr : RunErr → String
  | .bind e => bindErrStr e
  | .missingCalibration _ => "missing-calibration"
  | .missingControl => "missing-control"
  | .evalFailed => "eval-failed"
  | .badProgram => "bad-program"

def okJ (j : Json) : Json := Json.mkObj [("ok", j)]
def errJ (s : String) : Json := Json.mkObj [("err", Json.str s)]

def namedOut {β : Type} (enc : β → Json) (L : List String) (v : List β) : Json :=
  Json.mkObj ((L.zip v).map fun (n, x) => (n, enc x))

/-- `pyrun`: run the Python-model pipeline in arithmetic `sem`. -/
def opPyRun (j : Json) : Except String Json := do
  let d ← jModelDef (← j.getObjVal? "def")
  let prog ← match j.getObjVal? "prog" with
    | .ok pj => jProgram pj
    | .error _ => d.compilePlain.elim (.error "update does not cover state") .ok
  let arith := (j.getObjVal? "arith" >>= fun a => a.getStr?).toOption.getD "rat"
  let noControl := (j.getObjVal? "nocontrol" >>= fun a => a.getBool?).toOption.getD false
  if arith == "rat" then
    let cal ← jKw jRat (← j.getObjVal? "cal")
    let dtv ← jRat (← j.getObjVal? "dt")
    let st ← jKw jRat (← j.getObjVal? "state")
    let ct ← jKw jRat (← j.getObjVal? "control")
    match pyRun ratSem 0 d prog cal dtv st (if noControl then none else some ct) with
    | .ok out => return okJ (namedOut (fun q => Json.str (ratStr q)) (layout d.state) out)
    | .error e => return errJ (runErrStr e)
  else
    let cal ← jKw jFloat (← j.getObjVal? "cal")
    let dtv ← jFloat (← j.getObjVal? "dt")
    let st ← jKw jFloat (← j.getObjVal? "state")
    let ct ← jKw jFloat (← j.getObjVal? "control")
    match pyRun floatSem 0.0 d prog cal dtv st (if noControl then none else some ct) with
    | .ok out => return okJ (namedOut floatBits (layout d.state) out)
    | .error e => return errJ (runErrStr e)

def exprInFragment : Expr → Bool
  | .var _ => true | .num _ => true
  | .add a b => exprInFragment a && exprInFragment b | .mul a b => exprInFragment a && exprInFragment b
  | .div a b => exprInFragment a && exprInFragment b
  | .neg a => exprInFragment a | .pow a _ => exprInFragment a | .app _ _ => false

def FormakVerif.Expr.size : Expr → Nat
  | .var _ => 1 | .num _ => 1
  | .add a b => a.size + b.size + 1 | .mul a b => a.size + b.size + 1 | .div a b => a.size + b.size + 1
  | .neg a => a.size + 1 | .pow a _ => a.size + 1 | .app _ a => a.size + 1

/-- verified symbolic check (`checkProgramSymB`, size-guarded): true / false, or why no verdict was reached -/
def symbolicVerdict (spec : List Expr) (prog : Program) : Json :=
  let inFragment := (prog.inline ++ spec).all fun e => (toFrac (.num 0)).isSome && exprInFragment e
  if !inFragment then Json.str "not-in-fragment"
  else match checkProgramSymB 300 spec prog with
    | some b => Json.bool b
    | none => Json.str "gave-up"

/-- `checkprog`: well-scopedness of a recorded block, and exact agreement of the block with the
given specification expressions at the given rational points. -/
def opCheckProg (j : Json) : Except String Json := do
  let prog ← jProgram (← j.getObjVal? "prog")
  let spec ← jList jExpr (← j.getObjVal? "spec")
  let pts ← jList (jList jRat) (← j.getObjVal? "points")
  let ws := prog.WellScoped
  let mut agree := true
  let mut evaluated : Nat := 0
  let mut firstBad : Option Nat := none
  let mut idx : Nat := 0
  for vals in pts do
    let a := prog.exec ratSem vals
    let b := spec.mapM (fun e => e.eval ratSem (prog.args.zip vals))
    let c := prog.inline.mapM (fun e => e.eval ratSem (prog.args.zip vals))
    match a, b with
    | some x, some y =>
      evaluated := evaluated + 1
      if x != y || c != a then
        agree := false
        if firstBad.isNone then firstBad := some idx
    | none, none => pure ()
    | _, _ =>
      -- one side undefined at this point (division by zero): not comparable
      pure ()
    idx := idx + 1
  return okJ (Json.mkObj [("wellscoped", ws), ("agree", agree), ("evaluated", evaluated),
    ("firstbad", match firstBad with | some i => Json.num i | none => Json.null),
    ("speclen_ok", spec.length == prog.body.length), ("symbolic", symbolicVerdict spec prog)])

def opLayout (j : Json) : Except String Json := do
  let names ← jStrList (← j.getObjVal? "names")
  return okJ (Json.arr ((layout names).map Json.str).toArray)

def opBind (j : Json) : Except String Json := do
  let L ← jStrList (← j.getObjVal? "L")
  let kw ← jKw jRat (← j.getObjVal? "kw")
  let kind := (j.getObjVal? "kind" >>= fun a => a.getStr?).toOption.getD "vector"
  if kind == "vector" then
    match bindVec L kw 0 with
    | .ok v => return okJ (Json.arr (v.map fun q => Json.str (ratStr q)).toArray)
    | .error e => return errJ (bindErrStr e)
  else
    match bindCov (0 : Rat) 1 L kw with
    | .ok m => return okJ (Json.arr (m.map fun r => Json.arr (r.map fun q => Json.str (ratStr q)).toArray).toArray)
    | .error e => return errJ (bindErrStr e)

def opFromData (j : Json) : Except String Json := do
  let L ← jStrList (← j.getObjVal? "L")
  let n ← (← j.getObjVal? "rows").getNat?
  match fromData L (List.replicate n (0 : Rat)) with
  | .ok _ => return okJ (Json.str "ok")
  | .error e => return errJ (bindErrStr e)

def opFromDataND (j : Json) : Except String Json := do
  let L ← jStrList (← j.getObjVal? "L")
  let kind ← (← j.getObjVal? "kind").getStr?
  let shape ← (← (← j.getObjVal? "shape").getArr?).toList.mapM fun x => x.getNat?
  let count := shape.foldl (· * ·) 1
  let flat := List.replicate count (0 : Rat)
  match (if kind == "vector" then fromDataND L shape flat else fromCovND L shape flat) with
  | .ok _ => return okJ (Json.str "ok")
  | .error e => return errJ (bindErrStr e)

/-- `plan`: the prediction steps from `cur` to `out` (binary64 or exact). -/
def opPlan (j : Json) : Except String Json := do
  let arith := (j.getObjVal? "arith" >>= fun a => a.getStr?).toOption.getD "float"
  if arith == "rat" then
    let m ← jRat (← j.getObjVal? "maxdt"); let c ← jRat (← j.getObjVal? "cur"); let o ← jRat (← j.getObjVal? "out")
    return okJ (Json.arr ((plan ratTime m c o).map fun q => Json.str (ratStr q)).toArray)
  else
    let m ← jFloat (← j.getObjVal? "maxdt"); let c ← jFloat (← j.getObjVal? "cur"); let o ← jFloat (← j.getObjVal? "out")
    return okJ (Json.arr ((plan floatTime m c o).map floatBits).toArray)

def callStr : Call Float → String
  | .proc dt 0 => s!"p {dt.toBits.toNat}"
  | .proc dt c => s!"p {dt.toBits.toNat} c{c}"
  | .sens id => s!"s {id}"

def jReading (j : Json) : Except String (Float × Nat) := do
  let a ← j.getArr?
  match a[0]?, a[1]? with
  | some t, some i => return (← jFloat t, ← i.getNat?)
  | _, _ => .error "reading expected"

/-- `ticks`: a whole history through the model of one runtime with the recording filter. -/
def opTicks (j : Json) : Except String Json := do
  let rt ← (← j.getObjVal? "runtime").getStr?
  let m ← jFloat (← j.getObjVal? "maxdt")
  let t0 ← jFloat (← j.getObjVal? "t0")
  let hasControl := (j.getObjVal? "hascontrol" >>= fun a => a.getBool?).toOption.getD true
  let hist ← jList (fun t => do
      let out ← jFloat (← t.getObjVal? "out")
      let rs ← jList jReading (← t.getObjVal? "readings")
      let given := (t.getObjVal? "control" >>= fun a => a.getBool?).toOption.getD true
      let cid := (t.getObjVal? "control_id" >>= fun a => a.getNat?).toOption.getD 0
      return (out, rs, given, cid)) (← j.getObjVal? "history")
  let enc (l : List (Call Float)) : Json := Json.arr (l.map fun c => Json.str (callStr c)).toArray
  let mut outs : Array Json := #[]
  if rt == "py" then
    let mut self : PyManaged Float (List (Call Float)) := ⟨t0, []⟩
    for (out, rs, given, cid) in hist do
      match pyTick floatTime (traceFilter Float cid) m hasControl given self out rs with
      | .ok (self', est) => self := self'; outs := outs.push (enc est)
      | .error _ => outs := outs.push (Json.str "missing-control")
    return okJ (Json.mkObj [("outs", Json.arr outs), ("held_time", floatBits self.current_time), ("held", enc self.state)])
  else
    let mut st : CppState Float (List (Call Float)) := ⟨t0, []⟩
    for (out, rs, _, cid) in hist do
      let (st', est) := cppTick floatTime (traceFilter Float cid) m st out rs
      st := st'; outs := outs.push (enc est)
    return okJ (Json.mkObj [("outs", Json.arr outs), ("held_time", floatBits st.currentTime), ("held", enc st.state)])

/-! ### EKF ops -/

def jSensor (j : Json) : Except String SensorDef := do
  return { key := ← (← j.getObjVal? "key").getStr?, readings := ← jKw jExpr (← j.getObjVal? "readings") }

def jEkfDef (j : Json) : Except String EkfDef := do
  let filt ← match j.getObjVal? "filtering" with
    | .ok .null => pure none
    | .ok v => pure (some (← jRat v))
    | .error _ => pure none
  return { model := ← jModelDef (← j.getObjVal? "model"),
           processNoise := ← jKw jRat (← j.getObjVal? "noise"),
           sensors := ← jList jSensor (← j.getObjVal? "sensors"),
           sensorNoise := ← jKw (jKw jRat) (← j.getObjVal? "sensor_noise"),
           filtering := filt }

def jMat (m n : Nat) (j : Json) : Except String (QMat m n) := do
  let l ← jList (jList jRat) j
  match QMat.ofLists m n l with
  | some a => .ok a
  | none => .error s!"matrix shape, expected {m}x{n}"

def matJ {m n : Nat} (a : QMat m n) : Json :=
  Json.arr (a.toLists.map fun r => Json.arr (r.map fun q => Json.str (ratStr q)).toArray).toArray

def vecJ {n : Nat} (v : Fin n → Rat) : Json :=
  Json.arr ((List.finRange n).map fun i => Json.str (ratStr (v i))).toArray

def opt {β : Type} (msg : String) : Option β → Except String β
  | some v => .ok v
  | none => .error msg

structure Point where
  cal : List (String × Rat)
  dt : Rat
  state : List (String × Rat)
  control : List (String × Rat)

def jPoint (j : Json) : Except String Point := do
  return { cal := ← jKw jRat (← j.getObjVal? "cal"), dt := ← jRat (← j.getObjVal? "dt"),
           state := ← jKw jRat (← j.getObjVal? "state"), control := ← jKw jRat (← j.getObjVal? "control") }

def processEnv (d : EkfDef) (p : Point) : Env Rat := byNameEnv 0 d.model p.cal p.dt p.state p.control
def sensorEnv (d : EkfDef) (p : Point) : Env Rat :=
  d.Ls.map (fun n => (n, (p.state.lookup n).getD 0)) ++ d.Lk.filterMap (fun n => (p.cal.lookup n).map fun v => (n, v))

def stateVec (d : EkfDef) (p : Point) : Fin d.n → Rat := fun i => (p.state.lookup (d.Ls.getD i.val "")).getD 0

/-- `jacobians` in binary64 (`arith = "float"`): the model's own symbolic derivative (`Expr.diff`, proven to be the analytic
derivative in `Proofs/Diff.lean`) evaluated in Lean `Float`, un-flattened with the same `row * stride + column` arithmetic as
`unflatten`; for definitions outside the rational fragment. Values travel as IEEE-754 bit patterns. -/
def opJacobiansF (j : Json) : Except String Json := do
  let d ← jEkfDef (← j.getObjVal? "ekf")
  let p ← jPoint (← j.getObjVal? "point")
  let fenv (e : Env Rat) : Env Float := e.map fun (n, v) => (n, ratToFloat v)
  let unfl (rows cols stride : Nat) (flat : List Float) : Json :=
    Json.arr ((List.range rows).map fun i => Json.arr ((List.range cols).map fun c => floatBits (flat.getD (i * stride + c) 0.0)).toArray).toArray
  let penv := fenv (processEnv d p)
  let spec ← opt "update does not cover state" d.model.spec
  let G ← opt "undefined" ((jacobianFlat spec d.Ls).mapM fun e => e.eval floatSem penv)
  let V ← opt "undefined" ((jacobianFlat spec d.Lc).mapM fun e => e.eval floatSem penv)
  let mut hs : List (String × Json) := []
  for s in d.sensors do
    let sspec ← opt "sensor spec" s.spec
    let wrt := d.Ls ++ d.Lk
    let H ← opt "undefined" ((jacobianFlat sspec wrt).mapM fun e => e.eval floatSem (fenv (sensorEnv d p)))
    hs := hs ++ [(s.key, unfl s.Lr.length d.n wrt.length H)]
  return okJ (Json.mkObj [("G", unfl d.n d.n d.n G), ("V", unfl d.n d.c d.c V), ("H", Json.mkObj hs)])

def opJacobians (j : Json) : Except String Json := do
  if (j.getObjVal? "arith" >>= fun a => a.getStr?).toOption == some "float" then return ← opJacobiansF j
  let d ← jEkfDef (← j.getObjVal? "ekf")
  let p ← jPoint (← j.getObjVal? "point")
  let env := processEnv d p
  let G ← opt "undefined" (d.processJacobian env)
  let V ← opt "undefined" (d.controlJacobian env)
  let mut hs : List (String × Json) := []
  for s in d.sensors do
    let H ← opt "undefined" (d.sensorJacobian s (sensorEnv d p))
    hs := hs ++ [(s.key, matJ H)]
  return okJ (Json.mkObj [("G", matJ G), ("V", matJ V), ("H", Json.mkObj hs), ("M", matJ d.processNoiseMatrix),
    ("Ls", Json.arr (d.Ls.map Json.str).toArray), ("Lc", Json.arr (d.Lc.map Json.str).toArray)])

/-- `emitted`: the ordered artifact of a filter definition (argument order, number of update statements, noise diagonals, sensor
ids, reading slots and per-reading noises) -/
def opEmitted (j : Json) : Except String Json := do
  let d ← jEkfDef (← j.getObjVal? "ekf")
  let e := d.emitted
  let strs (l : List String) : Json := Json.arr (l.map Json.str).toArray
  let rats (l : List Rat) : Json := Json.arr (l.map fun q => Json.str (ratStr q)).toArray
  return okJ (Json.mkObj [("arglist", strs e.arglist), ("M", rats e.M),
    ("statements", match e.update with | some u => (u.length : Nat) | none => Json.null),
    ("G", match e.G with | some u => (u.length : Nat) | none => Json.null),
    ("V", match e.V with | some u => (u.length : Nat) | none => Json.null),
    ("sensors", Json.arr (e.sensors.map fun s => Json.mkObj [("key", Json.str s.key), ("readings", strs s.readings), ("noise", rats s.noise),
      ("jac", match s.jac with | some u => (u.length : Nat) | none => Json.null)]).toArray)])

def opIface (j : Json) : Except String Json := do
  let d ← jEkfDef (← j.getObjVal? "ekf")
  let maxDt ← jRat (← j.getObjVal? "maxdt")
  let i := d.iface maxDt
  let strs (l : List String) : Json := Json.arr (l.map Json.str).toArray
  let ty : TagTy → Json := fun t => match t with | .falseType => Json.str "std::false_type" | .named s => Json.str s
  return okJ (Json.mkObj [("StateAndVarianceT", ty i.stateAndVarianceT), ("CalibrationT", ty i.calibrationT), ("ControlT", ty i.controlT),
    ("StampedReadingBaseT", ty i.stampedReadingBaseT), ("processArgs", strs i.processArgs), ("readingArgs", strs i.readingArgs),
    ("sensorIds", strs i.sensorIds), ("compatible", Json.bool (Managed.compatible i)), ("configAccepts", Json.bool (Managed.configAccepts maxDt)),
    ("processCall", strs (Managed.processCall i)), ("readingCall", strs (Managed.readingCall i)),
    ("ctorOverloads", Json.arr ((Managed.ctorOverloads i).map strs).toArray),
    ("tickOverloads", Json.arr ((Managed.tickOverloads i).map fun (c, r) => Json.arr #[Json.bool c, Json.bool r]).toArray)])

def doPredict (d : EkfDef) (p : Point) (P : QMat d.n d.n) : Except String (List Rat × QMat d.n d.n) := do
  let env := processEnv d p
  let G ← opt "undefined" (d.processJacobian env)
  let V ← opt "undefined" (d.controlJacobian env)
  let prog ← opt "update does not cover state" d.model.compilePlain
  match pyRun ratSem 0 d.model prog p.cal p.dt p.state (some p.control) with
  | .ok x' => return (x', predictCov G V d.processNoiseMatrix P)
  | .error e => .error (runErrStr e)

def opPredict (j : Json) : Except String Json := do
  let d ← jEkfDef (← j.getObjVal? "ekf")
  let p ← jPoint (← j.getObjVal? "point")
  let P ← jMat d.n d.n (← j.getObjVal? "P")
  let (x', P') ← doPredict d p P
  return okJ (Json.mkObj [("state", namedOut (fun q => Json.str (ratStr q)) d.Ls x'), ("cov", matJ P')])

def doUpdate (d : EkfDef) (s : SensorDef) (p : Point) (P : QMat d.n d.n) (z : List (String × Rat)) :
    Except String (UpdateOut d.n s.Lr.length × Rat) := do
  let env := sensorEnv d p
  let H ← opt "undefined" (d.sensorJacobian s env)
  let spec ← opt "sensor spec" s.spec
  let hx ← opt "undefined" (EkfDef.evalAll env spec)
  let Q := d.sensorNoiseMatrix s
  let S := innovCov H P Q
  let Si ← opt "singular" (gaussJordan _ S)
  let zv : Fin s.Lr.length → Rat := fun i => (z.lookup (s.Lr.getD i.val "")).getD 0
  let hxv : Fin s.Lr.length → Rat := fun i => hx.getD i.val 0
  let out ← opt "inverse certificate rejected" (sensorUpdateJ d.filtering H P Q Si (stateVec d p) zv hxv)
  return (out, nis out.innovation Si)

def opUpdate (j : Json) : Except String Json := do
  let d ← jEkfDef (← j.getObjVal? "ekf")
  let p ← jPoint (← j.getObjVal? "point")
  let P ← jMat d.n d.n (← j.getObjVal? "P")
  let key ← (← j.getObjVal? "sensor").getStr?
  let s ← opt "unknown sensor" (d.sensor key)
  let z ← jKw jRat (← j.getObjVal? "z")
  let (out, nisv) ← doUpdate d s p P z
  return okJ (Json.mkObj [
    ("state", Json.mkObj ((List.finRange d.n).map fun i => (d.Ls.getD i.val "", Json.str (ratStr (out.state i))))),
    ("cov", matJ out.cov), ("innovation", vecJ out.innovation), ("S", matJ out.S),
    ("rejected", out.rejected), ("nis", Json.str (ratStr nisv)), ("Lr", Json.arr (s.Lr.map Json.str).toArray)])

/-- `threshold`: the decision on a given NIS (exact), in the three implementation shapes -/
def opDecide (j : Json) : Except String Json := do
  let nisv ← jRat (← j.getObjVal? "nis")
  let m ← (← j.getObjVal? "m").getNat?
  let filt ← match j.getObjVal? "k" with
    | .ok .null => pure none
    | .ok v => pure (some (← jRat v))
    | .error _ => pure none
  let fl ← match j.getObjVal? "nis_bits", j.getObjVal? "k_bits" with
    | .ok nb, .ok .null => pure (Json.mkObj [("decision", discardF none (← jFloat nb) m)])
    | .ok nb, .ok kb => do
        let kf ← jFloat kb
        pure (Json.mkObj [("decision", discardF (some kf) (← jFloat nb) m), ("threshold", floatBits (thresholdF kf m))])
    | _, _ => pure Json.null
  return okJ (Json.mkObj [("python", discard filt nisv m), ("cpp", discardCpp (filt.getD 0) nisv m),
    ("helper", match filt with | some k => exceeds nisv k m | none => false), ("float", fl)])

/-- `checkjac`: a recorded/parsed Jacobian block (body = entries row-major over outs x wrt) against the
model's own symbolic derivative `jacobianFlat outs wrt` (Lean `Expr.diff`), exactly, at rational points. -/
def opCheckJac (j : Json) : Except String Json := do
  let prog ← jProgram (← j.getObjVal? "prog")
  let outs ← jList jExpr (← j.getObjVal? "outs")
  let wrt ← jStrList (← j.getObjVal? "wrt")
  let pts ← jList (jList jRat) (← j.getObjVal? "points")
  let spec := jacobianFlat outs wrt
  let ws := prog.WellScoped
  let mut agree := true
  let mut evaluated : Nat := 0
  let mut firstBad : Option Nat := none
  let mut idx : Nat := 0
  for vals in pts do
    let a := prog.exec ratSem vals
    let b := spec.mapM (fun e => e.eval ratSem (prog.args.zip vals))
    match a, b with
    | some x, some y =>
      evaluated := evaluated + 1
      if x != y then
        agree := false
        if firstBad.isNone then firstBad := some idx
    | _, _ => pure ()
    idx := idx + 1
  return okJ (Json.mkObj [("wellscoped", ws), ("agree", agree), ("evaluated", evaluated),
    ("firstbad", match firstBad with | some i => Json.num i | none => Json.null),
    ("speclen_ok", spec.length == prog.body.length), ("symbolic", symbolicVerdict spec prog)])

/-! ### validation -/
def jNoiseEntry (j : Json) : Except String (NoiseKey × Rat) := do
  let a ← j.getArr?
  match a[0]?, a[1]?, a[2]? with
  | some k, some n, some v =>
    let kind ← k.getStr?
    let name ← n.getStr?
    return (if kind == "sym" then NoiseKey.sym name else NoiseKey.other name, ← jRat v)
  | _, _, _ => .error "noise entry"

def jSensorSkel (j : Json) : Except String SensorSkel := do
  return { key := ← (← j.getObjVal? "key").getStr?, readings := ← jKw jStrList (← j.getObjVal? "readings") }

def jVDef (j : Json) : Except String VDef := do
  return { state := ← jStrList (← j.getObjVal? "state"), control := ← jStrList (← j.getObjVal? "control"),
           calibration := ← jStrList (← j.getObjVal? "calibration"), updateKeys := ← jStrList (← j.getObjVal? "updateKeys"),
           calKeys := ← jStrList (← j.getObjVal? "calKeys"), noise := ← jList jNoiseEntry (← j.getObjVal? "noise"),
           sensors := ← jList jSensorSkel (← j.getObjVal? "sensors"),
           sensorNoise := ← jKw jStrList (← j.getObjVal? "sensorNoise") }

def opAccept (j : Json) : Except String Json := do
  let d ← jVDef (← j.getObjVal? "def")
  return okJ (Json.mkObj [("ui", acceptsUi d), ("compile", acceptsCompile d), ("ekf", acceptsEkf d),
    ("valid_ui", validUi d), ("valid_cal", validCal d), ("valid_ekf", validEkf d)])

def slotsJ (l : List (String × Nat)) : Json := Json.arr (l.map fun p => Json.arr #[Json.str p.1, Json.num p.2]).toArray

def opSkeleton (j : Json) : Except String Json := do
  let d ← jModelDef (← j.getObjVal? "def")
  let sensors ← jKw jStrList (← j.getObjVal? "sensors")
  let sk := skeleton d sensors
  return okJ (Json.mkObj [("state", slotsJ sk.stateSlots), ("control", slotsJ sk.controlSlots),
    ("calibration", slotsJ sk.calibrationSlots), ("arglist", Json.arr (sk.arglist.map Json.str).toArray),
    ("sensors", Json.arr (sk.sensorIds.map Json.str).toArray),
    ("readings", Json.mkObj (sk.readingSlots.map fun p => (p.1, slotsJ p.2)))])

/-! ### scikit-learn adapter -/

/-- `transform`: state 0, covariance I; per row predict with dt = 1/10 then the sensors in key order -/
def opTransform (j : Json) : Except String Json := do
  let d ← jEkfDef (← j.getObjVal? "ekf")
  let cal ← jKw jRat (← j.getObjVal? "cal")
  let rows ← jList (jList jRat) (← j.getObjVal? "X")
  let keys := layout (d.sensors.map (·.key))
  let sensors ← keys.mapM fun k => opt "sensor" (d.sensor k)
  let sizes := sensors.map fun s => s.Lr.length
  let mut st : List (String × Rat) := d.Ls.map fun n => (n, 0)
  let mut P : QMat d.n d.n := QMat.one
  let mut out : Array Json := #[]
  for row in rows do
    let (ctl, parts) := sliceRow d.c sizes row
    let p : Point := { cal := cal, dt := 1 / 10, state := st, control := d.Lc.zip ctl }
    let (x', P') ← doPredict d p P
    st := d.Ls.zip x'
    P := P'
    let mut nisRow : Array Json := #[]
    for (s, zvals) in sensors.zip parts do
      let p2 : Point := { cal := cal, dt := 1 / 10, state := st, control := [] }
      let (o, nisv) ← doUpdate d s p2 P (s.Lr.zip zvals)
      st := (List.finRange d.n).map fun i => (d.Ls.getD i.val "", o.state i)
      P := o.cov
      nisRow := nisRow.push (Json.mkObj [("nis", Json.str (ratStr nisv)), ("rejected", o.rejected)])
    out := out.push (Json.arr nisRow)
  return okJ (Json.arr out)

def jNoises (j : Json) : Except String Noises := do
  return { process := ← jKw jRat (← j.getObjVal? "process"), sensors := ← jKw (jKw jRat) (← j.getObjVal? "sensors") }

def noisesJ (nz : Noises) : Json :=
  Json.mkObj [("process", Json.arr (nz.process.map fun p => Json.arr #[Json.str p.1, Json.str (ratStr p.2)]).toArray),
    ("sensors", Json.arr (nz.sensors.map fun s => Json.arr #[Json.str s.1,
        Json.arr (s.2.map fun p => Json.arr #[Json.str p.1, Json.str (ratStr p.2)]).toArray]).toArray)]

def opFlatten (j : Json) : Except String Json := do
  let controls ← jStrList (← j.getObjVal? "controls")
  let nz ← jNoises (← j.getObjVal? "noises")
  return okJ (Json.arr ((flattenNoises controls nz).map fun q => Json.str (ratStr q)).toArray)

def opInverse (j : Json) : Except String Json := do
  let controls ← jStrList (← j.getObjVal? "controls")
  let nz ← jNoises (← j.getObjVal? "noises")
  let v ← jList jRat (← j.getObjVal? "vector")
  return okJ (noisesJ (inverseNoises controls nz v))

/-- `set_params` on a record of opaque values (strings) -/
def opSetParams (j : Json) : Except String Json := do
  let g (k : String) : Except String String := do (← j.getObjVal? k).getStr?
  let c (k : String) : Except String String := do (← (← j.getObjVal? "config").getObjVal? k).getStr?
  let sm ← g "symbolic_model"
  let pn ← g "process_noise"
  let se ← g "sensor_models"
  let sn ← g "sensor_noises"
  let cm ← g "calibration_map"
  let c1 ← c "common_subexpression_elimination"
  let c2 ← c "python_modules"
  let c3 ← c "extra_validation"
  let c4 ← c "max_dt_sec"
  let c5 ← c "innovation_filtering"
  let cfg : Cfg String := ⟨c1, c2, c3, c4, c5⟩
  let p : Params String := ⟨sm, pn, se, sn, cm, cfg⟩
  let sets ← jKw (fun v => v.getStr?) (← j.getObjVal? "set")
  match p.setMany (sets.map fun kv => (kv.1, ParamVal.val kv.2)) with
  | .error (.invalidKey k) => return errJ s!"invalid-key {k}"
  | .error (.typeMismatch k) => return errJ s!"type {k}"
  | .ok q => return okJ (Json.mkObj [("symbolic_model", q.symbolic_model), ("process_noise", q.process_noise),
      ("sensor_models", q.sensor_models), ("sensor_noises", q.sensor_noises), ("calibration_map", q.calibration_map),
      ("config", Json.mkObj [("common_subexpression_elimination", q.config.common_subexpression_elimination),
        ("python_modules", q.config.python_modules), ("extra_validation", q.config.extra_validation),
        ("max_dt_sec", q.config.max_dt_sec), ("innovation_filtering", q.config.innovation_filtering)])])

/-! ### workflow -/
def jGraph (j : Json) : Except String Graph := do
  jList (fun n => do
    let a ← n.getArr?
    match a[0]?, a[1]? with
    | some i, some ts => return (← i.getNat?, ← jList (fun t => do
        let b ← t.getArr?
        match b[0]?, b[1]? with
        | some nm, some tgt => return (← nm.getStr?, ← tgt.getNat?)
        | _, _ => .error "transition") ts)
    | _, _ => .error "node") j

def opSearch (j : Json) : Except String Json := do
  let g ← jGraph (← j.getObjVal? "graph")
  let s ← (← j.getObjVal? "start").getNat?
  let t ← (← j.getObjVal? "target").getNat?
  match search g s t with
  | some p => return okJ (Json.mkObj [("path", Json.arr (p.map Json.str).toArray),
      ("history", Json.arr ((historyOf g s p).map fun (n : Nat) => Json.num (JsonNumber.fromNat n)).toArray)])
  | none => return errJ "unreachable"

def dispatch (j : Json) : Except String Json := do
  let op ← (← j.getObjVal? "op").getStr?
  match op with
  | "pyrun" => opPyRun j
  | "checkprog" => opCheckProg j
  | "checkjac" => opCheckJac j
  | "layout" => opLayout j
  | "bind" => opBind j
  | "fromdata" => opFromData j
  | "plan" => opPlan j
  | "ticks" => opTicks j
  | "jacobians" => opJacobians j
  | "predict" => opPredict j
  | "update" => opUpdate j
  | "emitted" => opEmitted j
  | "fromdata_nd" => opFromDataND j
  | "iface" => opIface j
  | "decide" => opDecide j
  | "accept" => opAccept j
  | "skeleton" => opSkeleton j
  | "transform" => opTransform j
  | "flatten" => opFlatten j
  | "inverse" => opInverse j
  | "setparams" => opSetParams j
  | "search" => opSearch j
  | "ping" => return okJ (Json.str "pong")
  | o => .error s!"unknown op {o}"

partial def loop (hin hout : IO.FS.Stream) : IO Unit := do
  let line ← hin.getLine
  if line.isEmpty then return ()
  let ans := match Json.parse line >>= dispatch with
    | .ok j => j
    | .error e => Json.mkObj [("fatal", Json.str e)]
  hout.putStrLn ans.compress
  hout.flush
  loop hin hout

def main : IO Unit := do
  loop (← IO.getStdin) (← IO.getStdout)
