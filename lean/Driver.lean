/-
Line-protocol driver: one JSON request per line on stdin, one JSON answer per line on stdout.
Run with `lake env lean --run Driver.lean`. Imports only the Mathlib-free model.
-/
import Lean.Data.Json
import FormakVerif.Model.Names
import FormakVerif.Model.Expr
import FormakVerif.Model.PyModel
import FormakVerif.Model.Runtime
open Lean FormakVerif

def parseRat (s : String) : Except String Rat :=
  match s.splitOn "/" with
  | [p] => match p.toInt? with
    | some n => .ok (n : Rat)
    | none => .error s!"bad rational {s}"
  | [p, q] => match p.toInt?, q.toNat? with
    | some n, some d => if d = 0 then .error "zero denominator" else .ok ((n : Rat) / (d : Rat))
    | _, _ => .error s!"bad rational {s}"
  | _ => .error s!"bad rational {s}"

def ratStr (q : Rat) : String := if q.den = 1 then toString q.num else s!"{q.num}/{q.den}"

def jRat (j : Json) : Except String Rat := do
  match j with
  | .str s => parseRat s
  | .num n => if n.exponent = 0 then .ok (n.mantissa : Rat) else .error "non-integer json number"
  | _ => .error "rational expected"

partial def jExpr (j : Json) : Except String Expr := do
  match j with
  | .arr a =>
    let tag ← (a[0]? >>= fun t => t.getStr?.toOption) |>.elim (.error "tag expected") .ok
    let arg (i : Nat) : Except String Json := (a[i]?).elim (.error s!"arg {i} missing in {tag}") .ok
    match tag with
    | "var" => return .var (← (← arg 1).getStr?)
    | "num" => return .num (← jRat (← arg 1))
    | "add" => return .add (← jExpr (← arg 1)) (← jExpr (← arg 2))
    | "mul" => return .mul (← jExpr (← arg 1)) (← jExpr (← arg 2))
    | "neg" => return .neg (← jExpr (← arg 1))
    | "div" => return .div (← jExpr (← arg 1)) (← jExpr (← arg 2))
    | "pow" => return .pow (← jExpr (← arg 1)) (← (← arg 2).getInt?)
    | "app" => return .app (← (← arg 1).getStr?) (← jExpr (← arg 2))
    | t => .error s!"unknown tag {t}"
  | _ => .error "expression must be an array"

def jList {β : Type} (f : Json → Except String β) (j : Json) : Except String (List β) := do
  let a ← j.getArr?
  a.toList.mapM f

def jStrList := jList (fun j => j.getStr?)

def jPair {β : Type} (f : Json → Except String β) (j : Json) : Except String (String × β) := do
  let a ← j.getArr?
  match a[0]?, a[1]? with
  | some k, some v => return (← k.getStr?, ← f v)
  | _, _ => .error "pair expected"

def jKw {β : Type} (f : Json → Except String β) := jList (jPair f)

def jProgram (j : Json) : Except String Program := do
  return { args := ← jStrList (← j.getObjVal? "args"),
           pre := ← jKw jExpr (← j.getObjVal? "pre"),
           body := ← jList jExpr (← j.getObjVal? "body") }

def jModelDef (j : Json) : Except String ModelDef := do
  return { dt := ← (← j.getObjVal? "dt").getStr?,
           state := ← jStrList (← j.getObjVal? "state"),
           control := ← jStrList (← j.getObjVal? "control"),
           calibration := ← jStrList (← j.getObjVal? "calibration"),
           update := ← jKw jExpr (← j.getObjVal? "update") }

def floatBits (x : Float) : Json := Json.str (toString x.toBits.toNat)
def jFloat (j : Json) : Except String Float := do
  -- floats travel as the decimal string of their IEEE-754 bit pattern
  let s ← j.getStr?
  match s.toNat? with
  | some n => .ok (Float.ofBits n.toUInt64)
  | none => .error "float bits expected"

def bindErrStr : BindErr → String
  | .unknownKey _ => "unknown-key"
  | .badShape _ _ => "bad-shape"
  | .missingControl => "missing-control"

def runErrStr : RunErr → String
  | .bind e => bindErrStr e
  | .missingCalibration _ => "missing-calibration"
  | .missingControl => "missing-control"
  | .evalFailed => "eval-failed"
  | .badProgram => "bad-program"

def okJ (j : Json) : Json := Json.mkObj [("ok", j)]
def errJ (s : String) : Json := Json.mkObj [("err", Json.str s)]

def namedOut {β : Type} (enc : β → Json) (L : List String) (v : List β) : Json :=
  Json.mkObj ((L.zip v).map fun (n, x) => (n, enc x))

/-- `pyrun`: run the Python-model pipeline in arithmetic `sem`. -/
def opPyRun (j : Json) : Except String Json := do
  let d ← jModelDef (← j.getObjVal? "def")
  let prog ← match j.getObjVal? "prog" with
    | .ok pj => jProgram pj
    | .error _ => d.compilePlain.elim (.error "update does not cover state") .ok
  let arith := (j.getObjVal? "arith" >>= fun a => a.getStr?).toOption.getD "rat"
  let noControl := (j.getObjVal? "nocontrol" >>= fun a => a.getBool?).toOption.getD false
  if arith == "rat" then
    let cal ← jKw jRat (← j.getObjVal? "cal")
    let dtv ← jRat (← j.getObjVal? "dt")
    let st ← jKw jRat (← j.getObjVal? "state")
    let ct ← jKw jRat (← j.getObjVal? "control")
    match pyRun ratSem 0 d prog cal dtv st (if noControl then none else some ct) with
    | .ok out => return okJ (namedOut (fun q => Json.str (ratStr q)) (layout d.state) out)
    | .error e => return errJ (runErrStr e)
  else
    let cal ← jKw jFloat (← j.getObjVal? "cal")
    let dtv ← jFloat (← j.getObjVal? "dt")
    let st ← jKw jFloat (← j.getObjVal? "state")
    let ct ← jKw jFloat (← j.getObjVal? "control")
    match pyRun floatSem 0.0 d prog cal dtv st (if noControl then none else some ct) with
    | .ok out => return okJ (namedOut floatBits (layout d.state) out)
    | .error e => return errJ (runErrStr e)

/-- `checkprog`: well-scopedness of a recorded block, and exact agreement of the block with the
given specification expressions at the given rational points. -/
def opCheckProg (j : Json) : Except String Json := do
  let prog ← jProgram (← j.getObjVal? "prog")
  let spec ← jList jExpr (← j.getObjVal? "spec")
  let pts ← jList (jList jRat) (← j.getObjVal? "points")
  let ws := prog.WellScoped
  let mut agree := true
  let mut evaluated : Nat := 0
  let mut firstBad : Option Nat := none
  let mut idx : Nat := 0
  for vals in pts do
    let a := prog.exec ratSem vals
    let b := spec.mapM (fun e => e.eval ratSem (prog.args.zip vals))
    let c := prog.inline.mapM (fun e => e.eval ratSem (prog.args.zip vals))
    match a, b with
    | some x, some y =>
      evaluated := evaluated + 1
      if x != y || c != a then
        agree := false
        if firstBad.isNone then firstBad := some idx
    | none, none => pure ()
    | _, _ =>
      -- one side undefined at this point (division by zero): not comparable
      pure ()
    idx := idx + 1
  return okJ (Json.mkObj [("wellscoped", ws), ("agree", agree), ("evaluated", evaluated),
    ("firstbad", match firstBad with | some i => Json.num i | none => Json.null),
    ("speclen_ok", spec.length == prog.body.length)])

def opLayout (j : Json) : Except String Json := do
  let names ← jStrList (← j.getObjVal? "names")
  return okJ (Json.arr ((layout names).map Json.str).toArray)

def opBind (j : Json) : Except String Json := do
  let L ← jStrList (← j.getObjVal? "L")
  let kw ← jKw jRat (← j.getObjVal? "kw")
  let kind := (j.getObjVal? "kind" >>= fun a => a.getStr?).toOption.getD "vector"
  if kind == "vector" then
    match bindVec L kw 0 with
    | .ok v => return okJ (Json.arr (v.map fun q => Json.str (ratStr q)).toArray)
    | .error e => return errJ (bindErrStr e)
  else
    match bindCov (0 : Rat) 1 L kw with
    | .ok m => return okJ (Json.arr (m.map fun r => Json.arr (r.map fun q => Json.str (ratStr q)).toArray).toArray)
    | .error e => return errJ (bindErrStr e)

def opFromData (j : Json) : Except String Json := do
  let L ← jStrList (← j.getObjVal? "L")
  let n ← (← j.getObjVal? "rows").getNat?
  match fromData L (List.replicate n (0 : Rat)) with
  | .ok _ => return okJ (Json.str "ok")
  | .error e => return errJ (bindErrStr e)

/-- `plan`: the prediction steps from `cur` to `out` (binary64 or exact). -/
def opPlan (j : Json) : Except String Json := do
  let arith := (j.getObjVal? "arith" >>= fun a => a.getStr?).toOption.getD "float"
  if arith == "rat" then
    let m ← jRat (← j.getObjVal? "maxdt"); let c ← jRat (← j.getObjVal? "cur"); let o ← jRat (← j.getObjVal? "out")
    return okJ (Json.arr ((plan ratTime m c o).map fun q => Json.str (ratStr q)).toArray)
  else
    let m ← jFloat (← j.getObjVal? "maxdt"); let c ← jFloat (← j.getObjVal? "cur"); let o ← jFloat (← j.getObjVal? "out")
    return okJ (Json.arr ((plan floatTime m c o).map floatBits).toArray)

def callStr : Call Float → String
  | .proc dt => s!"p {dt.toBits.toNat}"
  | .sens id => s!"s {id}"

def jReading (j : Json) : Except String (Float × Nat) := do
  let a ← j.getArr?
  match a[0]?, a[1]? with
  | some t, some i => return (← jFloat t, ← i.getNat?)
  | _, _ => .error "reading expected"

/-- `ticks`: a whole history through the model of one runtime with the recording filter. -/
def opTicks (j : Json) : Except String Json := do
  let rt ← (← j.getObjVal? "runtime").getStr?
  let m ← jFloat (← j.getObjVal? "maxdt")
  let t0 ← jFloat (← j.getObjVal? "t0")
  let hasControl := (j.getObjVal? "hascontrol" >>= fun a => a.getBool?).toOption.getD true
  let hist ← jList (fun t => do
      let out ← jFloat (← t.getObjVal? "out")
      let rs ← jList jReading (← t.getObjVal? "readings")
      let given := (t.getObjVal? "control" >>= fun a => a.getBool?).toOption.getD true
      return (out, rs, given)) (← j.getObjVal? "history")
  let F := traceFilter Float
  let enc (l : List (Call Float)) : Json := Json.arr (l.map fun c => Json.str (callStr c)).toArray
  let mut outs : Array Json := #[]
  if rt == "py" then
    let mut self : PyManaged Float (List (Call Float)) := ⟨t0, []⟩
    for (out, rs, given) in hist do
      match pyTick floatTime F m hasControl given self out rs with
      | .ok (self', est) => self := self'; outs := outs.push (enc est)
      | .error _ => outs := outs.push (Json.str "missing-control")
    return okJ (Json.mkObj [("outs", Json.arr outs), ("held_time", floatBits self.current_time), ("held", enc self.state)])
  else
    let mut st : CppState Float (List (Call Float)) := ⟨t0, []⟩
    for (out, rs, _) in hist do
      let (st', est) := cppTick floatTime F m st out rs
      st := st'; outs := outs.push (enc est)
    return okJ (Json.mkObj [("outs", Json.arr outs), ("held_time", floatBits st.currentTime), ("held", enc st.state)])

def dispatch (j : Json) : Except String Json := do
  let op ← (← j.getObjVal? "op").getStr?
  match op with
  | "pyrun" => opPyRun j
  | "checkprog" => opCheckProg j
  | "layout" => opLayout j
  | "bind" => opBind j
  | "fromdata" => opFromData j
  | "plan" => opPlan j
  | "ticks" => opTicks j
  | "ping" => return okJ (Json.str "pong")
  | o => .error s!"unknown op {o}"

partial def loop (hin hout : IO.FS.Stream) : IO Unit := do
  let line ← hin.getLine
  if line.isEmpty then return ()
  let ans := match Json.parse line >>= dispatch with
    | .ok j => j
    | .error e => Json.mkObj [("fatal", Json.str e)]
  hout.putStrLn ans.compress
  hout.flush
  loop hin hout

def main : IO Unit := do
  loop (← IO.getStdin) (← IO.getStdout)
