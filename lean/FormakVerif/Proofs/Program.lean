import FormakVerif.Model.Expr
import Mathlib.Tactic.Tauto
import Mathlib.Tactic.ByContra

namespace FormakVerif

variable {α : Type}

/-- `σ` explains the extended environment `ρf` over the base environment `ρb`:
every name bound by `σ` evaluates (in the base) to what `ρf` holds, other names are untouched. -/
def Agree (S : Sem α) (σ : List (Name × Expr)) (ρf ρb : Env α) : Prop :=
  ∀ n, ρf.lookup n = match σ.lookup n with
    | some e => e.eval S ρb
    | none => ρb.lookup n

theorem agree_nil (S : Sem α) (ρ : Env α) : Agree S [] ρ ρ := by
  intro n; simp

theorem eval_subst (S : Sem α) {σ : List (Name × Expr)} {ρf ρb : Env α}
    (h : Agree S σ ρf ρb) (e : Expr) : (e.subst σ).eval S ρb = e.eval S ρf := by
  induction e with
  | var n =>
    have := h n
    simp only [Expr.subst, Expr.eval]
    cases hl : σ.lookup n with
    | some e' => simp [hl] at this ⊢; exact this.symm
    | none => simp [hl] at this ⊢; simp [Expr.eval, this]
  | num q => simp [Expr.subst, Expr.eval]
  | add a b iha ihb => simp [Expr.subst, Expr.eval, iha, ihb]
  | mul a b iha ihb => simp [Expr.subst, Expr.eval, iha, ihb]
  | neg a iha => simp [Expr.subst, Expr.eval, iha]
  | div a b iha ihb => simp [Expr.subst, Expr.eval, iha, ihb]
  | pow a k iha => simp [Expr.subst, Expr.eval, iha]
  | app f a iha => simp [Expr.subst, Expr.eval, iha]

theorem agree_step (S : Sem α) {σ : List (Name × Expr)} {ρf ρb : Env α}
    (h : Agree S σ ρf ρb) (t : Name) (e : Expr) (v : α) (hv : e.eval S ρf = some v) :
    Agree S ((t, e.subst σ) :: σ) ((t, v) :: ρf) ρb := by
  intro n
  simp only [List.lookup_cons]
  by_cases hnt : n = t
  · subst hnt; simp [eval_subst S h e, hv]
  · have : (n == t) = false := by simpa using hnt
    simp only [this]
    exact h n

theorem runPrefix_agree (S : Sem α) (pre : List (Name × Expr)) :
    ∀ (σ : List (Name × Expr)) (ρf ρb ρ' : Env α), Agree S σ ρf ρb →
      runPrefix S pre ρf = some ρ' → Agree S (inlineSubst pre σ) ρ' ρb := by
  induction pre with
  | nil =>
    intro σ ρf ρb ρ' h hr
    simp [runPrefix] at hr; subst hr; simpa [inlineSubst] using h
  | cons te rest ih =>
    intro σ ρf ρb ρ' h hr
    obtain ⟨t, e⟩ := te
    simp only [runPrefix] at hr
    cases hv : e.eval S ρf with
    | none => simp [hv] at hr
    | some v =>
      simp [hv] at hr
      exact ih _ _ _ _ (agree_step S h t e v hv) hr

theorem mapM_eval_subst (S : Sem α) {σ : List (Name × Expr)} {ρf ρb : Env α}
    (h : Agree S σ ρf ρb) (es : List Expr) :
    (es.map (·.subst σ)).mapM (fun e => e.eval S ρb) = es.mapM (fun e => e.eval S ρf) := by
  induction es with
  | nil => simp
  | cons e es ih => simp [List.mapM_cons, eval_subst S h e, ih]

/-- **CSE soundness of the block semantics.** Whenever all temporaries of the prefix evaluate, the
block returns exactly what its inlined (temporary-free) body returns on the arguments alone. -/
theorem exec_eq_inline (S : Sem α) (p : Program) (vals : List α) (ρ' : Env α)
    (hlen : vals.length = p.args.length)
    (hpre : runPrefix S p.pre (p.args.zip vals) = some ρ') :
    p.exec S vals = p.inline.mapM (fun e => e.eval S (p.args.zip vals)) := by
  unfold Program.exec Program.inline
  simp only [hlen, ne_eq, not_true_eq_false, if_false, hpre]
  have hag := runPrefix_agree S p.pre [] _ _ ρ' (agree_nil S _) hpre
  simpa using (mapM_eval_subst S hag p.body).symm

/-- If the block returns a result at all, the inlined body returns the same result. -/
theorem exec_some_inline (S : Sem α) (p : Program) (vals r : List α)
    (h : p.exec S vals = some r) :
    p.inline.mapM (fun e => e.eval S (p.args.zip vals)) = some r := by
  have hlen : vals.length = p.args.length := by
    unfold Program.exec at h
    by_contra hne
    simp [hne] at h
  cases hpre : runPrefix S p.pre (p.args.zip vals) with
  | none =>
    unfold Program.exec at h
    simp [hlen, hpre] at h
  | some ρ' => rw [← exec_eq_inline S p vals ρ' hlen hpre]; exact h

/-- A block without temporaries is its body. -/
theorem exec_no_prefix (S : Sem α) (args : List Name) (body : List Expr) (vals : List α)
    (hlen : vals.length = args.length) :
    (Program.mk args [] body).exec S vals = body.mapM (fun e => e.eval S (args.zip vals)) := by
  simp [Program.exec, hlen, runPrefix]

/-! ### well-scopedness: names are always bound -/

theorem lookup_isSome_of_mem_keys {ρ : Env α} {n : Name} (h : n ∈ ρ.map (·.1)) :
    (ρ.lookup n).isSome := by
  induction ρ with
  | nil => simp at h
  | cons p ρ ih =>
    obtain ⟨k, v⟩ := p
    simp only [List.lookup_cons]
    by_cases hn : n = k
    · subst hn; simp
    · have : (n == k) = false := by simpa using hn
      simp only [this]
      apply ih
      simpa [hn] using h

/-- An arithmetic with no partial operation. -/
def Sem.Total (S : Sem α) : Prop :=
  (∀ x y, (S.div x y).isSome) ∧ (∀ x k, (S.pow x k).isSome) ∧ (∀ f x, (S.app f x).isSome)

theorem eval_isSome (S : Sem α) (hS : S.Total) (ρ : Env α) (e : Expr)
    (h : ∀ n ∈ e.vars, n ∈ ρ.map (·.1)) : (e.eval S ρ).isSome := by
  induction e with
  | var n =>
    exact lookup_isSome_of_mem_keys (h n (by simp [Expr.vars]))
  | num q => simp [Expr.eval]
  | add a b iha ihb =>
    have ha := iha (fun n hn => h n (by simp [Expr.vars, hn]))
    have hb := ihb (fun n hn => h n (by simp [Expr.vars, hn]))
    obtain ⟨x, hx⟩ := Option.isSome_iff_exists.mp ha
    obtain ⟨y, hy⟩ := Option.isSome_iff_exists.mp hb
    simp [Expr.eval, hx, hy]
  | mul a b iha ihb =>
    have ha := iha (fun n hn => h n (by simp [Expr.vars, hn]))
    have hb := ihb (fun n hn => h n (by simp [Expr.vars, hn]))
    obtain ⟨x, hx⟩ := Option.isSome_iff_exists.mp ha
    obtain ⟨y, hy⟩ := Option.isSome_iff_exists.mp hb
    simp [Expr.eval, hx, hy]
  | neg a iha =>
    have ha := iha (fun n hn => h n (by simp [Expr.vars, hn]))
    obtain ⟨x, hx⟩ := Option.isSome_iff_exists.mp ha
    simp [Expr.eval, hx]
  | div a b iha ihb =>
    have ha := iha (fun n hn => h n (by simp [Expr.vars, hn]))
    have hb := ihb (fun n hn => h n (by simp [Expr.vars, hn]))
    obtain ⟨x, hx⟩ := Option.isSome_iff_exists.mp ha
    obtain ⟨y, hy⟩ := Option.isSome_iff_exists.mp hb
    simp [Expr.eval, hx, hy, hS.1]
  | pow a k iha =>
    have ha := iha (fun n hn => h n (by simp [Expr.vars, hn]))
    obtain ⟨x, hx⟩ := Option.isSome_iff_exists.mp ha
    simp [Expr.eval, hx, hS.2.1]
  | app f a iha =>
    have ha := iha (fun n hn => h n (by simp [Expr.vars, hn]))
    obtain ⟨x, hx⟩ := Option.isSome_iff_exists.mp ha
    simp [Expr.eval, hx, hS.2.2]

theorem runPrefix_isSome (S : Sem α) (hS : S.Total) (pre : List (Name × Expr)) :
    ∀ (known : List Name) (ρ : Env α), wellScopedPrefix pre known = true →
      (∀ n ∈ known, n ∈ ρ.map (·.1)) →
      ∃ ρ', runPrefix S pre ρ = some ρ' ∧
        ∀ n ∈ known ++ pre.map (·.1), n ∈ ρ'.map (·.1) := by
  induction pre with
  | nil => intro known ρ _ hk; exact ⟨ρ, rfl, by simpa using hk⟩
  | cons te rest ih =>
    intro known ρ hw hk
    obtain ⟨t, e⟩ := te
    simp only [wellScopedPrefix, Bool.and_eq_true] at hw
    obtain ⟨⟨_, hvars⟩, hrest⟩ := hw
    have hev : (e.eval S ρ).isSome := by
      apply eval_isSome S hS
      intro n hn
      have := List.all_eq_true.mp hvars n hn
      exact hk n (by simpa using this)
    obtain ⟨v, hv⟩ := Option.isSome_iff_exists.mp hev
    obtain ⟨ρ', hr, hmem⟩ := ih (t :: known) ((t, v) :: ρ) hrest (by
      intro n hn
      simp only [List.mem_cons] at hn
      rcases hn with rfl | hn
      · simp
      · simp only [List.map_cons, List.mem_cons]; exact Or.inr (hk n hn))
    refine ⟨ρ', by simp [runPrefix, hv, hr], ?_⟩
    intro n hn
    apply hmem
    simp only [List.map_cons, List.mem_append, List.mem_cons] at hn ⊢
    tauto

theorem mapM_isSome {β γ : Type} (f : β → Option γ) (l : List β) (h : ∀ x ∈ l, (f x).isSome) :
    ∃ r, l.mapM f = some r := by
  induction l with
  | nil => exact ⟨[], by simp⟩
  | cons e es ih =>
    obtain ⟨x, hx⟩ := Option.isSome_iff_exists.mp (h e (by simp))
    obtain ⟨r, hr'⟩ := ih (fun e' he' => h e' (by simp [he']))
    exact ⟨x :: r, by simp [List.mapM_cons, hx, hr']⟩

/-- **Single assignment, ordered ⇒ the block is total**: a well-scoped block over a total arithmetic
never fails, for any argument values of the right length, and (by `exec_eq_inline`) returns the
value of its inlined body. -/
theorem wellScoped_exec_total (S : Sem α) (hS : S.Total) (p : Program) (vals : List α)
    (hw : p.WellScoped = true) (hlen : vals.length = p.args.length) :
    ∃ r, p.exec S vals = some r ∧
      p.inline.mapM (fun e => e.eval S (p.args.zip vals)) = some r := by
  simp only [Program.WellScoped, Bool.and_eq_true] at hw
  obtain ⟨⟨_, hpre⟩, hbody⟩ := hw
  have hkeys : ∀ n ∈ p.args, n ∈ (p.args.zip vals).map (·.1) := by
    intro n hn
    rw [List.map_fst_zip (by omega)]; exact hn
  obtain ⟨ρ', hr, hmem⟩ := runPrefix_isSome S hS p.pre p.args _ hpre hkeys
  have hb : ∀ e ∈ p.body, (e.eval S ρ').isSome := by
    intro e he
    apply eval_isSome S hS
    intro n hn
    apply hmem
    have := List.all_eq_true.mp (List.all_eq_true.mp hbody e he) n hn
    simpa using this
  have : ∃ r, p.body.mapM (fun e => e.eval S ρ') = some r := mapM_isSome _ _ hb
  obtain ⟨r, hr'⟩ := this
  have hex : p.exec S vals = some r := by
    unfold Program.exec; simp [hlen, hr, hr']
  exact ⟨r, hex, exec_some_inline S p vals r hex⟩

end FormakVerif
