/-
Matrix facts behind C04/C05/C07/C09, over ℚ (the arithmetic of the executable model) with
Mathlib's `Matrix`. Pure algebra first, positivity second.
-/
import Mathlib.LinearAlgebra.Matrix.PosDef
import Mathlib.Data.Rat.Star
import Mathlib.LinearAlgebra.Matrix.NonsingularInverse

namespace FormakVerif.Mat
open Matrix

variable {n m c : Type*} [Fintype n] [Fintype m] [Fintype c] [DecidableEq n] [DecidableEq m] [DecidableEq c]

/-- prediction covariance is PSD for any Jacobians (in particular singular `G`) -/
theorem predict_psd (G : Matrix n n ℚ) (V : Matrix n c ℚ) (M : Matrix c c ℚ) (P : Matrix n n ℚ)
    (hP : P.PosSemidef) (hM : M.PosSemidef) : (G * P * Gᵀ + V * M * Vᵀ).PosSemidef := by
  have h1 : (G * P * Gᵀ).PosSemidef := by simpa using hP.mul_mul_conjTranspose_same G
  have h2 : (V * M * Vᵀ).PosSemidef := by simpa using hM.mul_mul_conjTranspose_same V
  exact h1.add h2

theorem S_posDef (P : Matrix n n ℚ) (H : Matrix m n ℚ) (Q : Matrix m m ℚ)
    (hP : P.PosSemidef) (hQ : Q.PosDef) : (H * P * Hᵀ + Q).PosDef := by
  have h1 : (H * P * Hᵀ).PosSemidef := by simpa using hP.mul_mul_conjTranspose_same H
  exact hQ.posSemidef_add h1

/-- Joseph form: pure rectangular matrix algebra, no symmetry needed -/
theorem joseph (P : Matrix n n ℚ) (H : Matrix m n ℚ) (Q : Matrix m m ℚ) (K : Matrix n m ℚ)
    (hK : K * (H * P * Hᵀ + Q) = P * Hᵀ) :
    P - K * H * P = (1 - K * H) * P * (1 - K * H)ᵀ + K * Q * Kᵀ := by
  have e1 : K * Q * Kᵀ = P * Hᵀ * Kᵀ - K * (H * P * Hᵀ) * Kᵀ := by
    rw [← hK]; simp [Matrix.mul_add, Matrix.add_mul]
  rw [e1]
  simp only [transpose_sub, transpose_one, transpose_mul, Matrix.sub_mul, Matrix.mul_sub,
    Matrix.one_mul, Matrix.mul_one, Matrix.mul_assoc]
  abel

/-- the Joseph form is positive semi-definite for ANY gain (not only the optimal one): this is why an inaccurate `S⁻¹` cannot
make the updated covariance invalid -/
theorem joseph_psd_any_gain (P : Matrix n n ℚ) (H : Matrix m n ℚ) (Q : Matrix m m ℚ) (K : Matrix n m ℚ)
    (hP : P.PosSemidef) (hQ : Q.PosSemidef) : ((1 - K * H) * P * (1 - K * H)ᵀ + K * Q * Kᵀ).PosSemidef := by
  apply PosSemidef.add
  · have := hP.mul_mul_conjTranspose_same (1 - K * H)
    rwa [conjTranspose_eq_transpose_of_trivial] at this
  · have := hQ.mul_mul_conjTranspose_same K
    rwa [conjTranspose_eq_transpose_of_trivial] at this

theorem gain_mul_S (P : Matrix n n ℚ) (H : Matrix m n ℚ) (Q : Matrix m m ℚ)
    (hP : P.PosSemidef) (hQ : Q.PosDef) :
    (P * Hᵀ * (H * P * Hᵀ + Q)⁻¹) * (H * P * Hᵀ + Q) = P * Hᵀ := by
  have hS := S_posDef P H Q hP hQ
  have hdet : IsUnit (H * P * Hᵀ + Q).det := (Matrix.isUnit_iff_isUnit_det _).mp hS.isUnit
  rw [Matrix.mul_assoc, Matrix.nonsing_inv_mul _ hdet, Matrix.mul_one]

/-- posterior covariance is PSD -/
theorem updP_psd (P : Matrix n n ℚ) (H : Matrix m n ℚ) (Q : Matrix m m ℚ)
    (hP : P.PosSemidef) (hQ : Q.PosDef) :
    (P - P * Hᵀ * (H * P * Hᵀ + Q)⁻¹ * H * P).PosSemidef := by
  rw [joseph P H Q _ (gain_mul_S P H Q hP hQ)]
  apply PosSemidef.add
  · have := hP.mul_mul_conjTranspose_same (1 - P * Hᵀ * (H * P * Hᵀ + Q)⁻¹ * H)
    rwa [conjTranspose_eq_transpose_of_trivial] at this
  · have := hQ.posSemidef.mul_mul_conjTranspose_same (P * Hᵀ * (H * P * Hᵀ + Q)⁻¹)
    rwa [conjTranspose_eq_transpose_of_trivial] at this

/-- posterior covariance is symmetric -/
theorem updP_symm (P : Matrix n n ℚ) (H : Matrix m n ℚ) (Q : Matrix m m ℚ)
    (hP : P.PosSemidef) (hQ : Q.PosDef) :
    (P - P * Hᵀ * (H * P * Hᵀ + Q)⁻¹ * H * P)ᵀ = P - P * Hᵀ * (H * P * Hᵀ + Q)⁻¹ * H * P := by
  have := (updP_psd P H Q hP hQ).isHermitian
  rwa [IsHermitian, conjTranspose_eq_transpose_of_trivial] at this

/-- the posterior never exceeds the prior: `P − P' = (H P)ᵀ S⁻¹ (H P)` is PSD -/
theorem updP_le (P : Matrix n n ℚ) (H : Matrix m n ℚ) (Q : Matrix m m ℚ)
    (hP : P.PosSemidef) (hQ : Q.PosDef) :
    (P - (P - P * Hᵀ * (H * P * Hᵀ + Q)⁻¹ * H * P)).PosSemidef := by
  have hS := S_posDef P H Q hP hQ
  have hSi : ((H * P * Hᵀ + Q)⁻¹).PosSemidef := hS.inv.posSemidef
  have hPt : Pᵀ = P := by
    have := hP.isHermitian; rwa [IsHermitian, conjTranspose_eq_transpose_of_trivial] at this
  have e : P - (P - P * Hᵀ * (H * P * Hᵀ + Q)⁻¹ * H * P)
      = (H * P)ᵀ * (H * P * Hᵀ + Q)⁻¹ * (H * P) := by
    rw [sub_sub_cancel, transpose_mul, hPt]; simp only [Matrix.mul_assoc]
  rw [e]
  have := hSi.conjTranspose_mul_mul_same (H * P)
  rwa [conjTranspose_eq_transpose_of_trivial] at this

/-- a reading equal to the prediction leaves the state unchanged -/
theorem updX_fixed (K : Matrix n m ℚ) (x : n → ℚ) (z : m → ℚ) : x + K.mulVec (z - z) = x := by
  simp

/-- Python associates `P (Hᵀ S⁻¹)` and `K (H P)`, the generated C++ `(P Hᵀ) S⁻¹` and `(K H) P` -/
theorem assoc_update (P : Matrix n n ℚ) (H : Matrix m n ℚ) (Si : Matrix m m ℚ) :
    P - (P * (Hᵀ * Si)) * (H * P) = P - (P * Hᵀ * Si) * H * P := by
  simp only [Matrix.mul_assoc]

theorem assoc_predict (G : Matrix n n ℚ) (V : Matrix n c ℚ) (M : Matrix c c ℚ) (P : Matrix n n ℚ) :
    G * (P * Gᵀ) + V * (M * Vᵀ) = G * P * Gᵀ + V * M * Vᵀ := by
  simp only [Matrix.mul_assoc]

/-- a checked right inverse is the inverse -/
theorem inv_of_cert (S X : Matrix m m ℚ) (h : S * X = 1) : X = S⁻¹ :=
  (Matrix.inv_eq_right_inv h).symm

/-- normalised innovation squared is non-negative when `S⁻¹` is PSD -/
theorem nis_nonneg (Si : Matrix m m ℚ) (h : Si.PosSemidef) (y : m → ℚ) : 0 ≤ y ⬝ᵥ Si.mulVec y := by
  have := h.dotProduct_mulVec_nonneg y
  simpa [star_trivial] using this

end FormakVerif.Mat
