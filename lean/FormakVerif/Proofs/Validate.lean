import FormakVerif.Model.Validate
import Mathlib.Data.List.Perm.Subperm
import Mathlib.Data.List.Nodup
import Mathlib.Order.Basic

namespace FormakVerif

theorem subsetB_iff {a b : List Name} : subsetB a b = true ↔ a ⊆ b := by
  simp [subsetB, List.subset_def]

theorem sameSet_iff {a b : List Name} : sameSet a b = true ↔ a ⊆ b ∧ b ⊆ a := by
  simp [sameSet, subsetB_iff]

theorem length_eq_of_sameSet {a b : List Name} (ha : a.Nodup) (hb : b.Nodup) (h1 : a ⊆ b) (h2 : b ⊆ a) :
    a.length = b.length :=
  Nat.le_antisymm (List.Subperm.length_le (List.Nodup.subperm ha h1))
    (List.Subperm.length_le (List.Nodup.subperm hb h2))

theorem subset_of_length_le {a b : List Name} (hb : b.Nodup) (h : b ⊆ a) (hl : a.length ≤ b.length) : a ⊆ b :=
  ((List.Nodup.subperm hb h).perm_of_length_le hl).symm.subset

/-- same number of keys and every wanted name among them ⇔ exactly the wanted names -/
theorem count_and_cover_iff {a b : List Name} (ha : a.Nodup) (hb : b.Nodup) :
    ((a.length == b.length) && subsetB b a) = true ↔ sameSet a b = true := by
  rw [sameSet_iff]
  simp only [Bool.and_eq_true, beq_iff_eq, subsetB_iff]
  constructor
  · rintro ⟨hl, hs⟩; exact ⟨subset_of_length_le hb hs (Nat.le_of_eq hl), hs⟩
  · rintro ⟨h1, h2⟩; exact ⟨length_eq_of_sameSet ha hb h1 h2, h2⟩

theorem count_and_within_iff {a b : List Name} (ha : a.Nodup) (hb : b.Nodup) :
    ((a.length == b.length) && subsetB a b) = true ↔ sameSet a b = true := by
  rw [sameSet_iff]
  simp only [Bool.and_eq_true, beq_iff_eq, subsetB_iff]
  constructor
  · rintro ⟨hl, hs⟩; exact ⟨hs, subset_of_length_le ha hs (Nat.le_of_eq hl.symm)⟩
  · rintro ⟨h1, h2⟩; exact ⟨length_eq_of_sameSet ha hb h1 h2, h1⟩

theorem acceptsUi_iff (d : VDef) (hw : WellFormed d) : acceptsUi d = true ↔ validUi d = true := by
  obtain ⟨hs, _, _, hu, _⟩ := hw
  unfold acceptsUi validUi
  have := count_and_cover_iff (a := d.updateKeys) (b := d.state) hu hs
  simp only [Bool.and_eq_true] at this ⊢
  constructor
  · rintro ⟨⟨⟨⟨h1, h2⟩, h3⟩, h4⟩, h5⟩; exact ⟨⟨⟨h2, h1⟩, h3⟩, this.mp ⟨h4, h5⟩⟩
  · rintro ⟨⟨⟨h2, h1⟩, h3⟩, h4⟩
    obtain ⟨h5, h6⟩ := this.mpr h4
    exact ⟨⟨⟨⟨h1, h2⟩, h3⟩, h5⟩, h6⟩

theorem calSizes_of_sameSet (d : VDef) (hw : WellFormed d) (h : sameSet d.calKeys d.calibration = true) :
    calSizesOk d = true := by
  obtain ⟨_, _, hc, _, hk, _⟩ := hw
  obtain ⟨h1, h2⟩ := sameSet_iff.mp h
  have hl := length_eq_of_sameSet hk hc h1 h2
  unfold calSizesOk
  by_cases hcal : d.calibration = []
  · simp [hcal]
  · have hk' : d.calKeys ≠ [] := by
      intro he
      apply hcal
      rw [he] at hl
      exact List.length_eq_zero_iff.mp hl.symm
    simp [List.isEmpty_iff, hcal, hk', hl]

theorem acceptsCompile_iff (d : VDef) (hw : WellFormed d) : acceptsCompile d = true ↔ validCal d = true := by
  unfold acceptsCompile validCal
  constructor
  · intro h; simp only [Bool.and_eq_true] at h; exact h.1
  · intro h; simp only [Bool.and_eq_true]; exact ⟨h, calSizes_of_sameSet d hw h⟩

/-- when every key is a symbol naming a control: the symbol keys are all the keys, without duplicates,
and all of them are controls -/
theorem noise_facts (d : VDef) (hnd : (d.noise.map (·.1)).Nodup) (hall : noiseKeysOk d = true) :
    noiseSyms d ⊆ d.control ∧ (noiseSyms d).length = d.noise.length ∧ (noiseSyms d).Nodup := by
  unfold noiseKeysOk at hall
  unfold noiseSyms
  generalize d.noise = noise at *
  induction noise with
  | nil => simp
  | cons p t ih =>
    have hp := List.all_eq_true.mp hall p (by simp)
    have hnd' : p.1 ∉ t.map (·.1) ∧ (t.map (·.1)).Nodup := by
      rw [List.map_cons] at hnd; exact List.nodup_cons.mp hnd
    have ht := ih hnd'.2 (List.all_eq_true.mpr fun q hq => List.all_eq_true.mp hall q (by simp [hq]))
    cases hk : p.1 with
    | other r => simp [hk] at hp
    | sym n =>
      simp only [hk, List.contains_eq_mem, decide_eq_true_eq] at hp
      simp only [List.filterMap_cons, hk]
      refine ⟨?_, by simp [ht.2.1], ?_⟩
      · intro x hx
        rcases List.mem_cons.mp hx with rfl | hx
        · exact hp
        · exact ht.1 hx
      · apply List.nodup_cons.mpr
        refine ⟨?_, ht.2.2⟩
        intro hmem
        obtain ⟨q, hq, hqe⟩ := List.mem_filterMap.mp hmem
        apply hnd'.1
        refine List.mem_map.mpr ⟨q, hq, ?_⟩
        cases hk2 : q.1 with
        | sym m => simp [hk2] at hqe; rw [hk, hqe]
        | other r => simp [hk2] at hqe

theorem noise_iff (d : VDef) (hw : WellFormed d) (hall : noiseKeysOk d = true) :
    (d.noise.length == d.control.length) = true ↔ subsetB d.control (noiseSyms d) = true := by
  obtain ⟨_, hc, _, _, _, hn, _⟩ := hw
  obtain ⟨hsub, hlen, hnd⟩ := noise_facts d hn hall
  rw [subsetB_iff, beq_iff_eq]
  constructor
  · intro h2
    apply subset_of_length_le hnd hsub
    omega
  · intro h2
    have := length_eq_of_sameSet hnd hc hsub h2
    omega

theorem mem_of_lookup_str {β : Type} {l : List (String × β)} {k : String} {v : β}
    (h : l.lookup k = some v) : (k, v) ∈ l := by
  induction l with
  | nil => simp at h
  | cons p t ih =>
    obtain ⟨a, b⟩ := p
    simp only [List.lookup_cons] at h
    by_cases hk : k = a
    · subst hk; simp at h; subst h; simp
    · have : (k == a) = false := by simpa using hk
      rw [this] at h
      exact List.mem_cons_of_mem _ (ih h)

theorem sensorNoise_count_eq_same (d : VDef) (hw : WellFormed d) (s : SensorSkel) (hs : s ∈ d.sensors) :
    sensorNoiseCount d s = sensorNoiseSame d s := by
  obtain ⟨_, _, _, _, _, _, _, _, hrs, hns⟩ := hw
  unfold sensorNoiseCount sensorNoiseSame
  cases hl : d.sensorNoise.lookup s.key with
  | none => rfl
  | some rs =>
    simp only
    have h1 : rs.Nodup := hns _ (mem_of_lookup_str hl)
    refine Bool.eq_iff_iff.mpr ?_
    simp only [Bool.and_eq_true, beq_iff_eq]
    constructor
    · exact fun h => h.2
    · intro h
      obtain ⟨a, b⟩ := sameSet_iff.mp h
      exact ⟨length_eq_of_sameSet h1 (hrs s hs) a b, h⟩

theorem acceptsEkf_iff (d : VDef) (hw : WellFormed d) : acceptsEkf d = true ↔ validEkf d = true := by
  have hall : d.sensors.all (sensorNoiseCount d) = d.sensors.all (sensorNoiseSame d) := by
    have key : ∀ l : List SensorSkel, (∀ s ∈ l, s ∈ d.sensors) →
        l.all (sensorNoiseCount d) = l.all (sensorNoiseSame d) := by
      intro l
      induction l with
      | nil => intro _; rfl
      | cons a t ih =>
        intro hm
        simp only [List.all_cons]
        rw [sensorNoise_count_eq_same d hw a (hm a (by simp)), ih (fun s hs => hm s (by simp [hs]))]
    exact key d.sensors (fun s hs => hs)
  unfold acceptsEkf validEkf modelValidation validCal validNoise validSensors validSensorNoise
  rw [hall]
  simp only [Bool.and_eq_true]
  constructor
  · rintro ⟨⟨⟨⟨⟨⟨⟨a, b⟩, c⟩, _⟩, e⟩, f⟩, g⟩, h⟩
    exact ⟨⟨⟨b, ⟨⟨a, (noise_iff d hw a).mp e⟩, f⟩⟩, c⟩, ⟨g, h⟩⟩
  · rintro ⟨⟨⟨b, ⟨⟨a, e'⟩, f⟩⟩, c⟩, ⟨g, h⟩⟩
    exact ⟨⟨⟨⟨⟨⟨⟨a, b⟩, c⟩, calSizes_of_sameSet d hw b⟩, (noise_iff d hw a).mpr e'⟩, f⟩, g⟩, h⟩

end FormakVerif
