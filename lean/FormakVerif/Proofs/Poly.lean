/- Soundness of the rational-function equality checker of `Model/Poly.lean`. -/
import FormakVerif.Model.Poly
import FormakVerif.Proofs.Diff
import Mathlib.Algebra.BigOperators.Group.List.Basic
import Mathlib.Data.List.Sort
import Mathlib.Tactic.Ring
import Mathlib.Tactic.FieldSimp

namespace FormakVerif

noncomputable def evalM (ρ : Name → ℝ) (m : Mono) : ℝ := (m.map fun v => ρ v.1 ^ v.2).prod
noncomputable def evalP (ρ : Name → ℝ) (p : Poly) : ℝ := (p.map fun t => (t.1 : ℝ) * evalM ρ t.2).sum

variable (ρ : Name → ℝ)

@[simp] theorem evalP_nil : evalP ρ [] = 0 := by simp [evalP]
@[simp] theorem evalP_cons (t : Rat × Mono) (p : Poly) : evalP ρ (t :: p) = (t.1 : ℝ) * evalM ρ t.2 + evalP ρ p := by
  simp [evalP]
@[simp] theorem evalM_nil : evalM ρ [] = 1 := by simp [evalM]
@[simp] theorem evalM_cons (v : Name × Nat) (m : Mono) : evalM ρ (v :: m) = ρ v.1 ^ v.2 * evalM ρ m := by
  simp [evalM]
theorem evalM_append (m n : Mono) : evalM ρ (m ++ n) = evalM ρ m * evalM ρ n := by
  simp [evalM, List.prod_append]

theorem evalP_const (c : Rat) : evalP ρ (Poly.const c) = (c : ℝ) := by simp [Poly.const]
theorem evalP_var (x : Name) : evalP ρ (Poly.var x) = ρ x := by simp [Poly.var]
theorem evalP_add (p q : Poly) : evalP ρ (p.add q) = evalP ρ p + evalP ρ q := by
  simp [Poly.add, evalP, List.sum_append]
theorem evalP_neg (p : Poly) : evalP ρ p.neg = - evalP ρ p := by
  induction p with
  | nil => simp [Poly.neg]
  | cons t p ih =>
    have : Poly.neg (t :: p) = (-t.1, t.2) :: Poly.neg p := rfl
    rw [this]; simp [ih]; ring

theorem evalP_map_mul (s : Rat × Mono) (q : Poly) :
    evalP ρ (q.map fun t => (s.1 * t.1, s.2 ++ t.2)) = ((s.1 : ℝ) * evalM ρ s.2) * evalP ρ q := by
  induction q with
  | nil => simp
  | cons t q ih => simp [ih, evalM_append]; ring

theorem evalP_append (p q : Poly) : evalP ρ (p ++ q) = evalP ρ p + evalP ρ q := by
  simp [evalP, List.sum_append]

theorem evalP_mul (p q : Poly) : evalP ρ (p.mul q) = evalP ρ p * evalP ρ q := by
  induction p with
  | nil => simp [Poly.mul]
  | cons s p ih =>
    have : Poly.mul (s :: p) q = (q.map fun t => (s.1 * t.1, s.2 ++ t.2)) ++ Poly.mul p q := by
      simp [Poly.mul]
    rw [this, evalP_append, evalP_map_mul, ih]; simp; ring

theorem evalP_pow (p : Poly) (k : Nat) : evalP ρ (p.pow k) = evalP ρ p ^ k := by
  induction k with
  | zero => simp [Poly.pow, evalP_const]
  | succ k ih => simp [Poly.pow, evalP_mul, ih, pow_succ]; ring

/-! canonical forms preserve the value (whatever the comparison used for sorting is) -/

theorem evalM_insertVar (x : Name) (k : Nat) (m : Mono) : evalM ρ (insertVar x k m) = ρ x ^ k * evalM ρ m := by
  induction m with
  | nil => simp [insertVar]
  | cons v m ih =>
    obtain ⟨y, j⟩ := v
    simp only [insertVar]
    split
    · rename_i h; subst h; simp [pow_add]; ring
    · split
      · simp
      · simp [ih]; ring

theorem evalM_canon (m : Mono) : evalM ρ m.canon = evalM ρ m := by
  induction m with
  | nil => simp [Mono.canon]
  | cons v m ih =>
    have : Mono.canon (v :: m) = insertVar v.1 v.2 (Mono.canon m) := rfl
    rw [this, evalM_insertVar, ih]; simp

theorem evalP_combineFrom (l : List (String × Rat × Mono)) : ∀ (c : Rat) (m : Mono),
    evalP ρ (combineFrom c m l) = (c : ℝ) * evalM ρ m + evalP ρ (l.map fun t => (t.2.1, t.2.2)) := by
  induction l with
  | nil => intro c m; simp [combineFrom]
  | cons t rest ih =>
    intro c m
    simp only [combineFrom]
    split
    · rename_i h
      rw [ih]; simp [h]; ring
    · rw [evalP_cons, ih]; simp

theorem evalP_combineAdj (l : List (String × Rat × Mono)) :
    evalP ρ (combineAdj l) = evalP ρ (l.map fun t => (t.2.1, t.2.2)) := by
  cases l with
  | nil => simp [combineAdj]
  | cons t rest => simp [combineAdj, evalP_combineFrom]

theorem evalP_perm {p q : Poly} (h : p.Perm q) : evalP ρ p = evalP ρ q := by
  unfold evalP; exact (h.map _).sum_eq

theorem evalP_filter_nonzero (p : Poly) : evalP ρ (p.filter fun t => t.1 != 0) = evalP ρ p := by
  induction p with
  | nil => simp
  | cons t p ih =>
    simp only [List.filter_cons]
    by_cases h : t.1 = 0
    · simp [h, ih]
    · simp [h, ih]

theorem evalP_keyed (p : Poly) :
    evalP ρ ((p.map fun t => (monoKey (Mono.canon t.2), t.1, Mono.canon t.2)).map fun t => (t.2.1, t.2.2)) = evalP ρ p := by
  induction p with
  | nil => simp
  | cons t p ih => simp [evalM_canon] at ih ⊢; rw [ih]

theorem evalP_canon (p : Poly) : evalP ρ p.canon = evalP ρ p := by
  unfold Poly.canon
  simp only
  rw [evalP_filter_nonzero, evalP_combineAdj]
  have hperm := List.mergeSort_perm (p.map fun t => (monoKey (Mono.canon t.2), t.1, Mono.canon t.2))
    (fun a b => decide (a.1 ≤ b.1))
  rw [evalP_perm ρ (hperm.map _)]
  exact evalP_keyed ρ p

theorem evalP_addC (p q : Poly) : evalP ρ (p.addC q) = evalP ρ p + evalP ρ q := by
  simp [Poly.addC, evalP_canon, evalP_add]
theorem evalP_mulC (p q : Poly) : evalP ρ (p.mulC q) = evalP ρ p * evalP ρ q := by
  simp [Poly.mulC, evalP_canon, evalP_mul]
theorem evalP_powC (p : Poly) (k : Nat) : evalP ρ (p.powC k) = evalP ρ p ^ k := by
  induction k with
  | zero => simp [Poly.powC, evalP_const]
  | succ k ih => simp [Poly.powC, evalP_mulC, ih, pow_succ]; ring

theorem polyEqB_sound (p q : Poly) (h : polyEqB p q = true) : evalP ρ p = evalP ρ q := by
  unfold polyEqB at h
  have : p.canon = q.canon := by simpa using h
  rw [← evalP_canon ρ p, ← evalP_canon ρ q, this]

/-- an expression of the rational fragment is its numerator over its denominator wherever it is defined -/
theorem toFrac_sound (e : Expr) : ∀ f, toFrac e = some f → DefinedR ρ e →
    evalP ρ f.den ≠ 0 ∧ evalR ρ e = evalP ρ f.num / evalP ρ f.den := by
  induction e with
  | var x => intro f h _; simp [toFrac] at h; subst h; simp [evalP_const, evalP_var, evalR]
  | num q => intro f h _; simp [toFrac] at h; subst h; simp [evalP_const, evalR]
  | add a b iha ihb =>
    intro f h hd
    simp only [toFrac] at h
    cases ha : toFrac a with
    | none => simp [ha] at h
    | some fa =>
      cases hb : toFrac b with
      | none => simp [ha, hb] at h
      | some fb =>
        simp [ha, hb] at h; subst h
        obtain ⟨da, ea⟩ := iha fa ha hd.1
        obtain ⟨db, eb⟩ := ihb fb hb hd.2
        refine ⟨by simp [evalP_mulC, da, db], ?_⟩
        simp only [evalR, ea, eb, evalP_addC, evalP_mulC]
        field_simp
  | mul a b iha ihb =>
    intro f h hd
    simp only [toFrac] at h
    cases ha : toFrac a with
    | none => simp [ha] at h
    | some fa =>
      cases hb : toFrac b with
      | none => simp [ha, hb] at h
      | some fb =>
        simp [ha, hb] at h; subst h
        obtain ⟨da, ea⟩ := iha fa ha hd.1
        obtain ⟨db, eb⟩ := ihb fb hb hd.2
        refine ⟨by simp [evalP_mulC, da, db], ?_⟩
        simp only [evalR, ea, eb, evalP_mulC]
        field_simp
  | neg a iha =>
    intro f h hd
    simp only [toFrac] at h
    cases ha : toFrac a with
    | none => simp [ha] at h
    | some fa =>
      simp [ha] at h; subst h
      obtain ⟨da, ea⟩ := iha fa ha hd
      refine ⟨da, ?_⟩
      simp only [evalR, ea, evalP_neg]; ring
  | div a b iha ihb =>
    intro f h hd
    simp only [toFrac] at h
    cases ha : toFrac a with
    | none => simp [ha] at h
    | some fa =>
      cases hb : toFrac b with
      | none => simp [ha, hb] at h
      | some fb =>
        simp [ha, hb] at h; subst h
        obtain ⟨da, ea⟩ := iha fa ha hd.1
        obtain ⟨db, eb⟩ := ihb fb hb hd.2.1
        have hbn : evalP ρ fb.num ≠ 0 := by
          intro h0
          apply hd.2.2
          rw [eb, h0]; simp
        refine ⟨by simp [evalP_mulC, da, hbn], ?_⟩
        simp only [evalR, ea, eb, evalP_mulC]
        field_simp
  | pow a k iha =>
    intro f h hd
    simp only [toFrac] at h
    cases ha : toFrac a with
    | none => simp [ha] at h
    | some fa =>
      obtain ⟨da, ea⟩ := iha fa ha hd.1
      by_cases hk : 0 ≤ k
      · simp [ha, hk] at h; subst h
        refine ⟨by simp [evalP_powC, da], ?_⟩
        simp only [evalR, ea, evalP_powC]
        have : k = (k.toNat : ℤ) := (Int.toNat_of_nonneg hk).symm
        conv_lhs => rw [this]
        rw [zpow_natCast, div_pow]
      · simp [ha, hk] at h; subst h
        have hane : evalR ρ a ≠ 0 := by
          rcases hd.2 with h1 | h1 | h1
          · exact h1
          · omega
          · omega
        have hnn : evalP ρ fa.num ≠ 0 := by
          intro h0; apply hane; rw [ea, h0]; simp
        refine ⟨by simp [evalP_powC, hnn], ?_⟩
        simp only [evalR, ea, evalP_powC]
        have hneg : k = -((-k).toNat : ℤ) := by
          have : 0 ≤ -k := by omega
          rw [Int.toNat_of_nonneg this]; ring
        conv_lhs => rw [hneg]
        rw [zpow_neg, zpow_natCast, div_pow, inv_div]
  | app f a _ => intro f' h _; simp [toFrac] at h

/-- **Soundness of the symbolic equality check**: if it succeeds, the two expressions have the same
value at every point where both are defined. -/
theorem fracEq_sound (e₁ e₂ : Expr) (h : fracEq e₁ e₂ = true) (h₁ : DefinedR ρ e₁) (h₂ : DefinedR ρ e₂) :
    evalR ρ e₁ = evalR ρ e₂ := by
  unfold fracEq at h
  cases hf : toFrac e₁ with
  | none => simp [hf] at h
  | some f =>
    cases hg : toFrac e₂ with
    | none => simp [hf, hg] at h
    | some g =>
      simp only [hf, hg] at h
      obtain ⟨df, ef⟩ := toFrac_sound ρ e₁ f hf h₁
      obtain ⟨dg, eg⟩ := toFrac_sound ρ e₂ g hg h₂
      have := polyEqB_sound ρ _ _ h
      rw [evalP_mulC, evalP_mulC] at this
      rw [ef, eg, div_eq_div_iff df dg]
      exact this

end FormakVerif

namespace FormakVerif

theorem all_zip_get {β γ : Type} (l₁ : List β) (l₂ : List γ) (P : β × γ → Bool)
    (h : (l₁.zip l₂).all P = true) (i : Nat) (h1 : i < l₁.length) (h2 : i < l₂.length) :
    P (l₁[i], l₂[i]) = true := by
  have hmem : (l₁[i], l₂[i]) ∈ l₁.zip l₂ := by
    have hi : i < (l₁.zip l₂).length := by simp [h1, h2]
    have := List.getElem_mem hi
    simpa [List.getElem_zip] using this
  exact List.all_eq_true.mp h _ hmem

/-- **Soundness of the symbolic block check.** If `checkProgramSym spec p` succeeds, then `p` is well
scoped (every temporary assigned once, before use, from inputs and earlier temporaries), has as many
outputs as the specification, and each inlined output has the same real value as the corresponding
specified expression at every point where both are defined. -/
theorem checkProgramSym_sound (spec : List Expr) (p : Program) (h : checkProgramSym spec p = true) :
    p.WellScoped = true ∧ p.inline.length = spec.length ∧
    ∀ (i : Nat) (h1 : i < p.inline.length) (h2 : i < spec.length) (ρ : Name → ℝ),
      DefinedR ρ (p.inline[i]) → DefinedR ρ (spec[i]) → evalR ρ (p.inline[i]) = evalR ρ (spec[i]) := by
  unfold checkProgramSym at h
  simp only [Bool.and_eq_true, beq_iff_eq] at h
  obtain ⟨⟨hw, hl⟩, hall⟩ := h
  refine ⟨hw, hl, ?_⟩
  intro i h1 h2 ρ d1 d2
  have := all_zip_get p.inline spec (fun es => fracEq es.1 es.2) hall i h1 h2
  exact fracEq_sound ρ _ _ this d1 d2

/-! the size-guarded functions agree with the unguarded ones whenever they answer -/

theorem powB_eq (limit : Nat) (p : Poly) (k : Nat) : ∀ q, Poly.powB limit p k = some q → q = Poly.powC p k := by
  induction k with
  | zero => intro q h; simp [Poly.powB] at h; subst h; rfl
  | succ k ih =>
    intro q h
    simp only [Poly.powB] at h
    cases hk : Poly.powB limit p k with
    | none => simp [hk] at h
    | some r =>
      simp only [hk] at h
      split at h
      · injection h with h; subst h; rw [ih r hk]; rfl
      · cases h

theorem toFracB_eq (limit : Nat) (e : Expr) : ∀ f, toFracB limit e = some f → toFrac e = some f := by
  induction e with
  | var x => intro f h; simpa [toFracB, toFrac] using h
  | num q => intro f h; simpa [toFracB, toFrac] using h
  | add a b iha ihb =>
    intro f h
    simp only [toFracB] at h
    cases ha : toFracB limit a with
    | none => simp [ha] at h
    | some fa =>
      cases hb : toFracB limit b with
      | none => simp [ha, hb] at h
      | some fb =>
        simp only [ha, hb] at h
        split at h
        · injection h with h; subst h; simp [toFrac, iha fa ha, ihb fb hb]
        · cases h
  | mul a b iha ihb =>
    intro f h
    simp only [toFracB] at h
    cases ha : toFracB limit a with
    | none => simp [ha] at h
    | some fa =>
      cases hb : toFracB limit b with
      | none => simp [ha, hb] at h
      | some fb =>
        simp only [ha, hb] at h
        split at h
        · injection h with h; subst h; simp [toFrac, iha fa ha, ihb fb hb]
        · cases h
  | neg a iha =>
    intro f h
    simp only [toFracB] at h
    cases ha : toFracB limit a with
    | none => simp [ha] at h
    | some fa => simp only [ha] at h; injection h with h; subst h; simp [toFrac, iha fa ha]
  | div a b iha ihb =>
    intro f h
    simp only [toFracB] at h
    cases ha : toFracB limit a with
    | none => simp [ha] at h
    | some fa =>
      cases hb : toFracB limit b with
      | none => simp [ha, hb] at h
      | some fb =>
        simp only [ha, hb] at h
        split at h
        · injection h with h; subst h; simp [toFrac, iha fa ha, ihb fb hb]
        · cases h
  | pow a k iha =>
    intro f h
    simp only [toFracB] at h
    cases ha : toFracB limit a with
    | none => simp [ha] at h
    | some fa =>
      simp only [ha] at h
      split at h
      · split at h
        · rename_i hk
          cases hn : fa.num.powB limit k.toNat with
          | none => simp [hn] at h
          | some n =>
            cases hd : fa.den.powB limit k.toNat with
            | none => simp [hn, hd] at h
            | some d =>
              simp only [hn, hd] at h; injection h with h; subst h
              simp [toFrac, iha fa ha, hk, powB_eq _ _ _ n hn, powB_eq _ _ _ d hd]
        · rename_i hk
          cases hn : fa.den.powB limit (-k).toNat with
          | none => simp [hn] at h
          | some n =>
            cases hd : fa.num.powB limit (-k).toNat with
            | none => simp [hn, hd] at h
            | some d =>
              simp only [hn, hd] at h; injection h with h; subst h
              simp [toFrac, iha fa ha, hk, powB_eq _ _ _ n hn, powB_eq _ _ _ d hd]
      · cases h
  | app g a _ => intro f h; simp [toFracB] at h

theorem fracEqB_true (limit : Nat) (e₁ e₂ : Expr) (h : fracEqB limit e₁ e₂ = some true) : fracEq e₁ e₂ = true := by
  unfold fracEqB at h
  cases hf : toFracB limit e₁ with
  | none => simp [hf] at h
  | some f =>
    cases hg : toFracB limit e₂ with
    | none => simp [hf, hg] at h
    | some g =>
      simp only [hf, hg] at h
      split at h
      · injection h with h
        simp [fracEq, toFracB_eq limit e₁ f hf, toFracB_eq limit e₂ g hg, h]
      · cases h

/-- **What the driver runs is the verified checker**: a `some true` from the size-guarded block check
implies the unguarded check, hence (by `checkProgramSym_sound`) equality of every output with its
specification for all inputs where both are defined. -/
theorem checkProgramSymB_true (limit : Nat) (spec : List Expr) (p : Program)
    (h : checkProgramSymB limit spec p = some true) : checkProgramSym spec p = true := by
  unfold checkProgramSymB at h
  split at h
  · cases h
  · rename_i hw
    simp only [Bool.not_eq_true'] at hw
    have hw' : (p.WellScoped && (p.inline.length == spec.length)) = true := by
      cases hx : (p.WellScoped && (p.inline.length == spec.length)) with
      | true => rfl
      | false => simp [hx] at hw
    simp only at h
    split at h
    · cases h
    · split at h
      · rename_i hall
        unfold checkProgramSym
        rw [hw', Bool.true_and]
        apply List.all_eq_true.mpr
        intro es hes
        have := List.all_eq_true.mp hall (fracEqB limit es.1 es.2) (List.mem_map.mpr ⟨es, hes, rfl⟩)
        exact fracEqB_true limit es.1 es.2 (by simpa using this)
      · cases h

end FormakVerif
