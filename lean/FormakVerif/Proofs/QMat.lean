/- The executable `QMat` operations are Mathlib's matrix operations. -/
import FormakVerif.Model.Ekf
import Mathlib.Data.Matrix.Mul
import Mathlib.Algebra.BigOperators.Fin

namespace FormakVerif
open Matrix

namespace QMat
variable {m n k : Nat}

def toMatrix (a : QMat m n) : Matrix (Fin m) (Fin n) ℚ := Matrix.of a.get

@[simp] theorem toMatrix_apply (a : QMat m n) (i : Fin m) (j : Fin n) : a.toMatrix i j = a.get i j := rfl

@[simp] theorem get_ofFn (f : Fin m → Fin n → Rat) (i : Fin m) (j : Fin n) : (ofFn f).get i j = f i j := by
  simp [ofFn, get]

theorem ext_get {a b : QMat m n} (h : ∀ i j, a.get i j = b.get i j) : a = b := by
  cases a with | mk ra => cases b with | mk rb =>
  congr
  apply Vector.ext
  intro i hi
  apply Vector.ext
  intro j hj
  exact h ⟨i, hi⟩ ⟨j, hj⟩

theorem toMatrix_inj {a b : QMat m n} (h : a.toMatrix = b.toMatrix) : a = b :=
  ext_get fun i j => congrFun (congrFun h i) j

theorem eq_of_eqb {a b : QMat m n} (h : a.eqb b = true) : a = b := by
  apply ext_get
  intro i j
  unfold eqb at h
  have h1 := List.all_eq_true.mp h i (List.mem_finRange i)
  have h2 := List.all_eq_true.mp h1 j (List.mem_finRange j)
  simpa using h2

theorem sumFin_eq (f : Fin k → ℚ) : sumFin k f = ∑ i, f i := by
  unfold sumFin; rw [Fin.sum_univ_def]

@[simp] theorem toMatrix_mul (a : QMat m k) (b : QMat k n) : (a.mul b).toMatrix = a.toMatrix * b.toMatrix := by
  ext i j; simp [mul, Matrix.mul_apply, sumFin_eq]

@[simp] theorem toMatrix_add (a b : QMat m n) : (a.add b).toMatrix = a.toMatrix + b.toMatrix := by
  ext i j; simp [add]

@[simp] theorem toMatrix_sub (a b : QMat m n) : (a.sub b).toMatrix = a.toMatrix - b.toMatrix := by
  ext i j; simp [sub]

@[simp] theorem toMatrix_transpose (a : QMat m n) : a.transpose.toMatrix = a.toMatrixᵀ := by
  ext i j; simp [transpose]

@[simp] theorem toMatrix_one : (one : QMat n n).toMatrix = 1 := by
  ext i j; simp [one, Matrix.one_apply]

@[simp] theorem toMatrix_diag (d : Fin n → ℚ) : (diag d).toMatrix = Matrix.diagonal d := by
  ext i j; simp [diag, Matrix.diagonal_apply]

theorem mulVec_eq (a : QMat m n) (v : Fin n → ℚ) : a.mulVec v = a.toMatrix.mulVec v := by
  funext i; simp [mulVec, Matrix.mulVec, dotProduct, sumFin_eq]

end QMat

/-! the numeric core of the filter, as Mathlib matrix expressions -/

theorem predictCov_toMatrix {n c : Nat} (G : QMat n n) (V : QMat n c) (M : QMat c c) (P : QMat n n) :
    (predictCov G V M P).toMatrix =
      G.toMatrix * P.toMatrix * G.toMatrixᵀ + V.toMatrix * M.toMatrix * V.toMatrixᵀ := by
  simp [predictCov, Matrix.mul_assoc]

theorem innovCov_toMatrix {m n : Nat} (H : QMat m n) (P : QMat n n) (Q : QMat m m) :
    (innovCov H P Q).toMatrix = H.toMatrix * P.toMatrix * H.toMatrixᵀ + Q.toMatrix := by
  simp [innovCov, Matrix.mul_assoc]

theorem gain_toMatrix {m n : Nat} (H : QMat m n) (P : QMat n n) (Si : QMat m m) :
    (gain H P Si).toMatrix = P.toMatrix * H.toMatrixᵀ * Si.toMatrix := by
  simp [gain, Matrix.mul_assoc]

theorem updCov_toMatrix {m n : Nat} (H : QMat m n) (P : QMat n n) (Si : QMat m m) :
    (updCov H P Si).toMatrix =
      P.toMatrix - P.toMatrix * H.toMatrixᵀ * Si.toMatrix * H.toMatrix * P.toMatrix := by
  simp [updCov, gain, Matrix.mul_assoc]

theorem updCovJoseph_toMatrix {m n : Nat} (H : QMat m n) (P : QMat n n) (Q Si : QMat m m) :
    (updCovJoseph H P Q Si).toMatrix =
      (1 - (P.toMatrix * H.toMatrixᵀ * Si.toMatrix) * H.toMatrix) * P.toMatrix *
        (1 - (P.toMatrix * H.toMatrixᵀ * Si.toMatrix) * H.toMatrix)ᵀ +
      (P.toMatrix * H.toMatrixᵀ * Si.toMatrix) * Q.toMatrix * (P.toMatrix * H.toMatrixᵀ * Si.toMatrix)ᵀ := by
  simp [updCovJoseph, gain, Matrix.mul_assoc]

theorem nis_eq {m : Nat} (y : Fin m → ℚ) (Si : QMat m m) : nis y Si = y ⬝ᵥ Si.toMatrix.mulVec y := by
  simp [nis, QMat.sumFin_eq, dotProduct, QMat.mulVec_eq]

theorem unflatten_get (rows cols stride : Nat) (flat : List Rat) (i : Fin rows) (j : Fin cols) :
    (unflatten rows cols stride flat).get i j = flat.getD (i.val * stride + j.val) 0 := by
  simp [unflatten]

end FormakVerif
