/- Breadth-first path search returns a shortest path: queue invariants. -/
import FormakVerif.Model.Workflow
import Mathlib.Data.List.Infix
import Mathlib.Tactic.Linarith

namespace FormakVerif
open List

/-- queue invariant of breadth-first search: path lengths never decrease along the queue and differ by
at most one from the head's -/
def QueueOk (fr : List (Nat × List String)) : Prop :=
  fr.Pairwise (fun a b => a.2.length ≤ b.2.length) ∧
  ∀ a ∈ fr, ∀ b ∈ fr, b.2.length ≤ a.2.length + 1

/-- every walk from `start` that ends in `target` has a prefix waiting in the queue -/
def Covers (g : Graph) (start target : Nat) (fr : List (Nat × List String)) : Prop :=
  ∀ q, follow g start q = some target → ∃ e ∈ fr, e.2 <+: q ∧ follow g start e.2 = some e.1

theorem follow_split (g : Graph) (a : Nat) (p r : List String) (c : Nat)
    (h : follow g a (p ++ r) = some c) : ∃ b, follow g a p = some b ∧ follow g b r = some c := by
  induction p generalizing a with
  | nil => exact ⟨a, rfl, by simpa using h⟩
  | cons x xs ih =>
    simp only [List.cons_append, follow] at h ⊢
    cases hx : (g.succ a).lookup x with
    | none => simp [hx] at h
    | some m => simp only [hx] at h ⊢; exact ih m h

theorem lookup_mem {l : List (String × Nat)} {t : String} {m : Nat} (h : l.lookup t = some m) : (t, m) ∈ l := by
  induction l with
  | nil => simp at h
  | cons a as ih =>
    obtain ⟨a1, a2⟩ := a
    simp only [List.lookup_cons] at h
    by_cases hk : t = a1
    · subst hk; simp at h; subst h; simp
    · have : (t == a1) = false := by simpa using hk
      rw [this] at h; exact List.mem_cons_of_mem _ (ih h)

theorem bfs_shortest (g : Graph) (start target : Nat) :
    ∀ (fuel : Nat) (fr : List (Nat × List String)) (p : List String),
      QueueOk fr → Covers g start target fr → bfs g target fuel fr = some p →
      ∀ q, follow g start q = some target → p.length ≤ q.length := by
  intro fuel
  induction fuel with
  | zero => intro fr p _ _ h; simp [bfs] at h
  | succ k ih =>
    intro fr p hq hc h q hqt
    cases fr with
    | nil => simp [bfs] at h
    | cons e rest =>
      obtain ⟨n, path⟩ := e
      simp only [bfs] at h
      split at h
      · -- head is the target: every walk to the target has a prefix in the queue, the head is shortest
        injection h with h; subst h
        obtain ⟨e, he, hpre, _⟩ := hc q hqt
        have h1 : e.2.length ≤ q.length := hpre.length_le
        rcases List.mem_cons.mp he with rfl | he'
        · exact h1
        · have := List.rel_of_pairwise_cons hq.1 he'
          simp only at this
          omega
      · rename_i hne
        refine ih _ p ?_ ?_ h q hqt
        · -- queue invariant is preserved
          constructor
          · rw [List.pairwise_append]
            refine ⟨(List.Pairwise.of_cons hq.1), ?_, ?_⟩
            · rw [List.pairwise_map]
              exact List.pairwise_of_forall (fun _ _ => by simp)
            · intro a ha b hb
              obtain ⟨t, _, rfl⟩ := List.mem_map.mp hb
              have := hq.2 (n, path) (by simp) a (by simp [ha])
              simp only [List.length_append, List.length_singleton]
              have h2 := List.rel_of_pairwise_cons hq.1 ha
              simp only at h2 this
              omega
          · intro a ha b hb
            have hlen_a : path.length ≤ a.2.length := by
              rcases List.mem_append.mp ha with ha | ha
              · exact List.rel_of_pairwise_cons hq.1 ha
              · obtain ⟨t, _, rfl⟩ := List.mem_map.mp ha; simp
            have hlen_b : b.2.length ≤ path.length + 1 := by
              rcases List.mem_append.mp hb with hb | hb
              · exact hq.2 (n, path) (by simp) b (by simp [hb])
              · obtain ⟨t, _, rfl⟩ := List.mem_map.mp hb; simp
            omega
        · -- coverage is preserved
          intro q' hq'
          obtain ⟨e, he, hpre, hfe⟩ := hc q' hq'
          rcases List.mem_cons.mp he with rfl | he'
          · -- the popped entry was the prefix: extend it by the next transition of q'
            obtain ⟨r, rfl⟩ := hpre
            simp only at hfe
            cases r with
            | nil =>
              simp only [List.append_nil] at hq'
              rw [hfe] at hq'; injection hq' with hq'; exact absurd hq' hne
            | cons t ts =>
              obtain ⟨b, hb1, hb2⟩ := follow_split g start path (t :: ts) target hq'
              rw [hfe] at hb1; injection hb1 with hb1; subst hb1
              simp only [follow] at hb2
              cases ht : (g.succ n).lookup t with
              | none => simp [ht] at hb2
              | some m =>
                refine ⟨(m, path ++ [t]), ?_, ?_, ?_⟩
                · apply List.mem_append_right
                  exact List.mem_map.mpr ⟨(t, m), lookup_mem ht, rfl⟩
                · exact ⟨ts, by simp⟩
                · -- follow start (path ++ [t]) = m
                  clear ih h hq hc he
                  have : ∀ (a : Nat) (pp : List String), follow g a pp = some n → follow g a (pp ++ [t]) = some m := by
                    intro a pp
                    induction pp generalizing a with
                    | nil => intro hh; simp [follow] at hh; subst hh; simp [follow, ht]
                    | cons x xs ihx =>
                      intro hh
                      simp only [List.cons_append, follow] at hh ⊢
                      cases hx : (g.succ a).lookup x with
                      | none => simp [hx] at hh
                      | some m' => simp only [hx] at hh ⊢; exact ihx m' hh
                  exact this start path hfe
          · exact ⟨e, List.mem_append_left _ he', hpre, hfe⟩

/-- **Path search returns a shortest path (any graph, any fuel).** -/
theorem search_shortest (g : Graph) (start target fuel : Nat) (p : List String)
    (h : search g start target fuel = some p) :
    ∀ q, follow g start q = some target → p.length ≤ q.length := by
  apply bfs_shortest g start target fuel [(start, [])] p _ _ h
  · exact ⟨by simp, by intro a ha b hb; simp at ha hb; subst ha hb; simp⟩
  · intro q _; exact ⟨(start, []), by simp, List.nil_prefix, rfl⟩

end FormakVerif
