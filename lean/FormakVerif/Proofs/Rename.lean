import FormakVerif.Proofs.PyModel

namespace FormakVerif
variable {α : Type}

/-- renaming commutes with evaluation when the two environments agree through `σ` on the
variables of the expression -/
theorem eval_rename (S : Sem α) (σ : Name → Name) (ρ ρ' : Env α) (e : Expr)
    (h : ∀ x ∈ e.vars, ρ'.lookup (σ x) = ρ.lookup x) :
    (e.rename σ).eval S ρ' = e.eval S ρ := by
  induction e with
  | var n => simpa [Expr.rename, Expr.eval] using h n (by simp [Expr.vars])
  | num q => simp [Expr.rename, Expr.eval]
  | add a b iha ihb =>
    simp [Expr.rename, Expr.eval, iha (fun x hx => h x (by simp [Expr.vars, hx])),
      ihb (fun x hx => h x (by simp [Expr.vars, hx]))]
  | mul a b iha ihb =>
    simp [Expr.rename, Expr.eval, iha (fun x hx => h x (by simp [Expr.vars, hx])),
      ihb (fun x hx => h x (by simp [Expr.vars, hx]))]
  | neg a iha => simp [Expr.rename, Expr.eval, iha (fun x hx => h x (by simp [Expr.vars, hx]))]
  | div a b iha ihb =>
    simp [Expr.rename, Expr.eval, iha (fun x hx => h x (by simp [Expr.vars, hx])),
      ihb (fun x hx => h x (by simp [Expr.vars, hx]))]
  | pow a k iha => simp [Expr.rename, Expr.eval, iha (fun x hx => h x (by simp [Expr.vars, hx]))]
  | app f a iha => simp [Expr.rename, Expr.eval, iha (fun x hx => h x (by simp [Expr.vars, hx]))]

/-- lookup through an injective renaming of the keys -/
theorem lookup_renameKw (σ : Name → Name) (hσ : Function.Injective σ) (kw : List (Name × α)) (n : Name) :
    (renameKw σ kw).lookup (σ n) = kw.lookup n := by
  induction kw with
  | nil => rfl
  | cons p t ih =>
    obtain ⟨k, v⟩ := p
    simp only [renameKw, List.map_cons, List.lookup_cons] at ih ⊢
    by_cases hk : n = k
    · subst hk; simp
    · have h1 : (n == k) = false := by simpa using hk
      have h2 : (σ n == σ k) = false := by simpa using fun e => hk (hσ e)
      simp only [h1, h2]; exact ih

theorem lookup_update_rename (σ : Name → Name) (hσ : Function.Injective σ) (d : ModelDef) (n : Name) :
    (d.rename σ).update.lookup (σ n) = (d.update.lookup n).map (·.rename σ) := by
  unfold ModelDef.rename
  simp only
  induction d.update with
  | nil => rfl
  | cons p t ih =>
    obtain ⟨k, e⟩ := p
    simp only [List.map_cons, List.lookup_cons]
    by_cases hk : n = k
    · subst hk; simp
    · have h1 : (n == k) = false := by simpa using hk
      have h2 : (σ n == σ k) = false := by simpa using fun e => hk (hσ e)
      simp only [h1, h2]; exact ih

end FormakVerif

namespace FormakVerif
variable {α : Type}

theorem lookup_map_pair (L : List Name) (f : Name → α) (x : Name) :
    (L.map fun n => (n, f n)).lookup x = if x ∈ L then some (f x) else none := by
  induction L with
  | nil => simp
  | cons a t ih =>
    simp only [List.map_cons, List.lookup_cons]
    by_cases hx : x = a
    · subst hx; simp
    · have h1 : (x == a) = false := by simpa using hx
      simp only [h1, ih, List.mem_cons, hx, false_or]

theorem lookup_filterMap_pair (L : List Name) (cal : List (Name × α)) (x : Name) :
    (L.filterMap fun n => (cal.lookup n).map fun v => (n, v)).lookup x =
      if x ∈ L then cal.lookup x else none := by
  induction L with
  | nil => simp
  | cons a t ih =>
    simp only [List.filterMap_cons]
    cases hc : cal.lookup a with
    | none =>
      simp only [Option.map_none, ih, List.mem_cons]
      by_cases hx : x = a
      · subst hx; simp [hc]
      · simp [hx]
    | some v =>
      simp only [Option.map_some, List.lookup_cons]
      by_cases hx : x = a
      · subst hx; simp [hc]
      · have h1 : (x == a) = false := by simpa using hx
        simp only [h1, ih, List.mem_cons, hx, false_or]

/-- the by-name value of a symbol -/
def valOf (zero : α) (d : ModelDef) (cal : List (Name × α)) (dtv : α)
    (stateKw controlKw : List (Name × α)) (x : Name) : Option α :=
  if x = d.dt then some dtv
  else if x ∈ d.state then some ((stateKw.lookup x).getD zero)
  else if x ∈ d.calibration ∧ (cal.lookup x).isSome then cal.lookup x
  else if x ∈ d.control then some ((controlKw.lookup x).getD zero)
  else none

theorem byNameEnv_lookup (zero : α) (d : ModelDef) (cal : List (Name × α)) (dtv : α)
    (stateKw controlKw : List (Name × α)) (x : Name) :
    (byNameEnv zero d cal dtv stateKw controlKw).lookup x = valOf zero d cal dtv stateKw controlKw x := by
  unfold byNameEnv valOf
  simp only [List.lookup_append, lookup_map_pair, lookup_filterMap_pair, mem_layout]
  by_cases h1 : x = d.dt
  · subst h1; simp [List.lookup_cons]
  · have hb : (x == d.dt) = false := by simpa using h1
    simp only [List.lookup_cons, hb, List.lookup_nil, h1, if_false, Option.none_or]
    by_cases h2 : x ∈ d.state
    · simp [h2]
    · simp only [h2, if_false, Option.none_or]
      by_cases h3 : x ∈ d.calibration
      · cases hc : cal.lookup x with
        | none => simp [h3, hc]
        | some v => simp [h3, hc]
      · simp [h3]

theorem valOf_rename (zero : α) (σ : Name → Name) (hσ : Function.Injective σ) (d : ModelDef)
    (cal : List (Name × α)) (dtv : α) (stateKw controlKw : List (Name × α)) (x : Name) :
    valOf zero (d.rename σ) (renameKw σ cal) dtv (renameKw σ stateKw) (renameKw σ controlKw) (σ x) =
      valOf zero d cal dtv stateKw controlKw x := by
  unfold valOf ModelDef.rename
  simp only [hσ.eq_iff, List.mem_map_of_injective hσ, lookup_renameKw σ hσ]

end FormakVerif
