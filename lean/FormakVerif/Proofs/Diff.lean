/-
`Expr.diff` is the analytic partial derivative (Mathlib `HasDerivAt`) on the fragment
`+ − × ÷ ^ℤ sin cos exp log sqrt tan sinh cosh atan asin acos`, wherever the expression is defined.
-/
import FormakVerif.Model.Diff
import Mathlib.Analysis.Calculus.Deriv.ZPow
import Mathlib.Analysis.Calculus.Deriv.Inv
import Mathlib.Analysis.Calculus.Deriv.Mul
import Mathlib.Analysis.Calculus.Deriv.Add
import Mathlib.Analysis.SpecialFunctions.Trigonometric.Deriv
import Mathlib.Analysis.SpecialFunctions.ExpDeriv
import Mathlib.Analysis.SpecialFunctions.Log.Deriv
import Mathlib.Analysis.SpecialFunctions.Sqrt
import Mathlib.Analysis.SpecialFunctions.Trigonometric.ArctanDeriv
import Mathlib.Analysis.SpecialFunctions.Trigonometric.DerivHyp
import Mathlib.Analysis.SpecialFunctions.Trigonometric.InverseDeriv

namespace FormakVerif

/-- real-number semantics of expressions (total: `x / 0 = 0` as in Mathlib; definedness is a separate
predicate) -/
noncomputable def evalR (ρ : Name → ℝ) : Expr → ℝ
  | .var n => ρ n
  | .num q => (q : ℝ)
  | .add a b => evalR ρ a + evalR ρ b
  | .mul a b => evalR ρ a * evalR ρ b
  | .neg a => - evalR ρ a
  | .div a b => evalR ρ a / evalR ρ b
  | .pow a k => evalR ρ a ^ k
  | .app f a =>
    if f = "sin" then Real.sin (evalR ρ a)
    else if f = "cos" then Real.cos (evalR ρ a)
    else if f = "exp" then Real.exp (evalR ρ a)
    else if f = "log" then Real.log (evalR ρ a)
    else if f = "sqrt" then Real.sqrt (evalR ρ a)
    else if f = "tan" then Real.tan (evalR ρ a)
    else if f = "sinh" then Real.sinh (evalR ρ a)
    else if f = "cosh" then Real.cosh (evalR ρ a)
    else if f = "atan" then Real.arctan (evalR ρ a)
    else if f = "asin" then Real.arcsin (evalR ρ a)
    else if f = "acos" then Real.arccos (evalR ρ a)
    else 0

/-- every divisor and every base of a negative power is non-zero, every function is one of the
supported ones inside its domain of differentiability (`log`, `sqrt`: positive argument; `tan`: non-zero cosine; `asin`, `acos`: argument ≠ ±1) -/
def DefinedR (ρ : Name → ℝ) : Expr → Prop
  | .var _ => True
  | .num _ => True
  | .add a b => DefinedR ρ a ∧ DefinedR ρ b
  | .mul a b => DefinedR ρ a ∧ DefinedR ρ b
  | .neg a => DefinedR ρ a
  | .div a b => DefinedR ρ a ∧ DefinedR ρ b ∧ evalR ρ b ≠ 0
  | .pow a k => DefinedR ρ a ∧ (evalR ρ a ≠ 0 ∨ 1 ≤ k ∨ k = 0)
  | .app f a => DefinedR ρ a ∧ (f = "sin" ∨ f = "cos" ∨ f = "exp" ∨ (f = "log" ∧ 0 < evalR ρ a) ∨
      (f = "sqrt" ∧ 0 < evalR ρ a) ∨ (f = "tan" ∧ Real.cos (evalR ρ a) ≠ 0) ∨ f = "sinh" ∨ f = "cosh" ∨ f = "atan" ∨
      (f = "asin" ∧ evalR ρ a ≠ -1 ∧ evalR ρ a ≠ 1) ∨ (f = "acos" ∧ evalR ρ a ≠ -1 ∧ evalR ρ a ≠ 1))

/-- **Correctness of the model's differentiation.** At every point where `e` is defined, the function
`t ↦ e[x := t]` has derivative `(e.diff x)` evaluated at the point. -/
theorem diff_correct (ρ : Name → ℝ) (x : Name) (e : Expr) (h : DefinedR ρ e) :
    HasDerivAt (fun t => evalR (Function.update ρ x t) e) (evalR ρ (e.diff x)) (ρ x) := by
  have hupd : Function.update ρ x (ρ x) = ρ := Function.update_eq_self x ρ
  induction e with
  | var n =>
    by_cases hn : n = x
    · subst hn
      simp only [evalR, Expr.diff, if_true, Function.update_self]
      have := hasDerivAt_id (ρ n)
      simp only [Rat.cast_one]
      exact this
    · simp only [evalR, Expr.diff, if_neg hn, Function.update_of_ne hn, Rat.cast_zero]
      exact hasDerivAt_const (ρ x) (ρ n)
  | num q =>
    simp only [evalR, Expr.diff, Rat.cast_zero]
    exact hasDerivAt_const (ρ x) (q : ℝ)
  | add a b iha ihb =>
    simp only [evalR, Expr.diff]
    exact (iha h.1).add (ihb h.2)
  | mul a b iha ihb =>
    have := (iha h.1).mul (ihb h.2)
    simp only [hupd] at this
    simp only [evalR, Expr.diff]
    exact this
  | neg a iha =>
    simp only [evalR, Expr.diff]
    exact (iha h).neg
  | div a b iha ihb =>
    have hb : evalR (Function.update ρ x (ρ x)) b ≠ 0 := by rw [hupd]; exact h.2.2
    have := (iha h.1).div (ihb h.2.1) hb
    simp only [hupd] at this
    have hd : evalR ρ ((Expr.div a b).diff x) =
        (evalR ρ (a.diff x) * evalR ρ b - evalR ρ a * evalR ρ (b.diff x)) / evalR ρ b ^ 2 := by
      simp only [Expr.diff, evalR]
      rw [zpow_two, sq]
      ring
    rw [hd]
    exact this
  | pow a k iha =>
    by_cases hk : k = 0
    · subst hk
      have hd : evalR ρ ((Expr.pow a 0).diff x) = 0 := by simp [Expr.diff, evalR]
      have hf : (fun t => evalR (Function.update ρ x t) (Expr.pow a 0)) = fun _ => (1 : ℝ) := by
        funext t; simp [evalR]
      rw [hd, hf]
      exact hasDerivAt_const (ρ x) (1 : ℝ)
    · have hz : evalR ρ a ≠ 0 ∨ 0 ≤ k := by
        rcases h.2 with h1 | h1 | h1
        · exact Or.inl h1
        · exact Or.inr (by omega)
        · exact absurd h1 hk
      have hp := hasDerivAt_zpow k (evalR ρ a) hz
      have hc := HasDerivAt.comp (ρ x) (by rw [hupd]; exact hp) (iha h.1)
      have hd : evalR ρ ((Expr.pow a k).diff x) = (k : ℝ) * evalR ρ a ^ (k - 1) * evalR ρ (a.diff x) := by
        simp [Expr.diff, evalR, hk]
      rw [hd]
      exact hc
  | app f a iha =>
    rcases h.2 with rfl | rfl | rfl | ⟨rfl, hpos⟩ | ⟨rfl, hpos⟩ | ⟨rfl, hcos⟩ | rfl | rfl | rfl |
      ⟨rfl, hm, hp⟩ | ⟨rfl, hm, hp⟩
    · have := (iha h.1).sin
      simp only [hupd] at this
      have hd : evalR ρ ((Expr.app "sin" a).diff x) = Real.cos (evalR ρ a) * evalR ρ (a.diff x) := by
        simp [Expr.diff, evalR]
      have hf : (fun t => evalR (Function.update ρ x t) (Expr.app "sin" a)) =
          fun t => Real.sin (evalR (Function.update ρ x t) a) := by funext t; simp [evalR]
      rw [hd, hf]; exact this
    · have := (iha h.1).cos
      simp only [hupd] at this
      have hd : evalR ρ ((Expr.app "cos" a).diff x) = -Real.sin (evalR ρ a) * evalR ρ (a.diff x) := by
        simp [Expr.diff, evalR]
      have hf : (fun t => evalR (Function.update ρ x t) (Expr.app "cos" a)) =
          fun t => Real.cos (evalR (Function.update ρ x t) a) := by funext t; simp [evalR]
      rw [hd, hf]; exact this
    · have := (iha h.1).exp
      simp only [hupd] at this
      have hd : evalR ρ ((Expr.app "exp" a).diff x) = Real.exp (evalR ρ a) * evalR ρ (a.diff x) := by
        simp [Expr.diff, evalR]
      have hf : (fun t => evalR (Function.update ρ x t) (Expr.app "exp" a)) =
          fun t => Real.exp (evalR (Function.update ρ x t) a) := by funext t; simp [evalR]
      rw [hd, hf]; exact this
    · have := (iha h.1).log (by rw [hupd]; exact ne_of_gt hpos)
      simp only [hupd] at this
      have hd : evalR ρ ((Expr.app "log" a).diff x) = evalR ρ (a.diff x) / evalR ρ a := by
        simp [Expr.diff, evalR]
      have hf : (fun t => evalR (Function.update ρ x t) (Expr.app "log" a)) =
          fun t => Real.log (evalR (Function.update ρ x t) a) := by funext t; simp [evalR]
      rw [hd, hf]; exact this
    · have := (iha h.1).sqrt (by rw [hupd]; exact ne_of_gt hpos)
      simp only [hupd] at this
      have hd : evalR ρ ((Expr.app "sqrt" a).diff x) = evalR ρ (a.diff x) / (2 * Real.sqrt (evalR ρ a)) := by
        simp [Expr.diff, evalR]
      have hf : (fun t => evalR (Function.update ρ x t) (Expr.app "sqrt" a)) =
          fun t => Real.sqrt (evalR (Function.update ρ x t) a) := by funext t; simp [evalR]
      rw [hd, hf]; exact this
    · have := (Real.hasDerivAt_tan (x := evalR (Function.update ρ x (ρ x)) a) (by rw [hupd]; exact hcos)).comp (ρ x) (iha h.1)
      simp only [hupd] at this
      have h1 : (1 : ℝ) + Real.tan (evalR ρ a) ^ 2 = 1 / Real.cos (evalR ρ a) ^ 2 := by
        rw [Real.tan_eq_sin_div_cos]
        field_simp
        have := Real.sin_sq_add_cos_sq (evalR ρ a)
        linarith
      have e1 : evalR ρ ((Expr.app "tan" a).diff x) = (1 + Real.tan (evalR ρ a) ^ 2) * evalR ρ (a.diff x) := by
        simp [Expr.diff, evalR]
      have hf : (fun t => evalR (Function.update ρ x t) (Expr.app "tan" a)) =
          Real.tan ∘ fun t => evalR (Function.update ρ x t) a := by funext t; simp [evalR]
      rw [e1, h1, hf]; exact this
    · have := (iha h.1).sinh
      simp only [hupd] at this
      have hd : evalR ρ ((Expr.app "sinh" a).diff x) = Real.cosh (evalR ρ a) * evalR ρ (a.diff x) := by
        simp [Expr.diff, evalR]
      have hf : (fun t => evalR (Function.update ρ x t) (Expr.app "sinh" a)) =
          fun t => Real.sinh (evalR (Function.update ρ x t) a) := by funext t; simp [evalR]
      rw [hd, hf]; exact this
    · have := (iha h.1).cosh
      simp only [hupd] at this
      have hd : evalR ρ ((Expr.app "cosh" a).diff x) = Real.sinh (evalR ρ a) * evalR ρ (a.diff x) := by
        simp [Expr.diff, evalR]
      have hf : (fun t => evalR (Function.update ρ x t) (Expr.app "cosh" a)) =
          fun t => Real.cosh (evalR (Function.update ρ x t) a) := by funext t; simp [evalR]
      rw [hd, hf]; exact this
    · have := (iha h.1).arctan
      simp only [hupd] at this
      have hd : evalR ρ ((Expr.app "atan" a).diff x) = 1 / (1 + evalR ρ a ^ 2) * evalR ρ (a.diff x) := by
        have e1 : evalR ρ ((Expr.app "atan" a).diff x) = evalR ρ (a.diff x) / (1 + evalR ρ a ^ 2) := by
          simp [Expr.diff, evalR]
        rw [e1]; ring
      have hf : (fun t => evalR (Function.update ρ x t) (Expr.app "atan" a)) =
          fun t => Real.arctan (evalR (Function.update ρ x t) a) := by funext t; simp [evalR]
      rw [hd, hf]; exact this
    · have := (Real.hasDerivAt_arcsin (x := evalR (Function.update ρ x (ρ x)) a) (by rw [hupd]; exact hm)
        (by rw [hupd]; exact hp)).comp (ρ x) (iha h.1)
      simp only [hupd] at this
      have e1 : evalR ρ ((Expr.app "asin" a).diff x) = 1 / Real.sqrt (1 - evalR ρ a ^ 2) * evalR ρ (a.diff x) := by
        have e0 : evalR ρ ((Expr.app "asin" a).diff x) = evalR ρ (a.diff x) / Real.sqrt (1 + -(evalR ρ a ^ 2)) := by
          simp [Expr.diff, evalR]
        rw [e0, ← sub_eq_add_neg]; ring
      have hf : (fun t => evalR (Function.update ρ x t) (Expr.app "asin" a)) =
          Real.arcsin ∘ fun t => evalR (Function.update ρ x t) a := by funext t; simp [evalR]
      rw [e1, hf]; exact this
    · have := (Real.hasDerivAt_arccos (x := evalR (Function.update ρ x (ρ x)) a) (by rw [hupd]; exact hm)
        (by rw [hupd]; exact hp)).comp (ρ x) (iha h.1)
      simp only [hupd] at this
      have e1 : evalR ρ ((Expr.app "acos" a).diff x) = -(1 / Real.sqrt (1 - evalR ρ a ^ 2)) * evalR ρ (a.diff x) := by
        have e0 : evalR ρ ((Expr.app "acos" a).diff x) = -(evalR ρ (a.diff x) / Real.sqrt (1 + -(evalR ρ a ^ 2))) := by
          simp [Expr.diff, evalR]
        rw [e0, ← sub_eq_add_neg]; ring
      have hf : (fun t => evalR (Function.update ρ x t) (Expr.app "acos" a)) =
          Real.arccos ∘ fun t => evalR (Function.update ρ x t) a := by funext t; simp [evalR]
      rw [e1, hf]; exact this

end FormakVerif

namespace FormakVerif

/-- the real environment a rational environment denotes (unbound names read as 0) -/
noncomputable def realEnv (env : Env Rat) : Name → ℝ := fun n => (((env.lookup n).getD 0 : ℚ) : ℝ)

/-- **Exact rational evaluation is real evaluation.** Whenever the executable model evaluates an
expression (in particular: no division by zero occurred), the value is the real-number value of
the expression and the expression is defined there. -/
theorem eval_rat_real (env : Env Rat) (e : Expr) :
    ∀ q, e.eval ratSem env = some q → evalR (realEnv env) e = (q : ℝ) ∧ DefinedR (realEnv env) e := by
  induction e with
  | var n =>
    intro q h
    simp only [Expr.eval] at h
    simp [evalR, realEnv, h, DefinedR]
  | num r =>
    intro q h
    simp only [Expr.eval, ratSem, Option.some.injEq] at h
    subst h; simp [evalR, DefinedR]
  | add a b iha ihb =>
    intro q h
    cases ha : a.eval ratSem env with
    | none => simp [Expr.eval, ha] at h
    | some x =>
      cases hb : b.eval ratSem env with
      | none => simp [Expr.eval, ha, hb] at h
      | some y =>
        simp only [Expr.eval, ha, hb, Option.bind_eq_bind, Option.bind_some, Option.pure_def, Option.some.injEq] at h
        obtain ⟨e1, d1⟩ := iha x ha
        obtain ⟨e2, d2⟩ := ihb y hb
        refine ⟨?_, d1, d2⟩
        rw [← h]; simp [evalR, e1, e2, ratSem]
  | mul a b iha ihb =>
    intro q h
    cases ha : a.eval ratSem env with
    | none => simp [Expr.eval, ha] at h
    | some x =>
      cases hb : b.eval ratSem env with
      | none => simp [Expr.eval, ha, hb] at h
      | some y =>
        simp only [Expr.eval, ha, hb, Option.bind_eq_bind, Option.bind_some, Option.pure_def, Option.some.injEq] at h
        obtain ⟨e1, d1⟩ := iha x ha
        obtain ⟨e2, d2⟩ := ihb y hb
        refine ⟨?_, d1, d2⟩
        rw [← h]; simp [evalR, e1, e2, ratSem]
  | neg a iha =>
    intro q h
    cases ha : a.eval ratSem env with
    | none => simp [Expr.eval, ha] at h
    | some x =>
      simp only [Expr.eval, ha, Option.bind_eq_bind, Option.bind_some, Option.pure_def, Option.some.injEq] at h
      obtain ⟨e1, d1⟩ := iha x ha
      refine ⟨?_, d1⟩
      rw [← h]; simp [evalR, e1, ratSem]
  | div a b iha ihb =>
    intro q h
    cases ha : a.eval ratSem env with
    | none => simp [Expr.eval, ha] at h
    | some x =>
      cases hb : b.eval ratSem env with
      | none => simp [Expr.eval, ha, hb] at h
      | some y =>
        simp only [Expr.eval, ha, hb, Option.bind_eq_bind, Option.bind_some] at h
        by_cases hy : y = 0
        · simp [ratSem, hy] at h
        · have h' : (x / y : ℚ) = q := by simpa [ratSem, hy] using h
          obtain ⟨e1, d1⟩ := iha x ha
          obtain ⟨e2, d2⟩ := ihb y hb
          refine ⟨?_, d1, d2, ?_⟩
          · rw [← h']; simp [evalR, e1, e2]
          · rw [e2]; exact_mod_cast hy
  | pow a k iha =>
    intro q h
    cases ha : a.eval ratSem env with
    | none => simp [Expr.eval, ha] at h
    | some x =>
      simp only [Expr.eval, ha, Option.bind_eq_bind, Option.bind_some] at h
      obtain ⟨e1, d1⟩ := iha x ha
      by_cases hk : 0 ≤ k
      · have h' : (x ^ k.toNat : ℚ) = q := by simpa [ratSem, ratPow, hk] using h
        refine ⟨?_, d1, ?_⟩
        · simp only [evalR, e1]
          have : k = (k.toNat : ℤ) := (Int.toNat_of_nonneg hk).symm
          conv_lhs => rw [this]
          rw [zpow_natCast, ← h']; push_cast; rfl
        · rcases Int.lt_or_eq_of_le hk with h1 | h1
          · exact Or.inr (Or.inl (by omega))
          · exact Or.inr (Or.inr h1.symm)
      · by_cases hx : x = 0
        · simp [ratSem, ratPow, hk, hx] at h
        · have h' : ((x ^ (-k).toNat)⁻¹ : ℚ) = q := by simpa [ratSem, ratPow, hk, hx] using h
          refine ⟨?_, d1, Or.inl (by rw [e1]; exact_mod_cast hx)⟩
          simp only [evalR, e1]
          have hneg : k = -((-k).toNat : ℤ) := by
            have : 0 ≤ -k := by omega
            rw [Int.toNat_of_nonneg this]; ring
          conv_lhs => rw [hneg]
          rw [zpow_neg, zpow_natCast, ← h']; push_cast; rfl
  | app f a _ =>
    intro q h
    cases ha : a.eval ratSem env with
    | none => simp [Expr.eval, ha] at h
    | some x => simp [Expr.eval, ha, ratSem] at h

/-- **What the exact model computes for a derivative entry is the derivative.** If the model evaluates
`e` and `e.diff x` at a rational point, the value of the latter is the derivative (Mathlib's
`HasDerivAt`) of `t ↦ e[x := t]` at that point. -/
theorem diff_value_is_derivative (env : Env Rat) (e : Expr) (x : Name) (v w : ℚ)
    (he : e.eval ratSem env = some w) (hd : (e.diff x).eval ratSem env = some v) :
    HasDerivAt (fun t => evalR (Function.update (realEnv env) x t) e) (v : ℝ) (realEnv env x) := by
  obtain ⟨_, hdef⟩ := eval_rat_real env e w he
  obtain ⟨hval, _⟩ := eval_rat_real env (e.diff x) v hd
  rw [← hval]
  exact diff_correct (realEnv env) x e hdef

end FormakVerif
