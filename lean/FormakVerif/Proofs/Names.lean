import FormakVerif.Model.Names
import Mathlib.Data.List.Sort
import Mathlib.Data.String.Basic

namespace FormakVerif

theorem insertName_perm (a : Name) (l : List Name) : (insertName a l).Perm (a :: l) := by
  induction l with
  | nil => simp [insertName]
  | cons b t ih =>
    simp only [insertName]
    split
    · exact List.Perm.refl _
    · exact (List.Perm.cons b ih).trans (List.Perm.swap a b t)

theorem insertName_sorted (a : Name) (l : List Name) (h : l.Pairwise (· ≤ ·)) :
    (insertName a l).Pairwise (· ≤ ·) := by
  induction l with
  | nil => simp [insertName]
  | cons b t ih =>
    simp only [insertName]
    split
    · rename_i hab
      refine List.Pairwise.cons ?_ h
      intro c hc
      rcases List.mem_cons.mp hc with rfl | hc
      · exact hab
      · exact le_trans hab (List.rel_of_pairwise_cons h hc)
    · rename_i hab
      have hba : b ≤ a := le_of_not_ge hab
      refine List.Pairwise.cons ?_ (ih (List.Pairwise.of_cons h))
      intro c hc
      have := (insertName_perm a t).mem_iff.mp hc
      rcases List.mem_cons.mp this with rfl | hc'
      · exact hba
      · exact List.rel_of_pairwise_cons h hc'

theorem layout_perm_self (decl : List Name) : (layout decl).Perm decl := by
  induction decl with
  | nil => simp [layout]
  | cons a t ih =>
    have : layout (a :: t) = insertName a (layout t) := rfl
    rw [this]
    exact (insertName_perm a _).trans (List.Perm.cons a ih)

theorem layout_sorted (decl : List Name) : (layout decl).Pairwise (· ≤ ·) := by
  induction decl with
  | nil => simp [layout]
  | cons a t ih =>
    have : layout (a :: t) = insertName a (layout t) := rfl
    rw [this]
    exact insertName_sorted a _ ih

/-- The layout depends only on the *set* of declared names, not on declaration order. -/
theorem layout_perm {d₁ d₂ : List Name} (h : d₁.Perm d₂) : layout d₁ = layout d₂ := by
  have hp : (layout d₁).Perm (layout d₂) :=
    (layout_perm_self d₁).trans (h.trans (layout_perm_self d₂).symm)
  exact hp.eq_of_pairwise (fun a b _ _ => le_antisymm) (layout_sorted d₁) (layout_sorted d₂)

theorem mem_layout {d : List Name} {n : Name} : n ∈ layout d ↔ n ∈ d :=
  (layout_perm_self d).mem_iff

theorem layout_nodup {d : List Name} (h : d.Nodup) : (layout d).Nodup :=
  (layout_perm_self d).nodup_iff.mpr h

theorem layout_length (d : List Name) : (layout d).length = d.length :=
  (layout_perm_self d).length_eq

theorem lookup_zip_map {α : Type} (L : List Name) (f : Name → α) {n : Name} (h : n ∈ L) :
    (L.zip (L.map f)).lookup n = some (f n) := by
  induction L with
  | nil => cases h
  | cons a t ih =>
    simp only [List.map_cons, List.zip_cons_cons, List.lookup_cons]
    by_cases hna : n = a
    · subst hna; simp
    · have : (n == a) = false := by simpa using hna
      rw [this]
      exact ih (by simpa [hna] using h)

theorem lookup_zip_map_none {α : Type} (L : List Name) (f : Name → α) {n : Name} (h : n ∉ L) :
    (L.zip (L.map f)).lookup n = none := by
  induction L with
  | nil => simp
  | cons a t ih =>
    simp only [List.map_cons, List.zip_cons_cons, List.lookup_cons]
    have hna : n ≠ a := fun e => h (by simp [e])
    have : (n == a) = false := by simpa using hna
    rw [this]
    exact ih (fun hm => h (List.mem_cons_of_mem _ hm))

/-- Reading back by name what was bound by name gives the supplied value, or the default. -/
theorem get_bind {α : Type} (L : List Name) (kw : List (Name × α)) (d : α) (v : List α)
    (hb : bindVec L kw d = .ok v) {n : Name} (hn : n ∈ L) :
    getByName L v n = some ((kw.lookup n).getD d) := by
  unfold bindVec at hb
  split at hb
  · cases hb
  · injection hb with hb; subst hb
    exact lookup_zip_map L _ hn

/-- An unknown keyword is refused. -/
theorem bind_rejects {α : Type} (L : List Name) (kw : List (Name × α)) (d : α)
    {k : Name} {x : α} (hk : (k, x) ∈ kw) (hL : k ∉ L) :
    ∃ k', bindVec L kw d = .error (.unknownKey k') ∧ k' ∉ L := by
  unfold bindVec
  cases hf : kw.find? (fun p => !L.contains p.1) with
  | some p =>
    refine ⟨p.1, rfl, ?_⟩
    have := List.find?_some hf
    simpa using this
  | none =>
    exfalso
    have := List.find?_eq_none.mp hf (k, x) hk
    simp at this; exact hL this

/-- Keywords all known ⇒ binding succeeds. -/
theorem bind_accepts {α : Type} (L : List Name) (kw : List (Name × α)) (d : α)
    (h : ∀ p ∈ kw, p.1 ∈ L) : ∃ v, bindVec L kw d = .ok v ∧ v.length = L.length := by
  unfold bindVec
  cases hf : kw.find? (fun p => !L.contains p.1) with
  | some p =>
    exfalso
    have h1 := List.find?_some hf
    have h2 := List.mem_of_find?_eq_some hf
    have := h p h2
    simp at h1; exact h1 this
  | none => exact ⟨_, rfl, by simp⟩

theorem fromData_shape {α : Type} (L : List Name) (data : List α) :
    (∃ v, fromData L data = .ok v) ↔ data.length = L.length := by
  unfold fromData; split <;> simp_all

theorem getCov_bind {α : Type} (zero one : α) (L : List Name) (kw : List (Name × α))
    (m : List (List α)) (hb : bindCov zero one L kw = .ok m) {r c : Name}
    (hr : r ∈ L) (hc : c ∈ L) :
    getCov L m r c = some (if r = c then (kw.lookup r).getD one else zero) := by
  unfold bindCov at hb
  split at hb
  · cases hb
  · injection hb with hb; subst hb
    unfold getCov
    rw [lookup_zip_map L _ hr]
    simp only
    rw [lookup_zip_map L _ hc]

theorem mem_of_lookup {α : Type} {l : List (Name × α)} {k : Name} {v : α}
    (h : l.lookup k = some v) : (k, v) ∈ l := by
  induction l with
  | nil => simp at h
  | cons p t ih =>
    obtain ⟨a, b⟩ := p
    simp only [List.lookup_cons] at h
    by_cases hk : k = a
    · subst hk; simp at h; subst h; simp
    · have : (k == a) = false := by simpa using hk
      rw [this] at h
      exact List.mem_cons_of_mem _ (ih h)

end FormakVerif
