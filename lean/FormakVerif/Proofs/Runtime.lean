import FormakVerif.Model.Runtime
import Mathlib.Data.Rat.Floor
import Mathlib.Algebra.Order.Floor.Ring
import Mathlib.Tactic.Linarith
import Mathlib.Tactic.FieldSimp
import Mathlib.Tactic.Ring
import Mathlib.Tactic.NormNum

namespace FormakVerif

theorem rat_floor_eq (q : ℚ) : Rat.floor q = ⌊q⌋ := rfl

/-! ### exact-arithmetic facts about the plan -/

section
variable (maxDt cur out : ℚ)

theorem stepOf_rat : stepOf ratTime maxDt cur out = if out < cur then -maxDt else maxDt := by
  simp [stepOf, ratTime]

theorem quot_nonneg (h : 0 < maxDt) : 0 ≤ (out - cur) / stepOf ratTime maxDt cur out := by
  rw [stepOf_rat]; split
  · apply div_nonneg_of_nonpos <;> linarith
  · apply div_nonneg <;> linarith

theorem nSteps_cast (h : 0 < maxDt) :
    ((nSteps ratTime maxDt cur out : ℕ) : ℚ) = (⌊(out - cur) / stepOf ratTime maxDt cur out⌋ : ℚ) := by
  have hq := quot_nonneg maxDt cur out h
  have hfl : 0 ≤ ⌊(out - cur) / stepOf ratTime maxDt cur out⌋ := Int.floor_nonneg.mpr hq
  have : nSteps ratTime maxDt cur out = ⌊(out - cur) / stepOf ratTime maxDt cur out⌋.natAbs := by
    simp [nSteps, ratTime, rat_floor_eq]
  rw [this]
  have h2 : ((⌊(out - cur) / stepOf ratTime maxDt cur out⌋.natAbs : ℕ) : ℤ)
      = ⌊(out - cur) / stepOf ratTime maxDt cur out⌋ := Int.natAbs_of_nonneg hfl
  calc ((⌊(out - cur) / stepOf ratTime maxDt cur out⌋.natAbs : ℕ) : ℚ)
      = (((⌊(out - cur) / stepOf ratTime maxDt cur out⌋.natAbs : ℕ) : ℤ) : ℚ) := (Int.cast_natCast _).symm
    _ = _ := by rw [h2]

theorem remainder_rat :
    remainder ratTime maxDt cur out =
      out - (cur + stepOf ratTime maxDt cur out * (nSteps ratTime maxDt cur out : ℚ)) := by
  simp [remainder, iterTime, ratTime]

/-- forward: the remainder lies in `[0, maxDt)` -/
theorem remainder_forward (h : 0 < maxDt) (hle : cur ≤ out) :
    0 ≤ remainder ratTime maxDt cur out ∧ remainder ratTime maxDt cur out < maxDt := by
  have hs : stepOf ratTime maxDt cur out = maxDt := by
    rw [stepOf_rat, if_neg (not_lt.mpr hle)]
  have hc := nSteps_cast maxDt cur out h
  rw [remainder_rat, hc, hs]
  set q := (out - cur) / maxDt with hqdef
  have h1 : (⌊q⌋ : ℚ) ≤ q := Int.floor_le q
  have h2 : q < ⌊q⌋ + 1 := Int.lt_floor_add_one q
  have hq' : out - cur = q * maxDt := by rw [hqdef]; field_simp
  constructor <;> nlinarith

/-- backward: the remainder lies in `(-maxDt, 0]` -/
theorem remainder_backward (h : 0 < maxDt) (hlt : out < cur) :
    -maxDt < remainder ratTime maxDt cur out ∧ remainder ratTime maxDt cur out ≤ 0 := by
  have hs : stepOf ratTime maxDt cur out = -maxDt := by
    rw [stepOf_rat, if_pos hlt]
  have hc := nSteps_cast maxDt cur out h
  rw [remainder_rat, hc, hs]
  set q := (out - cur) / -maxDt with hqdef
  have h1 : (⌊q⌋ : ℚ) ≤ q := Int.floor_le q
  have h2 : q < ⌊q⌋ + 1 := Int.lt_floor_add_one q
  have hne : -maxDt ≠ 0 := by linarith
  have hq' : out - cur = q * -maxDt := by rw [hqdef]; field_simp
  constructor <;> nlinarith

theorem abs_rat (x : ℚ) : ratTime.abs x = |x| := by
  simp only [ratTime]
  split
  · rename_i h; rw [abs_of_neg h]
  · rename_i h; rw [abs_of_nonneg (not_lt.mp h)]

theorem plan_rat :
    plan ratTime maxDt cur out =
      List.replicate (nSteps ratTime maxDt cur out) (stepOf ratTime maxDt cur out) ++
        (if |remainder ratTime maxDt cur out| < 1 / 1000000000 then []
         else [remainder ratTime maxDt cur out]) := by
  unfold plan
  congr 1
  have : ratTime.lt (ratTime.abs (remainder ratTime maxDt cur out)) ratTime.tol
      = decide (|remainder ratTime maxDt cur out| < 1 / 1000000000) := by
    rw [abs_rat]; simp [ratTime]
  rw [this]; simp

theorem sum_replicate_rat (n : ℕ) (x : ℚ) : (List.replicate n x).sum = n * x := by
  induction n with
  | zero => simp
  | succ k ih => simp [List.replicate_succ, ih]; ring

end
end FormakVerif
