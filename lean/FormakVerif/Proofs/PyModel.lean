import FormakVerif.Model.PyModel
import FormakVerif.Proofs.Names
import FormakVerif.Proofs.Program

namespace FormakVerif
variable {α : Type}

theorem zip_map_self (L : List Name) (f : Name → α) :
    L.zip (L.map f) = L.map (fun n => (n, f n)) := by
  induction L with
  | nil => rfl
  | cons a t ih => simp [ih]

theorem calibVec_ok (cal : List (Name × α)) (L : List Name) (kv : List α)
    (h : calibVec cal L = .ok kv) :
    kv.length = L.length ∧
    L.zip kv = L.filterMap (fun n => (cal.lookup n).map (fun v => (n, v))) := by
  induction L generalizing kv with
  | nil => simp [calibVec] at h; subst h; simp
  | cons n ns ih =>
    simp only [calibVec] at h
    cases hl : cal.lookup n with
    | none => simp [hl] at h
    | some v =>
      simp only [hl] at h
      cases hr : calibVec cal ns with
      | error e => simp [hr] at h
      | ok vs =>
        simp only [hr] at h
        injection h with h; subst h
        obtain ⟨h1, h2⟩ := ih vs hr
        simp [h1, h2, hl]

theorem bindVec_ok_eq (L : List Name) (kw : List (Name × α)) (d : α) (v : List α)
    (h : bindVec L kw d = .ok v) : v = L.map (fun n => (kw.lookup n).getD d) := by
  unfold bindVec at h
  split at h
  · cases h
  · injection h with h; exact h.symm

theorem liftBind_ok {β : Type} {x : Except BindErr β} {v : β} (h : liftBind x = .ok v) :
    x = .ok v := by
  cases x with
  | ok w => simpa [liftBind] using h
  | error e => simp [liftBind] at h

theorem mapM_length {β : Type} (g : β → Option α) (L : List β) (out : List α)
    (h : L.mapM g = some out) : out.length = L.length := by
  induction L generalizing out with
  | nil => simp at h; subst h; rfl
  | cons a t ih =>
    simp only [List.mapM_cons] at h
    cases ha : g a with
    | none => simp [ha] at h
    | some x =>
      cases ht : t.mapM g with
      | none => simp [ha, ht] at h
      | some xs => simp [ha, ht] at h; subst h; simp [ih xs ht]

/-- `mapM` over names: the `i`-th result belongs to the `i`-th name. -/
theorem lookup_zip_mapM (g : Name → Option α) (L : List Name) (out : List α)
    (h : L.mapM g = some out) {n : Name} (hn : n ∈ L) :
    (L.zip out).lookup n = g n := by
  induction L generalizing out with
  | nil => cases hn
  | cons a t ih =>
    simp only [List.mapM_cons] at h
    cases ha : g a with
    | none => simp [ha] at h
    | some x =>
      cases ht : t.mapM g with
      | none => simp [ha, ht] at h
      | some xs =>
        simp [ha, ht] at h; subst h
        by_cases hna : n = a
        · subst hna; simp [ha]
        · have hnt : n ∈ t := by simpa [hna] using hn
          have hb : (n == a) = false := by simpa using hna
          simp [List.lookup_cons, hb, ih xs ht hnt]

end FormakVerif
