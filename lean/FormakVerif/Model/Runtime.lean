/-
The managed-filter runtime (`py/formak/runtime.py`, `cpp/runtime/.../ManagedFilter.h`):
the step plan between two times and the tick fold. Generic over the arithmetic of time so that the
same definitions are (a) what the theorems are about (exact `Rat`) and (b) what is diffed
bit-for-bit against the two runtimes (native binary64 `Float`).
-/
import FormakVerif.Model.Names
namespace FormakVerif

structure TimeArith (T : Type) where
  add : T → T → T
  sub : T → T → T
  mul : T → T → T
  div : T → T → T
  neg : T → T
  abs : T → T
  lt : T → T → Bool
  /-- `|⌊x⌋|` as a natural number (`abs(floor(x))`, `static_cast<size_t>(std::abs(std::floor(x)))`) -/
  floorNatAbs : T → Nat
  ofNat : Nat → T
  /-- the literal `1e-9` -/
  tol : T

def ratTime : TimeArith Rat where
  add := (· + ·)
  sub := (· - ·)
  mul := (· * ·)
  div := (· / ·)
  neg := (- ·)
  abs x := if x < 0 then -x else x
  lt x y := decide (x < y)
  floorNatAbs x := (Rat.floor x).natAbs
  ofNat n := (n : Rat)
  tol := 1 / 1000000000

def floatTime : TimeArith Float where
  add := (· + ·)
  sub := (· - ·)
  mul := (· * ·)
  div := (· / ·)
  neg := (- ·)
  abs := Float.abs
  lt x y := x < y
  floorNatAbs x := x.floor.abs.toUInt64.toNat
  ofNat n := Float.ofNat n
  tol := 1e-9

/-- signed step of the plan: against the direction of travel the configured maximum is negated -/
def stepOf {T : Type} (A : TimeArith T) (maxDt cur out : T) : T :=
  if A.lt out cur then A.neg maxDt else maxDt

def nSteps {T : Type} (A : TimeArith T) (maxDt cur out : T) : Nat :=
  A.floorNatAbs (A.div (A.sub out cur) (stepOf A maxDt cur out))

def iterTime {T : Type} (A : TimeArith T) (maxDt cur out : T) : T :=
  A.add cur (A.mul (stepOf A maxDt cur out) (A.ofNat (nSteps A maxDt cur out)))

def remainder {T : Type} (A : TimeArith T) (maxDt cur out : T) : T :=
  A.sub out (iterTime A maxDt cur out)

/-- The list of `dt`s handed to the filter's prediction when moving from `cur` to `out`
(`ManagedFilter._process_model` / `ManagedFilter::processUpdate`). -/
def plan {T : Type} (A : TimeArith T) (maxDt cur out : T) : List T :=
  List.replicate (nSteps A maxDt cur out) (stepOf A maxDt cur out) ++
    (if A.lt (A.abs (remainder A maxDt cur out)) A.tol then [] else [remainder A maxDt cur out])

/-- An abstract filter: prediction over `dt`, and a sensor update per reading. -/
structure Filter (T S R : Type) where
  process : T → S → S
  sensor : R → S → S

structure Held (T S : Type) where
  time : T
  est : S

def advance {T S R : Type} (A : TimeArith T) (F : Filter T S R) (maxDt : T) (h : Held T S) (out : T) : S :=
  (plan A maxDt h.time out).foldl (fun s dt => F.process dt s) h.est

/-- The property's sentence: for each reading in the order given, propagate the held estimate to
the reading's timestamp, apply its update, hold the result at that timestamp. -/
def foldReadings {T S R : Type} (A : TimeArith T) (F : Filter T S R) (maxDt : T) (h : Held T S)
    (readings : List (T × R)) : Held T S :=
  readings.foldl (fun h tr => { time := tr.1, est := F.sensor tr.2 (advance A F maxDt h tr.1) }) h

/-- … then return — without holding it — the held estimate propagated to the output time. -/
def tickSpec {T S R : Type} (A : TimeArith T) (F : Filter T S R) (maxDt : T) (h : Held T S)
    (out : T) (readings : List (T × R)) : Held T S × S :=
  let h' := foldReadings A F maxDt h readings
  (h', advance A F maxDt h' out)

/-! ### the Python runtime, with its mutation made explicit -/

structure PyManaged (T S : Type) where
  current_time : T
  state : S

/-- `_process_model(output_time, control)` returns `(output_time, state)` and mutates nothing. -/
def pyProcessModel {T S R : Type} (A : TimeArith T) (F : Filter T S R) (maxDt : T)
    (self : PyManaged T S) (out : T) : T × S :=
  (out, advance A F maxDt { time := self.current_time, est := self.state } out)

def pyTickLoop {T S R : Type} (A : TimeArith T) (F : Filter T S R) (maxDt : T) :
    PyManaged T S → List (T × R) → PyManaged T S
  | self, [] => self
  | self, (ts, r) :: rest =>
    -- self.current_time, (self.state, self.covariance) = self._process_model(reading.timestamp, control)
    let (t', s') := pyProcessModel A F maxDt self ts
    let self := { self with current_time := t', state := s' }
    -- (self.state, self.covariance) = self._impl.sensor_model(...)
    let self := { self with state := F.sensor r self.state }
    pyTickLoop A F maxDt self rest

inductive TickErr where
  | missingControl
  deriving Repr, DecidableEq

/-- `ManagedFilter.tick(output_time, control=…, readings=…)`; `hasControl`: the model has control
inputs; `controlGiven`: the caller passed one. -/
def pyTick {T S R : Type} (A : TimeArith T) (F : Filter T S R) (maxDt : T) (hasControl controlGiven : Bool)
    (self : PyManaged T S) (out : T) (readings : List (T × R)) : Except TickErr (PyManaged T S × S) :=
  if hasControl && !controlGiven then .error .missingControl
  else
    let self := pyTickLoop A F maxDt self readings
    .ok (self, (pyProcessModel A F maxDt self out).2)

/-! ### the C++ runtime -/

structure CppState (T S : Type) where
  currentTime : T
  state : S

def cppProcessUpdate {T S R : Type} (A : TimeArith T) (F : Filter T S R) (maxDt : T)
    (st : CppState T S) (out : T) : CppState T S :=
  { currentTime := out, state := advance A F maxDt { time := st.currentTime, est := st.state } out }

def cppTickLoop {T S R : Type} (A : TimeArith T) (F : Filter T S R) (maxDt : T) :
    CppState T S → List (T × R) → CppState T S
  | st, [] => st
  | st, (ts, r) :: rest =>
    let st := cppProcessUpdate A F maxDt st ts              -- _state = processUpdate(timestamp[, control])
    let st := { st with state := F.sensor r st.state }      -- _state.state = data->sensor_model(_impl, _state.state …)
    cppTickLoop A F maxDt st rest

def cppTick {T S R : Type} (A : TimeArith T) (F : Filter T S R) (maxDt : T)
    (st : CppState T S) (out : T) (readings : List (T × R)) : CppState T S × S :=
  let st := cppTickLoop A F maxDt st readings
  (st, (cppProcessUpdate A F maxDt st out).state)            -- return tick(outputTime[, control])

/-- the recording filter used for the correspondence: the state *is* the list of calls so far -/
inductive Call (T : Type) where
  | proc (dt : T) (ctl : Nat)
  | sens (id : Nat)
  deriving Repr

/-- `ctl` identifies the control value the tick was given (0 = none / not recorded): a filter call is
`process(dt, …, control)`, so two ticks with different controls issue different calls -/
def traceFilter (T : Type) (ctl : Nat := 0) : Filter T (List (Call T)) Nat where
  process dt s := s ++ [.proc dt ctl]
  -- readings numbered 100 and up stand for readings the filter REJECTS (innovation filtering): the update hands back the very
  -- state it was given; the runtime must still hold that state at the reading's timestamp
  sensor id s := if id < 100 then s ++ [.sens id] else s

end FormakVerif
