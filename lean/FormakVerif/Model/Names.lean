/-
Layouts and by-name binding: the model of `sorted(list(symbols), key=lambda x: x.name)`,
`common.named_vector` and `common.named_covariance`.
Core Lean only (no Mathlib) so that the driver starts fast.
-/
namespace FormakVerif

abbrev Name := String

/-- `sorted(..., key=lambda x: x.name)` : Python's `str` order is code-point lexicographic, which is
Lean's order on `String`. -/
def insertName (a : Name) : List Name → List Name
  | [] => [a]
  | b :: t => if a ≤ b then a :: b :: t else b :: insertName a t

/-- insertion sort (structural recursion, so that it also reduces in the kernel); for distinct
names every correct sort returns the same list (`layout_perm`). -/
def layout (decl : List Name) : List Name :=
  decl.foldr insertName []

inductive BindErr where
  | unknownKey (k : Name)
  | badShape (expected got : Nat)
  | missingControl
  deriving Repr, DecidableEq

/-- `named_vector(name, L)(**kw)` : every keyword must be one of `L` (else `TypeError`), slot `i`
holds the value given for `L[i]`, or the default. -/
def bindVec {α : Type} (L : List Name) (kw : List (Name × α)) (dflt : α) : Except BindErr (List α) :=
  match kw.find? (fun p => !L.contains p.1) with
  | some p => .error (.unknownKey p.1)
  | none => .ok (L.map fun n => (kw.lookup n).getD dflt)

/-- `named_vector.from_data(data)` : shape must be `(len L, 1)`. -/
def fromData {α : Type} (L : List Name) (data : List α) : Except BindErr (List α) :=
  if data.length = L.length then .ok data else .error (.badShape L.length data.length)

/-- `from_data` as numpy sees its argument: `shape` is the array's shape tuple, `flat` its contents in row-major order. The
check is `data.shape != cls.shape` — on the SHAPE, not on the number of values: a vector type has shape `(len L, 1)`. -/
def fromDataND {α : Type} (L : List Name) (shape : List Nat) (flat : List α) : Except BindErr (List α) :=
  if shape = [L.length, 1] then .ok flat else .error (.badShape L.length shape.length)

/-- the same for `named_covariance.from_data`: shape `(len L, len L)` -/
def fromCovND {α : Type} (L : List Name) (shape : List Nat) (flat : List α) : Except BindErr (List α) :=
  if shape = [L.length, L.length] then .ok flat else .error (.badShape L.length shape.length)

/-- read slot by name -/
def getByName {α : Type} (L : List Name) (v : List α) (n : Name) : Option α :=
  (L.zip v).lookup n

/-- `named_covariance(name, L)(**kw)` : identity, with the diagonal entry of every named keyword
replaced. Represented as a function on index pairs plus the dimension. -/
def bindCov {α : Type} (zero one : α) (L : List Name) (kw : List (Name × α)) :
    Except BindErr (List (List α)) :=
  match kw.find? (fun p => !L.contains p.1) with
  | some p => .error (.unknownKey p.1)
  | none => .ok (L.map fun r => L.map fun c =>
      if r = c then (kw.lookup r).getD one else zero)

def getCov {α : Type} (L : List Name) (m : List (List α)) (r c : Name) : Option α :=
  match (L.zip m).lookup r with
  | some row => (L.zip row).lookup c
  | none => none

end FormakVerif
