/-
Expressions (the fragment of sympy both back-ends support), a semantics parametrised by the
arithmetic, and straight-line programs (`BasicBlock`): prefix of temporaries + body.
-/
import FormakVerif.Model.Names
namespace FormakVerif

inductive Expr where
  | var (n : Name)
  | num (q : Rat)
  | add (a b : Expr)
  | mul (a b : Expr)
  | neg (a : Expr)
  | div (a b : Expr)
  | pow (a : Expr) (k : Int)
  | app (f : String) (a : Expr)
  deriving Repr, DecidableEq, Inhabited

/-- The arithmetic an expression is evaluated in. Partial operations return `none`
(division by zero, unsupported function). -/
structure Sem (α : Type) where
  num : Rat → α
  add : α → α → α
  mul : α → α → α
  neg : α → α
  div : α → α → Option α
  pow : α → Int → Option α
  app : String → α → Option α

abbrev Env (α : Type) := List (Name × α)

def Expr.eval {α : Type} (S : Sem α) (ρ : Env α) : Expr → Option α
  | .var n => ρ.lookup n
  | .num q => some (S.num q)
  | .add a b => do let x ← a.eval S ρ; let y ← b.eval S ρ; pure (S.add x y)
  | .mul a b => do let x ← a.eval S ρ; let y ← b.eval S ρ; pure (S.mul x y)
  | .neg a => do let x ← a.eval S ρ; pure (S.neg x)
  | .div a b => do let x ← a.eval S ρ; let y ← b.eval S ρ; S.div x y
  | .pow a k => do let x ← a.eval S ρ; S.pow x k
  | .app f a => do let x ← a.eval S ρ; S.app f x

/-- substitution of expressions for variables (first binding wins, like `lookup`) -/
def Expr.subst (σ : List (Name × Expr)) : Expr → Expr
  | .var n => (σ.lookup n).getD (.var n)
  | .num q => .num q
  | .add a b => .add (a.subst σ) (b.subst σ)
  | .mul a b => .mul (a.subst σ) (b.subst σ)
  | .neg a => .neg (a.subst σ)
  | .div a b => .div (a.subst σ) (b.subst σ)
  | .pow a k => .pow (a.subst σ) k
  | .app f a => .app f (a.subst σ)

def Expr.vars : Expr → List Name
  | .var n => [n]
  | .num _ => []
  | .add a b => a.vars ++ b.vars
  | .mul a b => a.vars ++ b.vars
  | .neg a => a.vars
  | .div a b => a.vars ++ b.vars
  | .pow a _ => a.vars
  | .app _ a => a.vars

/-- exact rational arithmetic; `pow` by repeated multiplication, negative powers invert. -/
def ratPow (x : Rat) (k : Int) : Option Rat :=
  if 0 ≤ k then some (x ^ k.toNat)
  else if x = 0 then none else some ((x ^ (-k).toNat)⁻¹)

def ratSem : Sem Rat where
  num q := q
  add := (· + ·)
  mul := (· * ·)
  neg := (- ·)
  div x y := if y = 0 then none else some (x / y)
  pow := ratPow
  app _ _ := none

def floatPow (x : Float) (k : Int) : Option Float :=
  if 0 ≤ k then some (x ^ (Float.ofNat k.toNat)) else some (1.0 / (x ^ (Float.ofNat (-k).toNat)))

def floatApp (f : String) (x : Float) : Option Float :=
  match f with
  | "sin" => some x.sin | "cos" => some x.cos | "tan" => some x.tan
  | "exp" => some x.exp | "log" => some x.log | "sqrt" => some x.sqrt
  | "asin" => some x.asin | "acos" => some x.acos | "atan" => some x.atan
  | "sinh" => some x.sinh | "cosh" => some x.cosh | "tanh" => some x.tanh
  | "abs" => some x.abs
  | _ => none

def ratToFloat (q : Rat) : Float :=
  let n := Float.ofInt q.num
  n / Float.ofNat q.den

def floatSem : Sem Float where
  num := ratToFloat
  add := (· + ·)
  mul := (· * ·)
  neg := (- ·)
  div x y := some (x / y)
  pow := floatPow
  app := floatApp

/-- A basic block after (optional) common-subexpression elimination. -/
structure Program where
  args : List Name
  pre : List (Name × Expr)
  body : List Expr
  deriving Repr, Inhabited

/-- run the prefix: each temporary is evaluated in the environment of the arguments and the earlier
temporaries, then added to it (mirror of `BasicBlock.execute`). -/
def runPrefix {α : Type} (S : Sem α) : List (Name × Expr) → Env α → Option (Env α)
  | [], ρ => some ρ
  | (t, e) :: rest, ρ => do
      let v ← e.eval S ρ
      runPrefix S rest ((t, v) :: ρ)

def Program.exec {α : Type} (S : Sem α) (p : Program) (vals : List α) : Option (List α) :=
  if vals.length ≠ p.args.length then none else do
    let ρ ← runPrefix S p.pre (p.args.zip vals)
    p.body.mapM (fun e => e.eval S ρ)

/-- the substitution that inlines the temporaries, built in program order -/
def inlineSubst : List (Name × Expr) → List (Name × Expr) → List (Name × Expr)
  | [], σ => σ
  | (t, e) :: rest, σ => inlineSubst rest ((t, e.subst σ) :: σ)

def Program.inline (p : Program) : List Expr :=
  let σ := inlineSubst p.pre []
  p.body.map (·.subst σ)

/-- every temporary is assigned once, is fresh with respect to the arguments and the earlier
temporaries, and its right-hand side mentions only arguments and earlier temporaries; the body
mentions only arguments and temporaries. -/
def wellScopedPrefix : List (Name × Expr) → List Name → Bool
  | [], _ => true
  | (t, e) :: rest, known =>
      !known.contains t && e.vars.all known.contains && wellScopedPrefix rest (t :: known)

def Program.WellScoped (p : Program) : Bool :=
  p.args.eraseDups.length == p.args.length &&
  wellScopedPrefix p.pre p.args &&
  p.body.all (fun e => e.vars.all (p.args ++ p.pre.map (·.1)).contains)

end FormakVerif
