/-
Rigid-body kinematics the strapdown reference model is meant to implement (hand-written spec over ℝ).
Quaternions are (w, x, y, z); `⊗` is the Hamilton product.
-/
import Mathlib.Data.Real.Basic
import Mathlib.Tactic.Ring
namespace FormakVerif.Strapdown

/-- composed orientation `q = ori ⊗ cori` -/
def qw (ow ox oy oz cw cx cy cz : ℝ) : ℝ := ow * cw - ox * cx - oy * cy - oz * cz
def qx (ow ox oy oz cw cx cy cz : ℝ) : ℝ := ow * cx + ox * cw + oy * cz - oz * cy
def qy (ow ox oy oz cw cx cy cz : ℝ) : ℝ := ow * cy - ox * cz + oy * cw + oz * cx
def qz (ow ox oy oz cw cx cy cz : ℝ) : ℝ := ow * cz + ox * cy - oy * cx + oz * cw

/-- `|q|²` -/
def n2 (ow ox oy oz cw cx cy cz : ℝ) : ℝ :=
  qw ow ox oy oz cw cx cy cz ^ 2 + qx ow ox oy oz cw cx cy cz ^ 2 + qy ow ox oy oz cw cx cy cz ^ 2 +
    qz ow ox oy oz cw cx cy cz ^ 2

/-- vector part of `q ⊗ (0, v) ⊗ q̄` for a quaternion `(a, b, c, d)` -/
def rot1 (a b c d v1 v2 v3 : ℝ) : ℝ :=
  (a ^ 2 + b ^ 2 - c ^ 2 - d ^ 2) * v1 + 2 * (b * c - a * d) * v2 + 2 * (b * d + a * c) * v3
def rot2 (a b c d v1 v2 v3 : ℝ) : ℝ :=
  2 * (b * c + a * d) * v1 + (a ^ 2 - b ^ 2 + c ^ 2 - d ^ 2) * v2 + 2 * (c * d - a * b) * v3
def rot3 (a b c d v1 v2 v3 : ℝ) : ℝ :=
  2 * (b * d - a * c) * v1 + 2 * (c * d + a * b) * v2 + (a ^ 2 - b ^ 2 - c ^ 2 + d ^ 2) * v3

/-- `rot` really is the sandwich product: components of `q ⊗ (0,v) ⊗ q̄` computed with the Hamilton
product directly -/
def hamW (a b c d e f g h : ℝ) : ℝ := a * e - b * f - c * g - d * h
def hamX (a b c d e f g h : ℝ) : ℝ := a * f + b * e + c * h - d * g
def hamY (a b c d e f g h : ℝ) : ℝ := a * g - b * h + c * e + d * f
def hamZ (a b c d e f g h : ℝ) : ℝ := a * h + b * g - c * f + d * e

theorem rot_is_sandwich (a b c d v1 v2 v3 : ℝ) :
    let pw := hamW a b c d 0 v1 v2 v3; let px := hamX a b c d 0 v1 v2 v3
    let py := hamY a b c d 0 v1 v2 v3; let pz := hamZ a b c d 0 v1 v2 v3
    hamX pw px py pz a (-b) (-c) (-d) = rot1 a b c d v1 v2 v3 ∧
    hamY pw px py pz a (-b) (-c) (-d) = rot2 a b c d v1 v2 v3 ∧
    hamZ pw px py pz a (-b) (-c) (-d) = rot3 a b c d v1 v2 v3 ∧
    hamW pw px py pz a (-b) (-c) (-d) = 0 := by
  simp only [hamW, hamX, hamY, hamZ, rot1, rot2, rot3]
  refine ⟨by ring, by ring, by ring, by ring⟩

end FormakVerif.Strapdown
