/-
`formak.python.SklearnEKFAdapter`: row slicing and the transform fold (C16); parameter get/set and the
flatten / inverse-flatten of the noise magnitudes that `fit` optimises (C17).
-/
import FormakVerif.Model.Names
namespace FormakVerif

/-! ### C16 -/

/-- `the_rest[:size], the_rest[size:]` repeated over the sensors in key order -/
def splitBySizes {α : Type} : List Nat → List α → List (List α)
  | [], _ => []
  | n :: ns, row => row.take n :: splitBySizes ns (row.drop n)

/-- one data row: `[controls..., readings of each sensor in key order...]` -/
def sliceRow {α : Type} (controlSize : Nat) (sizes : List Nat) (row : List α) : List α × List (List α) :=
  (row.take controlSize, splitBySizes sizes (row.drop controlSize))

/-- the exported filter, abstractly: prediction with the adapter's fixed step, and a sensor update
that also yields the normalised innovation squared of that reading -/
structure RowFilter (S C R N : Type) where
  predict : C → S → S
  update : Nat → R → S → S × N       -- sensor index in key order

/-- per row: predict, then update the sensors in key order collecting their NIS -/
def transformRow {S C R N : Type} (F : RowFilter S C R N) (s : S) (ctl : C) (readings : List R) : S × List N :=
  let s₁ := F.predict ctl s
  (readings.zipIdx).foldl (fun (acc : S × List N) (ri : R × Nat) =>
      let (s', n) := F.update ri.2 ri.1 acc.1
      (s', acc.2 ++ [n])) (s₁, [])

def transformRows {S C R N : Type} (F : RowFilter S C R N) : S → List (C × List R) → S × List (List N)
  | s, [] => (s, [])
  | s, (ctl, rs) :: rest =>
    let (s', ns) := transformRow F s ctl rs
    let (sf, out) := transformRows F s' rest
    (sf, ns :: out)

/-- squared-Mahalanobis output: the same numbers, flattened -/
def mahalanobis {N : Type} (t : List (List N)) : List N := t.flatten

/-! ### C17 -/

/-- the `Config` dataclass fields, in declaration order -/
structure Cfg (V : Type) where
  common_subexpression_elimination : V
  python_modules : V
  extra_validation : V
  max_dt_sec : V
  innovation_filtering : V
  deriving DecidableEq, Repr

structure Params (V : Type) where
  symbolic_model : V
  process_noise : V
  sensor_models : V
  sensor_noises : V
  calibration_map : V
  config : Cfg V
  deriving DecidableEq, Repr

inductive ParamVal (V : Type) where
  | val (v : V)
  | cfg (c : Cfg V)

inductive SetErr where
  | invalidKey (k : String)
  | typeMismatch (k : String)
  deriving DecidableEq, Repr

def Cfg.set {V : Type} (c : Cfg V) (k : String) (v : V) : Option (Cfg V) :=
  match k with
  | "common_subexpression_elimination" => some { c with common_subexpression_elimination := v }
  | "python_modules" => some { c with python_modules := v }
  | "extra_validation" => some { c with extra_validation := v }
  | "max_dt_sec" => some { c with max_dt_sec := v }
  | "innovation_filtering" => some { c with innovation_filtering := v }
  | _ => none

/-- `set_params(key=value)` for one key: an allowed parameter name replaces that parameter, a `Config`
field name rebuilds the configuration with that field replaced, anything else is refused -/
def Params.set1 {V : Type} (p : Params V) (k : String) (v : ParamVal V) : Except SetErr (Params V) :=
  match k, v with
  | "symbolic_model", .val x => .ok { p with symbolic_model := x }
  | "process_noise", .val x => .ok { p with process_noise := x }
  | "sensor_models", .val x => .ok { p with sensor_models := x }
  | "sensor_noises", .val x => .ok { p with sensor_noises := x }
  | "calibration_map", .val x => .ok { p with calibration_map := x }
  | "config", .cfg c => .ok { p with config := c }
  | k, .val x =>
    match p.config.set k x with
    | some c => .ok { p with config := c }
    | none => .error (.invalidKey k)
  | k, .cfg _ => .error (.invalidKey k)

def Params.setMany {V : Type} (p : Params V) : List (String × ParamVal V) → Except SetErr (Params V)
  | [] => .ok p
  | (k, v) :: rest => match p.set1 k v with
    | .ok p' => p'.setMany rest
    | .error e => .error e

/-- `get_params()` as the keyword list `set_params(**…)` takes -/
def Params.get {V : Type} (p : Params V) : List (String × ParamVal V) :=
  [("symbolic_model", .val p.symbolic_model), ("process_noise", .val p.process_noise),
   ("sensor_models", .val p.sensor_models), ("sensor_noises", .val p.sensor_noises),
   ("calibration_map", .val p.calibration_map), ("config", .cfg p.config)]

/-- noise magnitudes: per control, and per sensor per reading (diagonal, by name) -/
structure Noises where
  process : List (Name × Rat)
  sensors : List (String × List (Name × Rat))
  deriving DecidableEq, Repr

def diagOf (m : List (Name × Rat)) (names : List Name) : List Rat := names.map fun n => (m.lookup n).getD 0

/-- `_flatten_scoring_params`: process-noise diagonal in control layout order, then for each sensor in
key order its noise diagonal in reading order -/
def flattenNoises (controls : List Name) (nz : Noises) : List Rat :=
  diagOf nz.process (layout controls) ++
    (layout (nz.sensors.map (·.1))).flatMap fun k =>
      let m := (nz.sensors.lookup k).getD []
      diagOf m (layout (m.map (·.1)))

def minNoise : Rat := 1 / 1000000

/-- `_inverse_flatten_scoring_params`: process noise and sensor noise are clamped to at least `1e-6`
(`nearest_positive_definite`) -/
def inverseSensors (old : List (String × List (Name × Rat))) : List String → List Rat → List (String × List (Name × Rat))
  | [], _ => []
  | k :: ks, v =>
    let names := layout (((old.lookup k).getD []).map (·.1))
    (k, names.zip ((v.take names.length).map fun x => max minNoise x)) :: inverseSensors old ks (v.drop names.length)

def inverseNoises (controls : List Name) (old : Noises) (v : List Rat) : Noises where
  process := (layout controls).zip ((v.take controls.length).map fun x => max minNoise x)
  sensors := inverseSensors old.sensors (layout (old.sensors.map (·.1))) (v.drop controls.length)

end FormakVerif
