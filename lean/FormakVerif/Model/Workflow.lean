/-
The design workflow (`ui_state_machine.py`): states, declared transitions, breadth-first path search,
history; and hyper-parameter selection as an argmin over the grid.
-/
import FormakVerif.Model.Names
namespace FormakVerif

/-- a transition graph: for every node, its declared transitions `(name, target)` in order -/
abbrev Graph := List (Nat × List (String × Nat))

def Graph.succ (g : Graph) (n : Nat) : List (String × Nat) := (g.lookup n).getD []

/-- `StateMachineState.search`: a queue of `(state, path so far)`; each iteration pops the head, returns
its path if it is the target, otherwise appends its successors; gives up when the queue is empty or
after `fuel` iterations -/
def bfs (g : Graph) (target : Nat) : Nat → List (Nat × List String) → Option (List String)
  | 0, _ => none
  | _ + 1, [] => none
  | fuel + 1, (n, path) :: rest =>
    if n = target then some path
    else bfs g target fuel (rest ++ (g.succ n).map fun t => (t.2, path ++ [t.1]))

def search (g : Graph) (start target : Nat) (fuel : Nat := 100) : Option (List String) :=
  bfs g target fuel [(start, [])]

/-- follow a list of transition names from a node -/
def follow (g : Graph) : Nat → List String → Option Nat
  | n, [] => some n
  | n, t :: ts => match (g.succ n).lookup t with
    | some m => follow g m ts
    | none => none

/-- states visited when following a path, in order (the `history()` of the final state) -/
def historyOf (g : Graph) : Nat → List String → List Nat
  | n, [] => [n]
  | n, t :: ts => match (g.succ n).lookup t with
    | some m => n :: historyOf g m ts
    | none => [n]

/-- hyper-parameter selection: first minimiser of the score over the grid points, in grid order -/
def argmin {α : Type} (score : α → Rat) : List α → Option α
  | [] => none
  | x :: xs => match argmin score xs with
    | none => some x
    | some y => if score x ≤ score y then some x else some y

def MIN_SAMPLES : Nat := 3
def fitAccepts (nSamples : Nat) : Bool := decide (MIN_SAMPLES ≤ nSamples)

end FormakVerif
