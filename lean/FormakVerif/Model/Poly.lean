/-
A checker for equality of rational functions (the `+ − × ÷ ^ℤ` fragment of `Expr`):
expressions are normalised to a quotient of two multivariate polynomials with rational coefficients,
and two expressions are declared equal when the cross-multiplied polynomials have the same canonical
form. Core Lean only (executable in the driver); soundness is proven in `Proofs/Poly.lean`.
-/
import FormakVerif.Model.Expr
namespace FormakVerif

/-- a product of powers of variables -/
abbrev Mono := List (Name × Nat)
/-- a sum of rational multiples of monomials -/
abbrev Poly := List (Rat × Mono)

namespace Poly
def const (c : Rat) : Poly := [(c, [])]
def var (x : Name) : Poly := [(1, [(x, 1)])]
def add (p q : Poly) : Poly := p ++ q
def neg (p : Poly) : Poly := p.map fun t => (-t.1, t.2)
def mul (p q : Poly) : Poly := p.flatMap fun s => q.map fun t => (s.1 * t.1, s.2 ++ t.2)
def pow (p : Poly) : Nat → Poly
  | 0 => const 1
  | k + 1 => mul p (pow p k)
end Poly

/-- insert a power of a variable into a monomial kept sorted by name, merging equal names -/
def insertVar (x : Name) (k : Nat) : Mono → Mono
  | [] => [(x, k)]
  | (y, j) :: rest =>
    if x = y then (y, k + j) :: rest
    else if x < y then (x, k) :: (y, j) :: rest
    else (y, j) :: insertVar x k rest

def Mono.canon (m : Mono) : Mono := m.foldr (fun v acc => insertVar v.1 v.2 acc) []

def monoKey (m : Mono) : String := String.intercalate "*" (m.map fun v => v.1 ++ "^" ++ toString v.2)

/-- add up neighbouring terms that carry the same monomial (the list is sorted by key beforehand):
`(c, m)` is the term being accumulated -/
def combineFrom (c : Rat) (m : Mono) : List (String × Rat × Mono) → Poly
  | [] => [(c, m)]
  | t :: rest =>
    if m = t.2.2 then combineFrom (c + t.2.1) m rest
    else (c, m) :: combineFrom t.2.1 t.2.2 rest

def combineAdj : List (String × Rat × Mono) → Poly
  | [] => []
  | t :: rest => combineFrom t.2.1 t.2.2 rest

/-- canonical form: canonical monomials, sorted by key (merge sort), like terms combined, zero terms dropped -/
def Poly.canon (p : Poly) : Poly :=
  let keyed : List (String × Rat × Mono) := p.map fun t => let m := Mono.canon t.2; (monoKey m, t.1, m)
  (combineAdj (keyed.mergeSort fun a b => decide (a.1 ≤ b.1))).filter fun t => t.1 != 0

def polyEqB (p q : Poly) : Bool := p.canon == q.canon

structure Frac where
  num : Poly
  den : Poly

/-- operations that re-canonicalise their result (keeps intermediate polynomials small) -/
def Poly.addC (p q : Poly) : Poly := (p.add q).canon
def Poly.mulC (p q : Poly) : Poly := (p.mul q).canon
def Poly.powC (p : Poly) : Nat → Poly
  | 0 => Poly.const 1
  | k + 1 => Poly.mulC p (Poly.powC p k)

/-- numerator / denominator of an expression of the rational fragment (`none` outside it) -/
def toFrac : Expr → Option Frac
  | .var x => some ⟨Poly.var x, Poly.const 1⟩
  | .num q => some ⟨Poly.const q, Poly.const 1⟩
  | .add a b => do
    let fa ← toFrac a; let fb ← toFrac b
    pure ⟨(fa.num.mulC fb.den).addC (fb.num.mulC fa.den), fa.den.mulC fb.den⟩
  | .mul a b => do
    let fa ← toFrac a; let fb ← toFrac b
    pure ⟨fa.num.mulC fb.num, fa.den.mulC fb.den⟩
  | .neg a => do
    let fa ← toFrac a
    pure ⟨fa.num.neg, fa.den⟩
  | .div a b => do
    let fa ← toFrac a; let fb ← toFrac b
    pure ⟨fa.num.mulC fb.den, fa.den.mulC fb.num⟩
  | .pow a k => do
    let fa ← toFrac a
    if 0 ≤ k then pure ⟨fa.num.powC k.toNat, fa.den.powC k.toNat⟩
    else pure ⟨fa.den.powC (-k).toNat, fa.num.powC (-k).toNat⟩
  | .app _ _ => none

/-! ### size-guarded variants (what the driver runs): identical results, but they give up (`none`) instead of
expanding polynomials beyond `limit` terms -/

def Frac.small (limit : Nat) (f : Frac) : Bool := f.num.length ≤ limit && f.den.length ≤ limit

def Poly.powB (limit : Nat) (p : Poly) : Nat → Option Poly
  | 0 => some (Poly.const 1)
  | k + 1 =>
    match Poly.powB limit p k with
    | some q => if q.length ≤ limit then some (Poly.mulC p q) else none
    | none => none

def toFracB (limit : Nat) : Expr → Option Frac
  | .var x => some ⟨Poly.var x, Poly.const 1⟩
  | .num q => some ⟨Poly.const q, Poly.const 1⟩
  | .add a b =>
    match toFracB limit a, toFracB limit b with
    | some fa, some fb =>
      if fa.small limit && fb.small limit then
        some ⟨(fa.num.mulC fb.den).addC (fb.num.mulC fa.den), fa.den.mulC fb.den⟩ else none
    | _, _ => none
  | .mul a b =>
    match toFracB limit a, toFracB limit b with
    | some fa, some fb =>
      if fa.small limit && fb.small limit then some ⟨fa.num.mulC fb.num, fa.den.mulC fb.den⟩ else none
    | _, _ => none
  | .neg a =>
    match toFracB limit a with
    | some fa => some ⟨fa.num.neg, fa.den⟩
    | none => none
  | .div a b =>
    match toFracB limit a, toFracB limit b with
    | some fa, some fb =>
      if fa.small limit && fb.small limit then some ⟨fa.num.mulC fb.den, fa.den.mulC fb.num⟩ else none
    | _, _ => none
  | .pow a k =>
    match toFracB limit a with
    | some fa =>
      if fa.small limit then
        if 0 ≤ k then
          match fa.num.powB limit k.toNat, fa.den.powB limit k.toNat with
          | some n, some d => some ⟨n, d⟩
          | _, _ => none
        else
          match fa.den.powB limit (-k).toNat, fa.num.powB limit (-k).toNat with
          | some n, some d => some ⟨n, d⟩
          | _, _ => none
      else none
    | none => none
  | .app _ _ => none

/-- the two expressions denote the same rational function (`none`: gave up, too large or outside the fragment) -/
def fracEqB (limit : Nat) (e₁ e₂ : Expr) : Option Bool :=
  match toFracB limit e₁, toFracB limit e₂ with
  | some f, some g =>
    if f.small limit && g.small limit then some (polyEqB (f.num.mulC g.den) (g.num.mulC f.den)) else none
  | _, _ => none

/-- the two expressions denote the same rational function -/
def fracEq (e₁ e₂ : Expr) : Bool :=
  match toFrac e₁, toFrac e₂ with
  | some f, some g => polyEqB (f.num.mulC g.den) (g.num.mulC f.den)
  | _, _ => false

/-- symbolic check of a block against its specification: single assignment / ordering, same number of
outputs, and every inlined output is the same rational function as the specified expression -/
def checkProgramSym (spec : List Expr) (p : Program) : Bool :=
  p.WellScoped && (p.inline.length == spec.length) &&
  (p.inline.zip spec).all fun es => fracEq es.1 es.2

/-- size-guarded version: `some true` = verified equal, `some false` = verified different or ill-scoped,
`none` = gave up -/
def checkProgramSymB (limit : Nat) (spec : List Expr) (p : Program) : Option Bool :=
  if !(p.WellScoped && (p.inline.length == spec.length)) then some false
  else
    let rs := (p.inline.zip spec).map fun es => fracEqB limit es.1 es.2
    if rs.any (· == some false) then some false
    else if rs.all (· == some true) then some true
    else none

end FormakVerif
