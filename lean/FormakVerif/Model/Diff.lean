/- Symbolic differentiation of `Expr` (the model's own, not sympy's). -/
import FormakVerif.Model.Expr
namespace FormakVerif

def Expr.diff (x : Name) : Expr → Expr
  | .var n => if n = x then .num 1 else .num 0
  | .num _ => .num 0
  | .add a b => .add (a.diff x) (b.diff x)
  | .mul a b => .add (.mul (a.diff x) b) (.mul a (b.diff x))
  | .neg a => .neg (a.diff x)
  | .div a b => .div (.add (.mul (a.diff x) b) (.neg (.mul a (b.diff x)))) (.pow b 2)
  | .pow a k => if k = 0 then .num 0 else .mul (.mul (.num (k : Rat)) (.pow a (k - 1))) (a.diff x)
  | .app f a =>
    let da := a.diff x
    match f with
    | "sin" => .mul (.app "cos" a) da
    | "cos" => .mul (.neg (.app "sin" a)) da
    | "exp" => .mul (.app "exp" a) da
    | "log" => .div da a
    | "sqrt" => .div da (.mul (.num 2) (.app "sqrt" a))
    | "tan" => .mul (.add (.num 1) (.pow (.app "tan" a) 2)) da
    | "sinh" => .mul (.app "cosh" a) da
    | "cosh" => .mul (.app "sinh" a) da
    | "atan" => .div da (.add (.num 1) (.pow a 2))
    | "asin" => .div da (.app "sqrt" (.add (.num 1) (.neg (.pow a 2))))
    | "acos" => .neg (.div da (.app "sqrt" (.add (.num 1) (.neg (.pow a 2)))))
    | _ => .mul (.app ("D:" ++ f) a) da      -- unsupported: evaluation fails, the case is numeric-only

/-- row-major flattened Jacobian of `outs` with respect to `wrt` (what `Matrix.jacobian` iterated yields) -/
def jacobianFlat (outs : List Expr) (wrt : List Name) : List Expr :=
  outs.flatMap fun e => wrt.map fun x => e.diff x

end FormakVerif
