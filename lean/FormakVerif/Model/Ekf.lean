/-
`formak.python.ExtendedKalmanFilter` : Jacobian layout, noise assembly, prediction, sensor update,
innovation filtering — in exact rational arithmetic.
-/
import FormakVerif.Model.PyModel
import FormakVerif.Model.Diff
import FormakVerif.Model.QMat
namespace FormakVerif
open QMat

/-! ### numeric core (what the theorems in `Proofs/Ekf.lean` are about) -/

/-- `G (P Gᵀ) + V (M Vᵀ)`, in the association the Python code uses -/
def predictCov {n c : Nat} (G : QMat n n) (V : QMat n c) (M : QMat c c) (P : QMat n n) : QMat n n :=
  (G.mul (P.mul G.transpose)).add (V.mul (M.mul V.transpose))

/-- `S = H (P Hᵀ) + Q` -/
def innovCov {m n : Nat} (H : QMat m n) (P : QMat n n) (Q : QMat m m) : QMat m m :=
  (H.mul (P.mul H.transpose)).add Q

/-- `K = P (Hᵀ S⁻¹)` -/
def gain {m n : Nat} (H : QMat m n) (P : QMat n n) (Sinv : QMat m m) : QMat n m :=
  P.mul (H.transpose.mul Sinv)

/-- `P − K (H P)` -/
def updCov {m n : Nat} (H : QMat m n) (P : QMat n n) (Sinv : QMat m m) : QMat n n :=
  P.sub ((gain H P Sinv).mul (H.mul P))

/-- Joseph form `(I − K H) P (I − K H)ᵀ + K Q Kᵀ` — what `sensor_model` (Python) and `sensor_model.hpp` (generated C++) compute
since the fix of F16; equal to `updCov` whenever `Sinv` really is the inverse (`C09.joseph_eq_updCov`), and a valid covariance for
ANY `Sinv` (`C09.joseph_valid_for_any_gain`) -/
def updCovJoseph {m n : Nat} (H : QMat m n) (P : QMat n n) (Q : QMat m m) (Sinv : QMat m m) : QMat n n :=
  let K := gain H P Sinv
  let A := (QMat.one (n := n)).sub (K.mul H)
  ((A.mul P).mul A.transpose).add ((K.mul Q).mul K.transpose)

/-- `x + K y` -/
def updState {m n : Nat} (H : QMat m n) (P : QMat n n) (Sinv : QMat m m) (x : Fin n → Rat)
    (y : Fin m → Rat) : Fin n → Rat :=
  fun i => x i + (gain H P Sinv).mulVec y i

/-- normalised innovation squared `yᵀ S⁻¹ y` -/
def nis {m : Nat} (y : Fin m → Rat) (Sinv : QMat m m) : Rat :=
  sumFin m fun i => y i * Sinv.mulVec y i

/-- `nis > k·√(2m) + m`, decided without the square root (`C06.sqrt_free`): for `k ≥ 0` this is
`nis − m > 0 ∧ (nis − m)² > 2 m k²`. -/
def exceeds (nisv : Rat) (k : Rat) (m : Nat) : Bool :=
  decide (0 < nisv - m) && decide (2 * (m : Rat) * k * k < (nisv - m) * (nisv - m))

/-- `remove_innovation`: disabled ⇒ never discard -/
def discard (filtering : Option Rat) (nisv : Rat) (m : Nat) : Bool :=
  match filtering with
  | none => false
  | some k => exceeds nisv k m

/-- the threshold as all three implementations compute it in binary64:
`editing_threshold * sqrt(2 * m) + m` -/
def thresholdF (k : Float) (m : Nat) : Float := k * Float.sqrt (Float.ofNat (2 * m)) + Float.ofNat m

/-- binary64 decision on a binary64 NIS; `none` = disabled -/
def discardF (filtering : Option Float) (nisv : Float) (m : Nat) : Bool :=
  match filtering with
  | none => false
  | some k => nisv > thresholdF k m

structure UpdateOut (n m : Nat) where
  state : Fin n → Rat
  cov : QMat n n
  innovation : Fin m → Rat
  S : QMat m m
  rejected : Bool

/-- `sensor_model` once `H`, `Q`, `h(x)` and the inverse of `S` are known. The inverse is supplied as a
certificate and checked (`S · Sinv = 1`); `none` if it is not the inverse. -/
def sensorUpdate {m n : Nat} (filtering : Option Rat) (H : QMat m n) (P : QMat n n) (Q : QMat m m)
    (Sinv : QMat m m) (x : Fin n → Rat) (z hx : Fin m → Rat) : Option (UpdateOut n m) :=
  let S := innovCov H P Q
  if (S.mul Sinv).eqb QMat.one then
    let y : Fin m → Rat := fun i => z i - hx i
    if discard filtering (nis y Sinv) m then
      some { state := x, cov := P, innovation := y, S := S, rejected := true }
    else
      some { state := updState H P Sinv x y, cov := updCov H P Sinv, innovation := y, S := S, rejected := false }
  else none

/-! ### the generated C++ filter's shapes (`process_model.cpp`, `sensor_model.hpp`) -/

/-- `G * Sigma * G.transpose() + V * M * V.transpose()` (left-associated) -/
def predictCovCpp {n c : Nat} (G : QMat n n) (V : QMat n c) (M : QMat c c) (P : QMat n n) : QMat n n :=
  ((G.mul P).mul G.transpose).add ((V.mul M).mul V.transpose)

/-- `Sigma - kalman_gain * H * Sigma` with `kalman_gain = Sigma * H.transpose() * S_inv` -/
def updCovCpp {m n : Nat} (H : QMat m n) (P : QMat n n) (Sinv : QMat m m) : QMat n n :=
  P.sub ((((P.mul H.transpose).mul Sinv).mul H).mul P)

/-- generated C++: `if constexpr (innovation_filtering > 0.0) { if (removeInnovation(k, y, S_inv)) … }`;
the configuration writes `0.0` for "disabled" -/
def discardCpp (k : Rat) (nisv : Rat) (m : Nat) : Bool :=
  if 0 < k then exceeds nisv k m else false

/-- `S = H * Sigma * H.transpose() + Q` (left-associated) -/
def innovCovCpp {m n : Nat} (H : QMat m n) (P : QMat n n) (Q : QMat m m) : QMat m m :=
  ((H.mul P).mul H.transpose).add Q

/-- the generated `sensor_model`: innovation recorded first, then the decision (threshold constant `k`, `0.0` = disabled), then
`x + (Sigma Hᵀ S⁻¹) y` and `Sigma − K H Sigma`, all left-associated -/
def sensorUpdateCpp {m n : Nat} (k : Rat) (H : QMat m n) (P : QMat n n) (Q : QMat m m)
    (Sinv : QMat m m) (x : Fin n → Rat) (z hx : Fin m → Rat) : Option (UpdateOut n m) :=
  let S := innovCovCpp H P Q
  if (S.mul Sinv).eqb QMat.one then
    let y : Fin m → Rat := fun i => z i - hx i
    if discardCpp k (nis y Sinv) m then
      some { state := x, cov := P, innovation := y, S := S, rejected := true }
    else
      some { state := fun i => x i + (((P.mul H.transpose).mul Sinv).mulVec y) i, cov := updCovCpp H P Sinv,
             innovation := y, S := S, rejected := false }
  else none

/-! ### the update as both filters compute it since the fix of F16 (Joseph-form covariance) -/

/-- `sensor_model` as written today: as `sensorUpdate`, with `(I − K H) P (I − K H)ᵀ + K Q Kᵀ` for the covariance.
`C09.sensorUpdateJ_eq` shows it returns exactly what `sensorUpdate` returns. This is the function the driver runs. -/
def sensorUpdateJ {m n : Nat} (filtering : Option Rat) (H : QMat m n) (P : QMat n n) (Q : QMat m m)
    (Sinv : QMat m m) (x : Fin n → Rat) (z hx : Fin m → Rat) : Option (UpdateOut n m) :=
  let S := innovCov H P Q
  if (S.mul Sinv).eqb QMat.one then
    let y : Fin m → Rat := fun i => z i - hx i
    if discard filtering (nis y Sinv) m then
      some { state := x, cov := P, innovation := y, S := S, rejected := true }
    else
      some { state := updState H P Sinv x y, cov := updCovJoseph H P Q Sinv, innovation := y, S := S, rejected := false }
  else none

/-! ### covariance histories (C09) -/

inductive CovOp (n : Nat) where
  | predict {c : Nat} (G : QMat n n) (V : QMat n c) (M : QMat c c)
  | update {m : Nat} (H : QMat m n) (Q : QMat m m) (Sinv : QMat m m) (rejected : Bool)

def covStep {n : Nat} (P : QMat n n) : CovOp n → Option (QMat n n)
  | .predict G V M => some (predictCov G V M P)
  | .update H Q Sinv rej =>
    if ((innovCov H P Q).mul Sinv).eqb QMat.one then some (if rej then P else updCov H P Sinv) else none

def covRun {n : Nat} (P : QMat n n) : List (CovOp n) → Option (QMat n n)
  | [] => some P
  | op :: rest => (covStep P op).bind fun P' => covRun P' rest

/-- the covariance history as the filters run it: Joseph-form update with WHATEVER `Sinv` the filter computed — no certificate,
so the run is total (`C09.invariantJ`: still a valid covariance after any history) -/
def covStepJ {n : Nat} (P : QMat n n) : CovOp n → QMat n n
  | .predict G V M => predictCov G V M P
  | .update H Q Sinv rej => if rej then P else updCovJoseph H P Q Sinv

def covRunJ {n : Nat} (P : QMat n n) (ops : List (CovOp n)) : QMat n n := ops.foldl covStepJ P

/-! ### layout: un-flattening the Jacobian programs -/

/-- the three loops `result[row, col] = computed[row * stride + col]` -/
def unflatten (rows cols stride : Nat) (flat : List Rat) : QMat rows cols :=
  QMat.ofFn fun i j => flat.getD (i.val * stride + j.val) 0

/-! ### assembly from a definition, by name -/

structure SensorDef where
  key : String
  readings : List (Name × Expr)      -- as declared
  deriving Repr, Inhabited

def SensorDef.Lr (s : SensorDef) : List Name := layout (s.readings.map (·.1))
def SensorDef.spec (s : SensorDef) : Option (List Expr) := s.Lr.mapM fun r => s.readings.lookup r

structure EkfDef where
  model : ModelDef
  processNoise : List (Name × Rat)
  sensors : List SensorDef
  sensorNoise : List (String × List (Name × Rat))
  filtering : Option Rat
  deriving Inhabited

namespace EkfDef
variable (d : EkfDef)

def Ls : List Name := layout d.model.state
def Lc : List Name := layout d.model.control
def Lk : List Name := layout d.model.calibration
def n : Nat := d.Ls.length
def c : Nat := d.Lc.length

def evalAll (env : Env Rat) (es : List Expr) : Option (List Rat) := es.mapM (·.eval ratSem env)

/-- `process_jacobian` : flattened row-major over state × state, un-flattened with stride `n` -/
def processJacobian (env : Env Rat) : Option (QMat d.n d.n) := do
  let spec ← d.model.spec
  let flat ← evalAll env (jacobianFlat spec d.Ls)
  pure (unflatten d.n d.n d.n flat)

/-- `control_jacobian` : state × control, stride `c` -/
def controlJacobian (env : Env Rat) : Option (QMat d.n d.c) := do
  let spec ← d.model.spec
  let flat ← evalAll env (jacobianFlat spec d.Lc)
  pure (unflatten d.n d.c d.c flat)

/-- process-noise matrix: symbol-keyed diagonal entries in control-layout order, zero elsewhere
(`_construct_process`, restricted to the symbol-keyed domain of the property) -/
def processNoiseMatrix : QMat d.c d.c :=
  QMat.ofFn fun i j => if i = j then (d.processNoise.lookup (d.Lc.getD i.val "")).getD 0 else 0

def sensor (key : String) : Option SensorDef := d.sensors.find? (·.key == key)

/-- `sensor_jacobian` : the program is flattened over `state ++ calibration` columns, and un-flattened
with that stride, keeping the state columns -/
def sensorJacobian (s : SensorDef) (env : Env Rat) : Option (QMat s.Lr.length d.n) := do
  let spec ← s.spec
  let flat ← evalAll env (jacobianFlat spec (d.Ls ++ d.Lk))
  pure (unflatten s.Lr.length d.n (d.Ls ++ d.Lk).length flat)

/-- per-reading noise as a diagonal matrix in reading-layout order -/
def sensorNoiseMatrix (s : SensorDef) : QMat s.Lr.length s.Lr.length :=
  let noise := (d.sensorNoise.lookup s.key).getD []
  QMat.ofFn fun i j => if i = j then (noise.lookup (s.Lr.getD i.val "")).getD 0 else 0

/-! ### everything whose order the generators decide -/

/-- what is emitted for one sensor, in the order it is emitted -/
structure EmittedSensor where
  key : String
  readings : List Name                   -- reading slots (accessor / option-field / row order)
  spec : Option (List Expr)              -- predicted readings, one per slot
  jac : Option (List Expr)               -- flattened sensor Jacobian over state ++ calibration columns
  noise : List Rat                       -- diagonal of the reading covariance, one per slot
  deriving Repr

/-- what is emitted for a filter: argument order, update statements, flattened Jacobians, noise diagonals, and the sensors
in sensor-id order -/
structure Emitted where
  arglist : List Name
  update : Option (List Expr)
  G : Option (List Expr)
  V : Option (List Expr)
  M : List Rat
  sensors : List EmittedSensor
  deriving Repr

def emitSensor (s : SensorDef) : EmittedSensor where
  key := s.key
  readings := s.Lr
  spec := s.spec
  jac := s.spec.map fun sp => jacobianFlat sp (d.Ls ++ d.Lk)
  noise := s.Lr.map fun r => (((d.sensorNoise.lookup s.key).getD []).lookup r).getD 0

def emitted : Emitted where
  arglist := d.model.arglist
  update := d.model.spec
  G := d.model.spec.map fun sp => jacobianFlat sp d.Ls
  V := d.model.spec.map fun sp => jacobianFlat sp d.Lc
  M := d.Lc.map fun u => (d.processNoise.lookup u).getD 0
  sensors := (layout (d.sensors.map (·.key))).filterMap fun k => (d.sensor k).map d.emitSensor

end EkfDef

/-- Gauss–Jordan inverse candidate (untrusted: `sensorUpdate` re-checks it) -/
def gaussJordan (n : Nat) (a : QMat n n) : Option (QMat n n) := Id.run do
  let mut M : Array (Array Rat) := Array.ofFn fun i : Fin n =>
    (Array.ofFn fun j : Fin n => a.get i j) ++ (Array.ofFn fun j : Fin n => if i = j then (1 : Rat) else 0)
  for col in [0:n] do
    let mut piv := col
    while piv < n && (M[piv]!)[col]! == 0 do
      piv := piv + 1
    if piv ≥ n then return none
    let tmp := M[piv]!
    M := M.set! piv M[col]!
    M := M.set! col tmp
    let p := (M[col]!)[col]!
    M := M.set! col (M[col]!.map (· / p))
    for r in [0:n] do
      if r != col then
        let f := (M[r]!)[col]!
        if f != 0 then
          let rowc := M[col]!
          M := M.set! r ((M[r]!).zipWith (fun x y => x - f * y) rowc)
  return some (QMat.ofFn fun i j => (M[i.val]!)[n + j.val]!)

end FormakVerif
