/- The interface a generated C++ filter shows to `formak::runtime::ManagedFilter` (C12): what `ast_fragments.py` declares for a
definition (`EkfDef.iface`) and what `ManagedFilter.h` demands of / does with it (`Managed.*`). Plain data, no Mathlib. -/
import FormakVerif.Model.Ekf

namespace FormakVerif

/-- what a `Tag` alias names -/
inductive TagTy where
  | falseType                 -- `std::false_type`: "this filter has none"
  | named (s : String)
  deriving DecidableEq, Repr, Inhabited

def TagTy.constRef : TagTy → String
  | .falseType => "const std::false_type&"
  | .named s => "const " ++ s ++ "&"

/-- the part of a generated `ExtendedKalmanFilter` the managed runtime looks at -/
structure EkfIface where
  stateAndVarianceT : TagTy
  calibrationT : TagTy
  controlT : TagTy
  stampedReadingBaseT : TagTy
  maxDt : Rat                   -- `Tag::max_dt_sec`, an alias of `cpp::Config::max_dt_sec`
  processArgs : List String     -- declared parameter types of `ExtendedKalmanFilter::process_model`
  readingArgs : List String     -- declared parameter types of `StampedReadingBase::sensor_model`
  sensorIds : List String       -- members of `enum class SensorId`, in order
  deriving Repr, DecidableEq

/-- what the generator declares (`_EKF_Tag_body`, `standard_process_args`, `_StampedReadingBase_args`, `SensorId`):
calibration / control parameters are present exactly when the definition has calibration / control symbols -/
def EkfDef.iface (d : EkfDef) (maxDt : Rat) : EkfIface where
  stateAndVarianceT := .named "StateAndVariance"
  calibrationT := if d.Lk.isEmpty then .falseType else .named "Calibration"
  controlT := if d.Lc.isEmpty then .falseType else .named "Control"
  stampedReadingBaseT := .named "StampedReadingBase"
  maxDt := maxDt
  processArgs := ["double", "const StateAndVariance&"] ++ (if d.Lk.isEmpty then [] else ["const Calibration&"])
    ++ (if d.Lc.isEmpty then [] else ["const Control&"])
  readingArgs := ["const ExtendedKalmanFilter&", "const StateAndVariance&"] ++ (if d.Lk.isEmpty then [] else ["const Calibration&"])
  sensorIds := (layout (d.sensors.map (·.key))).map String.toUpper

namespace Managed

/-- `ManagedFilter<Impl>::compatible`: the four aliases exist (they are fields here), `Impl` is default-constructible (the
generated class declares no constructor) and `Impl::Tag::max_dt_sec > 0` -/
def compatible (i : EkfIface) : Bool := decide (0 < i.maxDt)

/-- `cpp.Config.__post_init__` refuses a maximum step below a nanosecond -/
def configAccepts (maxDt : Rat) : Bool := decide ((1 : Rat) / 1000000000 ≤ maxDt)

/-- parameter types of the constructor overloads `std::enable_if` leaves enabled: without calibration
`(double, const StateAndVarianceT&)`, with calibration additionally `const CalibrationT&` — exactly one of the two -/
def ctorOverloads (i : EkfIface) : List (List String) :=
  (if i.calibrationT = .falseType then [["double", i.stateAndVarianceT.constRef]] else []) ++
  (if i.calibrationT ≠ .falseType then [["double", i.stateAndVarianceT.constRef, i.calibrationT.constRef]] else [])

/-- argument types `processUpdate` hands to `_impl.process_model` in the `if constexpr` branch the two aliases select -/
def processCall (i : EkfIface) : List String :=
  match decide (i.controlT = .falseType), decide (i.calibrationT = .falseType) with
  | false, false => ["double", i.stateAndVarianceT.constRef, i.calibrationT.constRef, i.controlT.constRef]
  | false, true => ["double", i.stateAndVarianceT.constRef, i.controlT.constRef]
  | true, false => ["double", i.stateAndVarianceT.constRef, i.calibrationT.constRef]
  | true, true => ["double", i.stateAndVarianceT.constRef]

/-- argument types `tick` hands to `stampedReading.data->sensor_model` -/
def readingCall (i : EkfIface) : List String :=
  if i.calibrationT = .falseType then ["const ExtendedKalmanFilter&", i.stateAndVarianceT.constRef]
  else ["const ExtendedKalmanFilter&", i.stateAndVarianceT.constRef, i.calibrationT.constRef]

/-- the `tick` overloads whose `static_assert` on `ControlT` holds: `(withControl, withReadings)` -/
def tickOverloads (i : EkfIface) : List (Bool × Bool) :=
  if i.controlT = .falseType then [(false, false), (false, true)] else [(true, false), (true, true)]

end Managed
end FormakVerif
