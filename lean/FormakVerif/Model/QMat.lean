/-
Exact rational matrices with static dimensions (tabulated, so that the driver does not recompute
entries). Core Lean only.
-/
import FormakVerif.Model.Names
namespace FormakVerif

structure QMat (m n : Nat) where
  rows : Vector (Vector Rat n) m
  deriving DecidableEq

namespace QMat
variable {m n k : Nat}

def ofFn (f : Fin m → Fin n → Rat) : QMat m n := ⟨Vector.ofFn fun i => Vector.ofFn (f i)⟩
def get (a : QMat m n) (i : Fin m) (j : Fin n) : Rat := a.rows[i][j]

def sumFin (k : Nat) (f : Fin k → Rat) : Rat := ((List.finRange k).map f).sum

def mul (a : QMat m k) (b : QMat k n) : QMat m n := ofFn fun i j => sumFin k fun l => a.get i l * b.get l j
def add (a b : QMat m n) : QMat m n := ofFn fun i j => a.get i j + b.get i j
def sub (a b : QMat m n) : QMat m n := ofFn fun i j => a.get i j - b.get i j
def transpose (a : QMat m n) : QMat n m := ofFn fun i j => a.get j i
def one : QMat n n := ofFn fun i j => if i = j then 1 else 0
def zero : QMat m n := ofFn fun _ _ => 0
def diag (d : Fin n → Rat) : QMat n n := ofFn fun i j => if i = j then d i else 0
def mulVec (a : QMat m n) (v : Fin n → Rat) : Fin m → Rat := fun i => sumFin n fun j => a.get i j * v j
/-- entry-wise equality test (structural, so it also reduces in the kernel) -/
def eqb (a b : QMat m n) : Bool :=
  (List.finRange m).all fun i => (List.finRange n).all fun j => a.get i j == b.get i j
def isSymm (a : QMat n n) : Bool := (List.finRange n).all fun i => (List.finRange n).all fun j => a.get i j == a.get j i

instance : Mul (QMat n n) := ⟨mul⟩
instance : Add (QMat m n) := ⟨add⟩
instance : Sub (QMat m n) := ⟨sub⟩

def toLists (a : QMat m n) : List (List Rat) := (List.finRange m).map fun i => (List.finRange n).map fun j => a.get i j

/-- build from nested lists, checking the shape -/
def ofLists (m n : Nat) (l : List (List Rat)) : Option (QMat m n) :=
  if l.length = m ∧ l.all (fun r => r.length = n) then
    some (ofFn fun i j => (l.getD i.val []).getD j.val 0)
  else none

end QMat
end FormakVerif
