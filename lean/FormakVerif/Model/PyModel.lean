/-
`formak.python.Model` : arglist construction, slot binding, positional call, zipping the results
back onto state names.
-/
import FormakVerif.Model.Expr
namespace FormakVerif

structure ModelDef where
  dt : Name
  state : List Name          -- as declared (any order)
  control : List Name
  calibration : List Name
  update : List (Name × Expr)   -- state name ↦ update expression
  deriving Repr, Inhabited

def ModelDef.arglist (d : ModelDef) : List Name :=
  [d.dt] ++ layout d.state ++ layout d.calibration ++ layout d.control

/-- the statements handed to the basic block: update expressions in state-layout order -/
def ModelDef.spec (d : ModelDef) : Option (List Expr) :=
  (layout d.state).mapM (fun n => d.update.lookup n)

/-- compilation without CSE: empty prefix, body = spec -/
def ModelDef.compilePlain (d : ModelDef) : Option Program :=
  d.spec.map fun body => { args := d.arglist, pre := [], body := body }

inductive RunErr where
  | bind (e : BindErr)
  | missingCalibration (n : Name)
  | missingControl
  | evalFailed
  | badProgram
  deriving Repr, DecidableEq

def liftBind {β : Type} : Except BindErr β → Except RunErr β
  | .ok v => .ok v
  | .error e => .error (.bind e)

/-- calibration is frozen at compile time: values in layout order -/
def calibVec {α : Type} (cal : List (Name × α)) : List Name → Except RunErr (List α)
  | [] => .ok []
  | n :: ns =>
    match cal.lookup n with
    | none => .error (.missingCalibration n)
    | some v =>
      match calibVec cal ns with
      | .ok vs => .ok (v :: vs)
      | .error e => .error e

def calibVector {α : Type} (d : ModelDef) (cal : List (Name × α)) : Except RunErr (List α) :=
  calibVec cal (layout d.calibration)

/-- `Model.model(dt, State(**stateKw), Control(**controlKw))` with the given compiled block.
`controlKw = none` is "no control argument". The result is the new `State` slot vector. -/
def pyRun {α : Type} (S : Sem α) (zero : α) (d : ModelDef) (prog : Program) (cal : List (Name × α))
    (dtv : α) (stateKw : List (Name × α)) (controlKw : Option (List (Name × α))) :
    Except RunErr (List α) := do
  let sv ← liftBind (bindVec (layout d.state) stateKw zero)
  let cv ← match controlKw with
    | some kw => liftBind (bindVec (layout d.control) kw zero)
    | none => if d.control.isEmpty then .ok [] else .error .missingControl
  let kv ← calibVector d cal
  match prog.exec S ([dtv] ++ sv ++ kv ++ cv) with
  | none => .error .evalFailed
  | some out =>
    -- `State(**{str(state_id): result for state_id, result in zip(arglist_state, results)})`
    liftBind (bindVec (layout d.state) ((layout d.state).zip out) zero)

/-- the by-name environment the user's expressions are meant to be evaluated in -/
def byNameEnv {α : Type} (zero : α) (d : ModelDef) (cal : List (Name × α)) (dtv : α)
    (stateKw controlKw : List (Name × α)) : Env α :=
  [(d.dt, dtv)]
  ++ (layout d.state).map (fun n => (n, (stateKw.lookup n).getD zero))
  ++ (layout d.calibration).filterMap (fun n => (cal.lookup n).map (fun v => (n, v)))
  ++ (layout d.control).map (fun n => (n, (controlKw.lookup n).getD zero))

end FormakVerif

namespace FormakVerif

/-- consistent renaming of symbols -/
def Expr.rename (σ : Name → Name) : Expr → Expr
  | .var n => .var (σ n)
  | .num q => .num q
  | .add a b => .add (a.rename σ) (b.rename σ)
  | .mul a b => .mul (a.rename σ) (b.rename σ)
  | .neg a => .neg (a.rename σ)
  | .div a b => .div (a.rename σ) (b.rename σ)
  | .pow a k => .pow (a.rename σ) k
  | .app f a => .app f (a.rename σ)

def renameKw {α : Type} (σ : Name → Name) (kw : List (Name × α)) : List (Name × α) :=
  kw.map fun p => (σ p.1, p.2)

def ModelDef.rename (σ : Name → Name) (d : ModelDef) : ModelDef where
  dt := σ d.dt
  state := d.state.map σ
  control := d.control.map σ
  calibration := d.calibration.map σ
  update := d.update.map fun p => (σ p.1, p.2.rename σ)

end FormakVerif

namespace FormakVerif

/-- everything in the generated code whose order is decided by the generator: accessor slots, option
fields / constructor arguments, the Python arglist, sensor ids and reading slots -/
structure Skeleton where
  stateSlots : List (Name × Nat)
  controlSlots : List (Name × Nat)
  calibrationSlots : List (Name × Nat)
  arglist : List Name
  sensorIds : List String
  readingSlots : List (String × List (Name × Nat))
  deriving DecidableEq, Repr

def skeleton (d : ModelDef) (sensors : List (String × List Name)) : Skeleton where
  stateSlots := (layout d.state).zipIdx
  controlSlots := (layout d.control).zipIdx
  calibrationSlots := (layout d.calibration).zipIdx
  arglist := d.arglist
  sensorIds := layout (sensors.map (·.1))
  readingSlots := (layout (sensors.map (·.1))).map fun k => (k, (layout ((sensors.lookup k).getD [])).zipIdx)

end FormakVerif
