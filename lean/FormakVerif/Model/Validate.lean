/-
Structural validation at the entry points (`ui.Model`, `python.compile`, `python.compile_ekf`,
`cpp.compile`, `cpp.compile_ekf`): what each one checks, in the order it checks it.
Only the structure of a definition matters here: which names occur where.
-/
import FormakVerif.Model.Names
namespace FormakVerif

/-- key of a process-noise entry -/
inductive NoiseKey where
  | sym (n : Name)        -- a sympy Symbol
  | other (repr : String) -- anything else (a string, a number, …)
  deriving Repr, DecidableEq

structure SensorSkel where
  key : String
  readings : List (Name × List Name)     -- reading name ↦ free symbols of its model
  deriving Repr

structure VDef where
  state : List Name
  control : List Name
  calibration : List Name
  updateKeys : List Name
  calKeys : List Name
  noise : List (NoiseKey × Rat)
  sensors : List SensorSkel
  sensorNoise : List (String × List Name)   -- sensor key ↦ reading keys of its noise map
  deriving Repr

def subsetB (a b : List Name) : Bool := a.all b.contains
def sameSet (a b : List Name) : Bool := subsetB a b && subsetB b a
def disjointB (a b : List Name) : Bool := a.all fun x => !b.contains x

def SensorSkel.readingNames (s : SensorSkel) : List Name := s.readings.map (·.1)

/-- every process-noise key is a Symbol naming a declared control -/
def noiseKeysOk (d : VDef) : Bool :=
  d.noise.all fun p => match p.1 with | .sym n => d.control.contains n | .other _ => false
def noiseNonneg (d : VDef) : Bool := d.noise.all fun p => decide (0 ≤ p.2)
def noiseSyms (d : VDef) : List Name :=
  d.noise.filterMap fun p => match p.1 with | .sym n => some n | .other _ => none
/-- sensor models mention only state and calibration symbols -/
def sensorSymsOk (d : VDef) : Bool :=
  d.sensors.all fun s => s.readings.all fun r => subsetB r.2 (d.state ++ d.calibration)
def sensorKeysSame (d : VDef) : Bool := sameSet (d.sensorNoise.map (·.1)) (d.sensors.map (·.key))
def sensorNoiseSame (d : VDef) (s : SensorSkel) : Bool :=
  match d.sensorNoise.lookup s.key with
  | some rs => sameSet rs s.readingNames
  | none => false
def sensorNoiseCount (d : VDef) (s : SensorSkel) : Bool :=
  match d.sensorNoise.lookup s.key with
  | some rs => (rs.length == s.readingNames.length) && sameSet rs s.readingNames
  | none => false
def calSizesOk (d : VDef) : Bool :=
  d.calibration.isEmpty || (!d.calKeys.isEmpty && d.calKeys.length == d.calibration.length)

/-! ### validity, as the property lists it -/

def validUi (d : VDef) : Bool :=
  disjointB d.state d.control && disjointB d.state d.calibration && disjointB d.calibration d.control &&
  sameSet d.updateKeys d.state

def validCal (d : VDef) : Bool := sameSet d.calKeys d.calibration

/-- process noise given for exactly the declared controls, none negative -/
def validNoise (d : VDef) : Bool := noiseKeysOk d && subsetB d.control (noiseSyms d) && noiseNonneg d

def validSensors (d : VDef) : Bool := sensorSymsOk d

/-- sensor noise matches the sensors and their readings -/
def validSensorNoise (d : VDef) : Bool := sensorKeysSame d && d.sensors.all (sensorNoiseSame d)

def validEkf (d : VDef) : Bool := validCal d && validNoise d && validSensors d && validSensorNoise d

/-! ### what the entry points do -/

/-- `ui.Model.__init__` -/
def acceptsUi (d : VDef) : Bool :=
  disjointB d.state d.calibration && disjointB d.state d.control && disjointB d.calibration d.control &&
  (d.updateKeys.length == d.state.length) && subsetB d.state d.updateKeys

/-- `common.model_validation(model, {}, {}, calibration_map)` then `Model.__init__` (both back-ends) -/
def acceptsCompile (d : VDef) : Bool := sameSet d.calKeys d.calibration && calSizesOk d

/-- `model_validation` with process noise and sensor models -/
def modelValidation (d : VDef) : Bool := noiseKeysOk d && sameSet d.calKeys d.calibration && sensorSymsOk d

/-- `compile_ekf` (both back-ends): validation, calibration sizes, `len(process_noise) == control_size`,
non-negative noise (each supplied value, exactly), sensor-noise keys equal, per-sensor reading counts equal and the *names*
of the noise entries exactly the reading names (so a duplicated name standing in for a missing one is refused) -/
def acceptsEkf (d : VDef) : Bool :=
  modelValidation d && calSizesOk d && (d.noise.length == d.control.length) && noiseNonneg d &&
  sensorKeysSame d && d.sensors.all (sensorNoiseCount d)

/-- dictionaries and sets have no duplicate keys -/
def WellFormed (d : VDef) : Prop :=
  d.state.Nodup ∧ d.control.Nodup ∧ d.calibration.Nodup ∧ d.updateKeys.Nodup ∧ d.calKeys.Nodup ∧
  (d.noise.map (·.1)).Nodup ∧ (d.sensors.map (·.key)).Nodup ∧ (d.sensorNoise.map (·.1)).Nodup ∧
  (∀ s ∈ d.sensors, s.readingNames.Nodup) ∧ (∀ p ∈ d.sensorNoise, p.2.Nodup)

end FormakVerif
