def hello := "world"
