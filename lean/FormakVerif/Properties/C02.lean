/-
C02 — the generated C++ computes the model, its derivatives and noise, each in the slot named for it.
The generated unit is data (accessor tables + straight-line bodies with targets); these theorems say
what the per-unit checks (`checkprog`, `checkjac`, layout tables) imply for every input.
-/
import FormakVerif.Proofs.Program
import FormakVerif.Proofs.QMat
import FormakVerif.Properties.C03

namespace FormakVerif.C02
open FormakVerif
variable {α : Type}

/-- accessor tables: `name ↦ slot`, as emitted in the header (`double& X() { return data(i, 0); }`) -/
def accessorTable (L : List Name) : List (Name × Nat) := L.zipIdx

/-- reading a vector through the accessor of `n` when accessors are `enumerate(layout)` and the
constructor fills slots in layout order gives the value supplied for `n` (set by name = read by name) -/
theorem accessor_roundtrip (decl : List Name) (f : Name → α) (n : Name) (hn : n ∈ decl) (hnd : decl.Nodup) :
    ∃ i, (accessorTable (layout decl)).lookup n = some i ∧ ((layout decl).map f)[i]? = some (f n) := by
  have hL : n ∈ layout decl := mem_layout.mpr hn
  have hLnd : (layout decl).Nodup := layout_nodup hnd
  obtain ⟨i, hi, hget⟩ := List.mem_iff_getElem.mp hL
  refine ⟨i, ?_, by simp [hi, hget]⟩
  unfold accessorTable
  -- lookup in zipIdx of a nodup list finds the index of the element
  have key : ∀ (l : List Name) (k : Nat), l.Nodup → ∀ (i : Nat) (hi : i < l.length),
      (l.zipIdx k).lookup l[i] = some (i + k) := by
    intro l
    induction l with
    | nil => intro k _ i hi; simp at hi
    | cons a t ih =>
      intro k hnd i hi
      cases i with
      | zero => simp [List.zipIdx_cons, List.lookup_cons]
      | succ i' =>
        have hi' : i' < t.length := by simpa using hi
        have hne : t[i'] ≠ a := by
          intro e
          have : a ∈ t := e ▸ List.getElem_mem _
          exact (List.nodup_cons.mp hnd).1 this
        have hb : (t[i'] == a) = false := by simpa using hne
        simp only [List.zipIdx_cons, List.getElem_cons_succ, List.lookup_cons, hb]
        rw [ih (k + 1) (List.nodup_cons.mp hnd).2 i' hi']
        congr 1; omega
  have := key (layout decl) 0 hLnd i hi
  rw [hget] at this
  simpa using this

/-- a well-scoped generated body is total and equals its inlined form: CSE temporaries in the C++
source change nothing (same theorem as for the Python blocks) -/
theorem body_sound (S : Sem α) (hS : S.Total) (p : Program) (vals : List α)
    (hw : p.WellScoped = true) (hlen : vals.length = p.args.length) :
    ∃ r, p.exec S vals = some r ∧ p.inline.mapM (fun e => e.eval S (p.args.zip vals)) = some r :=
  wellScoped_exec_total S hS p vals hw hlen

/-- Jacobian bodies assign `jacobian(i, j)` for every `(i, j)` in row-major order; entry `(i, j)` of the
specification they are checked against is the model's derivative of output `i` with respect to
variable `j` -/
theorem jacobian_spec_entry (outs : List Expr) (wrt : List Name) (i j : Nat)
    (hi : i < outs.length) (hj : j < wrt.length) :
    (jacobianFlat outs wrt)[i * wrt.length + j]? = some ((outs[i]).diff (wrt[j])) :=
  C03.jacobianFlat_get outs wrt i j hi hj

/-- … and that specification entry is the exact partial derivative: whenever output `i` and the entry
evaluate at a rational point, the entry's value is the `HasDerivAt` derivative of
`t ↦ outᵢ[wrtⱼ := t]` there -/
theorem jacobian_spec_is_derivative (env : Env Rat) (outs : List Expr) (wrt : List Name) (i j : Nat)
    (hi : i < outs.length) (hj : j < wrt.length) (v w : ℚ)
    (hout : (outs[i]).eval ratSem env = some w)
    (hval : ((outs[i]).diff (wrt[j])).eval ratSem env = some v) :
    HasDerivAt (fun t => evalR (Function.update (realEnv env) (wrt[j]) t) (outs[i])) (v : ℝ)
      (realEnv env (wrt[j])) :=
  diff_value_is_derivative env _ _ v w hout hval

/-! non-vacuity -/
example : accessorTable (layout ["z", "a", "M"]) = [("M", 0), ("a", 1), ("z", 2)] := by decide +kernel

end FormakVerif.C02
