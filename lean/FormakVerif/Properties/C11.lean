/-
C11 — tick = fold readings in order, hold at last reading, report at output time.
-/
import FormakVerif.Model.Runtime

namespace FormakVerif.C11
open FormakVerif

variable {T S R : Type} (A : TimeArith T) (F : Filter T S R) (maxDt : T)

def pyAbs (self : PyManaged T S) : Held T S := ⟨self.current_time, self.state⟩
def cppAbs (st : CppState T S) : Held T S := ⟨st.currentTime, st.state⟩

theorem pyLoop_refines (self : PyManaged T S) (rs : List (T × R)) :
    pyAbs (pyTickLoop A F maxDt self rs) = foldReadings A F maxDt (pyAbs self) rs := by
  induction rs generalizing self with
  | nil => rfl
  | cons r rest ih =>
    obtain ⟨ts, rd⟩ := r
    simp only [pyTickLoop, foldReadings, List.foldl_cons]
    rw [ih]; rfl

theorem cppLoop_refines (st : CppState T S) (rs : List (T × R)) :
    cppAbs (cppTickLoop A F maxDt st rs) = foldReadings A F maxDt (cppAbs st) rs := by
  induction rs generalizing st with
  | nil => rfl
  | cons r rest ih =>
    obtain ⟨ts, rd⟩ := r
    simp only [cppTickLoop, foldReadings, List.foldl_cons]
    rw [ih]; rfl

/-- The Python runtime's tick is the property's fold (held state and returned estimate). -/
theorem py_refines (hasControl : Bool) (self : PyManaged T S) (out : T) (rs : List (T × R)) :
    ∃ self' est, pyTick A F maxDt hasControl true self out rs = .ok (self', est) ∧
      (pyAbs self', est) = tickSpec A F maxDt (pyAbs self) out rs := by
  refine ⟨pyTickLoop A F maxDt self rs,
    (pyProcessModel A F maxDt (pyTickLoop A F maxDt self rs) out).2, by simp [pyTick], ?_⟩
  simp only [tickSpec, ← pyLoop_refines]
  rfl

/-- The C++ runtime's tick is the property's fold. -/
theorem cpp_refines (st : CppState T S) (out : T) (rs : List (T × R)) :
    (cppAbs (cppTick A F maxDt st out rs).1, (cppTick A F maxDt st out rs).2)
      = tickSpec A F maxDt (cppAbs st) out rs := by
  simp only [tickSpec, cppTick, ← cppLoop_refines]
  rfl

/-- Both runtimes return the same estimate and hold the same state for the same history step. -/
theorem same_trace (hasControl : Bool) (t : T) (s : S) (out : T) (rs : List (T × R)) :
    ∃ self' est, pyTick A F maxDt hasControl true ⟨t, s⟩ out rs = .ok (self', est) ∧
      est = (cppTick A F maxDt ⟨t, s⟩ out rs).2 ∧
      pyAbs self' = cppAbs (cppTick A F maxDt ⟨t, s⟩ out rs).1 := by
  obtain ⟨self', est, h1, h2⟩ := py_refines A F maxDt hasControl ⟨t, s⟩ out rs
  have h3 := cpp_refines A F maxDt ⟨t, s⟩ out rs
  refine ⟨self', est, h1, ?_, ?_⟩
  · have := congrArg Prod.snd h2; have h4 := congrArg Prod.snd h3
    simp only at this h4; rw [this, h4]; rfl
  · have := congrArg Prod.fst h2; have h4 := congrArg Prod.fst h3
    simp only at this h4; rw [this, h4]; rfl

/-- A model with control inputs cannot be ticked without them. -/
theorem control_required (self : PyManaged T S) (out : T) (rs : List (T × R)) :
    pyTick A F maxDt true false self out rs = .error .missingControl := rfl

/-- A tick without readings changes nothing that is held. -/
theorem readonly (h : Held T S) (out : T) : (tickSpec A F maxDt h out []).1 = h := rfl

/-- run a history of ticks: final held state and the list of returned estimates -/
def runHistory (h : Held T S) : List (T × List (T × R)) → Held T S × List S
  | [] => (h, [])
  | (out, rs) :: rest =>
    let (h', est) := tickSpec A F maxDt h out rs
    let (hf, ests) := runHistory h' rest
    (hf, est :: ests)

theorem runHistory_append (h : Held T S) (h₁ h₂ : List (T × List (T × R))) :
    runHistory A F maxDt h (h₁ ++ h₂) =
      ((runHistory A F maxDt (runHistory A F maxDt h h₁).1 h₂).1,
       (runHistory A F maxDt h h₁).2 ++ (runHistory A F maxDt (runHistory A F maxDt h h₁).1 h₂).2) := by
  induction h₁ generalizing h with
  | nil => simp [runHistory]
  | cons t rest ih =>
    obtain ⟨out, rs⟩ := t
    simp only [List.cons_append, runHistory]
    rw [ih]

/-- **Inserting a reading-less tick anywhere in a history never changes what the other ticks return
nor the state held at the end.** -/
theorem insert_readonly (h : Held T S) (h₁ h₂ : List (T × List (T × R))) (o : T) :
    (runHistory A F maxDt h (h₁ ++ (o, []) :: h₂)).1 = (runHistory A F maxDt h (h₁ ++ h₂)).1 ∧
    ∃ extra, (runHistory A F maxDt h (h₁ ++ (o, []) :: h₂)).2 =
      (runHistory A F maxDt h h₁).2 ++ extra :: (runHistory A F maxDt (runHistory A F maxDt h h₁).1 h₂).2 ∧
      (runHistory A F maxDt h (h₁ ++ h₂)).2 =
      (runHistory A F maxDt h h₁).2 ++ (runHistory A F maxDt (runHistory A F maxDt h h₁).1 h₂).2 := by
  rw [runHistory_append, runHistory_append]
  refine ⟨?_, advance A F maxDt (runHistory A F maxDt h h₁).1 o, ?_, rfl⟩
  · simp [runHistory, tickSpec, foldReadings]
  · simp [runHistory, tickSpec, foldReadings]

/-! non-vacuity: the recording filter on a two-reading tick whose timestamps are out of order -/
example :
    (tickSpec ratTime (traceFilter Rat) (1/10) ⟨0, []⟩ (1/4) [(3/20, 7), (1/20, 9)]).2.length = 7 := by
  decide +kernel

end FormakVerif.C11
