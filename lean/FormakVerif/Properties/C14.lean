/- C14 — structurally invalid definitions are refused; valid ones are accepted. -/
import FormakVerif.Proofs.Validate

namespace FormakVerif.C14
open FormakVerif

/-- `ui.Model` accepts a definition exactly when state/control/calibration are pairwise disjoint and
the update expressions cover the state exactly -/
theorem ui_accepts_iff_valid (d : VDef) (hw : WellFormed d) : acceptsUi d = true ↔ validUi d = true :=
  acceptsUi_iff d hw

/-- `python.compile` / `cpp.compile` accept exactly when the calibration map names exactly the declared
calibration symbols -/
theorem compile_accepts_iff_valid (d : VDef) (hw : WellFormed d) :
    acceptsCompile d = true ↔ validCal d = true := acceptsCompile_iff d hw

/-- `python.compile_ekf` / `cpp.compile_ekf` accept exactly when calibration matches, process noise is
given for exactly the declared controls (Symbol keys) and is non-negative, sensor models depend only
on state and calibration, and sensor noise matches the sensors and their readings -/
theorem ekf_accepts_iff_valid (d : VDef) (hw : WellFormed d) : acceptsEkf d = true ↔ validEkf d = true :=
  acceptsEkf_iff d hw

/-- every listed fault is refused: each conjunct of validity is necessary -/
theorem refuses (d : VDef) (hw : WellFormed d) :
    (validCal d = false → acceptsEkf d = false ∧ acceptsCompile d = false) ∧
    (validNoise d = false → acceptsEkf d = false) ∧
    (validSensors d = false → acceptsEkf d = false) ∧
    (validSensorNoise d = false → acceptsEkf d = false) ∧
    (validUi d = false → acceptsUi d = false) := by
  have h1 := acceptsEkf_iff d hw
  have h2 := acceptsCompile_iff d hw
  have h3 := acceptsUi_iff d hw
  unfold validEkf at h1
  simp only [Bool.and_eq_true] at h1
  refine ⟨fun h => ⟨?_, ?_⟩, fun h => ?_, fun h => ?_, fun h => ?_, fun h => ?_⟩
  · cases ha : acceptsEkf d with
    | false => rfl
    | true => have := (h1.mp ha).1.1.1; rw [h] at this; cases this
  · cases ha : acceptsCompile d with
    | false => rfl
    | true => have := h2.mp ha; rw [h] at this; cases this
  · cases ha : acceptsEkf d with
    | false => rfl
    | true => have := (h1.mp ha).1.1.2; rw [h] at this; cases this
  · cases ha : acceptsEkf d with
    | false => rfl
    | true => have := (h1.mp ha).1.2; rw [h] at this; cases this
  · cases ha : acceptsEkf d with
    | false => rfl
    | true => have := (h1.mp ha).2; rw [h] at this; cases this
  · cases ha : acceptsUi d with
    | false => rfl
    | true => have := h3.mp ha; rw [h] at this; cases this

/-- **Two clauses hold with no well-formedness assumption at all** (so also for noise maps in which one name occurs twice, once as
a `str` key and once as a `Symbol` key): a negative process-noise value — however small — is refused, and a sensor whose noise
entries do not name exactly its readings is refused. -/
theorem negative_noise_refused (d : VDef) (k : NoiseKey) (v : Rat) (hm : (k, v) ∈ d.noise) (hv : v < 0) :
    acceptsEkf d = false := by
  have : noiseNonneg d = false := by
    unfold noiseNonneg
    rw [List.all_eq_false]
    exact ⟨(k, v), hm, by simpa using (Rat.not_le.mpr hv)⟩
  unfold acceptsEkf
  simp [this]

theorem sensor_noise_names_refused (d : VDef) (s : SensorSkel) (hs : s ∈ d.sensors)
    (h : sensorNoiseSame d s = false) : acceptsEkf d = false := by
  have h1 : sensorNoiseCount d s = false := by
    unfold sensorNoiseCount; unfold sensorNoiseSame at h
    cases hl : d.sensorNoise.lookup s.key with
    | none => rfl
    | some rs => rw [hl] at h; simp only at h ⊢; simp [h]
  have : d.sensors.all (sensorNoiseCount d) = false := by
    rw [List.all_eq_false]; exact ⟨s, hs, by simp [h1]⟩
  unfold acceptsEkf
  simp [this]

/-! non-vacuity: a valid two-sensor definition, and single faults of three kinds -/
def ex : VDef where
  state := ["z", "v"]; control := ["u"]; calibration := ["k"]
  updateKeys := ["v", "z"]; calKeys := ["k"]
  noise := [(.sym "u", 1/2)]
  sensors := [⟨"alt", [("r1", ["z"]), ("r2", ["v", "k"])]⟩, ⟨"gps", [("g", ["z"])]⟩]
  sensorNoise := [("gps", ["g"]), ("alt", ["r2", "r1"])]
example : acceptsUi ex = true ∧ acceptsCompile ex = true ∧ acceptsEkf ex = true ∧ validEkf ex = true := by
  decide +kernel
example : acceptsEkf { ex with noise := [(.sym "u", -1/2)] } = false := by decide +kernel
example : acceptsEkf { ex with noise := [(.sym "u", -1/1000000000000)] } = false := by decide +kernel
-- "r2" twice (a str key and a Symbol key of that name), "r1" missing: the count is right, the names are not
example : acceptsEkf { ex with sensorNoise := [("gps", ["g"]), ("alt", ["r2", "r2"])] } = false := by decide +kernel
example : acceptsEkf { ex with sensorNoise := [("gps", ["g"]), ("alt", ["r2", "rX"])] } = false := by decide +kernel
example : acceptsEkf { ex with sensors := [⟨"alt", [("r1", ["z"]), ("r2", ["u"])]⟩, ⟨"gps", [("g", ["z"])]⟩] } = false := by
  decide +kernel


/-! ### the order in which tables are written is not a structural property -/

/-- **Writing the process-noise table in another order changes nothing**: what `compile_ekf` accepts, and what the property calls
valid, depend on the entries of the table, not on the order they were written in. -/
theorem noise_order_irrelevant (d : VDef) (noise' : List (NoiseKey × Rat)) (h : d.noise.Perm noise') :
    acceptsEkf { d with noise := noise' } = acceptsEkf d ∧ validEkf { d with noise := noise' } = validEkf d := by
  have hall : ∀ f : NoiseKey × Rat → Bool, noise'.all f = d.noise.all f := fun f => (h.all_eq (f := f)).symm
  have hlen : noise'.length = d.noise.length := h.length_eq.symm
  have hsyms : (noiseSyms { d with noise := noise' }).contains = (noiseSyms d).contains := by
    funext a; unfold noiseSyms; exact ((h.filterMap _).contains_eq (a := a)).symm
  have hs1 : sensorNoiseCount { d with noise := noise' } = sensorNoiseCount d := by funext s; rfl
  have hs2 : sensorNoiseSame { d with noise := noise' } = sensorNoiseSame d := by funext s; rfl
  constructor
  · simp only [acceptsEkf, modelValidation, noiseKeysOk, noiseNonneg, calSizesOk, sensorSymsOk, sensorKeysSame, hall, hlen, hs1]
  · simp only [validEkf, validCal, validNoise, validSensors, validSensorNoise, noiseKeysOk, noiseNonneg, subsetB,
      sensorSymsOk, sensorKeysSame, hall, hsyms, hs2]

/-- … and neither does the order in which the controls were declared -/
theorem control_order_irrelevant (d : VDef) (control' : List Name) (h : d.control.Perm control') :
    acceptsEkf { d with control := control' } = acceptsEkf d := by
  have hc : ∀ a : Name, control'.contains a = d.control.contains a := fun a => (h.contains_eq (a := a)).symm
  have hlen : control'.length = d.control.length := h.length_eq.symm
  have hs : sensorNoiseCount { d with control := control' } = sensorNoiseCount d := by funext s; rfl
  simp only [acceptsEkf, modelValidation, noiseKeysOk, noiseNonneg, calSizesOk, sensorSymsOk, sensorKeysSame, hc, hlen, hs]

/-! non-vacuity: two controls, noise written in the other order than the controls — accepted and valid -/
def exSwapped : VDef where
  state := ["x"]
  control := ["a", "b"]
  calibration := []
  updateKeys := ["x"]
  calKeys := []
  noise := [(.sym "b", 1), (.sym "a", 2)]
  sensors := []
  sensorNoise := []

example : acceptsEkf exSwapped = true ∧ validEkf exSwapped = true := by decide +kernel

end FormakVerif.C14
