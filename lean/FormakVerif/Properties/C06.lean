/- C06 — a reading is discarded iff NIS > k·√(2m)+m; a discard changes nothing. -/
import FormakVerif.Properties.C05
import Mathlib.Analysis.Real.Sqrt
import Mathlib.Tactic.Positivity
import Mathlib.Tactic.Linarith
import Mathlib.Tactic.Ring

namespace FormakVerif.C06
open FormakVerif Matrix

/-- **The model's square-root-free test is the property's inequality.** For every threshold
`k ≥ 0`, dimension `m` and value `ν`: `ν > k·√(2m) + m  ↔  exceeds ν k m`. -/
theorem sqrt_free (ν k : ℚ) (m : ℕ) (hk : 0 ≤ k) :
    exceeds ν k m = true ↔ (k : ℝ) * Real.sqrt (2 * (m : ℝ)) + (m : ℝ) < (ν : ℝ) := by
  unfold exceeds
  simp only [Bool.and_eq_true, decide_eq_true_eq]
  have hk' : (0 : ℝ) ≤ (k : ℝ) := by exact_mod_cast hk
  have hm : (0 : ℝ) ≤ 2 * (m : ℝ) := by positivity
  set b : ℝ := (k : ℝ) * Real.sqrt (2 * (m : ℝ)) with hb
  have hb0 : 0 ≤ b := mul_nonneg hk' (Real.sqrt_nonneg _)
  have hb2 : b * b = 2 * (m : ℝ) * (k : ℝ) * (k : ℝ) := by
    rw [hb]
    have := Real.mul_self_sqrt hm
    calc (k : ℝ) * Real.sqrt (2 * (m : ℝ)) * ((k : ℝ) * Real.sqrt (2 * (m : ℝ)))
        = (k : ℝ) * (k : ℝ) * (Real.sqrt (2 * (m : ℝ)) * Real.sqrt (2 * (m : ℝ))) := by ring
      _ = 2 * (m : ℝ) * (k : ℝ) * (k : ℝ) := by rw [this]; ring
  constructor
  · rintro ⟨h1, h2⟩
    have h1' : (0 : ℝ) < (ν : ℝ) - (m : ℝ) := by exact_mod_cast h1
    have h2' : 2 * (m : ℝ) * (k : ℝ) * (k : ℝ) < ((ν : ℝ) - (m : ℝ)) * ((ν : ℝ) - (m : ℝ)) := by
      exact_mod_cast h2
    rw [← hb2] at h2'
    have : b < (ν : ℝ) - (m : ℝ) := by
      by_contra hcon
      have hcon := not_lt.mp hcon
      nlinarith
    linarith
  · intro h
    have ha : b < (ν : ℝ) - (m : ℝ) := by linarith
    have h1' : (0 : ℝ) < (ν : ℝ) - (m : ℝ) := lt_of_le_of_lt hb0 ha
    have h2' : 2 * (m : ℝ) * (k : ℝ) * (k : ℝ) < ((ν : ℝ) - (m : ℝ)) * ((ν : ℝ) - (m : ℝ)) := by
      rw [← hb2]; nlinarith
    constructor
    · exact_mod_cast h1'
    · exact_mod_cast h2'

/-- discarded exactly when the normalised innovation squared exceeds `k√(2m)+m` -/
theorem discard_iff (k ν : ℚ) (m : ℕ) (hk : 0 ≤ k) :
    discard (some k) ν m = true ↔ (k : ℝ) * Real.sqrt (2 * (m : ℝ)) + (m : ℝ) < (ν : ℝ) := by
  simp only [discard]; exact sqrt_free ν k m hk

/-- with filtering disabled no reading is ever discarded -/
theorem disabled_never (ν : ℚ) (m : ℕ) : discard none ν m = false := rfl

/-- a discarded reading leaves estimate and covariance exactly as they were, while its innovation is
still recorded -/
theorem discard_identity {m n : Nat} (filtering : Option Rat) (H : QMat m n) (P : QMat n n) (Q Sinv : QMat m m)
    (x : Fin n → Rat) (z hx : Fin m → Rat) (out : UpdateOut n m)
    (h : sensorUpdate filtering H P Q Sinv x z hx = some out) (hr : out.rejected = true) :
    out.state = x ∧ out.cov = P ∧ out.innovation = (fun i => z i - hx i) := by
  obtain ⟨_, hi, _, _, _, hrej⟩ := C05.sensorUpdate_some filtering H P Q Sinv x z hx out h
  exact ⟨(hrej hr).1, (hrej hr).2, hi⟩

/-- the decision taken by `sensorUpdate` is `discard` of the NIS computed with the certified inverse -/
theorem decision {m n : Nat} (filtering : Option Rat) (H : QMat m n) (P : QMat n n) (Q Sinv : QMat m m)
    (x : Fin n → Rat) (z hx : Fin m → Rat) (out : UpdateOut n m)
    (h : sensorUpdate filtering H P Q Sinv x z hx = some out) :
    out.rejected = discard filtering (nis (fun i => z i - hx i) Sinv) m :=
  (C05.sensorUpdate_some filtering H P Q Sinv x z hx out h).2.2.2.1

/-- the NIS of a zero innovation is zero -/
theorem nis_zero {m : Nat} (Si : QMat m m) : nis (fun _ => (0 : ℚ)) Si = 0 := by
  rw [nis_eq]; simp

/-- a NIS of zero never exceeds the limit, whatever the threshold and the number of readings -/
theorem zero_never_discarded (filtering : Option Rat) (m : ℕ) : discard filtering 0 m = false := by
  cases filtering with
  | none => rfl
  | some k => simp [discard, exceeds]

/-- **A reading exactly equal to the prediction is used, not skipped**: it is never discarded, the state stays where it is, and the
covariance is still the updated `P − K H P` (a zero innovation carries information about the uncertainty). -/
theorem exact_reading_is_used {m n : Nat} (filtering : Option Rat) (H : QMat m n) (P : QMat n n) (Q Sinv : QMat m m)
    (x : Fin n → Rat) (z : Fin m → Rat) (out : UpdateOut n m)
    (h : sensorUpdate filtering H P Q Sinv x z z = some out) :
    out.rejected = false ∧ out.state = x ∧ out.cov = updCov H P Sinv ∧ out.innovation = (fun _ => 0) := by
  obtain ⟨_, hi, _, hd, hacc, _⟩ := C05.sensorUpdate_some filtering H P Q Sinv x z z out h
  have hz : (fun i => z i - z i) = (fun _ => (0 : ℚ)) := by funext i; simp
  have hr : out.rejected = false := by rw [hd, hz, nis_zero, zero_never_discarded]
  exact ⟨hr, C05.fixed_point filtering H P Q Sinv x z out h, (hacc hr).2, by rw [hi, hz]⟩

/-- **Monotone in the reading's surprise**: once a normalised innovation squared is discarded, every larger one is discarded too
(same threshold, same number of readings) - the decision has no "window" in which a worse reading slips through. -/
theorem discard_mono_nis (k ν ν' : ℚ) (m : ℕ) (hk : 0 ≤ k) (hν : ν ≤ ν') (h : discard (some k) ν m = true) :
    discard (some k) ν' m = true := by
  rw [discard_iff k ν m hk] at h
  rw [discard_iff k ν' m hk]
  have : (ν : ℝ) ≤ (ν' : ℝ) := by exact_mod_cast hν
  linarith

/-- **Antitone in the threshold**: whatever a looser (larger) editing threshold discards, a tighter one discards as well. -/
theorem discard_antitone_threshold (k k' ν : ℚ) (m : ℕ) (hk : 0 ≤ k) (hkk : k ≤ k') (h : discard (some k') ν m = true) :
    discard (some k) ν m = true := by
  rw [discard_iff k' ν m (le_trans hk hkk)] at h
  rw [discard_iff k ν m hk]
  have h1 : (k : ℝ) ≤ (k' : ℝ) := by exact_mod_cast hkk
  have h2 : (0 : ℝ) ≤ Real.sqrt (2 * (m : ℝ)) := Real.sqrt_nonneg _
  nlinarith [mul_le_mul_of_nonneg_right h1 h2]

/-- a normalised innovation squared that does not exceed the number of readings (its expectation) is never discarded,
whatever the threshold - even a zero or negative one -/
theorem at_most_dof_never (filtering : Option Rat) (ν : ℚ) (m : ℕ) (h : ν ≤ m) : discard filtering ν m = false := by
  cases filtering with
  | none => rfl
  | some k =>
    simp only [discard, exceeds, Bool.and_eq_false_iff, decide_eq_false_iff_not, not_lt]
    left; linarith

/-- non-vacuity of the two monotonicity statements: k = 1, m = 2: limit 4; k = 2: limit 6 -/
example : discard (some 1) 5 2 = true ∧ discard (some 2) 5 2 = false ∧ discard (some 2) 7 2 = true := by decide +kernel

/-- NIS is non-negative for a positive semi-definite inverse innovation covariance -/
theorem nis_nonneg {m : Nat} (y : Fin m → ℚ) (Si : QMat m m) (h : Si.toMatrix.PosSemidef) : 0 ≤ nis y Si := by
  rw [nis_eq]; exact Mat.nis_nonneg _ h y

/-- Python filter (`remove_innovation`), C++ helper (`removeInnovation`) and generated C++ filter
(`if constexpr (innovation_filtering > 0.0)`) take the same decision for `k > 0` and for "disabled"
(which the C++ configuration encodes as `0.0`). -/
theorem same_decision (k ν : ℚ) (m : ℕ) :
    (0 < k → discardCpp k ν m = discard (some k) ν m ∧ exceeds ν k m = discard (some k) ν m) ∧
    discardCpp 0 ν m = discard none ν m := by
  refine ⟨fun hk => ⟨by simp [discardCpp, discard, hk], rfl⟩, by simp [discardCpp, discard]⟩

/-! non-vacuity: m = 2, k = 5 ⇒ threshold 12; 12 is kept, 12 + 1/1000 is discarded -/
example : discard (some 5) 12 2 = false ∧ discard (some 5) (12 + 1/1000) 2 = true := by decide +kernel

end FormakVerif.C06
