/- C17 — estimator parameters round-trip; fitting only retunes noise. -/
import FormakVerif.Model.Sklearn
import FormakVerif.Proofs.Names
import Mathlib.Algebra.Order.Ring.Rat

namespace FormakVerif.C17
open FormakVerif
variable {V : Type}

/-- parameters survive get-then-set -/
theorem get_set (p : Params V) : p.setMany p.get = .ok p := by
  cases p; rfl

/-- a configuration field passed to `set_params` changes exactly that field -/
theorem set_config_field (p : Params V) (v : V) :
    p.set1 "max_dt_sec" (.val v) = .ok { p with config := { p.config with max_dt_sec := v } } ∧
    p.set1 "innovation_filtering" (.val v) = .ok { p with config := { p.config with innovation_filtering := v } } ∧
    p.set1 "common_subexpression_elimination" (.val v) =
      .ok { p with config := { p.config with common_subexpression_elimination := v } } ∧
    p.set1 "extra_validation" (.val v) = .ok { p with config := { p.config with extra_validation := v } } ∧
    p.set1 "python_modules" (.val v) = .ok { p with config := { p.config with python_modules := v } } := by
  refine ⟨rfl, rfl, rfl, rfl, rfl⟩

/-- an allowed parameter name replaces exactly that parameter -/
theorem set_param (p : Params V) (v : V) :
    p.set1 "process_noise" (.val v) = .ok { p with process_noise := v } ∧
    p.set1 "sensor_noises" (.val v) = .ok { p with sensor_noises := v } := ⟨rfl, rfl⟩

def knownKeys : List String :=
  ["symbolic_model", "process_noise", "sensor_models", "sensor_noises", "calibration_map", "config",
   "common_subexpression_elimination", "python_modules", "extra_validation", "max_dt_sec", "innovation_filtering"]

/-- unknown parameter names are refused -/
theorem unknown_refused (p : Params V) (k : String) (v : V) (hk : k ∉ knownKeys) :
    p.set1 k (.val v) = .error (.invalidKey k) := by
  simp only [knownKeys, List.mem_cons, List.not_mem_nil, or_false, not_or] at hk
  obtain ⟨h1, h2, h3, h4, h5, _, h7, h8, h9, h10, h11⟩ := hk
  have hc : p.config.set k v = none := by
    unfold Cfg.set
    split <;> first | contradiction | rfl
  unfold Params.set1
  split
  all_goals first | contradiction | skip
  all_goals simp_all

/-- fitted process noise is strictly positive and names exactly the controls (in layout order) -/
theorem process_pos (controls : List Name) (old : Noises) (v : List Rat) :
    ∀ p ∈ (inverseNoises controls old v).process, 0 < p.2 := by
  intro p hp
  simp only [inverseNoises] at hp
  have := (List.of_mem_zip hp).2
  obtain ⟨x, _, hx⟩ := List.mem_map.mp this
  have hmin : (0 : Rat) < minNoise := by decide +kernel
  rw [← hx]
  exact lt_of_lt_of_le hmin (le_max_left _ _)

theorem process_keys (controls : List Name) (old : Noises) (v : List Rat) (hv : controls.length ≤ v.length) :
    (inverseNoises controls old v).process.map (·.1) = layout controls := by
  simp only [inverseNoises]
  apply List.map_fst_zip
  simp [layout_length, Nat.min_eq_left hv]

/-- fitted sensor-noise maps name exactly the sensors of the original, in key order -/
theorem sensor_keys (controls : List Name) (old : Noises) (v : List Rat) :
    (inverseNoises controls old v).sensors.map (·.1) = layout (old.sensors.map (·.1)) := by
  simp only [inverseNoises]
  generalize layout (old.sensors.map (·.1)) = ks
  generalize v.drop controls.length = w
  induction ks generalizing w with
  | nil => rfl
  | cons k ks ih => simp [inverseSensors, ih]

/-- fitted sensor noise is strictly positive as well -/
theorem sensor_pos (controls : List Name) (old : Noises) (v : List Rat) :
    ∀ s ∈ (inverseNoises controls old v).sensors, ∀ p ∈ s.2, 0 < p.2 := by
  simp only [inverseNoises]
  generalize layout (old.sensors.map (·.1)) = ks
  generalize v.drop controls.length = w
  induction ks generalizing w with
  | nil => intro s hs; simp [inverseSensors] at hs
  | cons k ks ih =>
    intro s hs p hp
    simp only [inverseSensors, List.mem_cons] at hs
    rcases hs with rfl | hs
    · have := (List.of_mem_zip hp).2
      obtain ⟨x, _, hx⟩ := List.mem_map.mp this
      have hmin : (0 : Rat) < minNoise := by decide +kernel
      rw [← hx]
      exact lt_of_lt_of_le hmin (le_max_left _ _)
    · exact ih _ s hs p hp

/-- flatten is the inverse of inverse-flatten on the process part (values at or above the clamp) -/
theorem flatten_inverse_process (controls : List Name) (old : Noises) (v : List Rat)
    (hnd : controls.Nodup) (hv : v.length = controls.length) (hmin : ∀ x ∈ v, minNoise ≤ x) :
    diagOf (inverseNoises controls old v).process (layout controls) = v := by
  simp only [inverseNoises, diagOf]
  have hlen : (layout controls).length = v.length := by rw [layout_length, hv]
  have hmap : (v.take controls.length).map (fun x => max minNoise x) = v := by
    rw [← hv, List.take_length]
    conv_rhs => rw [← List.map_id v]
    apply List.map_congr_left
    intro x hx; simp [max_eq_right (hmin x hx)]
  rw [hmap]
  have hLnd := layout_nodup hnd
  generalize layout controls = L at *
  clear hmap hmin hv hnd
  induction L generalizing v with
  | nil => simp at hlen; simp [List.length_eq_zero_iff.mp hlen.symm]
  | cons a t ih =>
    cases v with
    | nil => simp at hlen
    | cons x xs =>
      have hat : a ∉ t := (List.nodup_cons.mp hLnd).1
      simp only [List.zip_cons_cons, List.map_cons, List.lookup_cons, beq_self_eq_true, Option.getD_some,
        List.cons.injEq, true_and]
      have : t.map (fun n => (List.lookup n ((a, x) :: t.zip xs)).getD 0) =
          t.map (fun n => (List.lookup n (t.zip xs)).getD 0) := by
        apply List.map_congr_left
        intro n hn
        have hne : n ≠ a := fun e => hat (e ▸ hn)
        have : (n == a) = false := by simpa using hne
        simp [List.lookup_cons, this]
      simp only [List.lookup_cons] at this
      rw [this]
      exact ih xs (by simpa using hlen) (List.nodup_cons.mp hLnd).2

example : flattenNoises ["u2", "u1"] ⟨[("u2", 3), ("u1", 5)], [("gps", [("b", 7), ("a", 9)]), ("alt", [("q", 11)])]⟩
    = [5, 3, 11, 9, 7] := by decide +kernel
example : (inverseNoises ["u2", "u1"] ⟨[("u2", 3), ("u1", 5)], [("gps", [("b", 7), ("a", 9)]), ("alt", [("q", 11)])]⟩
    [-1, 2, 4, -6, 8]) = ⟨[("u1", 1/1000000), ("u2", 2)], [("alt", [("q", 4)]), ("gps", [("a", 1/1000000), ("b", 8)])]⟩ := by
  decide +kernel


/-! ### the order in which a noise table is written is not part of it -/

private theorem lookup_perm' {l₁ l₂ : List (Name × Rat)} (h : l₁.Perm l₂) (hnd : (l₁.map (·.1)).Nodup) (k : Name) :
    l₁.lookup k = l₂.lookup k := by
  induction h with
  | nil => rfl
  | cons x _ ih =>
    obtain ⟨a, b⟩ := x
    simp only [List.map_cons, List.nodup_cons] at hnd
    simp only [List.lookup_cons]
    cases hk : (k == a) with
    | true => rfl
    | false => exact ih hnd.2
  | swap x y l =>
    obtain ⟨a, b⟩ := x
    obtain ⟨c, e⟩ := y
    simp only [List.map_cons, List.nodup_cons, List.mem_cons, not_or] at hnd
    simp only [List.lookup_cons]
    cases hka : (k == a) with
    | false => cases hkc : (k == c) <;> rfl
    | true =>
      cases hkc : (k == c) with
      | false => rfl
      | true =>
        exfalso
        have h1 : k = a := by simpa using hka
        have h2 : k = c := by simpa using hkc
        exact hnd.1.1 (by rw [← h2, h1])
  | trans h₁ _ ih₁ ih₂ =>
    exact (ih₁ hnd).trans (ih₂ ((h₁.map (·.1)).nodup_iff.mp hnd))

/-- **One sensor's block of the scoring vector does not depend on the order its noise table was written in**: the block is the
table's values in the name order of its keys. (The inverse writes the block back in the same name order — `sensor_keys`,
`sensor_pos` — so flatten and inverse agree on which entry belongs to which reading however the dict was typed.) -/
theorem block_written_order (m m' : List (Name × Rat)) (h : m.Perm m') (hn : (m.map (·.1)).Nodup) :
    diagOf m' (layout (m'.map (·.1))) = diagOf m (layout (m.map (·.1))) := by
  have hl : layout (m'.map (·.1)) = layout (m.map (·.1)) := layout_perm (h.map _).symm
  rw [hl]
  unfold diagOf
  apply List.map_congr_left
  intro n _
  rw [lookup_perm' h hn n]

end FormakVerif.C17
