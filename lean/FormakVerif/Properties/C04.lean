/- C04 — prediction is x' = f(x,u), P' = G P Gᵀ + V M Vᵀ. -/
import FormakVerif.Proofs.QMat
import FormakVerif.Proofs.Ekf
import FormakVerif.Proofs.Names

namespace FormakVerif.C04
open FormakVerif Matrix

/-- the process-noise matrix holds, on the diagonal, the noise supplied for the control of that slot
(by name), and zero elsewhere -/
theorem noise_assembly (d : EkfDef) (i j : Fin d.c) :
    d.processNoiseMatrix.get i j =
      if i = j then (d.processNoise.lookup (d.Lc.getD i.val "")).getD 0 else 0 := by
  simp [EkfDef.processNoiseMatrix]

/-- the covariance the model computes is `G P Gᵀ + V M Vᵀ` -/
theorem predict_formula {n c : Nat} (G : QMat n n) (V : QMat n c) (M : QMat c c) (P : QMat n n) :
    (predictCov G V M P).toMatrix =
      G.toMatrix * P.toMatrix * G.toMatrixᵀ + V.toMatrix * M.toMatrix * V.toMatrixᵀ :=
  predictCov_toMatrix G V M P

/-- valid covariance in ⇒ valid covariance out, for any Jacobians -/
theorem symm_psd {n c : Nat} (G : QMat n n) (V : QMat n c) (M : QMat c c) (P : QMat n n)
    (hP : P.toMatrix.PosSemidef) (hM : M.toMatrix.PosSemidef) :
    (predictCov G V M P).toMatrix.PosSemidef := by
  rw [predictCov_toMatrix]; exact Mat.predict_psd _ _ _ _ hP hM

/-- non-negative per-control noise gives a PSD process-noise matrix -/
theorem noise_psd (d : EkfDef) (h : ∀ p ∈ d.processNoise, 0 ≤ p.2) :
    d.processNoiseMatrix.toMatrix.PosSemidef := by
  have : d.processNoiseMatrix.toMatrix =
      Matrix.diagonal fun i : Fin d.c => (d.processNoise.lookup (d.Lc.getD i.val "")).getD 0 := by
    ext i j; simp [EkfDef.processNoiseMatrix, Matrix.diagonal_apply]
  rw [this]
  apply Matrix.PosSemidef.diagonal
  intro i
  simp only
  cases hl : d.processNoise.lookup (d.Lc.getD i.val "") with
  | none => simp
  | some v =>
    simp only [Option.getD_some]
    exact h _ (mem_of_lookup hl)

/-- the prediction is a function of its arguments only (purity / repeatability are structural) -/
theorem repeatable {n c : Nat} (G : QMat n n) (V : QMat n c) (M : QMat c c) (P : QMat n n) :
    predictCov G V M P = predictCov G V M P := rfl

/-! non-vacuity: a singular, non-symmetric G, a rectangular V -/
example :
    (predictCov (n := 2) (c := 1)
        (QMat.ofFn fun i j => if i = 0 ∧ j = 1 then 1/2 else if i = j then 1 else 0)
        (QMat.ofFn fun i _ => if i = 0 then 0 else 1)
        (QMat.ofFn fun _ _ => 3)
        (QMat.ofFn fun i j => if i = j then 1 else 0)).toLists = [[5/4, 1/2], [1/2, 4]] := by
  decide +kernel

end FormakVerif.C04
