/-
C01 — the compiled Python model computes the user's symbolic model, by name, CSE on or off.
Only property statements and non-vacuity examples live here.
-/
import FormakVerif.Proofs.PyModel

namespace FormakVerif.C01
open FormakVerif
variable {α : Type}

/-- "The compiled block computes the statements it was given": what `exec_eq_inline` +
`wellScoped_exec_total` reduce to a statement about the inlined expressions, and what the
per-instance checker establishes for every block the current tree produces. -/
def Computes (S : Sem α) (prog : Program) (d : ModelDef) (spec : List Expr) : Prop :=
  prog.args = d.arglist ∧
  ∀ vals : List α, vals.length = d.arglist.length →
    prog.exec S vals = spec.mapM (fun e => e.eval S (d.arglist.zip vals))

/-- The positional argument vector, zipped with the arglist, *is* the by-name environment. -/
theorem positional_env_is_by_name (zero : α) (d : ModelDef) (cal : List (Name × α)) (dtv : α)
    (stateKw controlKw : List (Name × α)) (sv cv kv : List α)
    (hs : bindVec (layout d.state) stateKw zero = .ok sv)
    (hc : bindVec (layout d.control) controlKw zero = .ok cv)
    (hk : calibVector d cal = .ok kv) :
    d.arglist.zip ([dtv] ++ sv ++ kv ++ cv) = byNameEnv zero d cal dtv stateKw controlKw ∧
    ([dtv] ++ sv ++ kv ++ cv).length = d.arglist.length := by
  have hs' := bindVec_ok_eq _ _ _ _ hs
  have hc' := bindVec_ok_eq _ _ _ _ hc
  obtain ⟨hkl, hkz⟩ := calibVec_ok cal _ kv hk
  subst hs' hc'
  unfold ModelDef.arglist byNameEnv
  constructor
  · rw [List.zip_append (by simp [hkl]), List.zip_append (by simp), List.zip_append (by simp)]
    simp [zip_map_self, hkz]
  · simp [hkl]

/-- **C01, by name.** For every definition, every compiled block that computes the definition's
statements, every calibration, time step, named state and named control: the value read back
under state name `n` is the value of `n`'s update expression in the by-name environment. -/
theorem model_by_name (S : Sem α) (zero : α) (d : ModelDef) (prog : Program) (spec : List Expr)
    (cal : List (Name × α)) (dtv : α) (stateKw controlKw : List (Name × α)) (out : List α)
    (hspec : d.spec = some spec) (hprog : Computes S prog d spec)
    (hrun : pyRun S zero d prog cal dtv stateKw (some controlKw) = .ok out)
    (n : Name) (hn : n ∈ d.state) :
    ∃ e v, d.update.lookup n = some e ∧
      e.eval S (byNameEnv zero d cal dtv stateKw controlKw) = some v ∧
      getByName (layout d.state) out n = some v := by
  unfold pyRun at hrun
  cases hs : liftBind (bindVec (layout d.state) stateKw zero) with
  | error e => simp [hs, bind, Except.bind] at hrun
  | ok sv =>
  cases hc : liftBind (bindVec (layout d.control) controlKw zero) with
  | error e => simp [hs, hc, bind, Except.bind] at hrun
  | ok cv =>
  cases hk : calibVector d cal with
  | error e => simp [hs, hc, hk, bind, Except.bind] at hrun
  | ok kv =>
  obtain ⟨henv, hlen⟩ := positional_env_is_by_name zero d cal dtv stateKw controlKw sv cv kv
    (liftBind_ok hs) (liftBind_ok hc) hk
  have hex := hprog.2 _ hlen
  rw [henv] at hex
  simp only [hs, hc, hk, bind, Except.bind] at hrun
  cases ho : prog.exec S ([dtv] ++ sv ++ kv ++ cv) with
  | none => rw [ho] at hrun; simp at hrun
  | some res =>
  rw [ho] at hrun
  simp only at hrun
  have hfinal := liftBind_ok hrun
  rw [ho] at hex
  -- spec = (layout state).mapM update.lookup
  have hnl : n ∈ layout d.state := mem_layout.mpr hn
  unfold ModelDef.spec at hspec
  have hupd := lookup_zip_mapM _ _ _ hspec hnl
  have hspeclen := mapM_length _ _ _ hspec
  have hreslen := mapM_length _ _ _ hex.symm
  -- positionally: res[i] = eval spec[i]; by name via the two zips
  have key : ∀ (L : List Name) (sp : List Expr) (rs : List α),
      L.mapM (fun n => d.update.lookup n) = some sp →
      sp.mapM (fun e => e.eval S (byNameEnv zero d cal dtv stateKw controlKw)) = some rs →
      n ∈ L → ∃ e v, d.update.lookup n = some e ∧
        e.eval S (byNameEnv zero d cal dtv stateKw controlKw) = some v ∧
        (L.zip rs).lookup n = some v := by
    intro L
    induction L with
    | nil => intro _ _ _ _ h; cases h
    | cons a t ih =>
      intro sp rs h1 h2 hmem
      simp only [List.mapM_cons] at h1
      cases ha : d.update.lookup a with
      | none => simp [ha] at h1
      | some ea =>
        cases ht : t.mapM (fun n => d.update.lookup n) with
        | none => simp [ha, ht] at h1
        | some sp' =>
          simp [ha, ht] at h1; subst h1
          simp only [List.mapM_cons] at h2
          cases hva : ea.eval S (byNameEnv zero d cal dtv stateKw controlKw) with
          | none => simp [hva] at h2
          | some va =>
            cases hvt : sp'.mapM (fun e => e.eval S (byNameEnv zero d cal dtv stateKw controlKw)) with
            | none => simp [hva, hvt] at h2
            | some rs' =>
              simp [hva, hvt] at h2; subst h2
              by_cases hna : n = a
              · subst hna; exact ⟨ea, va, ha, hva, by simp⟩
              · have hb : (n == a) = false := by simpa using hna
                obtain ⟨e, v, h1', h2', h3'⟩ := ih sp' rs' ht hvt (by simpa [hna] using hmem)
                exact ⟨e, v, h1', h2', by simp [List.lookup_cons, hb, h3']⟩
  obtain ⟨e, v, he, hv, hz⟩ := key _ _ _ hspec hex.symm hnl
  refine ⟨e, v, he, hv, ?_⟩
  rw [get_bind _ _ zero out hfinal hnl, hz]; rfl

/-- **C01, CSE setting is irrelevant.** Two compiled blocks (e.g. CSE on / CSE off) that both compute
the definition's statements give identical results on every input. -/
theorem cse_irrelevant (S : Sem α) (zero : α) (d : ModelDef) (p₁ p₂ : Program) (spec : List Expr)
    (h₁ : Computes S p₁ d spec) (h₂ : Computes S p₂ d spec)
    (cal : List (Name × α)) (dtv : α) (stateKw : List (Name × α))
    (controlKw : Option (List (Name × α))) :
    pyRun S zero d p₁ cal dtv stateKw controlKw = pyRun S zero d p₂ cal dtv stateKw controlKw := by
  unfold pyRun
  cases hs : liftBind (bindVec (layout d.state) stateKw zero) with
  | error e => simp [bind, Except.bind]
  | ok sv =>
  cases hk : calibVector d cal with
  | error e => cases controlKw <;> simp [bind, Except.bind, hk] <;> split <;> simp
  | ok kv =>
    have hsl := (bindVec_ok_eq _ _ _ _ (liftBind_ok hs))
    obtain ⟨hkl, _⟩ := calibVec_ok cal _ kv hk
    have hex : ∀ cv : List α, cv.length = (layout d.control).length →
        p₁.exec S ([dtv] ++ sv ++ kv ++ cv) = p₂.exec S ([dtv] ++ sv ++ kv ++ cv) := by
      intro cv hcv
      have hl : ([dtv] ++ sv ++ kv ++ cv).length = d.arglist.length := by
        subst hsl; simp [ModelDef.arglist, hkl, hcv]
      rw [h₁.2 _ hl, h₂.2 _ hl]
    cases controlKw with
    | some kw =>
      cases hc : liftBind (bindVec (layout d.control) kw zero) with
      | error e => simp [bind, Except.bind, hc]
      | ok cv =>
        have := bindVec_ok_eq _ _ _ _ (liftBind_ok hc)
        simp only [bind, Except.bind, hc]
        rw [hex cv (by subst this; simp)]
    | none =>
      simp only [bind, Except.bind]
      split
      · rename_i hemp
        have : (layout d.control).length = 0 := by
          rw [layout_length]; simpa using hemp
        rw [hex [] (by simp [this])]
      · rfl

/-- **C01, declaration order is irrelevant.** Definitions that declare the same symbols in a
different order (or container) and give the same expression to each state name compile to the same
block and therefore give identical results. -/
theorem decl_order (d₁ d₂ : ModelDef) (hdt : d₁.dt = d₂.dt)
    (hs : d₁.state.Perm d₂.state) (hc : d₁.control.Perm d₂.control)
    (hk : d₁.calibration.Perm d₂.calibration)
    (hu : ∀ n, d₁.update.lookup n = d₂.update.lookup n) :
    d₁.arglist = d₂.arglist ∧ d₁.compilePlain = d₂.compilePlain := by
  have ha : d₁.arglist = d₂.arglist := by
    unfold ModelDef.arglist; rw [hdt, layout_perm hs, layout_perm hc, layout_perm hk]
  refine ⟨ha, ?_⟩
  unfold ModelDef.compilePlain ModelDef.spec
  rw [ha, layout_perm hs]
  have : (fun n => d₁.update.lookup n) = (fun n => d₂.update.lookup n) := funext hu
  rw [this]

/-- The block produced without CSE computes the statements (so `Computes` is satisfiable and the
CSE-off path needs no per-instance obligation beyond the translation). -/
theorem plain_computes (S : Sem α) (d : ModelDef) (spec : List Expr) (p : Program)
    (hspec : d.spec = some spec) (hp : d.compilePlain = some p) : Computes S p d spec := by
  unfold ModelDef.compilePlain at hp
  rw [hspec] at hp
  simp at hp; subst hp
  exact ⟨rfl, fun vals hl => exec_no_prefix S _ _ vals hl⟩

/-! Non-vacuity: a 3-state definition whose declaration order differs from its layout, with a
control and a calibration symbol; the hypotheses of `model_by_name` hold and the value is the
expected one. -/
def exDef : ModelDef where
  dt := "dt"
  state := ["z", "a", "M"]
  control := ["u"]
  calibration := ["k"]
  update := [("z", .add (.var "z") (.mul (.var "dt") (.var "a"))),
             ("a", .add (.var "u") (.var "k")),
             ("M", .mul (.var "M") (.var "z"))]

example : layout exDef.state = ["M", "a", "z"] := by decide
example : exDef.state ≠ layout exDef.state := by decide
example :
    (exDef.compilePlain.map fun p =>
      pyRun ratSem 0 exDef p [("k", 5)] (1/2) [("z", 3), ("M", 2), ("a", 4)] (some [("u", 7)]))
      = some (.ok [6, 12, 5]) := by decide +kernel

end FormakVerif.C01
