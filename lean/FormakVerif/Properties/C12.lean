/- C12 — every generated filter can be driven through the C++ managed runtime. -/
import FormakVerif.Properties.C11
import FormakVerif.Model.Iface

namespace FormakVerif.C12
open FormakVerif

/-- number of arguments `process_model` is *declared* with by the generator
(`standard_process_args`): dt, state, [calibration], [control] -/
def declaredProcessArity (ctl cal : Bool) : Nat := 2 + (if cal then 1 else 0) + (if ctl then 1 else 0)

/-- number of arguments `ManagedFilter::processUpdate` *calls* it with, per `if constexpr` branch -/
def calledProcessArity (ctl cal : Bool) : Nat :=
  match ctl, cal with
  | true, true => 4     -- process_model(dt, state, _calibration, control)
  | true, false => 3    -- process_model(dt, state, control)
  | false, true => 3    -- process_model(dt, state, _calibration)
  | false, false => 2   -- process_model(dt, state)

/-- `sensor_model` of a stamped reading: impl, state, [calibration] -/
def declaredSensorArity (cal : Bool) : Nat := 2 + (if cal then 1 else 0)
def calledSensorArity (cal : Bool) : Nat := if cal then 3 else 2

theorem arity : ∀ ctl cal, calledProcessArity ctl cal = declaredProcessArity ctl cal ∧
    calledSensorArity cal = declaredSensorArity cal := by decide

/-- what a tick returns is what calling prediction and update by hand in the same order returns
(the C++ tick is the property's fold, for any filter — in particular any generated one) -/
theorem tick_eq_byhand {T S R : Type} (A : TimeArith T) (F : Filter T S R) (maxDt : T)
    (st : CppState T S) (out : T) (rs : List (T × R)) :
    (cppTick A F maxDt st out rs).2 =
      advance A F maxDt (foldReadings A F maxDt ⟨st.currentTime, st.state⟩ rs) out := by
  have := C11.cpp_refines A F maxDt st out rs
  have h := congrArg Prod.snd this
  simpa [tickSpec, C11.cppAbs] using h


/-! ### the generated interface against what `ManagedFilter.h` demands (all definitions, any sensors) -/

/-- **Every generated filter passes the compatibility check** — for any definition (with or without control, with or without
calibration, any number of sensors) and any maximum step the C++ configuration accepts. -/
theorem generated_compatible (d : EkfDef) (maxDt : Rat) (h : Managed.configAccepts maxDt = true) :
    Managed.compatible (d.iface maxDt) = true := by
  have h' : (1 : Rat) / 1000000000 ≤ maxDt := by simpa [Managed.configAccepts] using h
  have : (0 : Rat) < maxDt := by
    apply Rat.not_le.mp; intro hle
    exact absurd (Rat.le_trans h' hle) (by decide +kernel)
  simpa [Managed.compatible, EkfDef.iface] using this

/-- … and a non-positive `max_dt_sec` would fail it (the check is not vacuous) -/
theorem nonpositive_incompatible (d : EkfDef) (maxDt : Rat) (h : maxDt ≤ 0) : Managed.compatible (d.iface maxDt) = false := by
  simpa [Managed.compatible, EkfDef.iface] using Rat.not_lt.mpr h

/-- **The calls `ManagedFilter` makes are the calls the generated filter declares**, in all four presence combinations: the
`if constexpr` branch selected by the `Tag` aliases passes exactly the declared parameter list to `process_model`, and `tick` passes
exactly the declared list to a stamped reading's `sensor_model`. -/
theorem calls_match_declarations (d : EkfDef) (maxDt : Rat) :
    Managed.processCall (d.iface maxDt) = (d.iface maxDt).processArgs ∧
    Managed.readingCall (d.iface maxDt) = (d.iface maxDt).readingArgs := by
  unfold Managed.processCall Managed.readingCall EkfDef.iface
  cases d.Lk.isEmpty <;> cases d.Lc.isEmpty <;> simp [TagTy.constRef]

/-- exactly one constructor overload survives `std::enable_if`, and it takes the calibration exactly when there is one -/
theorem one_constructor (d : EkfDef) (maxDt : Rat) :
    Managed.ctorOverloads (d.iface maxDt) =
      [["double", "const StateAndVariance&"] ++ (if d.Lk.isEmpty then [] else ["const Calibration&"])] := by
  unfold Managed.ctorOverloads EkfDef.iface
  cases d.Lk.isEmpty <;> simp [TagTy.constRef]

/-- the `tick` overloads that compile are the ones with a control argument exactly when the definition has control inputs
(so a model with control inputs cannot be ticked without them), each both with and without a list of readings -/
theorem tick_overloads (d : EkfDef) (maxDt : Rat) :
    Managed.tickOverloads (d.iface maxDt) = [(!d.Lc.isEmpty, false), (!d.Lc.isEmpty, true)] := by
  unfold Managed.tickOverloads EkfDef.iface
  cases d.Lc.isEmpty <;> simp

/-- one `SensorId` member per distinct sensor key, whatever the number of sensors -/
theorem sensor_ids_count (d : EkfDef) (maxDt : Rat) :
    (d.iface maxDt).sensorIds.length = (layout (d.sensors.map (·.key))).length := by
  simp [EkfDef.iface]

example : calledProcessArity false false = 2 := rfl

end FormakVerif.C12
