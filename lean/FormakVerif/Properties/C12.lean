/- C12 — every generated filter can be driven through the C++ managed runtime. -/
import FormakVerif.Properties.C11

namespace FormakVerif.C12
open FormakVerif

/-- number of arguments `process_model` is *declared* with by the generator
(`standard_process_args`): dt, state, [calibration], [control] -/
def declaredProcessArity (ctl cal : Bool) : Nat := 2 + (if cal then 1 else 0) + (if ctl then 1 else 0)

/-- number of arguments `ManagedFilter::processUpdate` *calls* it with, per `if constexpr` branch -/
def calledProcessArity (ctl cal : Bool) : Nat :=
  match ctl, cal with
  | true, true => 4     -- process_model(dt, state, _calibration, control)
  | true, false => 3    -- process_model(dt, state, control)
  | false, true => 3    -- process_model(dt, state, _calibration)
  | false, false => 2   -- process_model(dt, state)

/-- `sensor_model` of a stamped reading: impl, state, [calibration] -/
def declaredSensorArity (cal : Bool) : Nat := 2 + (if cal then 1 else 0)
def calledSensorArity (cal : Bool) : Nat := if cal then 3 else 2

theorem arity : ∀ ctl cal, calledProcessArity ctl cal = declaredProcessArity ctl cal ∧
    calledSensorArity cal = declaredSensorArity cal := by decide

/-- what a tick returns is what calling prediction and update by hand in the same order returns
(the C++ tick is the property's fold, for any filter — in particular any generated one) -/
theorem tick_eq_byhand {T S R : Type} (A : TimeArith T) (F : Filter T S R) (maxDt : T)
    (st : CppState T S) (out : T) (rs : List (T × R)) :
    (cppTick A F maxDt st out rs).2 =
      advance A F maxDt (foldReadings A F maxDt ⟨st.currentTime, st.state⟩ rs) out := by
  have := C11.cpp_refines A F maxDt st out rs
  have h := congrArg Prod.snd this
  simpa [tickSpec, C11.cppAbs] using h

example : calledProcessArity false false = 2 := rfl

end FormakVerif.C12
