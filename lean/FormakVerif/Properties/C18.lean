/- C18 — the design workflow follows its declared transitions and selects from the grid. -/
import FormakVerif.Model.Workflow
import FormakVerif.Generated.Workflow
import FormakVerif.Proofs.Workflow

namespace FormakVerif.C18
open FormakVerif

/-- every entry of the queue carries a path that leads from `start` to the entry's node -/
def FrontierOk (g : Graph) (start : Nat) (fr : List (Nat × List String)) : Prop :=
  ∀ e ∈ fr, follow g start e.2 = some e.1

theorem follow_append (g : Graph) (a b : Nat) (p : List String) (t : String) (h : follow g a p = some b)
    (c : Nat) (hc : (g.succ b).lookup t = some c) : follow g a (p ++ [t]) = some c := by
  induction p generalizing a with
  | nil => simp [follow] at h; subst h; simp [follow, hc]
  | cons x xs ih =>
    simp only [List.cons_append, follow] at h ⊢
    cases hx : (g.succ a).lookup x with
    | none => simp [hx] at h
    | some m => simp only [hx] at h ⊢; exact ih m h

/-- lookup of a member of a list with distinct keys -/
theorem lookup_of_mem_nodup (t : String × Nat) :
    ∀ (l : List (String × Nat)), (l.map (·.1)).Nodup → t ∈ l → l.lookup t.1 = some t.2 := by
  intro l
  induction l with
  | nil => intro _ hm; cases hm
  | cons a as iha =>
    intro hnd' hm
    obtain ⟨a1, a2⟩ := a
    have hnd2 : a1 ∉ as.map (·.1) ∧ (as.map (·.1)).Nodup := by
      rw [List.map_cons] at hnd'; exact List.nodup_cons.mp hnd'
    rcases List.mem_cons.mp hm with rfl | hm
    · simp [List.lookup_cons]
    · have hne : t.1 ≠ a1 := by
        intro e
        exact hnd2.1 (List.mem_map.mpr ⟨t, hm, e⟩)
      have hb : (t.1 == a1) = false := by simpa using hne
      simp only [List.lookup_cons, hb]
      exact iha hnd2.2 hm

/-- **Soundness of path search (any graph, any fuel).** A returned list of transition names, called in
order from the start state, ends in the requested state — provided transition names of a state are
distinct (Python attributes are). -/
theorem bfs_sound (g : Graph) (hnd : ∀ n, ((g.succ n).map (·.1)).Nodup) (start target : Nat) :
    ∀ (fuel : Nat) (fr : List (Nat × List String)) (p : List String),
      FrontierOk g start fr → bfs g target fuel fr = some p → follow g start p = some target := by
  intro fuel
  induction fuel with
  | zero => intro fr p _ h; simp [bfs] at h
  | succ k ih =>
    intro fr p hok h
    cases fr with
    | nil => simp [bfs] at h
    | cons e rest =>
      obtain ⟨n, path⟩ := e
      simp only [bfs] at h
      split at h
      · rename_i hn
        injection h with h; subst h; subst hn
        exact hok (n, path) (by simp)
      · apply ih _ p _ h
        intro e he
        rcases List.mem_append.mp he with he | he
        · exact hok e (by simp [he])
        · obtain ⟨t, ht, hte⟩ := List.mem_map.mp he
          subst hte
          have hpath := hok (n, path) (by simp)
          apply follow_append g start n path t.1 hpath t.2
          -- lookup of a member of a list with distinct keys
          exact lookup_of_mem_nodup t _ (hnd n) ht

theorem search_sound (g : Graph) (hnd : ∀ n, ((g.succ n).map (·.1)).Nodup) (start target fuel : Nat)
    (p : List String) (h : search g start target fuel = some p) : follow g start p = some target := by
  apply bfs_sound g hnd start target fuel [(start, [])] p _ h
  intro e he
  simp at he; subst he; rfl

/-- **Path search returns a shortest list of transition names (any graph, any fuel)**: no valid
transition sequence from the start state to the requested state is shorter than the one returned. -/
theorem search_is_shortest (g : Graph) (start target fuel : Nat) (p : List String)
    (h : search g start target fuel = some p) :
    ∀ q, follow g start q = some target → p.length ≤ q.length :=
  search_shortest g start target fuel p h

/-- a target that no transition sequence reaches is never "found" (the search reports failure) -/
theorem unreachable_fails (g : Graph) (hnd : ∀ n, ((g.succ n).map (·.1)).Nodup) (start target fuel : Nat)
    (hun : ∀ q, follow g start q ≠ some target) : search g start target fuel = none := by
  cases h : search g start target fuel with
  | none => rfl
  | some p => exact absurd (search_sound g hnd start target fuel p h) (hun p)

/-- the selected hyper-parameters are a member of the grid, and no grid point scores lower -/
theorem argmin_mem {α : Type} (score : α → Rat) (l : List α) (x : α) (h : argmin score l = some x) : x ∈ l := by
  induction l generalizing x with
  | nil => simp [argmin] at h
  | cons a as ih =>
    simp only [argmin] at h
    cases hr : argmin score as with
    | none => simp [hr] at h; subst h; simp
    | some y =>
      simp only [hr] at h
      split at h
      · injection h with h; subst h; simp
      · injection h with h; subst h; exact List.mem_cons_of_mem _ (ih y hr)

theorem argmin_some {α : Type} (score : α → Rat) (l : List α) (hne : l ≠ []) : ∃ x, argmin score l = some x := by
  cases l with
  | nil => exact absurd rfl hne
  | cons a as =>
    simp only [argmin]
    cases argmin score as with
    | none => exact ⟨a, rfl⟩
    | some y =>
      simp only
      by_cases hs : score a ≤ score y
      · exact ⟨a, by simp [hs]⟩
      · exact ⟨y, by simp [hs]⟩

/-! ### the recorded history, for any graph and any sequence of transition calls -/

/-- consecutive entries of a list of states are joined by a declared transition -/
def Linked (g : Graph) : List Nat → Prop
  | a :: b :: rest => (∃ t, (t, b) ∈ g.succ a) ∧ Linked g (b :: rest)
  | _ => True

theorem mem_of_lookup (t : String) (m : Nat) :
    ∀ (l : List (String × Nat)), l.lookup t = some m → (t, m) ∈ l := by
  intro l
  induction l with
  | nil => intro h; simp at h
  | cons a as ih =>
    obtain ⟨a1, a2⟩ := a
    intro h
    simp only [List.lookup_cons] at h
    by_cases e : t = a1
    · subst e; simp at h; subst h; simp
    · have hb : (t == a1) = false := by simpa using e
      rw [hb] at h
      exact List.mem_cons_of_mem _ (ih h)

/-- the history starts with the state the calls started from -/
theorem history_head (g : Graph) (n : Nat) (p : List String) : ∃ rest, historyOf g n p = n :: rest := by
  cases p with
  | nil => exact ⟨[], rfl⟩
  | cons t ts =>
    unfold historyOf
    cases (g.succ n).lookup t with
    | none => exact ⟨[], rfl⟩
    | some m => exact ⟨_, rfl⟩

/-- **The workflow only moves along declared transitions**: in the history recorded for ANY sequence of transition
names called from ANY state of ANY graph, every two consecutive states are joined by a transition the earlier one declares
(a name the current state does not declare ends the walk; it never teleports). -/
theorem history_linked (g : Graph) (n : Nat) (p : List String) : Linked g (historyOf g n p) := by
  induction p generalizing n with
  | nil => simp [historyOf, Linked]
  | cons t ts ih =>
    unfold historyOf
    cases h : (g.succ n).lookup t with
    | none => simp [Linked]
    | some m =>
      obtain ⟨rest, hr⟩ := history_head g m ts
      have := ih m
      simp only [hr] at this ⊢
      exact ⟨⟨t, mem_of_lookup t m _ h⟩, this⟩

/-- **…and records the states visited in order**: when every call succeeds (`follow` reaches `m`), the history has one entry
per call plus the start, begins at the start and ends in the state reached. -/
theorem history_of_follow (g : Graph) (n m : Nat) (p : List String) (h : follow g n p = some m) :
    (historyOf g n p).length = p.length + 1 ∧ (historyOf g n p).head? = some n ∧ (historyOf g n p).getLast? = some m := by
  induction p generalizing n with
  | nil => simp only [follow, Option.some.injEq] at h; subst h; simp [historyOf]
  | cons t ts ih =>
    simp only [follow] at h
    unfold historyOf
    cases hx : (g.succ n).lookup t with
    | none => simp [hx] at h
    | some k =>
      simp only [hx] at h
      obtain ⟨hl, _, hlast⟩ := ih k h
      obtain ⟨rest, hr⟩ := history_head g k ts
      refine ⟨by simp [hl], by simp, ?_⟩
      simp only [hr] at hlast ⊢
      simpa [List.getLast?_cons_cons] using hlast

/-- a returned search path, followed, leaves a history that starts at the start, ends in the target, has one entry per
transition plus one, and moves along declared transitions only -/
theorem search_history (g : Graph) (hnd : ∀ n, ((g.succ n).map (·.1)).Nodup) (start target fuel : Nat)
    (p : List String) (h : search g start target fuel = some p) :
    (historyOf g start p).length = p.length + 1 ∧ (historyOf g start p).head? = some start ∧
      (historyOf g start p).getLast? = some target ∧ Linked g (historyOf g start p) :=
  have hf := search_sound g hnd start target fuel p h
  ⟨(history_of_follow g start target p hf).1, (history_of_follow g start target p hf).2.1,
   (history_of_follow g start target p hf).2.2, history_linked g start p⟩

/-- data sets too small to split are refused -/
theorem min_samples (n : Nat) : fitAccepts n = true ↔ 3 ≤ n := by
  unfold fitAccepts MIN_SAMPLES; exact decide_eq_true_iff

/-! ### the workflow of the current source tree (regenerated on every run) -/

open Generated in
/-- the extracted graph has exactly the declared transitions: start → symbolic model → fitted model -/
theorem declared_transitions :
    workflowGraph = [(0, [("symbolic_model", 1)]), (1, [("fit_model", 2)]), (2, [])] := by decide

open Generated in
/-- for every (start, target) pair of the workflow: the search returns the shortest list of transition
names, and reports failure exactly when the target is unreachable -/
theorem search_table :
    [0, 1, 2].map (fun s => [0, 1, 2].map fun t => search workflowGraph s t) =
      [[some [], some ["symbolic_model"], some ["symbolic_model", "fit_model"]],
       [none, some [], some ["fit_model"]],
       [none, none, some []]] := by decide

open Generated in
/-- following the transitions records the states visited in order -/
theorem history_in_order :
    historyOf workflowGraph 0 ["symbolic_model", "fit_model"] = [0, 1, 2] := by decide

open Generated in
theorem names_distinct : ∀ n ∈ [0, 1, 2], ((workflowGraph.succ n).map (·.1)).Nodup := by decide

end FormakVerif.C18
