/-
C10 — the managed filter moves through time in bounded, correctly directed steps.
Statements are about the exact-arithmetic instance (`ratTime`) of the same generic `plan` that is
diffed bit-for-bit (as `floatTime`) against `runtime.py` and `ManagedFilter.h`.
-/
import FormakVerif.Proofs.Runtime

namespace FormakVerif.C10
open FormakVerif

variable (maxDt cur out : ℚ)

/-- no step when the two times coincide -/
theorem equal_no_step (h : 0 < maxDt) : plan ratTime maxDt cur cur = [] := by
  have hr := remainder_forward maxDt cur cur h (le_refl _)
  have hn : nSteps ratTime maxDt cur cur = 0 := by
    have hc := nSteps_cast maxDt cur cur h
    simp at hc
    exact_mod_cast hc
  have hrem : remainder ratTime maxDt cur cur = 0 := by
    rw [remainder_rat, hn]; simp
  rw [plan_rat, hn, hrem]; norm_num

/-- every step points in the direction of travel -/
theorem direction (h : 0 < maxDt) :
    ∀ s ∈ plan ratTime maxDt cur out, (cur < out → 0 < s) ∧ (out < cur → s < 0) := by
  intro s hs
  rw [plan_rat] at hs
  rcases List.mem_append.mp hs with hs | hs
  · have := (List.mem_replicate.mp hs).2
    rw [this, stepOf_rat]
    constructor
    · intro hlt; rw [if_neg (by linarith)]; exact h
    · intro hlt; rw [if_pos hlt]; linarith
  · split at hs
    · cases hs
    · rename_i hbig
      have hs' : s = remainder ratTime maxDt cur out := by simpa using hs
      have hbig' : (1 : ℚ) / 1000000000 ≤ |remainder ratTime maxDt cur out| := not_lt.mp hbig
      constructor
      · intro hlt
        have := remainder_forward maxDt cur out h hlt.le
        rw [abs_of_nonneg this.1] at hbig'
        rw [hs']; linarith [show (0 : ℚ) < 1 / 1000000000 by norm_num]
      · intro hlt
        have := remainder_backward maxDt cur out h hlt
        rw [abs_of_nonpos this.2] at hbig'
        rw [hs']; linarith [show (0 : ℚ) < 1 / 1000000000 by norm_num]

/-- no step is longer than the configured maximum -/
theorem bounded (h : 0 < maxDt) : ∀ s ∈ plan ratTime maxDt cur out, |s| ≤ maxDt := by
  intro s hs
  rw [plan_rat] at hs
  rcases List.mem_append.mp hs with hs | hs
  · have := (List.mem_replicate.mp hs).2
    rw [this, stepOf_rat]
    split
    · rw [abs_neg, abs_of_pos h]
    · rw [abs_of_pos h]
  · split at hs
    · cases hs
    · have hs' : s = remainder ratTime maxDt cur out := by simpa using hs
      rw [hs']
      rcases le_or_gt cur out with hle | hlt
      · have := remainder_forward maxDt cur out h hle
        rw [abs_of_nonneg this.1]; exact this.2.le
      · have := remainder_backward maxDt cur out h hlt
        rw [abs_of_nonpos this.2]; linarith [this.1]

/-- the step lengths sum to the time difference, within 1e-9 -/
theorem sum_close (_h : 0 < maxDt) :
    |(plan ratTime maxDt cur out).sum - (out - cur)| < 1 / 1000000000 := by
  rw [plan_rat, List.sum_append, sum_replicate_rat]
  have hrem := remainder_rat maxDt cur out
  split
  · rename_i hsmall
    simp only [List.sum_nil, add_zero]
    have : (nSteps ratTime maxDt cur out : ℚ) * stepOf ratTime maxDt cur out - (out - cur)
        = -remainder ratTime maxDt cur out := by rw [hrem]; ring
    rw [this, abs_neg]; exact hsmall
  · simp only [List.sum_cons, List.sum_nil, add_zero]
    have : (nSteps ratTime maxDt cur out : ℚ) * stepOf ratTime maxDt cur out
        + remainder ratTime maxDt cur out - (out - cur) = 0 := by rw [hrem]; ring
    rw [this]; norm_num

/-- Python and C++ runtimes are instances of the same plan, so over any tick sequence they issue
the same prediction steps (see also C11.same_trace). -/
theorem py_eq_cpp {S R : Type} (F : Filter ℚ S R) (t : ℚ) (s : S) :
    (pyProcessModel ratTime F maxDt ⟨t, s⟩ out).2 = (cppProcessUpdate ratTime F maxDt ⟨t, s⟩ out).state := rfl

/-- lifted over a whole tick: every prediction `dt` a tick issues is directed, bounded and
sums to the distance of the segment it belongs to (the segments are cur→reading₁→…→output). -/
theorem segment_ok (h : 0 < maxDt) :
    (∀ s ∈ plan ratTime maxDt cur out, |s| ≤ maxDt ∧ (cur < out → 0 < s) ∧ (out < cur → s < 0)) ∧
    |(plan ratTime maxDt cur out).sum - (out - cur)| < 1 / 1000000000 :=
  ⟨fun s hs => ⟨bounded maxDt cur out h s hs, direction maxDt cur out h s hs⟩, sum_close maxDt cur out h⟩

/-! non-vacuity: forward non-multiple, backward non-multiple, exact multiple -/
example : plan ratTime (1/20) 0 (3/25) = [1/20, 1/20, 1/50] := by decide +kernel
example : plan ratTime (1/20) (3/25) 0 = [-1/20, -1/20, -1/50] := by decide +kernel
example : plan ratTime (1/10) 1 (13/10) = [1/10, 1/10, 1/10] := by decide +kernel

end FormakVerif.C10
