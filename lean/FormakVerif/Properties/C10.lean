/-
C10 — the managed filter moves through time in bounded, correctly directed steps.
Statements are about the exact-arithmetic instance (`ratTime`) of the same generic `plan` that is
diffed bit-for-bit (as `floatTime`) against `runtime.py` and `ManagedFilter.h`.
-/
import FormakVerif.Proofs.Runtime
import FormakVerif.Properties.C11

namespace FormakVerif.C10
open FormakVerif

variable (maxDt cur out : ℚ)

/-- no step when the two times coincide -/
theorem equal_no_step (h : 0 < maxDt) : plan ratTime maxDt cur cur = [] := by
  have hr := remainder_forward maxDt cur cur h (le_refl _)
  have hn : nSteps ratTime maxDt cur cur = 0 := by
    have hc := nSteps_cast maxDt cur cur h
    simp at hc
    exact_mod_cast hc
  have hrem : remainder ratTime maxDt cur cur = 0 := by
    rw [remainder_rat, hn]; simp
  rw [plan_rat, hn, hrem]; norm_num

/-- every step points in the direction of travel -/
theorem direction (h : 0 < maxDt) :
    ∀ s ∈ plan ratTime maxDt cur out, (cur < out → 0 < s) ∧ (out < cur → s < 0) := by
  intro s hs
  rw [plan_rat] at hs
  rcases List.mem_append.mp hs with hs | hs
  · have := (List.mem_replicate.mp hs).2
    rw [this, stepOf_rat]
    constructor
    · intro hlt; rw [if_neg (by linarith)]; exact h
    · intro hlt; rw [if_pos hlt]; linarith
  · split at hs
    · cases hs
    · rename_i hbig
      have hs' : s = remainder ratTime maxDt cur out := by simpa using hs
      have hbig' : (1 : ℚ) / 1000000000 ≤ |remainder ratTime maxDt cur out| := not_lt.mp hbig
      constructor
      · intro hlt
        have := remainder_forward maxDt cur out h hlt.le
        rw [abs_of_nonneg this.1] at hbig'
        rw [hs']; linarith [show (0 : ℚ) < 1 / 1000000000 by norm_num]
      · intro hlt
        have := remainder_backward maxDt cur out h hlt
        rw [abs_of_nonpos this.2] at hbig'
        rw [hs']; linarith [show (0 : ℚ) < 1 / 1000000000 by norm_num]

/-- no step is longer than the configured maximum -/
theorem bounded (h : 0 < maxDt) : ∀ s ∈ plan ratTime maxDt cur out, |s| ≤ maxDt := by
  intro s hs
  rw [plan_rat] at hs
  rcases List.mem_append.mp hs with hs | hs
  · have := (List.mem_replicate.mp hs).2
    rw [this, stepOf_rat]
    split
    · rw [abs_neg, abs_of_pos h]
    · rw [abs_of_pos h]
  · split at hs
    · cases hs
    · have hs' : s = remainder ratTime maxDt cur out := by simpa using hs
      rw [hs']
      rcases le_or_gt cur out with hle | hlt
      · have := remainder_forward maxDt cur out h hle
        rw [abs_of_nonneg this.1]; exact this.2.le
      · have := remainder_backward maxDt cur out h hlt
        rw [abs_of_nonpos this.2]; linarith [this.1]

/-- the step lengths sum to the time difference, within 1e-9 -/
theorem sum_close (_h : 0 < maxDt) :
    |(plan ratTime maxDt cur out).sum - (out - cur)| < 1 / 1000000000 := by
  rw [plan_rat, List.sum_append, sum_replicate_rat]
  have hrem := remainder_rat maxDt cur out
  split
  · rename_i hsmall
    simp only [List.sum_nil, add_zero]
    have : (nSteps ratTime maxDt cur out : ℚ) * stepOf ratTime maxDt cur out - (out - cur)
        = -remainder ratTime maxDt cur out := by rw [hrem]; ring
    rw [this, abs_neg]; exact hsmall
  · simp only [List.sum_cons, List.sum_nil, add_zero]
    have : (nSteps ratTime maxDt cur out : ℚ) * stepOf ratTime maxDt cur out
        + remainder ratTime maxDt cur out - (out - cur) = 0 := by rw [hrem]; ring
    rw [this]; norm_num

/-- Python and C++ runtimes are instances of the same plan, so over any tick sequence they issue
the same prediction steps (see also C11.same_trace). -/
theorem py_eq_cpp {S R : Type} (F : Filter ℚ S R) (t : ℚ) (s : S) :
    (pyProcessModel ratTime F maxDt ⟨t, s⟩ out).2 = (cppProcessUpdate ratTime F maxDt ⟨t, s⟩ out).state := rfl

/-- lifted over a whole tick: every prediction `dt` a tick issues is directed, bounded and
sums to the distance of the segment it belongs to (the segments are cur→reading₁→…→output). -/
theorem segment_ok (h : 0 < maxDt) :
    (∀ s ∈ plan ratTime maxDt cur out, |s| ≤ maxDt ∧ (cur < out → 0 < s) ∧ (out < cur → s < 0)) ∧
    |(plan ratTime maxDt cur out).sum - (out - cur)| < 1 / 1000000000 :=
  ⟨fun s hs => ⟨bounded maxDt cur out h s hs, direction maxDt cur out h s hs⟩, sum_close maxDt cur out h⟩

/-! ### lifted over any sequence of ticks

The property quantifies "over any sequence of ticks". `C11.runHistory` runs a whole history of ticks
(each with any output time and any readings, timestamps in any order) through the *recording*
filter `traceFilter`, whose state is the list of filter calls issued so far. Every prediction call
in that list - whichever tick, whichever segment (held time → reading, reading → reading,
held time → output) it belongs to - is no longer than the configured maximum and is never a
zero-length step. -/

/-- a step is acceptable: bounded by the configured maximum, and a real move -/
def StepOk (maxDt : ℚ) : Call ℚ → Prop
  | .proc dt _ => |dt| ≤ maxDt ∧ dt ≠ 0
  | .sens _ => True

def TraceOk (maxDt : ℚ) (s : List (Call ℚ)) : Prop := ∀ c ∈ s, StepOk maxDt c

/-- every planned step is bounded and non-zero -/
theorem plan_ok (h : 0 < maxDt) : ∀ s ∈ plan ratTime maxDt cur out, |s| ≤ maxDt ∧ s ≠ 0 := by
  intro s hs
  refine ⟨bounded maxDt cur out h s hs, ?_⟩
  have hd := direction maxDt cur out h s hs
  rcases lt_trichotomy cur out with hlt | heq | hgt
  · exact (hd.1 hlt).ne'
  · subst heq; rw [equal_no_step maxDt cur h] at hs; cases hs
  · exact (hd.2 hgt).ne

theorem foldl_process_ok (ctl : Nat) (l : List ℚ) (s : List (Call ℚ)) (hs : TraceOk maxDt s)
    (hl : ∀ d ∈ l, |d| ≤ maxDt ∧ d ≠ 0) :
    TraceOk maxDt (l.foldl (fun s dt => (traceFilter ℚ ctl).process dt s) s) := by
  induction l generalizing s with
  | nil => simpa using hs
  | cons d l ih =>
    simp only [List.foldl_cons]
    apply ih
    · intro c hc
      simp only [traceFilter, List.mem_append, List.mem_singleton] at hc
      rcases hc with hc | hc
      · exact hs c hc
      · subst hc; exact hl d (by simp)
    · intro d' hd'; exact hl d' (by simp [hd'])

theorem advance_ok (h : 0 < maxDt) (ctl : Nat) (hd : Held ℚ (List (Call ℚ))) (hok : TraceOk maxDt hd.est) :
    TraceOk maxDt (advance ratTime (traceFilter ℚ ctl) maxDt hd out) := by
  unfold advance
  exact foldl_process_ok maxDt ctl _ _ hok (plan_ok maxDt hd.time out h)

theorem sensor_ok (ctl : Nat) (id : Nat) (s : List (Call ℚ)) (hs : TraceOk maxDt s) :
    TraceOk maxDt ((traceFilter ℚ ctl).sensor id s) := by
  simp only [traceFilter]
  split
  · intro c hc
    simp only [List.mem_append, List.mem_singleton] at hc
    rcases hc with hc | hc
    · exact hs c hc
    · subst hc; trivial
  · exact hs

theorem foldReadings_ok (h : 0 < maxDt) (ctl : Nat) (rs : List (ℚ × Nat)) (hd : Held ℚ (List (Call ℚ)))
    (hok : TraceOk maxDt hd.est) :
    TraceOk maxDt (foldReadings ratTime (traceFilter ℚ ctl) maxDt hd rs).est := by
  unfold foldReadings
  induction rs generalizing hd with
  | nil => simpa using hok
  | cons r rs ih =>
    simp only [List.foldl_cons]
    apply ih
    exact sensor_ok maxDt ctl r.2 _ (advance_ok maxDt r.1 h ctl hd hok)

/-- **Over any sequence of ticks**: every prediction call issued while running any history of
ticks (any output times, any readings, timestamps in any order relative to each other, to the held
time and to the output time) from any held time is bounded by the configured maximum and is not
a zero-length step - both in what ends up held and in every estimate a tick returns. -/
theorem history_steps_ok (h : 0 < maxDt) (ctl : Nat) (hist : List (ℚ × List (ℚ × Nat)))
    (hd : Held ℚ (List (Call ℚ))) (hok : TraceOk maxDt hd.est) :
    TraceOk maxDt (C11.runHistory ratTime (traceFilter ℚ ctl) maxDt hd hist).1.est ∧
    ∀ e ∈ (C11.runHistory ratTime (traceFilter ℚ ctl) maxDt hd hist).2, TraceOk maxDt e := by
  induction hist generalizing hd with
  | nil => exact ⟨by simpa [C11.runHistory] using hok, by simp [C11.runHistory]⟩
  | cons t rest ih =>
    obtain ⟨o, rs⟩ := t
    have hf := foldReadings_ok maxDt h ctl rs hd hok
    have hrec := ih (foldReadings ratTime (traceFilter ℚ ctl) maxDt hd rs) hf
    simp only [C11.runHistory, tickSpec]
    refine ⟨hrec.1, ?_⟩
    intro e he
    simp only [List.mem_cons] at he
    rcases he with he | he
    · subst he; exact advance_ok maxDt o h ctl _ hf
    · exact hrec.2 e he

/-- non-vacuity: a two-tick history with out-of-order readings starting from the empty trace
(which satisfies the hypothesis) returns traces of seven and six calls, some of them backward steps -/
example : TraceOk (1/10) ([] : List (Call ℚ)) := by intro c hc; cases hc
example :
    ((C11.runHistory ratTime (traceFilter ℚ) (1/10) ⟨0, []⟩
      [(1/4, [(3/20, 7), (1/20, 9)]), (0, [])]).2.map List.length) = [7, 6] := by decide +kernel

/-! non-vacuity: forward non-multiple, backward non-multiple, exact multiple -/
example : plan ratTime (1/20) 0 (3/25) = [1/20, 1/20, 1/50] := by decide +kernel
example : plan ratTime (1/20) (3/25) 0 = [-1/20, -1/20, -1/50] := by decide +kernel
example : plan ratTime (1/10) 1 (13/10) = [1/10, 1/10, 1/10] := by decide +kernel

end FormakVerif.C10
