/- C09 — valid covariance in, valid covariance out, along any update history. -/
import FormakVerif.Properties.C05

namespace FormakVerif.C09
open FormakVerif Matrix

def OpOk {n : Nat} : CovOp n → Prop
  | .predict _ _ M => M.toMatrix.PosSemidef
  | .update _ Q _ _ => Q.toMatrix.PosDef

theorem step_psd {n : Nat} (P P' : QMat n n) (op : CovOp n) (hP : P.toMatrix.PosSemidef) (hop : OpOk op)
    (h : covStep P op = some P') : P'.toMatrix.PosSemidef := by
  cases op with
  | predict G V M =>
    simp only [covStep, Option.some.injEq] at h; subst h
    rw [predictCov_toMatrix]; exact Mat.predict_psd _ _ _ _ hP hop
  | update H Q Sinv rej =>
    simp only [covStep] at h
    split at h
    · rename_i hc
      injection h with h; subst h
      have hinv := C05.cert_is_inverse H P Q Sinv (QMat.eq_of_eqb hc)
      cases rej with
      | true => simpa using hP
      | false =>
        simp only [Bool.false_eq_true, if_false]
        rw [updCov_toMatrix, hinv]; exact Mat.updP_psd _ _ _ hP hop
    · cases h

/-- **C09.** Starting from a symmetric positive semi-definite covariance, any finite history of
predictions (arbitrary — in particular singular — process Jacobians, any control Jacobian, PSD
process noise) and sensor updates (arbitrary sensor Jacobian, positive-definite reading noise,
accepted or rejected) yields a symmetric positive semi-definite covariance. -/
theorem invariant {n : Nat} (ops : List (CovOp n)) :
    ∀ (P P' : QMat n n), P.toMatrix.PosSemidef → (∀ op ∈ ops, OpOk op) →
      covRun P ops = some P' → P'.toMatrix.PosSemidef ∧ P'.toMatrixᵀ = P'.toMatrix := by
  induction ops with
  | nil =>
    intro P P' hP _ h
    simp only [covRun, Option.some.injEq] at h; subst h
    refine ⟨hP, ?_⟩
    have := hP.isHermitian; rwa [IsHermitian, conjTranspose_eq_transpose_of_trivial] at this
  | cons op rest ih =>
    intro P P' hP hops h
    simp only [covRun] at h
    cases hs : covStep P op with
    | none => simp [hs] at h
    | some P₁ =>
      simp only [hs, Option.bind_some] at h
      exact ih P₁ P' (step_psd P P₁ op hP (hops op (by simp)) hs)
        (fun o ho => hops o (by simp [ho])) h

/-- **The update the filters compute since F16 (Joseph form) is the update of the property.** Whenever `Sinv` is the inverse of the
innovation covariance (the certificate `S · Sinv = 1`), the Joseph form equals `P − K H P`. -/
theorem joseph_eq_updCov {m n : Nat} (H : QMat m n) (P : QMat n n) (Q Sinv : QMat m m)
    (hc : (innovCov H P Q).mul Sinv = QMat.one) : updCovJoseph H P Q Sinv = updCov H P Sinv := by
  apply QMat.toMatrix_inj
  rw [updCovJoseph_toMatrix, updCov_toMatrix]
  have hinv := C05.cert_is_inverse H P Q Sinv hc
  have hS : (innovCov H P Q).toMatrix * Sinv.toMatrix = 1 := by
    have := congrArg QMat.toMatrix hc; simpa using this
  have hS' : Sinv.toMatrix * (innovCov H P Q).toMatrix = 1 := mul_eq_one_comm.mp hS
  have hK : (P.toMatrix * H.toMatrixᵀ * Sinv.toMatrix) * (H.toMatrix * P.toMatrix * H.toMatrixᵀ + Q.toMatrix) =
      P.toMatrix * H.toMatrixᵀ := by
    rw [← innovCov_toMatrix, Matrix.mul_assoc, hS', Matrix.mul_one]
  exact (Mat.joseph P.toMatrix H.toMatrix Q.toMatrix _ hK).symm

/-- **… and it is a valid covariance for ANY `Sinv`**, inverse or not (an `S⁻¹` spoiled by rounding included): symmetric and
positive semi-definite whenever the prior and the reading noise are. This is what the Joseph form buys over `P − K H P`. -/
theorem joseph_valid_for_any_gain {m n : Nat} (H : QMat m n) (P : QMat n n) (Q Sinv : QMat m m)
    (hP : P.toMatrix.PosSemidef) (hQ : Q.toMatrix.PosSemidef) :
    (updCovJoseph H P Q Sinv).toMatrix.PosSemidef ∧ (updCovJoseph H P Q Sinv).toMatrixᵀ = (updCovJoseph H P Q Sinv).toMatrix := by
  have h : (updCovJoseph H P Q Sinv).toMatrix.PosSemidef := by
    rw [updCovJoseph_toMatrix]; exact Mat.joseph_psd_any_gain _ _ _ _ hP hQ
  refine ⟨h, ?_⟩
  have := h.isHermitian; rwa [IsHermitian, conjTranspose_eq_transpose_of_trivial] at this

/-- **The function the driver runs (Joseph-form `sensorUpdateJ`, the code's shape) returns exactly what the specification-shaped
`sensorUpdate` returns** — same refusal of a wrong certificate, same decision, same state, same covariance. -/
theorem sensorUpdateJ_eq {m n : Nat} (filtering : Option Rat) (H : QMat m n) (P : QMat n n) (Q Sinv : QMat m m)
    (x : Fin n → Rat) (z hx : Fin m → Rat) :
    sensorUpdateJ filtering H P Q Sinv x z hx = sensorUpdate filtering H P Q Sinv x z hx := by
  unfold sensorUpdateJ sensorUpdate
  by_cases hc : ((innovCov H P Q).mul Sinv).eqb QMat.one = true
  · simp only [hc, if_true]
    rw [joseph_eq_updCov H P Q Sinv (QMat.eq_of_eqb hc)]
  · simp [hc]

/-- weaker demand on the operations than `OpOk`: the reading noise only has to be positive SEMI-definite -/
def OpOkJ {n : Nat} : CovOp n → Prop
  | .predict _ _ M => M.toMatrix.PosSemidef
  | .update _ Q _ _ => Q.toMatrix.PosSemidef

theorem stepJ_psd {n : Nat} (P : QMat n n) (op : CovOp n) (hP : P.toMatrix.PosSemidef) (hop : OpOkJ op) :
    (covStepJ P op).toMatrix.PosSemidef := by
  cases op with
  | predict G V M =>
    simp only [covStepJ]; rw [predictCov_toMatrix]; exact Mat.predict_psd _ _ _ _ hP hop
  | update H Q Sinv rej =>
    cases rej with
    | true => simpa [covStepJ] using hP
    | false =>
      simp only [covStepJ, Bool.false_eq_true, if_false]
      exact (joseph_valid_for_any_gain H P Q Sinv hP hop).1

/-- **C09 for the history as the filters run it.** With the Joseph-form update the invariant needs NO inverse certificate: after any
finite history of predictions and updates — whatever matrix the filter used for `S⁻¹` (singular `S`, an inverse spoiled by
rounding, …), reading noise merely positive semi-definite — the covariance is symmetric positive semi-definite. -/
theorem invariantJ {n : Nat} (ops : List (CovOp n)) :
    ∀ (P : QMat n n), P.toMatrix.PosSemidef → (∀ op ∈ ops, OpOkJ op) →
      (covRunJ P ops).toMatrix.PosSemidef ∧ (covRunJ P ops).toMatrixᵀ = (covRunJ P ops).toMatrix := by
  induction ops with
  | nil =>
    intro P hP _
    refine ⟨hP, ?_⟩
    have := hP.isHermitian; rwa [IsHermitian, conjTranspose_eq_transpose_of_trivial] at this
  | cons op rest ih =>
    intro P hP hops
    simp only [covRunJ, List.foldl_cons]
    exact ih (covStepJ P op) (stepJ_psd P op hP (hops op (by simp))) (fun o ho => hops o (by simp [ho]))

/-- whenever the certified run of the property's update (`covRun`) goes through, the filters' run (`covRunJ`) computes the same
covariance — the two histories are the same function on certified inputs -/
theorem covRunJ_eq_covRun {n : Nat} (ops : List (CovOp n)) :
    ∀ (P P' : QMat n n), covRun P ops = some P' → covRunJ P ops = P' := by
  induction ops with
  | nil => intro P P' h; simpa [covRun, covRunJ] using h
  | cons op rest ih =>
    intro P P' h
    simp only [covRun] at h
    cases hs : covStep P op with
    | none => simp [hs] at h
    | some P₁ =>
      simp only [hs, Option.bind_some] at h
      have h1 : covStepJ P op = P₁ := by
        cases op with
        | predict G V M => simpa [covStep, covStepJ] using hs
        | update H Q Sinv rej =>
          simp only [covStep] at hs
          split at hs
          · rename_i hc
            injection hs with hs
            simp only [covStepJ]
            rw [joseph_eq_updCov H P Q Sinv (QMat.eq_of_eqb hc)]; exact hs
          · cases hs
      simp only [covRunJ, List.foldl_cons, h1]
      exact ih P₁ P' h

/-- the run never gets stuck on a prediction (the model has no "refuse" branch there) -/
theorem predict_total {n c : Nat} (P : QMat n n) (G : QMat n n) (V : QMat n c) (M : QMat c c) :
    (covStep P (.predict G V M)).isSome := rfl

/-! non-vacuity: the singular Jacobian of the project's mass/z/v/a example shape (two identical rows) -/
example :
    (covRun (n := 2) QMat.one
      [.predict (c := 1) (QMat.ofFn fun _ j => if j.val = 0 then 1 else 1/10) (QMat.ofFn fun _ _ => 1) (QMat.ofFn fun _ _ => 1/4),
       .predict (c := 1) (QMat.ofFn fun _ j => if j.val = 0 then 1 else 1/10) (QMat.ofFn fun _ _ => 1) (QMat.ofFn fun _ _ => 1/4)]).map
      QMat.toLists = some [[8873/5000, 8873/5000], [8873/5000, 8873/5000]] := by decide +kernel

/-! non-vacuity for the Joseph form: a gain computed with a WRONG inverse (`Sinv = 1` although `S = 3`) — `P − K H P` goes negative,
the Joseph form stays positive semi-definite -/
example : (updCov (m := 1) (n := 1) QMat.one (QMat.ofFn fun _ _ => 2) QMat.one).toLists = [[-2]] ∧
    (updCovJoseph (m := 1) (n := 1) QMat.one (QMat.ofFn fun _ _ => 2) QMat.one QMat.one).toLists = [[6]] := by decide +kernel

/-! non-vacuity for `invariantJ`: a history with a wrong inverse AND a singular (zero) reading noise still ends in a valid covariance -/
example : (covRunJ (n := 1) (QMat.ofFn fun _ _ => 2)
    [.update (m := 1) QMat.one (QMat.ofFn fun _ _ => 0) QMat.one false,
     .predict (c := 1) QMat.one QMat.one QMat.one]).toLists = [[3]] := by decide +kernel

end FormakVerif.C09
