/- C03 — the Python filter's Jacobians are laid out by name: entry (i,j) is the derivative of output
`i` (in name order) with respect to variable `j` (in name order), for any rectangular shape. -/
import FormakVerif.Proofs.QMat
import FormakVerif.Proofs.PyModel
import FormakVerif.Proofs.Diff

namespace FormakVerif.C03
open FormakVerif

/-- the un-flattening loops read entry `(i,j)` from position `i·stride + j` -/
theorem unflatten_entry (rows cols stride : Nat) (flat : List Rat) (i : Fin rows) (j : Fin cols) :
    (unflatten rows cols stride flat).get i j = flat.getD (i.val * stride + j.val) 0 :=
  unflatten_get rows cols stride flat i j

/-- the flattened symbolic Jacobian is row-major with row length `|wrt|` -/
theorem jacobianFlat_get (outs : List Expr) (wrt : List Name) (i j : Nat)
    (hi : i < outs.length) (hj : j < wrt.length) :
    (jacobianFlat outs wrt)[i * wrt.length + j]? = some ((outs[i]).diff (wrt[j])) := by
  induction outs generalizing i with
  | nil => simp at hi
  | cons e rest ih =>
    simp only [jacobianFlat, List.flatMap_cons]
    cases i with
    | zero =>
      simp only [Nat.zero_mul, Nat.zero_add, List.getElem_cons_zero]
      rw [List.getElem?_append_left (by simpa using hj)]
      simp [hj]
    | succ i' =>
      have hi' : i' < rest.length := by simpa using hi
      rw [List.getElem?_append_right (by simp only [List.length_map, Nat.succ_mul]; omega)]
      simp only [List.length_map, List.getElem_cons_succ]
      have : (i' + 1) * wrt.length + j - wrt.length = i' * wrt.length + j := by
        rw [Nat.succ_mul]; omega
      rw [this]
      exact ih i' hi'

theorem evalAll_get (env : Env Rat) (es : List Expr) (vs : List Rat) (t : Nat) (e : Expr)
    (h : EkfDef.evalAll env es = some vs) (he : es[t]? = some e) :
    e.eval ratSem env = some (vs.getD t 0) := by
  unfold EkfDef.evalAll at h
  induction es generalizing vs t with
  | nil => simp at he
  | cons a rest ih =>
    simp only [List.mapM_cons] at h
    cases ha : a.eval ratSem env with
    | none => simp [ha] at h
    | some x =>
      cases hr : rest.mapM (fun e => e.eval ratSem env) with
      | none => simp [ha, hr] at h
      | some xs =>
        simp [ha, hr] at h; subst h
        cases t with
        | zero => simp at he; subst he; simpa using ha
        | succ t' =>
          simp only [List.getElem?_cons_succ] at he
          simpa using ih xs t' hr he

/-- **C03, rectangular case.** A Jacobian program flattened over `w` columns and un-flattened with
stride `w` holds at `(i,j)` (for every `j < cols ≤ w`) the value of `∂ outᵢ / ∂ wrtⱼ` — for any number
of outputs, any `w`, any `cols`. This is the statement for the sensor Jacobian (`w` = states +
calibration, `cols` = states), and with `cols = w` for the process and control Jacobians. -/
theorem entry_is_partial (env : Env Rat) (outs : List Expr) (wrt : List Name) (cols : Nat)
    (flat : List Rat) (h : EkfDef.evalAll env (jacobianFlat outs wrt) = some flat)
    (hc : cols ≤ wrt.length) (i : Fin outs.length) (j : Fin cols) :
    ((outs[i.val]).diff (wrt[j.val]'(lt_of_lt_of_le j.isLt hc))).eval ratSem env =
      some ((unflatten outs.length cols wrt.length flat).get i j) := by
  rw [unflatten_entry]
  exact evalAll_get env _ flat _ _ h
    (jacobianFlat_get outs wrt i.val j.val i.isLt (lt_of_lt_of_le j.isLt hc))

/-- `sensor_jacobian` of the model: entry `(i,j)` is the value of `∂hᵢ/∂xⱼ` with readings and states
in name order, whatever the numbers of readings, states and calibration symbols are. -/
theorem sensor_by_name (d : EkfDef) (s : SensorDef) (env : Env Rat) (spec : List Expr)
    (hspec : s.spec = some spec) (Hm : QMat s.Lr.length d.n)
    (h : d.sensorJacobian s env = some Hm) (i : Nat) (j : Nat) (hi : i < spec.length) (hj : j < d.Ls.length) :
    ∃ v, ((spec[i]).diff (d.Ls[j])).eval ratSem env = some v ∧
      ∀ (hi' : i < s.Lr.length), Hm.get ⟨i, hi'⟩ ⟨j, hj⟩ = v := by
  unfold EkfDef.sensorJacobian at h
  simp only [hspec, Option.bind_eq_bind, Option.bind_some] at h
  cases hf : EkfDef.evalAll env (jacobianFlat spec (d.Ls ++ d.Lk)) with
  | none => simp [hf] at h
  | some flat =>
    simp only [hf, Option.bind_some, Option.pure_def, Option.some.injEq] at h
    have hlen : spec.length = s.Lr.length := by
      unfold SensorDef.spec at hspec; exact mapM_length _ _ _ hspec
    have hjw : j < (d.Ls ++ d.Lk).length := by simp; omega
    have hget := evalAll_get env _ flat _ _ hf (jacobianFlat_get spec (d.Ls ++ d.Lk) i j hi hjw)
    have hwj : (d.Ls ++ d.Lk)[j] = d.Ls[j] := List.getElem_append_left hj
    rw [hwj] at hget
    refine ⟨_, hget, ?_⟩
    intro hi'
    subst h
    simp [unflatten_entry]

/-- **The entries are true partial derivatives.** Under the hypotheses of `entry_is_partial`, and if the
output itself evaluates at the point, entry `(i,j)` is the derivative — in the sense of Mathlib's
`HasDerivAt` over ℝ — of `t ↦ outᵢ[wrtⱼ := t]` at the point (fragment `+ − × ÷ ^ℤ`; the model's
`Expr.diff` is proven correct in `Proofs/Diff.lean` also for `sin cos exp log sqrt tan sinh cosh atan`
inside their domains). -/
theorem entry_is_true_partial (env : Env Rat) (outs : List Expr) (wrt : List Name) (cols : Nat)
    (flat : List Rat) (h : EkfDef.evalAll env (jacobianFlat outs wrt) = some flat)
    (hc : cols ≤ wrt.length) (i : Fin outs.length) (j : Fin cols) (w : ℚ)
    (hout : (outs[i.val]).eval ratSem env = some w) :
    HasDerivAt
      (fun t => evalR (Function.update (realEnv env) (wrt[j.val]'(lt_of_lt_of_le j.isLt hc)) t) (outs[i.val]))
      (((unflatten outs.length cols wrt.length flat).get i j : ℚ) : ℝ)
      (realEnv env (wrt[j.val]'(lt_of_lt_of_le j.isLt hc))) :=
  diff_value_is_derivative env _ _ _ w hout (entry_is_partial env outs wrt cols flat h hc i j)

/-- the model's symbolic differentiation is the analytic derivative wherever the expression is defined -/
theorem model_diff_correct (ρ : Name → ℝ) (x : Name) (e : Expr) (h : DefinedR ρ e) :
    HasDerivAt (fun t => evalR (Function.update ρ x t) e) (evalR ρ (e.diff x)) (ρ x) :=
  diff_correct ρ x e h

/-- non-vacuity beyond the rational fragment: `log (1 + x²) · tan x / sqrt (2 + y)` is defined (in the sense the theorem
asks for) at `x = 0, y = 1` -/
example : DefinedR (fun n => if n = "y" then 1 else 0)
    (.div (.mul (.app "log" (.add (.num 1) (.pow (.var "x") 2))) (.app "tan" (.var "x")))
      (.app "sqrt" (.add (.num 2) (.var "y")))) := by
  simp [DefinedR, evalR]
  norm_num

/-- why the stride must be the number of *columns of the program*: with 2 readings over 3 columns,
un-flattening with stride 2 (the number of readings) misplaces the second row -/
theorem stride_by_readings_is_wrong :
    (unflatten 2 2 2 [10, 11, 12, 20, 21, 22]).toLists ≠ (unflatten 2 2 3 [10, 11, 12, 20, 21, 22]).toLists := by
  decide +kernel

example : (unflatten 2 2 3 [10, 11, 12, 20, 21, 22]).toLists = [[10, 11], [20, 21]] := by decide +kernel

end FormakVerif.C03
