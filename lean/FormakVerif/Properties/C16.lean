/- C16 — the scikit-learn adapter's transform / mahalanobis / score are the filter's NIS. -/
import FormakVerif.Model.Sklearn
import FormakVerif.Properties.C06
import Mathlib.Tactic.FieldSimp
import Mathlib.Tactic.Positivity

namespace FormakVerif.C16
open FormakVerif
variable {α : Type}

/-- slicing a row that is the concatenation of per-sensor chunks returns the chunks -/
theorem split_flatten (parts : List (List α)) : splitBySizes (parts.map List.length) parts.flatten = parts := by
  induction parts with
  | nil => rfl
  | cons p ps ih => simp [splitBySizes, ih]

/-- slicing any row of matching width loses nothing and gives each sensor exactly its readings -/
theorem flatten_split (sizes : List Nat) (row : List α) (h : sizes.sum = row.length) :
    (splitBySizes sizes row).flatten = row ∧ (splitBySizes sizes row).map List.length = sizes := by
  induction sizes generalizing row with
  | nil => simp at h; simp [splitBySizes, List.length_eq_zero_iff.mp h.symm]
  | cons n ns ih =>
    have hn : n ≤ row.length := by simp at h; omega
    have := ih (row.drop n) (by simp at h ⊢; omega)
    simp only [splitBySizes, List.flatten_cons, List.map_cons, this.1, this.2, List.take_append_drop,
      List.length_take, true_and]
    simp [Nat.min_eq_left hn]

/-- the row is `[controls..., readings of each sensor in key order...]` -/
theorem sliceRow_spec (c : Nat) (sizes : List Nat) (ctl : List α) (parts : List (List α))
    (hc : ctl.length = c) (hp : parts.map List.length = sizes) :
    sliceRow c sizes (ctl ++ parts.flatten) = (ctl, parts) := by
  subst hc hp
  simp [sliceRow, split_flatten]

/-- one output row per input row -/
theorem transformRows_length {S C R N : Type} (F : RowFilter S C R N) (s : S) (rows : List (C × List R)) :
    (transformRows F s rows).2.length = rows.length := by
  induction rows generalizing s with
  | nil => rfl
  | cons r rest ih => obtain ⟨c, rs⟩ := r; simp [transformRows, ih]

/-- the transform of a longer data matrix extends the transform of its prefix: row `i` depends only on
rows `≤ i` (running the exported filter by hand row by row gives the same numbers) -/
theorem transformRows_append {S C R N : Type} (F : RowFilter S C R N) (s : S) (a b : List (C × List R)) :
    transformRows F s (a ++ b) =
      ((transformRows F (transformRows F s a).1 b).1,
       (transformRows F s a).2 ++ (transformRows F (transformRows F s a).1 b).2) := by
  induction a generalizing s with
  | nil => simp [transformRows]
  | cons r rest ih => obtain ⟨c, rs⟩ := r; simp only [List.cons_append, transformRows]; rw [ih]

/-- the squared-Mahalanobis output is the transform, flattened -/
theorem mahalanobis_flat {N : Type} (t : List (List N)) : mahalanobis t = t.flatten := rfl

/-- every NIS the transform reports is non-negative (for a PSD inverse innovation covariance) -/
theorem nis_nonneg {m : Nat} (y : Fin m → ℚ) (Si : QMat m m) (h : Si.toMatrix.PosSemidef) : 0 ≤ nis y Si :=
  C06.nis_nonneg y Si h

/-- the documented combination: `10·bias + 1·variance + 0.01·matrix` with
`variance = (1/Σnis + Σnis)/2`, whose minimum over `Σnis > 0` is at `Σnis = 1` -/
noncomputable def score (bias var mat : ℝ) : ℝ := 10 * bias + 1 * ((1 / var + var) / 2) + (1 / 100) * mat

theorem variance_term_min (v : ℝ) (hv : 0 < v) : 1 ≤ (1 / v + v) / 2 := by
  have h : 0 ≤ (v - 1) ^ 2 := sq_nonneg _
  have : (1 / v + v) / 2 - 1 = (v - 1) ^ 2 / (2 * v) := by field_simp; ring
  have h2 : 0 ≤ (v - 1) ^ 2 / (2 * v) := div_nonneg h (by positivity)
  linarith

example : splitBySizes [2, 1] [10, 11, 12] = [[10, 11], [12]] := by decide
example : sliceRow 1 [2, 1] [7, 10, 11, 12] = ([7], [[10, 11], [12]]) := by decide

end FormakVerif.C16
