/- C15 — code generation is deterministic: everything whose order the generator decides depends
only on the *sets* of declared names. -/
import FormakVerif.Proofs.Names
import FormakVerif.Model.PyModel
import FormakVerif.Model.Ekf

namespace FormakVerif.C15
open FormakVerif

/-- Two declarations of the same symbols, sensors and readings — in any order, from any container —
have the same skeleton: accessor slots, option-field / constructor order, Python arglist, sensor
ids, reading slots. -/
theorem skeleton_perm (d₁ d₂ : ModelDef) (s₁ s₂ : List (String × List Name))
    (hdt : d₁.dt = d₂.dt) (hs : d₁.state.Perm d₂.state) (hc : d₁.control.Perm d₂.control)
    (hk : d₁.calibration.Perm d₂.calibration)
    (hkeys : (s₁.map (·.1)).Perm (s₂.map (·.1)))
    (hread : ∀ k, ((s₁.lookup k).getD []).Perm ((s₂.lookup k).getD [])) :
    skeleton d₁ s₁ = skeleton d₂ s₂ := by
  unfold skeleton ModelDef.arglist
  rw [layout_perm hs, layout_perm hc, layout_perm hk, hdt, layout_perm hkeys]
  congr 1
  apply List.map_congr_left
  intro k _
  rw [layout_perm (hread k)]

/-- the layout of a list does not depend on its order (the single fact everything rests on) -/
theorem layout_order_free {a b : List Name} (h : a.Perm b) : layout a = layout b := layout_perm h

/-- generating twice from the same definition gives the same skeleton (the generator is a function) -/
theorem repeatable (d : ModelDef) (s : List (String × List Name)) : skeleton d s = skeleton d s := rfl

/-! ### the whole emitted artifact, not only the skeleton -/

/-- a dictionary written down in another order is the same dictionary: with distinct keys, `lookup` does not see the order -/
theorem lookup_perm {β : Type} {l₁ l₂ : List (Name × β)} (h : l₁.Perm l₂) (hnd : (l₁.map (·.1)).Nodup) (k : Name) :
    l₁.lookup k = l₂.lookup k := by
  induction h with
  | nil => rfl
  | cons x _ ih =>
    obtain ⟨a, b⟩ := x
    simp only [List.map_cons, List.nodup_cons] at hnd
    simp only [List.lookup_cons]
    cases hk : (k == a) with
    | true => rfl
    | false => exact ih hnd.2
  | swap x y l =>
    obtain ⟨a, b⟩ := x
    obtain ⟨c, e⟩ := y
    simp only [List.map_cons, List.nodup_cons, List.mem_cons, not_or] at hnd
    simp only [List.lookup_cons]
    cases hka : (k == a) with
    | false => rfl
    | true =>
      cases hkc : (k == c) with
      | false => rfl
      | true =>
        exfalso
        have h1 : k = a := by simpa using hka
        have h2 : k = c := by simpa using hkc
        exact hnd.1.1 (h2 ▸ h1 ▸ rfl)
  | trans h₁ _ ih₁ ih₂ =>
    rw [ih₁ hnd]
    exact ih₂ ((h₁.map (·.1)).nodup_iff.mp hnd)

/-- **C15, the emitted artifact.** Two filter definitions that declare the same symbols (in any order, from any container), give
the same expression to each state name, the same noise to each control name, and the same sensors — same keys, and under each key
the same readings with the same expressions and noises, in any order — emit the same artifact: argument order, update statements,
flattened Jacobians, noise diagonals, sensor ids and, per sensor, reading slots, statements, Jacobian and noise diagonal, each in
the same order. (`lookup_perm` shows that dictionaries with distinct keys written in another order meet the `lookup` hypotheses.) -/
theorem emitted_decl_order (d₁ d₂ : EkfDef) (hdt : d₁.model.dt = d₂.model.dt)
    (hs : d₁.model.state.Perm d₂.model.state) (hc : d₁.model.control.Perm d₂.model.control)
    (hk : d₁.model.calibration.Perm d₂.model.calibration)
    (hu : ∀ n, d₁.model.update.lookup n = d₂.model.update.lookup n)
    (hp : ∀ u, d₁.processNoise.lookup u = d₂.processNoise.lookup u)
    (hkeys : (d₁.sensors.map (·.key)).Perm (d₂.sensors.map (·.key)))
    (hsens : ∀ k, (d₁.sensor k).map d₁.emitSensor = (d₂.sensor k).map d₂.emitSensor) :
    d₁.emitted = d₂.emitted := by
  have ha : d₁.model.arglist = d₂.model.arglist := by
    unfold ModelDef.arglist; rw [hdt, layout_perm hs, layout_perm hc, layout_perm hk]
  have hLs : d₁.Ls = d₂.Ls := layout_perm hs
  have hLc : d₁.Lc = d₂.Lc := layout_perm hc
  have hspec : d₁.model.spec = d₂.model.spec := by
    unfold ModelDef.spec
    rw [layout_perm hs]
    have : (fun n => d₁.model.update.lookup n) = (fun n => d₂.model.update.lookup n) := funext hu
    rw [this]
  unfold EkfDef.emitted
  rw [ha, hspec, hLs, hLc, layout_perm hkeys]
  congr 1
  · exact List.map_congr_left fun u _ => by rw [hp u]
  · exact List.filterMap_congr fun k _ => hsens k

/-- the per-sensor hypothesis of `emitted_decl_order` unfolded: the same readings (any order), the same expression and the same noise
under each reading name give the same emitted sensor -/
theorem emitSensor_decl_order (d₁ d₂ : EkfDef) (s₁ s₂ : SensorDef) (hkey : s₁.key = s₂.key)
    (hLs : d₁.model.state.Perm d₂.model.state) (hLk : d₁.model.calibration.Perm d₂.model.calibration)
    (hr : (s₁.readings.map (·.1)).Perm (s₂.readings.map (·.1)))
    (he : ∀ r, s₁.readings.lookup r = s₂.readings.lookup r)
    (hn : ∀ r, ((d₁.sensorNoise.lookup s₁.key).getD []).lookup r = ((d₂.sensorNoise.lookup s₂.key).getD []).lookup r) :
    d₁.emitSensor s₁ = d₂.emitSensor s₂ := by
  have hLr : s₁.Lr = s₂.Lr := layout_perm hr
  have hspec : s₁.spec = s₂.spec := by
    unfold SensorDef.spec
    rw [hLr]
    have : (fun r => s₁.readings.lookup r) = (fun r => s₂.readings.lookup r) := funext he
    rw [this]
  have h1 : d₁.Ls = d₂.Ls := layout_perm hLs
  have h2 : d₁.Lk = d₂.Lk := layout_perm hLk
  have hnoise : (s₁.Lr.map fun r => (((d₁.sensorNoise.lookup s₁.key).getD []).lookup r).getD 0) =
      (s₂.Lr.map fun r => (((d₂.sensorNoise.lookup s₂.key).getD []).lookup r).getD 0) := by
    rw [hLr]; exact List.map_congr_left fun r _ => by rw [hn r]
  unfold EkfDef.emitSensor
  rw [hnoise, hkey, hLr, hspec, h1, h2]

/-! non-vacuity: one filter definition written down in two different orders (symbols, update entries, noise entries, sensors,
readings); argument order, noise diagonals, sensor ids, reading slots and per-reading noises come out the same -/
def e1 : EkfDef where
  model := ⟨"dt", ["z", "a"], ["u", "b"], ["k"], [("z", .add (.var "z") (.mul (.var "dt") (.var "a"))), ("a", .add (.var "u") (.mul (.var "k") (.var "b")))]⟩
  processNoise := [("u", 1/2), ("b", 3)]
  sensors := [⟨"gps", [("r2", .var "z"), ("r1", .mul (.var "a") (.var "k"))]⟩, ⟨"alt", [("q", .var "z")]⟩]
  sensorNoise := [("gps", [("r2", 2), ("r1", 5)]), ("alt", [("q", 7)])]
  filtering := none
def e2 : EkfDef where
  model := ⟨"dt", ["a", "z"], ["b", "u"], ["k"], [("a", .add (.var "u") (.mul (.var "k") (.var "b"))), ("z", .add (.var "z") (.mul (.var "dt") (.var "a")))]⟩
  processNoise := [("b", 3), ("u", 1/2)]
  sensors := [⟨"alt", [("q", .var "z")]⟩, ⟨"gps", [("r1", .mul (.var "a") (.var "k")), ("r2", .var "z")]⟩]
  sensorNoise := [("alt", [("q", 7)]), ("gps", [("r1", 5), ("r2", 2)])]
  filtering := none
example : e1.emitted.M = e2.emitted.M ∧ e1.emitted.arglist = e2.emitted.arglist ∧
  e1.emitted.sensors.map (fun s => (s.key, s.readings, s.noise)) = e2.emitted.sensors.map (fun s => (s.key, s.readings, s.noise)) := by decide +kernel

example :
    skeleton ⟨"dt", ["z", "a"], ["u"], [], []⟩ [("gps", ["r2", "r1"]), ("alt", ["q"])] =
    skeleton ⟨"dt", ["a", "z"], ["u"], [], []⟩ [("alt", ["q"]), ("gps", ["r1", "r2"])] := by decide +kernel

end FormakVerif.C15
