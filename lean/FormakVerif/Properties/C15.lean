/- C15 — code generation is deterministic: everything whose order the generator decides depends
only on the *sets* of declared names. -/
import FormakVerif.Proofs.Names
import FormakVerif.Model.PyModel

namespace FormakVerif.C15
open FormakVerif

/-- Two declarations of the same symbols, sensors and readings — in any order, from any container —
have the same skeleton: accessor slots, option-field / constructor order, Python arglist, sensor
ids, reading slots. -/
theorem skeleton_perm (d₁ d₂ : ModelDef) (s₁ s₂ : List (String × List Name))
    (hdt : d₁.dt = d₂.dt) (hs : d₁.state.Perm d₂.state) (hc : d₁.control.Perm d₂.control)
    (hk : d₁.calibration.Perm d₂.calibration)
    (hkeys : (s₁.map (·.1)).Perm (s₂.map (·.1)))
    (hread : ∀ k, ((s₁.lookup k).getD []).Perm ((s₂.lookup k).getD [])) :
    skeleton d₁ s₁ = skeleton d₂ s₂ := by
  unfold skeleton ModelDef.arglist
  rw [layout_perm hs, layout_perm hc, layout_perm hk, hdt, layout_perm hkeys]
  congr 1
  apply List.map_congr_left
  intro k _
  rw [layout_perm (hread k)]

/-- the layout of a list does not depend on its order (the single fact everything rests on) -/
theorem layout_order_free {a b : List Name} (h : a.Perm b) : layout a = layout b := layout_perm h

/-- generating twice from the same definition gives the same skeleton (the generator is a function) -/
theorem repeatable (d : ModelDef) (s : List (String × List Name)) : skeleton d s = skeleton d s := rfl

example :
    skeleton ⟨"dt", ["z", "a"], ["u"], [], []⟩ [("gps", ["r2", "r1"]), ("alt", ["q"])] =
    skeleton ⟨"dt", ["a", "z"], ["u"], [], []⟩ [("alt", ["q"]), ("gps", ["r1", "r2"])] := by decide +kernel

end FormakVerif.C15
