/- C13 — values are bound by name, never by position or spelling. -/
import FormakVerif.Proofs.Rename
import FormakVerif.Properties.C01

namespace FormakVerif.C13
open FormakVerif
variable {α : Type}

/-- constructing from named values stores each value under its own name; the rest default -/
theorem stores_by_name (L : List Name) (kw : List (Name × α)) (d : α) (v : List α)
    (hb : bindVec L kw d = .ok v) {n : Name} (hn : n ∈ L) :
    getByName L v n = some ((kw.lookup n).getD d) := get_bind L kw d v hb hn

/-- unknown names are refused -/
theorem rejects_unknown (L : List Name) (kw : List (Name × α)) (d : α) {k : Name} {x : α}
    (hk : (k, x) ∈ kw) (hL : k ∉ L) : ∃ k', bindVec L kw d = .error (.unknownKey k') ∧ k' ∉ L :=
  bind_rejects L kw d hk hL

/-- known names are accepted -/
theorem accepts_known (L : List Name) (kw : List (Name × α)) (d : α) (h : ∀ p ∈ kw, p.1 ∈ L) :
    ∃ v, bindVec L kw d = .ok v ∧ v.length = L.length := bind_accepts L kw d h

/-- wrong shapes are refused, right shapes accepted -/
theorem shape (L : List Name) (data : List α) : (∃ v, fromData L data = .ok v) ↔ data.length = L.length :=
  fromData_shape L data

/-- **Shapes, not counts.** An array is accepted exactly when its SHAPE is the type's shape `(n, 1)`; in particular an array
with the right number of values laid out otherwise — flat `(n)`, a row `(1, n)`, `(n, 1, 1)`, a `(2, 2)` block for four names —
is refused, never re-laid-out. -/
theorem shape_nd (L : List Name) (shape : List Nat) (flat : List α) :
    (∃ v, fromDataND L shape flat = .ok v) ↔ shape = [L.length, 1] := by
  unfold fromDataND; split <;> simp_all

theorem same_count_other_shape_refused (L : List Name) (shape : List Nat) (flat : List α)
    (_hcount : shape.foldl (· * ·) 1 = L.length) (hshape : shape ≠ [L.length, 1]) :
    fromDataND L shape flat = .error (.badShape L.length shape.length) := by
  unfold fromDataND; simp [hshape]

/-- accepted data is stored as given: slot `i` (row-major) is the value of the type's `i`-th name -/
theorem shape_nd_stores (L : List Name) (shape : List Nat) (flat v : List α) (h : fromDataND L shape flat = .ok v) : v = flat := by
  unfold fromDataND at h; split at h <;> simp_all

theorem cov_shape_nd (L : List Name) (shape : List Nat) (flat : List α) :
    (∃ v, fromCovND L shape flat = .ok v) ↔ shape = [L.length, L.length] := by
  unfold fromCovND; split <;> simp_all

/-! the layout is CODE-POINT order, not "natural" order: `x10` sorts before `x2` (a test on literals, labelled as such — the
by-name theorems above hold for whatever order `layout` produces; this pins which order the model, like Python's `sorted`, uses) -/
example : layout ["x2", "x10", "x1"] = ["x1", "x10", "x2"] ∧ layout ["r2", "r10"] = ["r10", "r2"] ∧
    layout ["B_1", "B1", "b"] = ["B1", "B_1", "b"] := by decide

/-! non-vacuity: right counts in wrong shapes -/
example : (fromDataND ["a", "b", "c", "d"] [2, 2] [1, 2, 3, 4] : Except BindErr (List Nat)) = .error (.badShape 4 2) ∧
    (fromDataND ["a", "b"] [1, 2] [1, 2] : Except BindErr (List Nat)) = .error (.badShape 2 2) ∧
    (fromDataND ["a", "b"] [2] [1, 2] : Except BindErr (List Nat)) = .error (.badShape 2 1) ∧
    (fromDataND ["a", "b"] [2, 1] [1, 2] : Except BindErr (List Nat)) = .ok [1, 2] ∧
    (fromCovND ["a", "b"] [4, 1] [1, 2, 3, 4] : Except BindErr (List Nat)) = .error (.badShape 2 2) := by decide

/-- covariances: named variances on the diagonal, unit variance by default, zero off the diagonal -/
theorem covariance_by_name (zero one : α) (L : List Name) (kw : List (Name × α)) (m : List (List α))
    (hb : bindCov zero one L kw = .ok m) {r c : Name} (hr : r ∈ L) (hc : c ∈ L) :
    getCov L m r c = some (if r = c then (kw.lookup r).getD one else zero) :=
  getCov_bind zero one L kw m hb hr hc

/-- the layout (and everything computed from it) does not depend on declaration order or container -/
theorem decl_order {d₁ d₂ : List Name} (h : d₁.Perm d₂) : layout d₁ = layout d₂ := layout_perm h

/-- **Renaming invariance.** Consistently renaming a model's symbols by an injective `σ` — which in
general permutes the internal layout — leaves every named output unchanged: what the renamed model
returns under `σ n` on renamed inputs is what the original returns under `n`. -/
theorem rename_invariant (S : Sem α) (zero : α) (σ : Name → Name) (hσ : Function.Injective σ)
    (d : ModelDef) (prog prog' : Program) (spec spec' : List Expr)
    (cal : List (Name × α)) (dtv : α) (stateKw controlKw : List (Name × α)) (out out' : List α)
    (hspec : d.spec = some spec) (hprog : C01.Computes S prog d spec)
    (hspec' : (d.rename σ).spec = some spec') (hprog' : C01.Computes S prog' (d.rename σ) spec')
    (hrun : pyRun S zero d prog cal dtv stateKw (some controlKw) = .ok out)
    (hrun' : pyRun S zero (d.rename σ) prog' (renameKw σ cal) dtv (renameKw σ stateKw)
      (some (renameKw σ controlKw)) = .ok out')
    (n : Name) (hn : n ∈ d.state) :
    getByName (layout (d.rename σ).state) out' (σ n) = getByName (layout d.state) out n := by
  obtain ⟨e, v, he, hv, hg⟩ :=
    C01.model_by_name S zero d prog spec cal dtv stateKw controlKw out hspec hprog hrun n hn
  have hn' : σ n ∈ (d.rename σ).state := by
    simp only [ModelDef.rename]; exact List.mem_map_of_mem hn
  obtain ⟨e', v', he', hv', hg'⟩ :=
    C01.model_by_name S zero (d.rename σ) prog' spec' (renameKw σ cal) dtv (renameKw σ stateKw)
      (renameKw σ controlKw) out' hspec' hprog' hrun' (σ n) hn'
  rw [lookup_update_rename σ hσ, he] at he'
  simp only [Option.map_some, Option.some.injEq] at he'
  subst he'
  have hagree : ∀ x ∈ e.vars,
      (byNameEnv zero (d.rename σ) (renameKw σ cal) dtv (renameKw σ stateKw) (renameKw σ controlKw)).lookup (σ x)
        = (byNameEnv zero d cal dtv stateKw controlKw).lookup x := by
    intro x _
    rw [byNameEnv_lookup, byNameEnv_lookup, valOf_rename zero σ hσ]
  rw [eval_rename S σ _ _ e hagree, hv] at hv'
  rw [hg, hg', ← hv']

/-! non-vacuity: a renaming that reverses the sort order of a 3-state model -/
def σex : Name → Name := fun n => if n = "a" then "Z9" else if n = "b" then "M" else if n = "c" then "A_1" else n ++ "_r"
def dex : ModelDef where
  dt := "dt"; state := ["a", "b", "c"]; control := []; calibration := []
  update := [("a", .add (.var "a") (.var "b")), ("b", .mul (.var "b") (.var "c")), ("c", .var "a")]
example : layout (dex.rename σex).state = ["A_1", "M", "Z9"] ∧ layout dex.state = ["a", "b", "c"] := by decide +kernel
example :
    ((dex.rename σex).compilePlain.map fun p =>
      pyRun ratSem 0 (dex.rename σex) p [] 1 (renameKw σex [("a", 2), ("b", 3), ("c", 5)]) (some [])) = some (.ok [2, 15, 5]) ∧
    (dex.compilePlain.map fun p => pyRun ratSem 0 dex p [] 1 [("a", 2), ("b", 3), ("c", 5)] (some [])) = some (.ok [5, 15, 2]) := by
  decide +kernel

end FormakVerif.C13
