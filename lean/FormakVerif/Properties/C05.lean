/- C05 — the sensor update is the Kalman correction, for any number of readings. -/
import FormakVerif.Proofs.QMat
import FormakVerif.Proofs.Ekf

namespace FormakVerif.C05
open FormakVerif Matrix

variable {m n : Nat}

/-- what `sensorUpdate` returns, unfolded once -/
theorem sensorUpdate_some (filtering : Option Rat) (H : QMat m n) (P : QMat n n) (Q Sinv : QMat m m)
    (x : Fin n → Rat) (z hx : Fin m → Rat) (out : UpdateOut n m)
    (h : sensorUpdate filtering H P Q Sinv x z hx = some out) :
    (innovCov H P Q).mul Sinv = QMat.one ∧
    out.innovation = (fun i => z i - hx i) ∧ out.S = innovCov H P Q ∧
    out.rejected = discard filtering (nis (fun i => z i - hx i) Sinv) m ∧
    (out.rejected = false → out.state = updState H P Sinv x (fun i => z i - hx i) ∧ out.cov = updCov H P Sinv) ∧
    (out.rejected = true → out.state = x ∧ out.cov = P) := by
  unfold sensorUpdate at h
  simp only at h
  split at h
  · rename_i hc
    have hc := QMat.eq_of_eqb hc
    split at h
    · rename_i hd
      injection h with h; subst h
      exact ⟨hc, rfl, rfl, hd.symm, by simp, by simp⟩
    · rename_i hd
      injection h with h; subst h
      simp only [Bool.not_eq_true] at hd
      exact ⟨hc, rfl, rfl, hd.symm, by simp, by simp⟩
  · cases h

/-- the certified inverse is the matrix inverse of `S = H P Hᵀ + Q` -/
theorem cert_is_inverse (H : QMat m n) (P : QMat n n) (Q Sinv : QMat m m)
    (h : (innovCov H P Q).mul Sinv = QMat.one) :
    Sinv.toMatrix = (H.toMatrix * P.toMatrix * H.toMatrixᵀ + Q.toMatrix)⁻¹ := by
  have := congrArg QMat.toMatrix h
  rw [QMat.toMatrix_mul, innovCov_toMatrix, QMat.toMatrix_one] at this
  exact Mat.inv_of_cert _ _ this

/-- **C05, the Kalman correction.** For an accepted reading the model returns `x + K (z − h(x))`
and `P − K H P` with `S = H P Hᵀ + Q`, `K = P Hᵀ S⁻¹`, and records `z − h(x)` and `S`. -/
theorem update_formula (filtering : Option Rat) (H : QMat m n) (P : QMat n n) (Q Sinv : QMat m m)
    (x : Fin n → Rat) (z hx : Fin m → Rat) (out : UpdateOut n m)
    (h : sensorUpdate filtering H P Q Sinv x z hx = some out) (hacc : out.rejected = false) :
    let S := H.toMatrix * P.toMatrix * H.toMatrixᵀ + Q.toMatrix
    let K := P.toMatrix * H.toMatrixᵀ * S⁻¹
    out.cov.toMatrix = P.toMatrix - K * H.toMatrix * P.toMatrix ∧
    out.state = x + K.mulVec (z - hx) ∧
    out.innovation = z - hx ∧ out.S.toMatrix = S := by
  obtain ⟨hc, hi, hS, _, hacc', _⟩ := sensorUpdate_some filtering H P Q Sinv x z hx out h
  obtain ⟨hst, hcov⟩ := hacc' hacc
  have hinv := cert_is_inverse H P Q Sinv hc
  refine ⟨?_, ?_, ?_, ?_⟩
  · rw [hcov, updCov_toMatrix, hinv]
  · rw [hst]; funext i
    simp only [updState, QMat.mulVec_eq, gain_toMatrix, hinv, Pi.add_apply]
    rfl
  · rw [hi]; rfl
  · rw [hS, innovCov_toMatrix]

/-- a reading equal to the prediction leaves the state unchanged (accepted or not) -/
theorem fixed_point (filtering : Option Rat) (H : QMat m n) (P : QMat n n) (Q Sinv : QMat m m)
    (x : Fin n → Rat) (z : Fin m → Rat) (out : UpdateOut n m)
    (h : sensorUpdate filtering H P Q Sinv x z z = some out) : out.state = x := by
  obtain ⟨_, _, _, _, hacc, hrej⟩ := sensorUpdate_some filtering H P Q Sinv x z z out h
  cases hr : out.rejected with
  | true => exact (hrej hr).1
  | false =>
    rw [(hacc hr).1]; funext i
    simp [updState, QMat.mulVec_eq, Matrix.mulVec, dotProduct]

/-- the posterior covariance is symmetric, positive semi-definite and never exceeds the prior -/
theorem posterior_valid (filtering : Option Rat) (H : QMat m n) (P : QMat n n) (Q Sinv : QMat m m)
    (x : Fin n → Rat) (z hx : Fin m → Rat) (out : UpdateOut n m)
    (h : sensorUpdate filtering H P Q Sinv x z hx = some out)
    (hP : P.toMatrix.PosSemidef) (hQ : Q.toMatrix.PosDef) :
    out.cov.toMatrixᵀ = out.cov.toMatrix ∧ out.cov.toMatrix.PosSemidef ∧
      (P.toMatrix - out.cov.toMatrix).PosSemidef := by
  obtain ⟨hc, _, _, _, hacc, hrej⟩ := sensorUpdate_some filtering H P Q Sinv x z hx out h
  have hinv := cert_is_inverse H P Q Sinv hc
  cases hr : out.rejected with
  | true =>
    rw [(hrej hr).2]
    refine ⟨?_, hP, ?_⟩
    · have := hP.isHermitian; rwa [IsHermitian, conjTranspose_eq_transpose_of_trivial] at this
    · rw [sub_self]; exact PosSemidef.zero
  | false =>
    rw [(hacc hr).2, updCov_toMatrix, hinv]
    exact ⟨Mat.updP_symm _ _ _ hP hQ, Mat.updP_psd _ _ _ hP hQ, Mat.updP_le _ _ _ hP hQ⟩

/-- `Q` is the diagonal matrix of the per-reading noise, by reading name -/
theorem Q_diag (d : EkfDef) (s : SensorDef) (i j : Fin s.Lr.length) :
    (d.sensorNoiseMatrix s).get i j =
      if i = j then (((d.sensorNoise.lookup s.key).getD []).lookup (s.Lr.getD i.val "")).getD 0 else 0 := by
  simp [EkfDef.sensorNoiseMatrix]

/-! non-vacuity: a 2-reading sensor on a 3-state filter (rectangular H), accepted -/
def exH : QMat 2 3 := QMat.ofFn fun i j => if i.val = j.val then 1 else if j.val = 2 then 2 else 0
def exP : QMat 3 3 := QMat.ofFn fun i j => if i = j then 2 else 0
def exQ : QMat 2 2 := QMat.ofFn fun i j => if i = j then (if i.val = 0 then 1 else 3) else 0
def exSi : QMat 2 2 := QMat.ofFn fun i j =>
  if i = j then (if i.val = 0 then 13/79 else 11/79) else -8/79
example :
    ((sensorUpdate none exH exP exQ exSi (fun _ => 0) (fun _ => 1) (fun _ => 0)).map
      fun o => (o.rejected, o.cov.toLists, (List.finRange 3).map o.state)) =
      some (false, [[106/79, 32/79, -40/79], [32/79, 114/79, -24/79], [-40/79, -24/79, 30/79]],
            [10/79, 6/79, 32/79]) := by
  decide +kernel

end FormakVerif.C05
