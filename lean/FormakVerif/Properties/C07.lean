/- C07 — Python-shaped and generated-C++-shaped filter steps are the same function. -/
import FormakVerif.Proofs.QMat
import FormakVerif.Proofs.Ekf

namespace FormakVerif.C07
open FormakVerif Matrix

/-- prediction: `G (P Gᵀ) + V (M Vᵀ)` (Python) = `G P Gᵀ + V M Vᵀ` left-associated (C++) -/
theorem predict_same {n c : Nat} (G : QMat n n) (V : QMat n c) (M : QMat c c) (P : QMat n n) :
    predictCov G V M P = predictCovCpp G V M P := by
  apply QMat.toMatrix_inj
  simp [predictCov, predictCovCpp, Matrix.mul_assoc]

/-- update: `P − (P (Hᵀ S⁻¹)) (H P)` (Python) = `P − ((P Hᵀ) S⁻¹) H P` (C++) -/
theorem update_same {m n : Nat} (H : QMat m n) (P : QMat n n) (Si : QMat m m) :
    updCov H P Si = updCovCpp H P Si := by
  apply QMat.toMatrix_inj
  simp [updCov, updCovCpp, gain, Matrix.mul_assoc]

/-- the accept/reject decisions coincide for k > 0 and for "disabled" -/
theorem decision_same (k ν : ℚ) (m : ℕ) (hk : 0 < k) : discardCpp k ν m = discard (some k) ν m := by
  simp [discardCpp, discard, hk]

theorem decision_same_disabled (ν : ℚ) (m : ℕ) : discardCpp 0 ν m = discard none ν m := by
  simp [discardCpp, discard]

theorem innovCov_same {m n : Nat} (H : QMat m n) (P : QMat n n) (Q : QMat m m) : innovCov H P Q = innovCovCpp H P Q := by
  apply QMat.toMatrix_inj
  simp [innovCov, innovCovCpp, Matrix.mul_assoc]

theorem gain_same {m n : Nat} (H : QMat m n) (P : QMat n n) (Si : QMat m m) :
    gain H P Si = (P.mul H.transpose).mul Si := by
  apply QMat.toMatrix_inj
  simp [gain, Matrix.mul_assoc]

/-- **The whole sensor update is the same function**: for a threshold `k > 0` (or filtering disabled, which the generated code spells
`0.0`) the generated-C++-shaped update returns exactly what the Python-shaped one returns — updated state, covariance, recorded
innovation, recorded innovation covariance and the accept/reject flag — for every prior, reading and inverse certificate. -/
theorem sensor_update_same {m n : Nat} (f : Option ℚ) (hf : ∀ k, f = some k → 0 < k) (H : QMat m n) (P : QMat n n) (Q : QMat m m)
    (Si : QMat m m) (x : Fin n → ℚ) (z hx : Fin m → ℚ) :
    sensorUpdateCpp (f.getD 0) H P Q Si x z hx = sensorUpdate f H P Q Si x z hx := by
  have hd : ∀ ν, discardCpp (f.getD 0) ν m = discard f ν m := by
    intro ν
    cases f with
    | none => simpa using decision_same_disabled ν m
    | some k => simpa using decision_same k ν m (hf k rfl)
  unfold sensorUpdateCpp sensorUpdate
  have hs : ∀ y : Fin m → ℚ, updState H P Si x y = fun i => x i + (((P.mul H.transpose).mul Si).mulVec y) i := by
    intro y; funext i; simp only [updState, gain_same]
  simp only [← innovCov_same, hd, ← update_same, hs]

/-- a whole history of predictions and updates through either shape gives the same covariance (the prediction and update
functions are equal, so every fold over them is) -/
theorem history_same {n : Nat} (P : QMat n n) (ops : List (CovOp n)) :
    covRun P ops = ops.foldlM (fun (P : QMat n n) op => match op with
      | .predict G V M => some (predictCovCpp G V M P)
      | .update H Q Si rej => if ((innovCovCpp H P Q).mul Si).eqb QMat.one then some (if rej then P else updCovCpp H P Si) else none) P := by
  induction ops generalizing P with
  | nil => rfl
  | cons op rest ih =>
    cases op with
    | predict G V M =>
      simp only [covRun, covStep, List.foldlM_cons, Option.bind_some, predict_same]
      exact ih _
    | update H Q Si rej =>
      simp only [covRun, covStep, List.foldlM_cons, innovCov_same, update_same]
      split
      · simp only [Option.bind_some]; exact ih _
      · rfl

example : predictCov (n := 1) (c := 1) (QMat.ofFn fun _ _ => 2) (QMat.ofFn fun _ _ => 3) (QMat.ofFn fun _ _ => 5)
    (QMat.ofFn fun _ _ => 7) = QMat.ofFn fun _ _ => 73 := by decide +kernel

end FormakVerif.C07
