/- C07 — Python-shaped and generated-C++-shaped filter steps are the same function. -/
import FormakVerif.Proofs.QMat
import FormakVerif.Proofs.Ekf

namespace FormakVerif.C07
open FormakVerif Matrix

/-- prediction: `G (P Gᵀ) + V (M Vᵀ)` (Python) = `G P Gᵀ + V M Vᵀ` left-associated (C++) -/
theorem predict_same {n c : Nat} (G : QMat n n) (V : QMat n c) (M : QMat c c) (P : QMat n n) :
    predictCov G V M P = predictCovCpp G V M P := by
  apply QMat.toMatrix_inj
  simp [predictCov, predictCovCpp, Matrix.mul_assoc]

/-- update: `P − (P (Hᵀ S⁻¹)) (H P)` (Python) = `P − ((P Hᵀ) S⁻¹) H P` (C++) -/
theorem update_same {m n : Nat} (H : QMat m n) (P : QMat n n) (Si : QMat m m) :
    updCov H P Si = updCovCpp H P Si := by
  apply QMat.toMatrix_inj
  simp [updCov, updCovCpp, gain, Matrix.mul_assoc]

/-- the accept/reject decisions coincide for k > 0 and for "disabled" -/
theorem decision_same (k ν : ℚ) (m : ℕ) (hk : 0 < k) : discardCpp k ν m = discard (some k) ν m := by
  simp [discardCpp, discard, hk]

theorem decision_same_disabled (ν : ℚ) (m : ℕ) : discardCpp 0 ν m = discard none ν m := by
  simp [discardCpp, discard]

example : predictCov (n := 1) (c := 1) (QMat.ofFn fun _ _ => 2) (QMat.ofFn fun _ _ => 3) (QMat.ofFn fun _ _ => 5)
    (QMat.ofFn fun _ _ => 7) = QMat.ofFn fun _ _ => 73 := by decide +kernel

end FormakVerif.C07
